#!/usr/bin/env python3
"""C++ -> Lean translator ("tie no. 2" for numerical / decision code, DESIGN.md 2.5b).

On every check run `tools/bridge.py:regen_bridge` calls `translate(repo, scratch, spec)`; it dumps clang's typed JSON
AST (`clang++-14 -std=gnu++17 -DNDEBUG -fsyntax-only -Xclang -ast-dump=json -Xclang -ast-dump-filter=<ns>`) of a tiny
translation unit that #includes the CURRENT sources of the selected functions, symbolically executes the selected
function bodies and prints them as Lean definitions (core Lean + RomeaModel.Scalar only), namespace `Romea.Src.<Cxx>`.
`tools/regen_all_bridges.py` re-translates every bridged property and compares with the committed generated files.

Encoding (generic: per function only its name — and, for templates, the instantiation — is configured; a few spec-wide options,
listed at the end, select between alternative readings of the same C++ construct):

Functions, parameters, results
* parameters of a translated function = every scalar leaf lvalue path it READS from its C++ parameters / `this`
  (`this->ellipsoid_.a` -> `ellipsoid__a`, `g.latitude` -> `g_latitude`, `v[0]` -> `v_0`, `m(1,0)` -> `m_1_0`), ordered
  alphabetically; a leading `fuel : Nat` when the function (or a callee) contains a loop that runs on fuel;
* result = the returned scalar, or the tuple of the leaves of the returned aggregate (Eigen vector / matrix / struct;
  leaves sorted by index / field name), followed by the leaves of `this` / non-const reference parameters that are
  WRITTEN anywhere in the function (sorted by name); `Option` of that when the function contains a loop on fuel (`none` = fuel
  exhausted) or a checked container access (`none` = index outside the container);
* a spec entry selects a function by qualified name (`cxx`), optionally by a substring of its type (`sig`), its template arguments
  (`targs`) and the class template specialisation it belongs to: `record` (exact name, `GridIndexMapping<double, 2>`) or `cls`
  (substring of the class's name with template arguments); members of instantiated class templates and out-of-class explicit
  specialisations (`template<> void RayCasting<double, 2>::next`) are found; `suffix` tells instantiations apart in Lean;
  `outputs` restricts a function to some written members (dead code is then removed); `nosig` is a substring the type must NOT contain
  (`') const'`: the non-const overload of `operator()`);
* a function whose return type is a NON-CONST lvalue reference to a scalar and that returns an element `c[i]` of a list-encoded container
  (`T & operator()(…) { return buffer_[k]; }`, plain vector encoding) is translated to the LOCATION it returns: its result is the index
  `i` (the caller's read through the reference is `List.getD c i`, its assignment `List.set c i x`); such a function cannot be a
  callee of another translated function; `T & f(T & x, …) { …; return x; }` returns nothing besides the written leaves of `x`;
* calls to library functions (methods, constructors incl. base-class and delegating initialisers, template instantiations) with a
  body in the TU are translated too and called; a callee that indexes with an integer PARAMETER (`step_(cellIndexes, axis)` with
  `v[axis]`) is translated once per constant argument of the call (`step__double_2_c0`, …); `const T & f() const { return member_; }`
  is the member itself (as an lvalue and for Eigen-typed values); functions listed in the spec's `uninterpreted` become
  function-typed parameters, those in `externs` are mapped to a named Lean function;
* a pointer (member / parameter) to a class object with a definition in the TU stands for that object (`p->f` is the leaf `p_f`):
  assumes it is not null and aliases nothing else the function touches; assigning such a pointer stays untranslatable.
* abstract objects (spec key `abstract_classes` = class names): an object reached through a pointer / reference and touched ONLY by calls
  of virtual methods WITHOUT a body in the TU is ONE opaque leaf of the abstract type σ; every such method `m` becomes a function-typed
  parameter of the translated function — a const method `m : σ → args → ret` (state unchanged), a non-const one `m : σ → args → σ × ret`
  (`σ → args → σ` for `void`) whose first component is the new state (threaded through conditions, branches and loops like any
  written leaf). Only scalar arguments / results; a scalar type variable that occurs only in a loop's instance arguments is passed to
  the loop function by name (`(α := α)`).

Scalars
* `double`/`float` -> type variable α (a second variable δ for `double` when both occur in one function, with
  `DoubleConv.up/down` on the conversions), integers -> `Int`, `bool` -> `Bool` (conditions are decidable `Prop`s), `enum` values ->
  their underlying integers, `std::string` -> `String` (`+` -> `++`);
* C++ association order and evaluation structure are kept (`let` per declaration / assignment, SSA names `x'1`, …);
* literals are read from the SOURCE TEXT at the AST's offsets (`1e-11` -> `OfScientific.ofScientific 1 true 11`,
  `1.0` -> `((1 : Nat) : α)`, macro `M_PI` -> `Trans.pi`); namespace-scope constants become generated definitions; a floating LITERAL
  converted to another floating type (`arrayOfFloat - 0.5`, `float(0.5)`) is read at the target type when its decimal value is exact
  there (24-bit significand), so the `float` instantiations keep ONE scalar type; an integral floating literal converted to an
  integer type (`sumOfData_(0.0)`) is that integer;
* integer arithmetic is unbounded; with the spec option `unsigned_wrap`, `+ - *`, unary minus, `++` / `--` and compound assignments
  computed in a 32/64-bit UNSIGNED type (also as coefficients of Eigen objects) are reduced modulo 2^width, integral conversions to
  an unsigned type too (`size_t(-1)` = 2^64 - 1), conversions to a narrower or same-width signed type from a type that does not fit
  are two's complement; signed arithmetic stays unbounded (overflow is undefined behaviour);
* integer constant expressions (indices, block sizes) are evaluated through `const` / `static constexpr` variables and template
  arguments (`SubstNonTypeTemplateParmExpr` is its substituted value) by declaration id;
* libm calls -> `Romea.Trans.*` (`pow(x, 2)` -> `x * x`, `M_PI_2`/`M_PI_4` -> `Trans.pi / 2`, `/ 4`); `std::min/max`;
  `std::numeric_limits<T>::epsilon()/max()/lowest()/min()` -> `Limits.*` (with a type alias for T the floating type is that of the
  call); `numeric_limits<T>::quiet_NaN()` is `0 / 0` (a NaN at the IEEE types and at RN; junk at the totalised reals);
* scalar wrappers: `std::atomic<scalar>` is its value (`load` / implicit conversion = read, `store` / `=` = write — a SEQUENTIAL
  reading only); `std::chrono::duration<integer, period>` is its `count()` (an `Int`): `count()`, `zero()`, value-initialisation,
  `+` / `-` / comparisons of two durations of the same type;
* `++x` / `--x` / `x++` / `x--` on integers used as VALUES (`if (n > 0 && --n == 0)`, `if (++c[a] < end)`): the variable is updated in
  the environment of the enclosing evaluation, the result is the new (prefix) / old (postfix) value; `if (a && b) S else T` with a
  side effect in `b` is translated as `if (a) { if (b) S else T } else T`; conditionally evaluated operands still refuse side
  effects. Two renderings (spec key `incr_encoding`): `'inline'` (default) substitutes the term `x + 1`; `'let'` binds the new value
  of an unconditionally evaluated prefix form with a `let` (`let c_0'1 := c_0 + 1`) and uses the bound name.

Control flow
* `if`/else-if/`?:` -> `if then else` (assigned variables merged through a tuple), early `return` -> if/else expression;
* `while` / `for` (with `break` / `continue`) -> auxiliary structurally recursive function on fuel returning `Option` of the
  loop-carried variables; the init statement of a `for` may declare several variables;
* `for (T i = a; i < b; ++i)` whose body neither assigns `i` nor breaks: with constant `a`, `b` (at most 16 iterations) the loop is
  UNROLLED (`i` is then a constant: `v[i]`, `m.col(i)` …); otherwise, if `b` is loop-invariant, the auxiliary function recurses on the
  trip count `(b - a).toNat` instead of on fuel and does not re-test the condition (no `fuel` parameter; `some` at count 0);
* spec option `fold_constant_conditions`: comparisons of integer constants (template parameters: `if (DIM == 3)`, `(a == axis) ? x : y`)
  are decided at translation time, only the taken branch is translated; spec option `unroll_constant_loops` (needs the former):
  integer constants are propagated through non-const locals, and any `for` / `while` whose condition is such a decided comparison on
  entry is UNROLLED (at most 16 passes; the condition must stay decided on every pass; `break` / `continue` are supported and
  duplicate the code that follows); inside an unrolled loop a run-time-looking Eigen index `v[a]` is the constant of that pass.
  Order of preference for a loop: constant bounds (unrolled) — decided condition (unrolled, with the option) — counted — fuel.
* spec option `range_for`: `for (auto p : c)` / `for (const auto & p : c)` over a whole list-encoded container (`std::vector` / `deque`
  of scalars, `std::vector` of fixed-size points in the 'checked' encoding) -> an auxiliary function that is STRUCTURALLY RECURSIVE ON
  THE LIST (`| [], vars => vars | p :: rest, vars => body; loop rest vars'`: no fuel, no index, never `none`); `p` is bound by value; the
  body may not `break` / `continue` / `return` or assign the container. Without the option a range-based for is untranslatable.

Eigen (fixed-size objects only; an object is the family of its coefficients)
* `v[i]`, `v(i)`, `m(i,j)`, `.x()…`, fixed-size constructors, `Identity()/Zero()/Ones()`, `T::Constant(x)`, `.norm()/.squaredNorm()`
  (left-to-right sum), `a.dot(b)`, the fixed-size product `A * B` (`(a0*b0 + a1*b1) + a2*b2` per coefficient);
* coefficient-wise expressions, coefficient by coefficient: `.array()` / `.matrix()` (also as assignment targets), `a + b`, `a - b`,
  `a * s`, `s * a`, `a / s`, `a / b` (CwiseBinaryOp), unary minus, `< <= > >= == !=` (coefficients are `Prop`s), `floor ceil abs sqrt …`
  (free functions and members), `.min(b) .max(b) .cwiseMin .cwiseMax` (= `std::min` / `std::max`), `.cwiseProduct .cwiseQuotient`,
  `.template cast<T>()`, `.transpose()`, `.col(j) .row(i) .head(n) .tail(n) .segment(i, n) .block<R, C>(i, j) .block(i, j, R, C)` with
  constant arguments (a block of a variable reads only its coefficients; `M.block<R, C>(i, j) = expr;` writes them one by one); a
  scalar operand is converted to the expression's coefficient type;
* reductions `.all() .any()` (conjunction / disjunction), `.prod()` of booleans (conjunction), `.sum() .prod() .minCoeff() .maxCoeff()`
  (left to right — a trusted reading of Eigen's redux, like `norm()`); statements `a += b`, `a -= b`, `a *= s`, `a /= s`,
  `.setConstant(x) .setZero() .setOnes()`; nothing else of Eigen.

Standard containers
* `x.front()`, `x.back()`, `x.begin()->…` of a standard container of aggregates -> a fixed location (path component); `std::lock_guard`
  declarations are skipped;
* sequence containers of scalars are Lean lists (type codes `la ld li lb`: `List α`, `List δ`, `List Int`, `List Bool`; front = head),
  a leaf like any scalar; mutators only as statements; a container written inside a loop is loop-carried. `std::vector<scalar>` has
  TWO encodings, selected by the spec key `vector_encoding`:
  - `'checked'` (default): `v[i]` (read) is `vecGet? v i`, `v[i] = x` is `vecSet? v i x`, both `Option`-valued — the translated function
    then returns `Option`, `none` = an index outside the vector (undefined behaviour in C++) —, `.size()` -> `(v.length : Int)`,
    `.empty() .resize(n) .clear() .push_back(x)`, constructors `()` / `(n)` / copy; `std::vector<std::vector<scalar>>(N)` with a
    constant N is an aggregate of N lists addressed by constant indices; `std::vector` of fixed-size Eigen vectors of one scalar type
    (2 to 4 coefficients) is a `List` of coordinate tuples (type codes `L2a`, …): `.size()`, `v[i]` (read), `const T & p = v[i];` (bound
    by value). The helper definitions `vecGet? vecSet? vecResize` are emitted into the generated file when used;
  - `'plain'`: `size()` -> `((List.length v : Nat) : Int)`, `empty()`, `v[i]` / `at(i)` -> `List.getD v (Int.toNat i) 0` (an out-of-range
    access is undefined behaviour: the default stands for it; the function stays total), `front()`, `back()`, `v[i] = x` / `v[i] op= x`
    -> `List.set`, `push_back` -> `v ++ [x]`, `pop_back`, `clear()` -> `[]`, `resize(n)` (zeros appended), `reserve` -> nothing, default /
    copy construction. With the spec option `opaque_elements` a vector of a NON-scalar T (Eigen vectors) is a `List τ` over an
    abstract element type τ: elements can only be copied in (`push_back(x)`, `v[i] = x` with x a variable, which then is a parameter of
    type τ) and returned (`return v[i]` -> the checked read `v[i]?` : `Option τ`);
  `std::queue<T>` / `std::deque<T>` are always read as in `'plain'` (`push` -> `v ++ [x]`, `pop()` / `pop_front()` -> `List.drop 1`).
* `std::fill(std::begin(v), std::end(v), x)` / `std::fill(v.begin(), v.end(), x)` over a WHOLE list-encoded container is
  `List.replicate (List.length v) x`; a `mutable std::mutex` data member is not part of an object's leaves;
* whole containers of records (spec option `whole_containers`): a `std::list<R>` / `std::vector<R>` of a record R whose fields are all
  scalars / strings / enums is ONE leaf `List (T1 × T2 × …)` (fields in ALPHABETICAL order); a `std::map<K, V>` of scalars / strings is ONE
  leaf `List (K × V)` = its entries in iteration order, i.e. ascending keys — key order and uniqueness are an INVARIANT of that
  representation (kept by the generated helper `mapInsertNew`), not enforced by the type. An iterator into such a container is an `Int`
  index (`std::(c)begin(c)` / `c.(c)begin()` = 0, `(c)end` = the length, `++it` = `it + 1` as a statement or as a value — also inside a
  loop condition, whose exit values are those AFTER the condition was evaluated —, `it == / != it'`, `it->f` = the projection of
  `List.getD l it <default element>`: dereferencing `end()` is undefined behaviour, the default element stands for it);
  `l.insert(end(l), begin(l2), end(l2))` is `l ++ l2`, `m.insert(begin(m2), end(m2))` is `List.foldl mapInsertNew m m2` (a key that is
  present keeps its value); such a container is passed whole to a translated callee. The fixed-location reading of `front()` /
  `begin()->` above stays available (a container cannot be used both ways in one function).

Phase 3 (C02 C05 C09 C14)
* `Eigen::Transform<T, 3, Affine>` (`Affine3d`) = the 16 coefficients of its 4x4 matrix (`T_i_j`); `Identity()`; the views `.linear()`
  `.translation()` `.matrix()` — and `.col(j) .row(i) .block<R, C>(i, j) .head<N>() .tail<N>()` of any fixed-size Eigen lvalue, nested — as
  assignment targets (`view = expr;`), comma-initialiser targets (`view << a, b, c;`: row-major order, scalar items, exact count),
  `setZero/setOnes/setConstant` targets and values; `(V() << a, b, c).finished()`; `T * v` = head of `T.matrix() * (v, 1)`, each row
  `((m_i0 v0 + m_i1 v1) + m_i2 v2) + m_i3 * 1`; `T.inverse()` (no hint argument, `double` only) as Eigen 3.4 computes it for fixed size 3 with
  SSE2 packets: cofactor inverse of the linear part (`det = c00 m00 + (c10 m10 + c20 m20)`, `invdet = 1 / det`, entries `cofactor * invdet`),
  translation `(-Linv) * t` with rows 0, 1 summed left to right and row 2 as `a0 + (a1 + a2)`, last row `0 0 0 1` — a TRUSTED reading of the
  library, chosen to be the one of the hand-written model (which the correspondence check fits bit for bit to the compiled code);
  `head<N>() / tail<N>()` with a non-literal template argument read N from the instantiated result type; classes derived from a fixed-size
  matrix (`HomogeneousCoordinates3<double>`) have the keys of their base;
* value-initialisation `T()` of a class without user-provided default constructor (clang's `zeroing`): every scalar member zero; a
  `constexpr` integer local whose initialiser cannot be followed (a static member of a class of another dump pass) has NO value (a read is an
  error; its uses as template arguments are already substituted); static constants of class template SPECIALISATIONS are followed by
  declaration id and are literals (a by-name definition would be shared between instantiations);
* `std::vector` of small fixed-size Eigen vectors (lists of coordinate tuples): `std::vector<V>(n)` (n entries, Eigen leaves them
  indeterminate: filled with zeros, a read before the first write is not detected), `v[i] = x;` (`vecSet?`), `v[i]` as a written reference
  argument of a translated callee and as the target `v[i].data()` of `std::copy` (element read, updated, written back); `std::vector` of a
  plain struct of 2-8 scalars of mixed kinds (read only): a list of tuples in member order (type code `T<codes>`); such vectors passed on as
  whole arguments; inside loops they are ONE carried leaf; `while (++n != N)`: the exit values of a loop whose condition has a side effect
  are those after the condition was evaluated; a loop variable bound to a CONST reference parameter of a callee is not "modified" (counted loop);
* `std::copy(A.data(), A.data() + K, B.data())` on fixed-size Eigen objects, K constant: the first K coefficients in storage order;
* dynamic-size Eigen matrices / vectors of `double` / `float` (`Matrix<T, Dynamic, Dynamic | 1>`) are ONE leaf, a functional array
  `Int → Int → α` / `Int → α` (type codes `M2a M1a`): `M(i, j)` / `v(i)` reads, `M(i, j) = x` (`dynSet2`, `dynSet1`); sizes are not tracked:
  Eigen's `operator()` is unchecked under NDEBUG, an out-of-range access is undefined behaviour and NOT detected;
* ORACLES (spec key `oracles`: member function name -> dict(writes=[members], reads=[members], hides=[members])): numerical routines that stay
  parameters of the model. A call sets every leaf of the `writes` members, and yields as result (a scalar, or the coefficients of the
  fixed-size object the result is converted to), the application of an uninterpreted function `<oracle>_<leaf>` / `<oracle>_ret…` to the
  scalar arguments followed by the current values of the `reads` members. Aggregate arguments must be const-reference parameters of the
  translated function (the same at every call) and are not passed; `hides` members (touched by the oracle, not modelled) may not be read by
  any translated function of the spec. The oracle's dependence on the rest of its object is NOT represented (a contract of the spec);
* a free function whose body was dumped by ANOTHER clang pass (anonymous namespace + `extra_filters`; declaration ids differ between
  passes) is found by name and type; spec key `source_getters` (name -> dict(cls=, member=, source=)): a trivial getter defined in a .cpp that
  is too expensive to parse is checked on the CURRENT source text (every definition must be exactly `return member;`); members of
  `C<float, …>` without a floating expression of their own work in `float`.

Phase 4 (C07) — spec option `dyn_sizes`: dynamic-size Eigen objects WITH their sizes
* a `Matrix<T, Dynamic, Dynamic | 1>` (member, parameter, local, returned value) is an AGGREGATE of the leaves `m` (coefficients: a total
  function of the indices, `Int → Int → α` / `Int → α`), `rows`, `cols` (`Int`; no `cols` for a vector): `J__m J__rows J__cols`, a returned
  vector is `ret_m, ret_rows`. `M(i, j)` / `M(i, j) = x` read / update `m` (`dynSet1/2`, as in phase 3); `M(i, j) = N(j, i) = x` binds `x`
  once and assigns from the innermost target outwards;
* expressions are evaluated to such aggregates, the coefficient leaf of an intermediate value being a closed lambda term (binders ρ γ):
  lvalues, `Matrix()` (0 x 0, zero function), `Identity(r, c) Zero(r, c) Zero(n) Ones(n) Constant(…, x)`, `a + b`, `a - b`, `a * s`, `s * a`,
  `.transpose() .col(j) .head(n) .array() .matrix() .asDiagonal()`, `rows() cols() size()`, calls of translated member functions that return
  a dynamic matrix; the PRODUCT `A * B` and `a.dot(b)` are EXPLICIT SUMS in index order with a leading zero, `dynSum n (fun κ => …)` =
  `((0 + f 0) + f 1) + …` over the inner dimension `A.cols()` / `a.rows()` (the reading of the hand-written models' `sumTo`, so that the
  bridge needs no algebraic law; Eigen's vectorised / unrolled reduction order is NOT represented — a trusted reading, tested only by the
  correspondence check within its tolerance); every product is bound to a name (a nested product is evaluated into a temporary);
* statements `X.resize(r, c)` / `X.resize(n)`: the sizes are set, the coefficients become `resize_<X> <old leaves> <new sizes>`, an
  UNINTERPRETED function (Eigen keeps the storage iff the number of coefficients is unchanged and leaves it uninitialised otherwise: a
  contract of the bridge, not of the translator); `X.setConstant(x) setZero() setOnes()`; `V.head(n).array() op= W.head(n).array()`,
  `M.col(i).head(n).array() op= …` (`op` in `+ - * /`): the coefficients of the target region are combined, every other one is kept
  (`fun ρ γ => if γ = i ∧ 0 ≤ ρ ∧ ρ < n then M ρ γ * W ρ else M ρ γ`); inside a loop the coefficient leaf is loop-carried;
* `A.ldlt().solve(B)` (also `llt lu partialPivLu fullPivLu householderQr colPivHouseholderQr fullPivHouseholderQr`) is the uninterpreted
  function `<decomposition>_solve` of the leaves of A and B (alphabetical: `cols m rows`), result `A.cols() x B.cols()`;
* spec key `oracle_classes` (class name -> dict(methods = {name: [row term, column term]})): a LOCAL object of such a class
  (`Eigen::JacobiSVD<Matrix> svd(A, flags);`) is the record of its constructor arguments — dynamic matrices, floating scalars, and for any
  other side-effect-free argument its normalised SOURCE TEXT as a string (`"ComputeThinU|ComputeThinV"`: enumerators of namespaces the
  dump does not hold) —; a listed method is the uninterpreted function `<Class>_<method>` of them, with the shape the spec gives
  (`{r0} {c0}` = rows / columns of argument 0); any other method makes the function untranslatable;
* `member_()` in a constructor's initialiser list (value-initialisation of a scalar) is zero.

Phase 5 (C04) — fixed-size / dynamic-size mixtures and vectors of points as data members
* `v[i].field` (read) and `const T & x = v[i].field;` (bound by value) with `v` a std::vector of a plain struct of scalars;
* `a.transpose()` of a fixed-size column vector is the 1 x n row vector (`col * row.transpose()` = the outer product, one term per
  coefficient); `A += B * C;` / `A -= B * C;` on fixed-size objects add / subtract the evaluated product coefficient by coefficient
  (`A *= B` with a matrix stays untranslatable); `Eigen::Array<T, r, c>::Zero() / Ones()`;
* compound assignment to a writable VIEW of a fixed-size object (`M.block(i, j, R, C) += expr;`, `v.head(n) *= s;`, `M.block(…) /= s;`
  — `*=` / `/=` only with a scalar), `head(n)` / `tail(n)` with a constant run-time argument as views, an n x 1 block assigned from /
  combined with a vector;
* with `dyn_sizes`: `Matrix<T, -1, -1>(fixed-size expression)` (e.g. the argument conversion of `JacobiSVD<MatrixXd> svd(cov.block(0, 0, d, d),
  flags)`) is the aggregate with literal sizes and the coefficient function `fun ρ γ => if ρ = 0 ∧ γ = 0 then x_0_0 else … else 0` (row-major
  chain over the known coefficients, zero elsewhere); `X.determinant()` of a dynamic matrix is the uninterpreted function `determinant` of
  its leaves (cols, coefficients, rows: Eigen computes it through a partially pivoted LU); a dynamic-size value assigned to a fixed-size
  block / view (`H.block(0, 0, d, d) = v * u.transpose();`) is read at the target's indices — the sizes of the value are NOT compared with
  the target's (Eigen asserts this in debug builds only: a trusted reading);
* a data member / getter result that is a `std::vector` of small fixed-size Eigen vectors (or of a plain struct) is ONE list leaf of its
  object (`x.get()` with `const V & get() const { return points_; }` is that leaf, passed whole to a translated callee); on such a vector
  `reserve(n)` changes nothing observable, `capacity()` is the value of a HIDDEN integer leaf `<vector>_capacity` of the object (not a
  function of the contents; a read after `reserve` / `resize` in the same body is untranslatable), `resize(n)` is `vecResize v n fill`
  with `fill` the uninterpreted parameter `<vector>_resize_fill` (a default-constructed element: indeterminate for plain Eigen vectors —
  the bridge quantifies over it; for a class with a default constructor this over-approximates); `v[i].array() = expr;` is `v[i] = expr;`.
* (C12) spec key `transform_oracles` (list; only `'rotation'`): `T.rotation()` of an `Eigen::Transform` (Eigen: the rotation of the polar
  decomposition of the linear part, by an SVD) is an ORACLE — coefficient (i, j) is the uninterpreted function `Transform_rotation_i_j` of the
  nine coefficients of `T.linear()` in row-major order (every call on the same value is the same term); a C array of small fixed-size Eigen
  matrices (`const Eigen::Matrix3d a[3] = {A, B, C};`, typedef names `Matrix2…4 d|f` / `Vector2…4 d|f`) is an aggregate whose element `k` is
  the path component `(k,)`, `a[k]` with a constant `k` (also the `k` of an unrolled loop) and `const M & x = a[k];` address it.

Phase 6 (C08) — spec option `pointer_arrays`: raw pointers to scalars as the arrays they point into
* a variable / data member / parameter of type `T *` (`const T *`, `T *const`), T a floating or integer type, is ONE list leaf (type codes
  `la ld li`), read exactly like a `std::vector<T>` in the 'plain' encoding: `p[i]` is `List.getD p (Int.toNat i) 0`, `p[i] = x` /
  `p[i] op= x` is `List.set p (Int.toNat i) x` (an out-of-range access, undefined behaviour in C++, reads the default / writes nothing;
  sizes are not tracked — the bridge carries `capacity ≤ length` as a representation invariant); a pointer written through inside a loop
  is loop-carried; `p = q;` (a pointer assignment, e.g. `indices = indices_` in `KNNResultSet::init`) copies the WHOLE list: the object
  then OWNS the array — valid only while nothing else writes the caller's array during the object's life (a contract of the spec; the
  aliasing with the caller's `std::vector` is not represented) —; the null pointer constant is the empty list; `&x` stays
  untranslatable. The option is independent of `vector_encoding` (a pointer has no checked reading);
* WALKING pointers (same option; `ptr_walk_rewrite`, a rewrite of a COPY of the function's AST into index form before the ordinary
  translation): a pointer PARAMETER `a` that takes part in pointer arithmetic is the pair (list `a`, synthetic local `long a_off = 0`);
  a LOCAL pointer initialised from arithmetic on such a pointer and never assigned again (`const T * last = a + size;`) is a `long`, its
  offset in `a`'s array; `a[k]` = `a[a_off + k]`, `*a` = `a[a_off]`, `*a++` = `a[a_off++]`, `a += n` / `++a` act on `a_off`; comparisons and
  differences of pointers into the SAME array act on offsets (unbounded `Int`s: the one-before-the-begin pointer `last - 3` with
  `size < 3`, formally undefined in C++, is a negative offset); any other use (passed on, stored, assigned, compared with a pointer into
  another array) is untranslatable;
* `return e;` INSIDE a loop (`loop_return_rewrite`, on a copy of the AST, innermost loop first; not gated by an option — such functions
  were untranslatable before): `bool ret_set_N = false; T ret_val_N = T(); while (c) { … { ret_val_N = e; ret_set_N = true; break; } … }
  if (ret_set_N) return ret_val_N;` — scalar results only, the loop must be a direct statement of a block;
* `uninterpreted: {name: {'member': True}}`: a member function WITHOUT a body called on a CONST object with scalar arguments
  (`data_source.kdtree_get_pt(idx, dim)`) is a function-typed parameter of the translated function (the unchanging object is part of
  that function);
* `(std::numeric_limits<T>::max)()` — the macro-proof spelling with a parenthesised callee — is `Limits.maxVal` like `numeric_limits<T>::max()`;
* a translation unit may consist of headers only plus `extra` lines (`template class nanoflann::KNNResultSet<double, size_t, size_t>;`: the
  members of a class template have bodies in clang's AST only when instantiated); `filter` selects the dumped namespace.

Phase 7 (C11 ellipse) — with `dyn_sizes`
* a FIXED-size Eigen local initialised from a dynamic-size value (`Eigen::Vector2d s = svd.singularValues();`, `Eigen::Matrix2d U =
  svd.matrixU();` with `svd` an `oracle_classes` object) is read at the local's indices (`s_0 := o_singularValues 0`, `U_1_0 := o_matrixU 1 0`);
  as for the block assignment of phase 5 the sizes of the value are NOT compared with the local's (Eigen asserts them in debug builds
  only): a trusted reading. Before, such a local had no coefficients and its first read made the function untranslatable.

Anything else (function-local `static`, writes to globals, unknown calls, unsupported statements) makes the function
UNTRANSLATABLE: the generated file then holds a comment with the reason and no definition of that name, so that the
bridge theorem about it no longer compiles.

Spec-wide keys, besides `id sources headers extra filter extra_filters macros imports opens functions uninterpreted externs strip_ns`:
`vector_encoding` ('checked' | 'plain'), `opaque_elements`, `incr_encoding` ('inline' | 'let'), `unsigned_wrap`,
`fold_constant_conditions`, `unroll_constant_loops`, `abstract_classes` (list of class names), `whole_containers`, `range_for`,
`oracles`, `source_getters` (phase 3), `dyn_sizes`, `oracle_classes` (phase 4), `transform_oracles` (phase 5), `pointer_arrays` (phase 6). The defaults give the first-listed / option-less reading. A fixed-size `Eigen::Array<T, r, c>` has the
leaves of the `Matrix` of that shape.
Only the Python standard library is used.
"""
import json
import os
import re
import subprocess
import sys
from decimal import Decimal

CLANG = 'clang++-14'


class Untranslatable(Exception):
    pass


# ------------------------------------------------------------------------------------------------ AST loading
def parse_concat(txt):
    dec = json.JSONDecoder()
    i, objs, n = 0, [], len(txt)
    while i < n:
        while i < n and txt[i] in ' \n\r\t':
            i += 1
        if i >= n:
            break
        o, j = dec.raw_decode(txt, i)
        objs.append(o)
        i = j
    return objs


def _annotate_files(node, cur):
    """clang's JSON dumper prints `file` only when it differs from the previously printed location: walk in document
    order and fill it in everywhere (cur = [file])."""
    def loc(d):
        if not isinstance(d, dict):
            return
        if 'spellingLoc' in d or 'expansionLoc' in d:
            for k in d:
                if k in ('spellingLoc', 'expansionLoc'):
                    loc(d[k])
            return
        if 'offset' in d:
            if 'file' in d:
                cur[0] = d['file']
            else:
                d['file'] = cur[0]
            if 'line' in d:
                cur[1] = d['line']
            else:
                d['line'] = cur[1]
    for k in list(node.keys()):
        if k == 'loc':
            loc(node[k])
        elif k == 'range':
            loc(node[k].get('begin'))
            loc(node[k].get('end'))
        elif k == 'inner':
            for c in node[k]:
                if isinstance(c, dict):
                    _annotate_files(c, cur)


FUNC_KINDS = ('FunctionDecl', 'CXXMethodDecl', 'CXXConstructorDecl', 'CXXConversionDecl')
RECORD_KINDS = ('CXXRecordDecl', 'ClassTemplateSpecializationDecl')


class TU:
    """the parsed AST of one translation unit"""

    def __init__(self, repo, scratch, spec):
        self.repo = repo
        self.files = {}
        self.funcs = {}        # id -> decl (with body)
        self.fqual = {}        # id -> qualified name 'romea::core::ECEFConverter::toECEF'
        self.decl_by_id = {}   # id -> any decl node
        self.qual_of_ctx = {}  # id of namespace / record -> qualified name
        self.globals = {}      # id -> VarDecl at namespace / class scope
        self.records = {}      # id -> record decl (complete definition)
        self.parent = {}       # decl id -> enclosing context id
        self.tmpl_args = {}    # function decl id -> printed template args
        self.enum_consts = {}  # EnumConstantDecl id -> value
        self.pattern_ctx = set()
        self.enum_by_name = {}
        ENUMS.clear()
        name = 'bridge_tu_%s.cpp' % spec.get('id', 'x').lower()
        self.tu_path = os.path.join(scratch, name)
        lines = []
        for h in spec.get('headers', []):
            lines.append('#include "%s"' % h)
        for s in spec.get('sources', []):
            lines.append('#include "%s"' % os.path.join(repo, s))
        lines += spec.get('extra', [])
        with open(self.tu_path, 'w') as f:
            f.write('\n'.join(lines) + '\n')
        filters = [spec.get('filter', 'romea')] + list(spec.get('extra_filters', []))
        self.objs = []
        if len(filters) > 1:      # independent clang passes, run side by side
            import concurrent.futures as cf
            with cf.ThreadPoolExecutor(max_workers=len(filters)) as ex:
                for objs in ex.map(self._dump, filters):
                    self.objs += objs
        else:
            self.objs += self._dump(filters[0])
        self.pending_filters = set()
        for o in self.objs:
            self._index(o, None, '')

    def _dump(self, flt):
        cmd = [CLANG, '-std=gnu++17', '-DNDEBUG', '-w', '-I' + os.path.join(self.repo, 'include'), '-I/usr/include/eigen3',
               '-fsyntax-only', '-Xclang', '-ast-dump=json', '-Xclang', '-ast-dump-filter=' + flt, self.tu_path]
        r = subprocess.run(cmd, stdout=subprocess.PIPE, stderr=subprocess.PIPE, text=True)
        if r.returncode != 0:
            raise Untranslatable('clang failed: ' + r.stderr.strip().split('\n')[0][:300])
        objs = parse_concat(r.stdout)
        for o in objs:
            _annotate_files(o, [None, None])
        return objs

    def load_global(self, name):
        """a namespace-scope variable outside the dumped namespace (e.g. in an anonymous namespace): second clang pass"""
        if name in self.pending_filters:
            return
        self.pending_filters.add(name)
        for o in self._dump(name):
            self.objs.append(o)
            self._index(o, None, '')

    def _index(self, n, ctx, qual):
        k = n.get('kind')
        nid = n.get('id')
        if nid:
            self.decl_by_id.setdefault(nid, n)
        if k == 'NamespaceDecl':
            q = (qual + '::' if qual else '') + (n.get('name') or '(anonymous)')
            self.qual_of_ctx[nid] = q
            for c in n.get('inner', []) or []:
                self.parent[c.get('id')] = nid
                self._index(c, nid, q)
            return
        if k in RECORD_KINDS or k == 'ClassTemplateDecl':
            q = (qual + '::' if qual else '') + (n.get('name') or '(anonymous)')
            if k != 'ClassTemplateDecl':
                self.qual_of_ctx[nid] = q
                if n.get('completeDefinition'):
                    self.records[nid] = n
                    n['_qual'] = q
                    targs = [c for c in n.get('inner', []) or [] if c.get('kind') == 'TemplateArgument']
                    if targs:
                        n['_qual'] = q + '<' + ', '.join((t.get('type') or {}).get('qualType', str(t.get('value', '?'))) for t in targs) + '>'
            first_rec = True
            for c in n.get('inner', []) or []:
                self.parent[c.get('id')] = nid
                if k == 'ClassTemplateDecl' and c.get('kind') == 'CXXRecordDecl' and first_rec:
                    first_rec = False
                    self.pattern_ctx.add(c.get('id'))      # the uninstantiated pattern of a class template
                self._index(c, nid, q if k != 'ClassTemplateDecl' else qual)
            return
        if k == 'FunctionTemplateDecl':
            for c in n.get('inner', []) or []:
                if c.get('kind') in FUNC_KINDS and not any(x.get('kind') == 'TemplateArgument' for x in c.get('inner', []) or []):
                    continue      # the uninstantiated pattern
                self._index(c, ctx, qual)
            return
        if k in FUNC_KINDS:
            par = n.get('parentDeclContextId')
            q = self.qual_of_ctx.get(par, qual) if par else qual
            if (par or ctx) in self.pattern_ctx:
                return
            if any(c.get('kind') == 'CompoundStmt' for c in n.get('inner', []) or []):
                self.funcs[nid] = n
                self.fqual[nid] = (q + '::' if q else '') + n.get('name', '')
                targs = [c for c in n.get('inner', []) or [] if c.get('kind') == 'TemplateArgument']
                if targs:
                    self.tmpl_args[nid] = ','.join((t.get('type') or {}).get('qualType', str(t.get('value', '?'))) for t in targs)
            return
        if k == 'VarDecl':
            self.globals[nid] = n
            n['_qual'] = (qual + '::' if qual else '') + n.get('name', '')
            return
        if k == 'EnumDecl':
            q = (qual + '::' if qual else '') + (n.get('name') or '(anonymous)')
            ENUMS.add(q)
            val = -1
            for c in n.get('inner', []) or []:
                if c.get('kind') != 'EnumConstantDecl':
                    continue
                val += 1

                def find_val(x):
                    if x.get('kind') == 'ConstantExpr' and 'value' in x:
                        return int(x['value'])
                    if x.get('kind') == 'IntegerLiteral':
                        return int(x['value'])
                    for y in x.get('inner', []) or []:
                        r = find_val(y)
                        if r is not None:
                            return r
                    return None
                if c.get('inner'):
                    v = find_val(c)
                    if v is None:
                        val = None
                        break
                    val = v
                self.enum_consts[c['id']] = val
                self.enum_by_name[q + '::' + c.get('name', '')] = val
            return
        if k in ('LinkageSpecDecl',):
            for c in n.get('inner', []) or []:
                self._index(c, ctx, qual)

    # ---- source text
    def text(self, loc):
        if 'spellingLoc' in loc:
            loc = loc['spellingLoc']
        f = loc.get('file')
        if f is None:
            raise Untranslatable('literal without a source file')
        if not os.path.isabs(f):
            f = os.path.join(os.path.dirname(self.tu_path), f)
        if f not in self.files:
            self.files[f] = open(f, 'rb').read()
        return self.files[f][loc['offset']:loc['offset'] + loc['tokLen']].decode()

    def range_text(self, n):
        """source text of an expression that is not inside a macro expansion ('' otherwise)"""
        r = n.get('range') or {}
        b, e = r.get('begin') or {}, r.get('end') or {}
        if 'offset' not in b or 'offset' not in e or b.get('file') != e.get('file') or not b.get('file'):
            return ''
        f = b['file']
        if not os.path.isabs(f):
            f = os.path.join(os.path.dirname(self.tu_path), f)
        if f not in self.files:
            self.files[f] = open(f, 'rb').read()
        return self.files[f][b['offset']:e['offset'] + e.get('tokLen', 0)].decode(errors='replace')

    def macro_name(self, loc):
        """name of the macro a literal was expanded from (None if it is not from a macro)"""
        if 'expansionLoc' not in loc:
            return None
        return self.text(loc['expansionLoc'])

    def where(self, n):
        loc = n.get('loc') or (n.get('range') or {}).get('begin') or {}
        if 'expansionLoc' in loc:
            loc = loc['expansionLoc']
        f = loc.get('file') or '?'
        if f.startswith(self.repo):
            f = os.path.relpath(f, self.repo)
        return '%s:%s' % (f, loc.get('line', '?'))

    def find_function(self, cxx, sig=None, targs=None, record=None, cls=None, nosig=None):
        """all function definitions whose qualified name ends with `cxx` (optionally: whose type contains `sig`,
        whose template arguments are `targs`, whose class (template specialisation) is `record`, e.g. `Interval<double, 2>`,
        or has a name containing `cls`)"""
        out = []
        for fid, d in self.funcs.items():
            q = self.fqual[fid]
            if q == cxx or q.endswith('::' + cxx):
                t = (d.get('type') or {}).get('qualType', '')
                if '<dependent type>' in t or self._dependent(d):
                    continue
                if sig is not None and sig not in t:
                    continue
                if nosig is not None and nosig in t:      # `nosig`: a substring the type must NOT contain (`) const`: the non-const overload)
                    continue
                if targs is not None and self.tmpl_args.get(fid) != targs:
                    continue
                if record is not None:
                    rq = self.record_of(d).get('_qual', '')
                    if not (rq == record or rq.endswith('::' + record)):
                        continue
                if cls is not None and cls not in ((self.records.get(self.parent.get(fid) or d.get('parentDeclContextId')) or {}).get('_qual', '')):
                    continue
                out.append(d)
        return out

    def record_of(self, d):
        """the (instantiated) class a method belongs to: its lexical parent, or — for out-of-class definitions and explicit
        specialisations — its semantic parent"""
        for rid in (d.get('parentDeclContextId'), self.parent.get(d.get('id'))):
            if rid in self.records:
                return self.records[rid]
        return {}

    def _dependent(self, d):
        """template patterns (uninstantiated) have dependent types somewhere in the signature"""
        t = (d.get('type') or {}).get('qualType', '')
        prec = self.record_of(d)
        if prec.get('_qual', '').endswith('>') and prec.get('kind') == 'ClassTemplateSpecializationDecl':
            return False      # a member of an instantiated class template (phase 2)
        if re.search(r'\b(Scalar|T|Derived|PointType|type-parameter)\b', t) and d.get('id') not in self.tmpl_args:
            # the pattern of a function template; instantiations carry TemplateArgument children
            return True
        return False


# ------------------------------------------------------------------------------------------------ types
FLOAT_TYPES = {'double': 'double', 'float': 'float', 'long double': 'long double'}
INT_RE = re.compile(r'^(unsigned |signed )?(char|short|int|long|long long)( int)?$|^(unsigned|signed)$|^(std::)?(size_t|ptrdiff_t|u?int(8|16|32|64)_t)$|^Eigen::Index$')


def strip_cv(t):
    t = t.strip()
    changed = True
    while changed:
        changed = False
        for p in ('const ', 'volatile '):
            if t.startswith(p):
                t = t[len(p):].strip()
                changed = True
        for s in (' const', ' volatile', '&', ' &&'):
            if t.endswith(s):
                t = t[:-len(s)].strip()
                changed = True
    return t


def type_of(n):
    ty = n.get('type') or {}
    return ty.get('desugaredQualType') or ty.get('qualType') or ''


ENUMS = set()       # qualified names of the enumeration types of the current translation unit
STRING_TYPES = ('std::string', 'std::basic_string<char>', 'basic_string<char>', 'std::__cxx11::basic_string<char>', 'string',
                'std::__cxx11::string')


def classify(t):
    """'double' | 'float' | 'int' | 'uint' | 'bool' | 'string' | 'agg' | 'void' | 'list' (std::vector of scalars, checked
    encoding) | 'seq' (std::queue / std::deque, and std::vector in the plain encoding); see `vector_encoding` in the module docstring"""
    t = strip_cv(t)
    if t in STRING_TYPES or re.match(r'^(const )?char( const)? ?(\*|\[\d*\])$', t):
        return 'string'
    if t in ENUMS or ('::' not in t and any(e.endswith('::' + t) for e in ENUMS)):
        return 'int'
    if t in ('double', 'long double'):
        return 'double'
    if t == 'float':
        return 'float'
    if t == 'bool':
        return 'bool'
    if t == 'void':
        return 'void'
    w = scalar_wrapper(t)
    if w is not None:
        return classify(w)
    if INT_RE.match(t):
        return 'uint' if (t.startswith('unsigned') or 'size_t' in t or re.match(r'^(std::)?uint', t)) else 'int'
    if list_elem(t) is not None and (LIST_OPTS['encoding'] == 'plain' or not VEC_RE.match(t)):
        return 'seq'       # sequence container in the plain encoding (std::queue / std::deque: always)
    if LIST_OPTS['encoding'] == 'checked' and vec_elem(t) is not None and classify(vec_elem(t)) in ('double', 'float', 'int', 'uint', 'bool'):
        return 'list'      # std::vector of scalars in the checked encoding
    if DYN_RE.match(t) and LIST_OPTS.get('dyn_sizes') and not t.endswith(DYN_COEF):
        return 'agg'       # phase 4 (spec option `dyn_sizes`): coefficients + sizes, an aggregate of 2 / 3 leaves
    if DYN_RE.match(t):
        return 'dyn'       # phase 3: Eigen::Matrix<T, Dynamic, Dynamic | 1>: a functional array (one leaf)
    return 'agg'


# ---- dynamic-size Eigen matrices / vectors of double / float: ONE leaf, a total function from the indices to the coefficients
#      (`Int → Int → α` / `Int → α`); sizes are not tracked (Eigen's operator() is unchecked under NDEBUG: an out-of-range access is
#      undefined behaviour and is not detected)
DYN_RE = re.compile(r'^(?:Eigen::)?Matrix<\s*(double|float)\s*,\s*-1\s*,\s*(-1|1)\b')
DYN_COEF = '/*coef*/'      # phase 4: pseudo C++ type of the coefficient leaf `m` of a dynamic matrix WITH sizes (`dyn_sizes`)
DYNX_RE = re.compile(r'\bMatrix<\s*(double|float)\s*,\s*-1\s*,\s*(-1|1)\b')      # anywhere in an expression-template type


def dyn_info(t):
    """(C++ scalar type, number of indices) of a dynamic Eigen matrix / vector type (None for every other type)"""
    m = DYN_RE.match(strip_cv(t))
    return (m.group(1), 2 if m.group(2) == '-1' else 1) if m else None


VEC_RE = re.compile(r'^(?:std::)?vector<\s*(.+?)\s*(?:,\s*[\w:]*allocator<.*>)?\s*>$')


def vec_elem(t):
    """element type of a `std::vector<T>` type (None for every other type)"""
    m = VEC_RE.match(strip_cv(t))
    return m.group(1) if m else None


# ---- scalar wrappers: std::atomic<scalar> is its value (load / store = read / write: sound for a SEQUENTIAL reading only),
#      std::chrono::duration<integer, period> is its count() in its own period
WRAP_RE = re.compile(r'^(?:std::)?(atomic|chrono::duration)<')


def scalar_wrapper(t):
    t = strip_cv(t)
    m = WRAP_RE.match(t)
    if not m:
        return None
    el = first_template_arg(t)
    if WRAP_RE.match(strip_cv(el)) or LIST_RE.match(strip_cv(el)):
        return None
    c = classify(el)
    if m.group(1) == 'atomic':
        return el if c in ('int', 'uint', 'double', 'float', 'bool') else None
    return el if c in ('int', 'uint') else None


def is_duration(t):
    t = strip_cv(t)
    return bool(re.match(r'^(?:std::)?chrono::duration<', t)) and scalar_wrapper(t) is not None


def is_atomic(t):
    t = strip_cv(t)
    return bool(re.match(r'^(?:std::)?atomic<', t)) and scalar_wrapper(t) is not None


# ---- sequence containers as Lean lists (std::vector / std::queue / std::deque of scalars; of opaque elements when the spec asks)
LIST_OPTS = {'opaque': False, 'encoding': 'checked', 'dyn_sizes': False}      # set per spec by translate()
LIST_RE = re.compile(r'^(?:std::)?(?:__cxx11::)?(vector|queue|deque)<')
PTR_ARRAY_RE = re.compile(r'^(?:const\s+)?([\w: ]+?)(?:\s+const)?\s*\*$')      # (C08) `T *` / `const T *`, T a scalar type name


def first_template_arg(t):
    i = t.index('<') + 1
    d, j = 0, i
    while j < len(t):
        ch = t[j]
        if ch == '<':
            d += 1
        elif ch == '>':
            if d == 0:
                break
            d -= 1
        elif ch == ',' and d == 0:
            break
        j += 1
    return t[i:j].strip()


def list_elem(t):
    """C++ element type of a sequence container type translated as a Lean list (None: not such a type)"""
    t = strip_cv(t)
    if LIST_OPTS.get('pointer_arrays') and t.endswith('*const'):      # `T *const` (a pointer member seen from a const method)
        t = t[:-len('const')]
    if LIST_OPTS.get('pointer_arrays') and PTR_ARRAY_RE.match(t):
        # (C08) spec option `pointer_arrays`: a pointer to a scalar IS the array it points into (a Lean list owned by the object)
        elp = PTR_ARRAY_RE.match(t).group(1).strip()
        return elp if classify(elp) in ('int', 'uint', 'double', 'float') else None
    if not LIST_RE.match(t):
        return None
    el = first_template_arg(t)
    if LIST_RE.match(strip_cv(el)):
        return None
    c = classify(el)
    if c in ('int', 'uint', 'double', 'float'):
        return el
    if c == 'agg' and LIST_OPTS['opaque']:
        return el
    return None


def uwidth(t):
    """bit width of an unsigned C++ integer type whose arithmetic is not promoted to `int` (None otherwise)"""
    t = strip_cv(t)
    if t in ('unsigned long', 'unsigned long long', 'size_t', 'std::size_t', 'uint64_t', 'std::uint64_t', 'unsigned long int',
             'unsigned long long int'):
        return 64
    if t in ('unsigned int', 'unsigned', 'uint32_t', 'std::uint32_t'):
        return 32
    return None


def swidth(t):
    t = strip_cv(t)
    if t in ('long', 'long long', 'long int', 'long long int', 'int64_t', 'std::int64_t', 'ptrdiff_t', 'std::ptrdiff_t', 'Eigen::Index'):
        return 64
    if t in ('int', 'int32_t', 'std::int32_t', 'signed', 'signed int'):
        return 32
    return None


LEAN_KEYWORDS = {'at', 'from', 'end', 'open', 'fun', 'in', 'let', 'have', 'show', 'then', 'else', 'if', 'do', 'by', 'with', 'match',
                 'def', 'theorem', 'import', 'namespace', 'section', 'variable', 'where', 'instance', 'class', 'structure', 'Type',
                 'Prop', 'Sort', 'this', 'α', 'δ', 'fuel', 'return', 'for', 'true', 'false', 'some', 'none', 'λ', 'mut', 'using'}


def lean_ident(s):
    s = re.sub(r'[^A-Za-z0-9_]', '_', s)
    if not s or s[0].isdigit():
        s = 'v' + s
    if s in LEAN_KEYWORDS or s == '_':
        s = s + '_v'
    return s


def atomic(t):
    if re.match(r"^[A-Za-z_][A-Za-z0-9_'.]*$", t):
        return True
    if t and t[0] == '(' and t[-1] == ')':
        d = 0
        for i, ch in enumerate(t):
            if ch == '(':
                d += 1
            elif ch == ')':
                d -= 1
                if d == 0 and i != len(t) - 1:
                    return False
        return True
    return False


def par(t):
    return t if atomic(t) else '(' + t + ')'


def unpar(t):
    if t and t[0] == '(' and atomic(t) and not re.match(r'^\(\(?[^()]*:', t):
        d = 0
        for ch in t[1:-1]:
            if ch == '(':
                d += 1
            elif ch == ')':
                d -= 1
            elif ch == ',' and d == 0:
                return t
        if re.search(r' : [^()]*$', t[1:-1]):      # (term : type)
            return t
        return t[1:-1]
    return t


# ------------------------------------------------------------------------------------------------ values
def sc_lit(sc, v):
    sc.lit = v
    return sc


def sc_copy_lit(sc, src):
    if src is not None and getattr(src, 'lit', None) is not None:
        sc.lit = src.lit
    return sc


class Sc:
    """scalar symbolic value: Lean term + type code ('a' = α, 'd' = δ, 'i' = Int, 'b' = Bool, 'p' = Prop, 's' = String)"""
    __slots__ = ('t', 'ty', 'lit')

    def __init__(self, t, ty):
        self.t, self.ty, self.lit = t, ty, None

    def __repr__(self):
        return 'Sc(%s:%s)' % (self.t, self.ty)


class ScF(Sc):
    """phase 4: a functional-array value given by a closed lambda term `t`; `app(idx)` is its body at the index terms `idx`"""
    __slots__ = ('app',)

    def __init__(self, t, ty, app):
        Sc.__init__(self, t, ty)
        self.app = app


class _TyLean(dict):
    """type code -> Lean type; `T<codes>` (phase 3: a std::vector of a struct of scalars, read only) is a list of tuples of the field types"""

    def __missing__(self, k):
        if isinstance(k, str) and len(k) >= 2 and k[0] == 'T' and all(c in 'adib' for c in k[1:]):
            return 'List (%s)' % ' × '.join(self[c] for c in k[1:])
        raise KeyError(k)

    def __contains__(self, k):
        return dict.__contains__(self, k) or (isinstance(k, str) and len(k) >= 2 and k[0] == 'T' and all(c in 'adib' for c in k[1:]))

    def get(self, k, default=None):
        return self[k] if k in self else default


TY_LEAN = _TyLean()
TY_LEAN.update({'a': 'α', 'd': 'δ', 'i': 'Int', 'b': 'Bool', 's': 'String',
           # lists (std::vector / std::queue / std::deque) of scalars / integers / booleans
           'la': 'List α', 'ld': 'List δ', 'li': 'List Int', 'lb': 'List Bool',
           # plain encoding with `opaque_elements`: list of opaque elements τ; an element of it; its checked read
           'le': 'List τ', 'e': 'τ', 'oe': 'Option τ',
           # an object of a class listed in the spec's `abstract_classes` (only bodiless virtual calls touch it): its abstract state
           'o': 'σ'})
for _c, _s in (('a', 'α'), ('d', 'δ')):      # phase 3: dynamic Eigen matrices / vectors as functional arrays
    TY_LEAN['M2' + _c] = '(Int → Int → %s)' % _s
    TY_LEAN['M1' + _c] = '(Int → %s)' % _s
for _n in (2, 3, 4):      # checked encoding: std::vector of fixed-size Eigen vectors = lists of coordinate tuples
    for _c, _s in (('a', 'α'), ('d', 'δ'), ('i', 'Int')):
        TY_LEAN['L%d%s' % (_n, _c)] = 'List (%s)' % ' × '.join([_s] * _n)
CLASS_ORDER = ['Add', 'Sub', 'Mul', 'Div', 'Neg', 'LT', 'LE', 'DecidableLT', 'DecidableLE', 'DecidableEq', 'NatCast', 'IntCast',
               'OfScientific', 'Trans', 'Trunc', 'Limits']


def key_name(k):
    if isinstance(k, tuple):
        return '_'.join(str(i) for i in k)
    return str(k)


def path_name(root_name, path):
    return lean_ident('_'.join([root_name] + [key_name(k) for k in path]) if root_name else '_'.join(key_name(k) for k in path))


def key_sort(k):
    return (0, k, '') if isinstance(k, tuple) else (1, (), str(k))


def leaves(obj, prefix=()):
    """sorted (path, Sc) leaves of an object tree"""
    if isinstance(obj, Sc):
        return [(prefix, obj)]
    out = []
    for k in sorted(obj.keys(), key=key_sort):
        out += leaves(obj[k], prefix + (k,))
    return out


def copy_obj(o):
    if isinstance(o, Sc):
        return o
    return {k: copy_obj(v) for k, v in o.items()}


def tuple_proj(r, i, n):
    if n == 1:
        return r
    s = r
    for _ in range(i):
        s += '.2'
    if i < n - 1:
        s += '.1'
    return s


def tuple_type(tys):
    return ' × '.join(TY_LEAN[t] for t in tys) if tys else 'Unit'


def tuple_term(ts):
    if not ts:
        return '()'
    if len(ts) == 1:
        return ts[0]
    return '(' + ', '.join(unpar(t) for t in ts) + ')'


class Alias:
    def __init__(self, root, path):
        self.root, self.path = root, path


class Env:
    """variable state on one execution path. roots: decl id or 'this'. Missing leaves of lazy roots (parameters, `this`,
    and — inside a loop frame — every outer variable) are created on first read through the frame."""

    def __init__(self, frame, outer=None):
        self.frame = frame
        self.outer = outer
        self.vars = {}          # root -> Obj | Alias
        self.local_roots = set()   # roots declared in this frame (reads of missing leaves are errors)

    def copy(self):
        e = Env(self.frame, self.outer)
        e.vars = {k: (v if isinstance(v, Alias) else copy_obj(v)) for k, v in self.vars.items()}
        e.local_roots = set(self.local_roots)
        return e


class Frame:
    """one Lean definition under construction (a function, or the auxiliary function of a loop)"""

    def __init__(self, tr, name, kind, parent=None):
        self.tr = tr
        self.name = name
        self.kind = kind            # 'fn' | 'loop'
        self.parent = parent
        self.params = {}            # lean name -> dict(ty=, key=(root, path), arg=outer term or None)
        self.by_key = {}
        self.used = set()
        self.counters = {}
        self.classes = set()        # (class, 'α'|'δ')
        self.opt = False
        self.fuel = False
        self.written = {}           # (root, path) -> ty   (this / reference parameters)
        self.reserved = set()
        self.nloops = 0
        self.float_map = {}         # 'double'/'float' -> 'a'/'d'
        self.uses_delta = False
        self.root_names = {}        # root -> printable name
        self.ref_out = set()        # roots that are non-const reference parameters
        self.ret_leaves = None
        self.ret_scalar = False
        self.final = True
        self.cxx = name
        self.written_final = None
        self.carried = set()
        self.loop_defs = []

    def top(self):
        f = self
        while f.parent is not None:
            f = f.parent
        return f

    def need(self, cls, ty):
        if ty in ('a', 'd'):
            self.classes.add((cls, ty))
            if ty == 'd':
                self.uses_delta = True

    def fresh(self, base):
        base = lean_ident(base)
        n = self.counters.get(base, 0)
        while True:
            name = base if n == 0 else "%s'%d" % (base, n)
            n += 1
            if name not in self.used and name not in self.reserved:
                break
        self.counters[base] = n
        self.used.add(name)
        return name

    def param(self, key, name, ty, arg=None):
        if key in self.by_key:
            return self.by_key[key]
        nm = lean_ident(name)
        while nm in self.params or (nm in self.used and nm not in self.reserved):
            nm += '_p'
        self.params[nm] = {'ty': ty, 'key': key, 'arg': arg}
        self.by_key[key] = nm
        self.used.add(nm)
        if ty == 'd':
            self.uses_delta = True
        return nm


def decimal_literal(txt):
    """source text of a floating literal -> (mantissa, negated exponent), value = m * 10^(-e), canonical"""
    t = txt.rstrip('fFlL')
    if t.lower().startswith('0x'):
        raise Untranslatable('hexadecimal floating literal ' + txt)
    sign, digits, exp = Decimal(t).as_tuple()
    if sign or not isinstance(exp, int):
        raise Untranslatable('literal ' + txt)
    m = int(''.join(map(str, digits)))
    if exp > 0:
        return m * 10 ** exp, 0
    while m and m % 10 == 0 and exp < 0:
        m //= 10
        exp += 1
    if m == 0:
        return 0, 0
    return m, -exp


LIBM1 = {'sqrt': 'sqrt', 'sin': 'sin', 'cos': 'cos', 'tan': 'tan', 'atan': 'atan', 'asin': 'asin', 'acos': 'acos', 'exp': 'exp',
         'log': 'log', 'fabs': 'abs', 'abs': 'abs', 'floor': 'floor', 'ceil': 'ceil',
         'sqrtf': 'sqrt', 'sinf': 'sin', 'cosf': 'cos', 'tanf': 'tan', 'atanf': 'atan', 'asinf': 'asin', 'acosf': 'acos',
         'expf': 'exp', 'logf': 'log', 'fabsf': 'abs', 'floorf': 'floor', 'ceilf': 'ceil'}
LIBM2 = {'atan2': 'atan2', 'pow': 'pow', 'atan2f': 'atan2', 'powf': 'pow'}
TRANSPARENT = ('ParenExpr', 'MaterializeTemporaryExpr', 'ExprWithCleanups', 'CXXBindTemporaryExpr', 'ConstantExpr',
               'SubstNonTypeTemplateParmExpr')

NOOP_CASTS = ('NoOp', 'UncheckedDerivedToBase', 'DerivedToBase', 'ConstructorConversion', 'UserDefinedConversion', 'BaseToDerived')


def strip_noop(n):
    """through parentheses, temporaries and value-preserving casts (NOT through LValueToRValue)"""
    while True:
        k = n.get('kind')
        if k == 'SubstNonTypeTemplateParmExpr' and n.get('inner'):
            n = n['inner'][-1]      # [the template parameter's declaration, the substituted expression]
        elif k in TRANSPARENT and n.get('inner'):
            n = n['inner'][0]
        elif k in ('ImplicitCastExpr', 'CXXStaticCastExpr', 'CStyleCastExpr', 'CXXFunctionalCastExpr', 'CXXConstCastExpr') \
                and n.get('castKind') in NOOP_CASTS and n.get('inner'):
            n = n['inner'][-1]
        else:
            return n


class FnInfo:
    def __init__(self):
        self.name = None
        self.params = []       # (lean name, ty, root ('this' | param index), path)
        self.fuel = False
        self.opt = False
        self.ret = []          # (path, ty) leaves of the returned value ([((), ty)] for a scalar)
        self.ret_scalar = False
        self.written = []      # (root ('this' | param index), path, ty)
        self.classes = set()
        self.uses_delta = False


class Translator:
    def __init__(self, tu, spec):
        self.tu = tu
        self.spec = spec
        self.out = []            # emitted Lean text blocks, dependency order
        self.fn_cache = {}       # decl id -> FnInfo | Untranslatable
        self.const_cache = {}    # global var name -> (lean name, ty kind) | Untranslatable
        self.names = set()
        self.in_progress = set()
        self.failures = {}       # cxx name -> reason
        self.externs = spec.get('externs', {})   # C++ function name -> dict(lean=, classes=[...]) (e.g. fmod)
        self.actions = spec.get('actions', {})
        self.cur = None
        self.hidden_members = set(h for o in spec.get('oracles', {}).values() for h in o.get('hides', []))      # phase 3

    # ------------------------------------------------------------------ type variables
    def tyvar(self, frame, ctype):
        """Lean type code of a C++ scalar type within `frame`"""
        c = classify(ctype)
        if c in ('double', 'float'):
            m = frame.top().float_map
            if c not in m:
                raise Untranslatable('floating type %s not pre-scanned' % c)
            return m[c]
        if c in ('int', 'uint'):
            return 'i'
        if c == 'bool':
            return 'b'
        if c == 'string':
            return 's'
        if c == 'seq':
            el = list_elem(ctype)
            return 'l' + ('e' if classify(el) == 'agg' else self.tyvar(frame, el))
        if c == 'list':
            return 'l' + self.tyvar(frame, vec_elem(ctype))
        if c == 'dyn':
            st, nidx = dyn_info(ctype)
            return 'M%d%s' % (nidx, self.tyvar(frame, st))
        if c == 'agg' and vec_elem(ctype) is not None and LIST_OPTS['encoding'] == 'checked':      # std::vector of small fixed-size vectors of one scalar type
            sh = self.shape_of(vec_elem(ctype))
            tys = set(self.tyvar(frame, st) for _, st in sh)
            if 2 <= len(sh) <= 4 and len(tys) == 1 and list(tys)[0] in ('a', 'd', 'i') and all(len(p_) == 1 for p_, _ in sh):
                return 'L%d%s' % (len(sh), list(tys)[0])
            if self.is_struct_list(ctype):
                return 'T' + ''.join(self.tyvar(frame, st) for _, st in sh)
        raise Untranslatable('non-scalar type %s where a scalar is needed' % ctype)

    # ------------------------------------------------------------------ lvalues
    def root_name(self, frame, root):
        return frame.top().root_names.get(root, '' if root == 'this' else 'v')

    def const_int(self, n, env):
        si = self.static_int(n)      # phase 2: literals, `static constexpr` members / template arguments (followed by declaration id)
        if si is not None:
            return si
        v = self.eval(n, env, [])
        if v is None or getattr(v, 'lit', None) is None:
            raise Untranslatable('index is not an integer constant')
        return v.lit

    def static_int(self, n, depth=0):
        """value of an integer constant expression made of literals, casts, + - *, and references to const / constexpr
        variables with such an initialiser (None if it is not one)"""
        if depth > 8:
            return None
        n = strip_noop(n)
        k = n.get('kind')
        if k == 'IntegerLiteral':
            return int(n.get('value'))
        if k in ('ImplicitCastExpr', 'CStyleCastExpr', 'CXXStaticCastExpr', 'CXXFunctionalCastExpr') and n.get('inner') \
                and n.get('castKind') in ('LValueToRValue', 'IntegralCast', 'NoOp'):
            return self.static_int(n['inner'][-1], depth + 1)
        if k == 'BinaryOperator' and n.get('opcode') in ('+', '-', '*'):
            a, b = self.static_int(n['inner'][0], depth + 1), self.static_int(n['inner'][1], depth + 1)
            if a is None or b is None:
                return None
            return {'+': a + b, '-': a - b, '*': a * b}[n['opcode']]
        if k == 'DeclRefExpr':
            rd = n.get('referencedDecl') or {}
            if rd.get('kind') == 'EnumConstantDecl':
                return self.tu.enum_consts.get(rd.get('id'))
            v = self.tu.globals.get(rd.get('id')) or self.tu.decl_by_id.get(rd.get('id'))
            if not v or v.get('kind') != 'VarDecl':
                return None
            t = (v.get('type') or {}).get('qualType', '')
            if not (t.startswith('const ') or ' const' in t or v.get('constexpr')):
                return None
            init = [c for c in v.get('inner', []) or [] if c.get('kind', '').endswith('Expr') or c.get('kind', '').endswith('Literal') or c.get('kind', '').endswith('Operator')]
            if not init:
                return None
            return self.static_int(init[0], depth + 1)
        return None

    def resolve_lvalue(self, n, env):
        n = strip_noop(n)
        k = n.get('kind')
        if k == 'DeclRefExpr':
            rd = n.get('referencedDecl') or {}
            rid = rd.get('id')
            e = env
            while e is not None:
                if rid in e.vars and isinstance(e.vars[rid], Alias):
                    a = e.vars[rid]
                    return a.root, list(a.path)
                e = e.outer
            if rd.get('kind') not in ('VarDecl', 'ParmVarDecl'):
                raise Untranslatable('lvalue %s %s' % (rd.get('kind'), rd.get('name')))
            if not self.is_known_root(rid, env):
                raise Untranslatable('global variable `%s` used as an lvalue (hidden state)' % rd.get('name'))
            return rid, []
        if k == 'CXXThisExpr':
            return 'this', []
        if k == 'UnaryOperator' and n.get('opcode') == '*':
            b = strip_noop(n['inner'][0])
            if b.get('kind') == 'CXXThisExpr':
                return 'this', []
            raise Untranslatable('pointer dereference')
        if k == 'ImplicitCastExpr' and n.get('castKind') == 'LValueToRValue' and self.is_object_pointer(n):
            # phase 2: a pointer (member / parameter) to a class object stands for that object: assumes it is not null and does not
            # alias anything else the function touches; assigning such a pointer is not translatable
            return self.resolve_lvalue(n['inner'][0], env)
        if k == 'MemberExpr':
            b = strip_noop(n['inner'][0])
            if b.get('kind') == 'CXXThisExpr':
                return 'this', [n.get('name')]
            if n.get('isArrow') and self.is_object_pointer(b):
                r, p = self.resolve_lvalue(b, env)
                return r, p + [n.get('name')]
            if n.get('isArrow') and not (b.get('kind') == 'CXXOperatorCallExpr' and
                                         (self.callee_ref(b).get('referencedDecl') or {}).get('name') == 'operator->'):
                raise Untranslatable('member access through a pointer')
            r, p = self.resolve_lvalue(b, env)
            return r, p + [n.get('name')]
        if k == 'CXXOperatorCallExpr':
            callee = self.callee_ref(n)
            nm = (callee.get('referencedDecl') or {}).get('name')
            if nm in ('operator[]', 'operator()'):
                r, p = self.resolve_lvalue(n['inner'][1], env)
                idx = tuple(self.const_int(a, env) for a in n['inner'][2:])
                return r, p + [idx]
            if nm in ('operator->', 'operator*') and len(n['inner']) == 2:      # iterator dereference
                return self.resolve_lvalue(n['inner'][1], env)
            raise Untranslatable('operator call %s as an lvalue' % nm)
        if k == 'ImplicitCastExpr' and n.get('castKind') == 'ArrayToPointerDecay' and n.get('inner'):
            return self.resolve_lvalue(n['inner'][0], env)      # phase 5: the array itself (only as the base of a subscript)
        if k == 'ArraySubscriptExpr':
            r, p = self.resolve_lvalue(n['inner'][0], env)
            return r, p + [(self.const_int(n['inner'][1], env),)]
        if k == 'CXXMemberCallExpr':
            callee = self.callee_ref(n)
            nm = callee.get('name')
            t = type_of(callee['inner'][0]) if callee.get('inner') else ''
            if 'Eigen::' in t or 'Matrix<' in t:
                comp = {'x': 0, 'y': 1, 'z': 2, 'w': 3}
                if nm in comp and len(n['inner']) == 1:
                    r, p = self.resolve_lvalue(callee['inner'][0], env)
                    return r, p + [(comp[nm],)]
                if nm in ('coeff', 'coeffRef'):
                    r, p = self.resolve_lvalue(callee['inner'][0], env)
                    return r, p + [tuple(self.const_int(a, env) for a in n['inner'][1:])]
                if nm in ('array', 'matrix') and len(n['inner']) == 1:      # phase 2: the same coefficients, seen as an array / a matrix
                    return self.resolve_lvalue(callee['inner'][0], env)
            if nm in ('front', 'back', 'begin') and len(n['inner']) == 1 and re.search(r'\bstd::|^(const )?(list|map|vector|deque)<', t):
                # first / last element (iterator) of a standard container, as a fixed location: valid as long as the function does
                # not change the container's structure (push_back / insert / erase are not translatable, so it cannot)
                r, p = self.resolve_lvalue(callee['inner'][0], env)
                return r, p + [nm]
            g = self.getter_member(n)
            if g is not None:      # phase 2: `const T & lower() const { return lower_; }` is the member itself
                r, p = self.resolve_lvalue(callee['inner'][0], env)
                return r, p + [g]
            raise Untranslatable('member call %s as an lvalue' % nm)
        raise Untranslatable('unsupported lvalue expression %s' % k)

    def is_object_pointer(self, n):
        """`p` (read) where p is a variable / member of type pointer to a class with a complete definition in the TU"""
        if n.get('kind') != 'ImplicitCastExpr' or n.get('castKind') != 'LValueToRValue' or not n.get('inner'):
            return False
        t = strip_cv(type_of(n))
        if not t.endswith('*'):
            return False
        m = strip_noop(n['inner'][0])
        if m.get('kind') not in ('DeclRefExpr', 'MemberExpr'):
            return False
        return self.find_record(re.sub(r'\b(\d+)[uU]?[lL]{0,2}\b', r'\1', t[:-1].strip()))[1] is not None

    def is_known_root(self, rid, env):
        e = env
        while e is not None:
            if rid in e.vars or rid in e.local_roots:
                return True
            e = e.outer
        return rid in env.frame.top().root_names

    def lookup(self, env, root, path):
        o = env.vars.get(root)
        for k in path:
            if isinstance(o, dict):
                o = o.get(k)
            elif o is None:
                return None
            else:
                raise Untranslatable('component access %s on a scalar' % (key_name(k),))
        return o

    def store(self, env, root, path, val):
        if not path:
            env.vars[root] = val
            return
        o = env.vars.get(root)
        if not isinstance(o, dict):
            o = {}
            env.vars[root] = o
        for k in path[:-1]:
            nx = o.get(k)
            if not isinstance(nx, dict):
                nx = {}
                o[k] = nx
            o = nx
        o[path[-1]] = val

    def read_leaf(self, env, root, path, ty):
        o = self.lookup(env, root, path)
        if isinstance(o, Sc):
            return o
        if isinstance(o, dict):
            raise Untranslatable('aggregate %s read where a scalar is needed' % path_name(self.root_name(env.frame, root), path))
        name = path_name(self.root_name(env.frame, root), path)
        if root in env.local_roots:
            raise Untranslatable('read of uninitialised local `%s`' % name)
        if root == 'this' and path and self.hidden_members and str(path[0]) in self.hidden_members:
            raise Untranslatable('read of the member `%s`, which an oracle of the spec modifies without being modelled' % name)
        key = (root, tuple(path))
        if env.outer is not None:
            osc = self.read_leaf(env.outer, root, path, ty)
            if self.spec.get('unroll_constant_loops') and osc.ty == 'i' and getattr(osc, 'lit', None) is not None:
                # an integer constant of the enclosing code (an unrolled loop's counter) that the loop does not assign: the constant
                sc = sc_lit(Sc(str(osc.lit) if osc.lit >= 0 else '(%d)' % osc.lit, 'i'), osc.lit)
                self.store(env, root, path, sc)
                return sc
            nm = env.frame.param(key, name, osc.ty, arg=osc.t)
            sc = Sc(nm, osc.ty)
        else:
            if root != 'this' and root not in env.frame.root_names:
                raise Untranslatable('read of unknown variable `%s`' % name)
            nm = env.frame.param(key, name, ty)
            sc = Sc(nm, ty)
        self.store(env, root, path, sc)
        return sc

    ARRAY_OF_EIGEN_RE = re.compile(r'^(?:Eigen::)?(Matrix|Vector)([2-4])([df])\s*\[(\d+)\]$')      # phase 5

    def shape_of(self, ctype):
        """leaf paths (with C++ scalar type) of a small aggregate type"""
        t = strip_cv(ctype)
        if LIST_OPTS.get('dyn_sizes') and dyn_info(t) is not None and not t.endswith(DYN_COEF):      # phase 4: coefficients + sizes
            return [(['m'], t + DYN_COEF), (['rows'], 'long')] + ([(['cols'], 'long')] if dyn_info(t)[1] == 2 else [])
        m = re.search(r'Matrix<\s*([\w ]+?)\s*,\s*(-?\d+)\s*,\s*(-?\d+)', t)
        if not m and 'Eigen::Array' in t:      # a fixed-size Eigen::Array has the leaves of the Matrix of the same shape
            m = re.search(r'Array<\s*([\w ]+?)\s*,\s*(-?\d+)\s*,\s*(-?\d+)', t)
        if m:
            r, c = int(m.group(2)), int(m.group(3))
            if r < 1 or c < 1 or r * c > 64:
                raise Untranslatable('matrix type %s has no small fixed size' % t)
            if c == 1 or r == 1:
                return [([(i,)], m.group(1)) for i in range(r * c)]
            return [([(i, j)], m.group(1)) for i in range(r) for j in range(c)]
        tf = self.transform_type(t)
        if tf is not None:      # phase 3: Eigen::Transform<T, 3, Affine> = the coefficients of its 4x4 matrix
            return [([(i, j)], tf) for i in range(4) for j in range(4)]
        ma = self.ARRAY_OF_EIGEN_RE.match(t)
        if ma:      # phase 5: `Eigen::Matrix3d a[N]`: element k is the path component (k,)
            et = 'Eigen::Matrix<%s, %s, %s>' % ({'d': 'double', 'f': 'float'}[ma.group(3)], ma.group(2), ma.group(2) if ma.group(1) == 'Matrix' else '1')
            return [([(kk,)] + p_, st_) for kk in range(int(ma.group(4))) for p_, st_ in self.shape_of(et)]
        rid, rec = self.find_record(t)
        if rec is not None:
            return self.record_shape(rec)
        raise Untranslatable('unknown aggregate type %s' % t)

    def record_shape(self, rec):
        out = []
        for b in rec.get('bases', []) or []:
            out += self.shape_of((b.get('type') or {}).get('desugaredQualType') or (b.get('type') or {}).get('qualType'))
        for c in rec.get('inner', []) or []:
            if c.get('kind') == 'FieldDecl':
                ft = type_of(c)
                if re.match(r'^(?:std::)?(?:recursive_|shared_|timed_)?mutex$', strip_cv(ft)):
                    continue      # a mutex member holds no data of the sequential meaning (like the skipped std::lock_guard declarations)
                if classify(ft) == 'agg' and vec_elem(ft) is not None and self.is_list(ft):
                    out.append(([c['name']], ft))      # phase 5: a std::vector of small Eigen vectors / plain structs is ONE list leaf
                elif classify(ft) == 'agg':
                    out += [([c['name']] + p, st) for p, st in self.shape_of(ft)]
                else:
                    out.append(([c['name']], ft))
        return out

    def read_obj(self, env, root, path, ctype):
        if classify(ctype) != 'agg':
            return self.read_leaf(env, root, path, self.tyvar(env.frame, ctype))
        o = self.lookup(env, root, path)
        lazy = root not in env.local_roots
        if not lazy:
            if o is None:
                return {}
            return copy_obj(o)
        res = {}
        for p, st in self.shape_of(ctype):
            sc = self.read_leaf(env, root, list(path) + p, self.tyvar(env.frame, st))
            cur = res
            for k in p[:-1]:
                cur = cur.setdefault(k, {})
            cur[p[-1]] = sc
        return res

    def write(self, env, root, path, val):
        top = env.frame.top()
        if root == 'this' or root in top.ref_out:
            for p, sc in leaves(val):
                top.written[(root, tuple(path) + p)] = sc.ty
        if env.outer is not None and root not in env.local_roots:
            for p, sc in leaves(val):
                if self.lookup(env, root, list(path) + list(p)) is None or (root, tuple(path) + p) not in env.frame.carried:
                    raise Untranslatable('write to `%s` inside a loop was not recognised as loop-carried'
                                         % path_name(self.root_name(env.frame, root), list(path) + list(p)))
        self.store(env, root, path, val)

    # ------------------------------------------------------------------ literals
    def float_literal(self, n, frame):
        loc = (n.get('range') or {}).get('begin') or {}
        ty = self.tyvar(frame, type_of(n))
        tv = TY_LEAN[ty]
        mac = self.tu.macro_name(loc)
        if mac == 'M_PI':
            frame.need('Trans', ty)
            return Sc('(Trans.pi : %s)' % tv, ty)
        if mac in ('M_PI_2', 'M_PI_4'):      # exactly M_PI / 2, M_PI / 4 in binary floating point
            for cls in ('Trans', 'Div', 'NatCast'):
                frame.need(cls, ty)
            return Sc('((Trans.pi : %s) / ((%d : Nat) : %s))' % (tv, 2 if mac == 'M_PI_2' else 4, tv), ty)
        if mac is not None and mac in self.spec.get('macros', {}):
            return Sc(self.spec['macros'][mac] % {'ty': tv}, ty)
        txt = self.tu.text(loc)
        m, e = decimal_literal(txt)
        if e == 0:
            frame.need('NatCast', ty)
            return Sc('((%d : Nat) : %s)' % (m, tv), ty)
        frame.need('OfScientific', ty)
        return Sc('(OfScientific.ofScientific %d true %d : %s)' % (m, e, tv), ty)

    # ------------------------------------------------------------------ expressions
    def as_prop(self, v):
        if v.ty == 'p':
            return v.t
        if v.ty == 'b':
            if v.t == 'true':
                return 'True'
            if v.t == 'false':
                return 'False'
            return '(%s = true)' % unpar(v.t)
        if v.ty == 'i':
            return '(%s ≠ 0)' % v.t
        raise Untranslatable('scalar used as a condition')

    def as_bool(self, v):
        if v.ty == 'p' and getattr(v, 'lit', None) in (True, False) and v.t in ('True', 'False'):
            return sc_lit(Sc('true' if v.lit else 'false', 'b'), v.lit)
        if v.ty == 'b':
            return v
        if v.ty == 'p':
            return Sc('(decide %s)' % par(v.t), 'b')
        raise Untranslatable('value used as bool')

    def coerce(self, v, ty):
        if v.ty == ty:
            return v
        if ty == 'b':
            return self.as_bool(v)
        if ty == 'p':
            return Sc(self.as_prop(v), 'p')
        raise Untranslatable('type mismatch %s vs %s in %s' % (v.ty, ty, v.t))

    def eval_guarded(self, n, env, what):
        """evaluate a conditionally executed sub-expression (right operand of && / ||, arm of ?:): it must not bind call
        results and must not write anything"""
        e2 = env.copy()
        nw = len(env.frame.top().written)
        p2 = []
        v = self.eval(n, e2, p2)
        if p2:
            raise Untranslatable('call with a tuple / Option result %s' % what)
        if len(env.frame.top().written) != nw or not self.same_values(env, e2):
            raise Untranslatable('side effect %s' % what)
        return v

    def same_values(self, a, b):
        for r, o in a.vars.items():
            if isinstance(o, Alias):
                continue
            ob = b.vars.get(r)
            lb = dict(leaves(ob)) if ob is not None and not isinstance(ob, Alias) else {}
            for p, sc in leaves(o):
                if p in lb and lb[p].t != sc.t:
                    return False
        return True

    def eval(self, n, env, pre):
        frame = env.frame
        k = n.get('kind')
        if k == 'SubstNonTypeTemplateParmExpr' and n.get('inner'):
            return self.eval(n['inner'][-1], env, pre)      # [the parameter's declaration, the substituted value]
        if k in TRANSPARENT:
            return self.eval(n['inner'][0], env, pre)
        if k in ('ImplicitCastExpr', 'CStyleCastExpr', 'CXXStaticCastExpr', 'CXXFunctionalCastExpr', 'CXXConstCastExpr'):
            return self.eval_cast(n, env, pre)
        if k == 'CXXOperatorCallExpr' and self.is_vec_elem(n):      # phase 2: `v[i]` of a std::vector of scalars
            return self.vec_read(n, env, pre)
        if k == 'CXXOperatorCallExpr' and self.is_dyn_elem(n):      # phase 3: `M(i, j)` / `v(i)` / `v[i]` of a dynamic Eigen matrix
            return self.dyn_read(n, env, pre)
        if k == 'MemberExpr' and self.is_vec_elem_member(n):      # phase 5: `v[i].field` of a std::vector of a plain struct (read)
            return self.vec_member_read(n, env, pre)
        if k == 'CXXMemberCallExpr' and self.list_method(n) is not None:
            return self.eval_list_call(n, env, pre)
        if k in ('CXXConstructExpr', 'CXXTemporaryObjectExpr') and classify(type_of(n)) == 'seq':
            return self.list_construct(n, env, pre)
        if k == 'CXXMemberCallExpr' and self.wrapper_method(n) is not None:
            return self.eval_wrapper_call(n, env, pre)
        if k in ('CXXConstructExpr', 'CXXTemporaryObjectExpr', 'CXXScalarValueInitExpr', 'ImplicitValueInitExpr') and scalar_wrapper(type_of(n)) is not None:
            return self.wrapper_construct(n, env, pre)
        if k in ('ImplicitValueInitExpr', 'CXXScalarValueInitExpr') and classify(type_of(n)) in ('int', 'uint', 'double', 'float', 'bool'):
            c4 = classify(type_of(n))      # phase 4: `member_()` in a constructor's initialiser list: value-initialisation = zero
            if c4 in ('int', 'uint'):
                return sc_lit(Sc('0', 'i'), 0)
            if c4 == 'bool':
                return Sc('false', 'b')
            ty4 = self.tyvar(frame, type_of(n))
            frame.need('NatCast', ty4)
            return Sc('((0 : Nat) : %s)' % TY_LEAN[ty4], ty4)
        if k == 'IntegerLiteral':
            v = int(n.get('value'))
            sc = Sc(str(v), 'i')
            sc_lit(sc, v)
            return sc
        if k == 'FloatingLiteral':
            return self.float_literal(n, frame)
        if k == 'CXXBoolLiteralExpr':
            return Sc('true' if n.get('value') else 'false', 'b')
        if k == 'StringLiteral':
            v = n.get('value', '')
            if not (len(v) >= 2 and v[0] == '"' and v[-1] == '"') or '\\' in v:
                raise Untranslatable('string literal %s' % v)
            return Sc(v, 's')
        if k in ('CXXConstructExpr', 'CXXTemporaryObjectExpr') and classify(type_of(n)) == 'string':
            a = [c for c in n.get('inner', []) or [] if c.get('kind') != 'CXXDefaultArgExpr']
            if not a:
                return Sc('""', 's')
            if len(a) == 1:
                return self.eval(a[0], env, pre)
            raise Untranslatable('std::string constructor with %d arguments' % len(a))
        if k == 'UnaryOperator':
            return self.eval_unary(n, env, pre)
        if k == 'BinaryOperator':
            return self.eval_binary(n, env, pre)
        if k == 'ConditionalOperator' and self.spec.get('fold_constant_conditions'):
            c0 = self.eval_guarded(n['inner'][0], env, 'in the condition of a conditional expression')
            if c0.ty == 'p' and getattr(c0, 'lit', None) in (True, False):
                return self.eval(n['inner'][1 if c0.lit else 2], env, pre)
        if k == 'ConditionalOperator':
            c = self.eval(n['inner'][0], env, pre)
            a = self.eval_guarded(n['inner'][1], env, 'inside a conditional expression')
            b = self.eval_guarded(n['inner'][2], env, 'inside a conditional expression')
            if a.ty != b.ty:
                b = self.coerce(b, a.ty)
            return Sc('(if %s then %s else %s)' % (unpar(self.as_prop(c)), unpar(a.t), unpar(b.t)), a.ty)
        if k == 'CXXMemberCallExpr' and n.get('valueCategory') == 'lvalue' and self.callee_ref(n).get('name') in ('front', 'back') \
                and classify(type_of(n)) != 'agg':
            return self.read_lvalue_scalar(n, env)
        if k in ('DeclRefExpr', 'MemberExpr', 'CXXOperatorCallExpr', 'ArraySubscriptExpr') and n.get('valueCategory') == 'lvalue':
            if k == 'DeclRefExpr' and (n.get('referencedDecl') or {}).get('kind') == 'EnumConstantDecl':
                return self.enum_const(n, frame)
            return self.read_lvalue_scalar(n, env)
        if k == 'DeclRefExpr' and (n.get('referencedDecl') or {}).get('kind') == 'EnumConstantDecl':
            return self.enum_const(n, frame)
        if k in ('CallExpr', 'CXXMemberCallExpr', 'CXXOperatorCallExpr'):
            v = self.eval_call(n, env, pre)
            if isinstance(v, dict):
                raise Untranslatable('aggregate call result where a scalar is needed')
            return v
        if k == 'CXXDefaultArgExpr':
            raise Untranslatable('default argument')
        raise Untranslatable('unsupported expression %s' % k)

    def enum_const(self, n, frame):
        rd = n.get('referencedDecl') or {}
        v = self.tu.enum_consts.get(rd.get('id'))
        if v is None:
            raise Untranslatable('enumeration constant %s without a known value' % rd.get('name'))
        sc = Sc(str(v) if v >= 0 else '(%d)' % v, 'i')
        sc.lit = v
        return sc

    def read_lvalue_scalar(self, n, env):
        frame = env.frame
        m = strip_noop(n)
        if self.spec.get('whole_containers'):
            r = self.iter_member_read(m, env)      # `it->field` of an iterator into a whole container
            if r is not None:
                return r
        if self.is_list_index(m):
            return self.list_get(m, env, None)
        if m.get('kind') == 'CXXMemberCallExpr' and self.list_method(m) is not None:
            return self.eval_list_call(m, env, None)
        if m.get('kind') == 'CXXMemberCallExpr' and self.wrapper_method(m) is not None:
            return self.eval_wrapper_call(m, env, None)
        if m.get('kind') == 'DeclRefExpr':
            rd = m.get('referencedDecl') or {}
            if rd.get('kind') == 'VarDecl' and not self.is_known_root(rd.get('id'), env) and not self.is_alias(rd.get('id'), env):
                if classify(type_of(n)) in ('int', 'uint') and (self.tu.records.get(self.tu.parent.get(rd.get('id'))) or {}).get('kind') == 'ClassTemplateSpecializationDecl':
                    # phase 3: a static constant of a class template SPECIALISATION (`C<T>::DIM`): its value for this instantiation,
                    # followed by declaration id (a definition by name would be shared by every instantiation)
                    si = self.static_int(m)
                    if si is not None:
                        return sc_lit(Sc(str(si) if si >= 0 else '(%d)' % si, 'i'), si)
                return self.global_const(rd, type_of(n), frame)
        root, path = self.resolve_lvalue(n, env)
        return self.read_leaf(env, root, path, self.tyvar(frame, type_of(n)))

    def is_alias(self, rid, env):
        e = env
        while e is not None:
            if isinstance(e.vars.get(rid), Alias):
                return True
            e = e.outer
        return False

    def eval_cast(self, n, env, pre):
        frame = env.frame
        ck = n.get('castKind')
        inner = n['inner'][-1]
        if ck == 'LValueToRValue':
            m = strip_noop(inner)
            if m.get('kind') == 'ConditionalOperator':
                return self.eval(m, env, pre)
            if m.get('kind') == 'CXXOperatorCallExpr' and self.is_vec_elem(m):      # phase 2
                return self.vec_read(m, env, pre)
            if m.get('kind') == 'CXXOperatorCallExpr' and self.is_dyn_elem(m):      # phase 3
                return self.dyn_read(m, env, pre)
            if m.get('kind') == 'MemberExpr' and self.is_vec_elem_member(m):      # phase 5
                return self.vec_member_read(m, env, pre)
            if m.get('kind') == 'UnaryOperator' and m.get('opcode') in ('++', '--') and not m.get('isPostfix'):      # phase 2: `--n == 0`
                return self.eval(m, env, pre)
            if m.get('kind') == 'CallExpr':      # a function returning a reference to a scalar (std::min / std::max, ...)
                return self.eval_call(m, env, pre)
            if m.get('kind') == 'CXXMemberCallExpr':
                cr = self.callee_ref(m)
                if self.function_def(cr.get('referencedMemberDecl') or (cr.get('referencedDecl') or {}).get('id')) is not None:
                    return self.eval_call(m, env, pre)
            return self.read_lvalue_scalar(inner, env)
        if ck == 'IntegralCast' and self.spec.get('unsigned_wrap'):
            v = self.eval(inner, env, pre)
            return self.int_convert(v, type_of(inner), type_of(n)) if v is not None and v.ty == 'i' else v
        if ck in NOOP_CASTS or ck in ('IntegralCast', 'ArrayToPointerDecay'):
            return self.eval(inner, env, pre)
        if ck == 'ToVoid':
            return None
        if ck == 'IntegralToFloating':
            v = self.eval(inner, env, pre)
            ty = self.tyvar(frame, type_of(n))
            lit = getattr(v, 'lit', None)
            if lit is not None and lit >= 0:
                frame.need('NatCast', ty)
                return Sc('((%d : Nat) : %s)' % (lit, TY_LEAN[ty]), ty)
            if lit is not None:
                frame.need('NatCast', ty)
                frame.need('Neg', ty)
                return Sc('(-((%d : Nat) : %s))' % (-lit, TY_LEAN[ty]), ty)
            frame.need('IntCast', ty)
            return Sc('((%s : Int) : %s)' % (unpar(v.t), TY_LEAN[ty]), ty)
        if ck == 'FloatingCast':
            nl = self.literal_at(inner, self.tyvar(frame, type_of(n)), frame)      # phase 2: `(float) 0.5` is the literal 0.5
            if nl is not None:
                return nl
            v = self.eval(inner, env, pre)
            ty = self.tyvar(frame, type_of(n))
            if ty == v.ty:
                return v
            frame.classes.add(('DoubleConv', 'a'))
            frame.uses_delta = True
            frame.top().uses_delta = True
            if v.ty == 'a' and ty == 'd':
                return Sc('(DoubleConv.up %s : δ)' % par(v.t), 'd')
            return Sc('(DoubleConv.down %s : α)' % par(v.t), 'a')
        if ck == 'FloatingToIntegral' and strip_noop(inner).get('kind') == 'FloatingLiteral':
            fl = strip_noop(inner)
            loc = (fl.get('range') or {}).get('begin') or {}
            if self.tu.macro_name(loc) is None:
                mant, ex = decimal_literal(self.tu.text(loc))
                if ex == 0:      # an integral floating literal converted to an integer type: the integer itself (exact in C++)
                    return sc_lit(Sc(str(mant), 'i'), mant)
        if ck == 'FloatingToIntegral':
            v = self.eval(inner, env, pre)
            frame.need('Trunc', v.ty)
            return Sc('(Trunc.trunc %s)' % par(v.t), 'i')
        if ck in ('IntegralToBoolean',):
            v = self.eval(inner, env, pre)
            return Sc('(%s ≠ 0)' % v.t, 'p')
        if ck == 'NullToPointer' and LIST_OPTS.get('pointer_arrays') and classify(type_of(n)) == 'seq':
            # (C08) the null pointer, as an array: no element (every access through it is undefined behaviour in C++, the default here)
            lty = self.tyvar(frame, type_of(n))
            return Sc('([] : %s)' % TY_LEAN[lty], lty)
        raise Untranslatable('cast %s' % ck)

    def eval_unary(self, n, env, pre):
        frame = env.frame
        op = n.get('opcode')
        if op in ('++', '--') and n.get('isPostfix') is False and pre is not None and self.spec.get('incr_encoding', 'inline') == 'let':
            # spec key `incr_encoding: 'let'`: `++x` as a sub-expression that is evaluated unconditionally: the variable is updated
            # through a `let`, the new value (the bound name) is the result
            root, path = self.resolve_lvalue(n['inner'][0], env)
            cur = self.read_leaf(env, root, path, 'i')
            if cur.ty != 'i':
                raise Untranslatable('++/-- on a non-integer')
            v = Sc('(%s %s 1)' % (par(cur.t), '+' if op == '++' else '-'), 'i')
            if self.spec.get('unroll_constant_loops') and getattr(cur, 'lit', None) is not None:
                sc_lit(v, cur.lit + (1 if op == '++' else -1))
            v = self.uwrap(v, type_of(n['inner'][0]))
            nm = frame.fresh(path_name(self.root_name(frame, root), path))
            pre.append(('let', nm, unpar(v.t)))
            nv = sc_copy_lit(Sc(nm, 'i'), v if self.spec.get('unroll_constant_loops') else None)
            self.write(env, root, path, nv)
            return nv
        if op in ('++', '--'):
            return self.eval_incr(n, env, pre)      # (default `incr_encoding: 'inline'`, and every case the 'let' form does not cover)
        v = self.eval(n['inner'][0], env, pre)
        if op == '+':
            return v
        if op == '-':
            lit = getattr(v, 'lit', None)
            if lit is not None:
                sc = Sc('(%d)' % (-lit) if lit > 0 else str(-lit), 'i')
                sc_lit(sc, -lit)
                return sc
            if v.ty == 'i':
                return self.uwrap(Sc('(-%s)' % par(v.t), v.ty), type_of(n))
            frame.need('Neg', v.ty)
            return Sc('(-%s)' % par(v.t), v.ty)
        if op == '!':
            return Sc('(¬ %s)' % par(self.as_prop(v)), 'p')
        raise Untranslatable('unary operator %s' % op)

    CMP = {'<': ('%s < %s', 'LT'), '>': ('%s < %s', 'LT'), '<=': ('%s ≤ %s', 'LE'), '>=': ('%s ≤ %s', 'LE'),
           '==': ('%s = %s', 'EQ'), '!=': ('%s ≠ %s', 'EQ')}

    def eval_binary(self, n, env, pre):
        frame = env.frame
        op = n.get('opcode')
        if op in ('=', ','):
            raise Untranslatable('assignment / comma inside an expression')
        if op in ('&&', '||'):
            a = self.eval(n['inner'][0], env, pre)
            b = self.eval_guarded(n['inner'][1], env, 'on the right of a short-circuit operator')
            return Sc('(%s %s %s)' % (par(self.as_prop(a)), '∧' if op == '&&' else '∨', par(self.as_prop(b))), 'p')
        a = self.eval(n['inner'][0], env, pre)
        b = self.eval(n['inner'][1], env, pre)
        if op in self.CMP:
            fmt, cls = self.CMP[op]
            if a.ty in ('b', 'p') or b.ty in ('b', 'p'):
                a, b = self.as_bool(a), self.as_bool(b)
            if a.ty != b.ty:
                raise Untranslatable('comparison of different scalar kinds')
            if op in ('>', '>='):
                a, b = b, a
            la, lb = getattr(a, 'lit', None), getattr(b, 'lit', None)
            if a.ty == 'i' and la is not None and lb is not None and self.spec.get('fold_constant_conditions'):
                # a comparison of two integer constants (template parameters): decided here
                # (a, b are already swapped for > and >=)
                val = {'<': la < lb, '>': la < lb, '<=': la <= lb, '>=': la <= lb, '==': la == lb, '!=': la != lb}[op]
                return sc_lit(Sc('True' if val else 'False', 'p'), val)
            if cls == 'EQ':
                if a.ty in ('a', 'd'):
                    frame.need('DecidableEq', a.ty)
            else:
                frame.need(cls, a.ty)
                frame.need('Decidable' + cls, a.ty)
            return Sc('(' + fmt % (par(a.t), par(b.t)) + ')', 'p')
        if a.ty != b.ty:
            raise Untranslatable('arithmetic on different scalar kinds (%s %s %s)' % (a.t, op, b.t))
        if a.ty == 'i':
            if op in ('+', '-', '*'):
                la, lb = getattr(a, 'lit', None), getattr(b, 'lit', None)
                sc = Sc('(%s %s %s)' % (par(a.t), op, par(b.t)), 'i')
                if la is not None and lb is not None:
                    sc_lit(sc, {'+': la + lb, '-': la - lb, '*': la * lb}[op])
                return self.uwrap(sc, type_of(n))
            if op == '/':
                return Sc('(Int.tdiv %s %s)' % (par(a.t), par(b.t)), 'i')
            if op == '%':
                return Sc('(Int.tmod %s %s)' % (par(a.t), par(b.t)), 'i')
            raise Untranslatable('integer operator %s' % op)
        if a.ty in ('a', 'd'):
            cls = {'+': 'Add', '-': 'Sub', '*': 'Mul', '/': 'Div'}.get(op)
            if not cls:
                raise Untranslatable('floating operator %s' % op)
            frame.need(cls, a.ty)
            return Sc('(%s %s %s)' % (par(a.t), op, par(b.t)), a.ty)
        raise Untranslatable('operator %s on %s' % (op, a.ty))

    # ------------------------------------------------------------------ namespace-scope constants
    def global_const(self, rd, use_ctype, frame):
        name = rd.get('name')
        if name not in self.const_cache:
            self.const_cache[name] = self.make_const(rd)
        c = self.const_cache[name]
        if isinstance(c, Untranslatable):
            raise c
        lean, kind, classes, lit = c
        if kind == 'float':
            ty = self.tyvar(frame, use_ctype)
            for cls in classes:
                frame.need(cls, ty)
            return Sc('(%s : %s)' % (lean, TY_LEAN[ty]), ty)
        if kind == 'int':
            sc = Sc(lean, 'i')
            return sc
        return Sc(lean, 'b')

    def make_const(self, rd):
        name = rd.get('name')
        v = self.tu.globals.get(rd.get('id'))
        if v is None:
            cands = [g for g in self.tu.globals.values() if g.get('name') == name]
            if not cands:
                self.tu.load_global(name)
                cands = [g for g in self.tu.globals.values() if g.get('name') == name]
            cands = [g for g in cands if g.get('init')] or cands
            if len(cands) != 1:
                return Untranslatable('global `%s` not found uniquely in the translation unit (%d candidates)' % (name, len(cands)))
            v = cands[0]
        t = (v.get('type') or {}).get('qualType', '')
        if not (t.startswith('const ') or ' const' in t or v.get('constexpr')):
            return Untranslatable('read of the mutable global variable `%s` (hidden state)' % name)
        init = [c for c in v.get('inner', []) or [] if c.get('kind', '').endswith('Expr') or c.get('kind', '').endswith('Literal') or c.get('kind', '').endswith('Operator')]
        if not v.get('init') or not init:
            return Untranslatable('constant `%s` has no initialiser in the translation unit' % name)
        c = classify(type_of(v))
        fr = Frame(self, name, 'const')
        fr.float_map = {c: 'a'} if c in ('double', 'float') else {'double': 'a'}
        try:
            pre = []
            sc = self.eval(init[0], Env(fr), pre)
            if pre:
                raise Untranslatable('initialiser of `%s` needs a call' % name)
        except Untranslatable as e:
            return Untranslatable('constant `%s`: %s' % (name, e))
        lean = lean_ident(name)
        where = self.tu.where(v)
        if c in ('double', 'float'):
            classes = [cl for cl in CLASS_ORDER if (cl, 'a') in fr.classes]
            hdr = ' '.join('[%s α]' % cl for cl in classes)
            self.emit('/-- `%s` (%s) — %s -/\ndef %s {α : Type} %s : α := %s' % (name, t, where, lean, hdr, unpar(sc.t)))
            return lean, 'float', classes, None
        if c in ('int', 'uint'):
            self.emit('/-- `%s` (%s) — %s -/\ndef %s : Int := %s' % (name, t, where, lean, unpar(sc.t)))
            return lean, 'int', [], sc.lit
        if c == 'bool':
            self.emit('/-- `%s` (%s) — %s -/\ndef %s : Bool := %s' % (name, t, where, lean, unpar(self.as_bool(sc).t)))
            return lean, 'bool', [], None
        return Untranslatable('constant `%s` of type %s' % (name, t))

    def emit(self, text):
        self.out.append(text)

    # ------------------------------------------------------------------ calls
    def callee_ref(self, n):
        c = n['inner'][0]
        while c.get('kind') in ('ImplicitCastExpr', 'ParenExpr') and c.get('inner'):
            c = c['inner'][0]
        return c

    def map_ty(self, info, ty, frame):
        """type code of the callee -> type code of the caller"""
        if ty in ('la', 'ld'):
            return 'l' + self.map_ty(info, ty[1], frame)
        if len(ty) == 3 and ty[0] in ('L', 'M') and ty[2] in ('a', 'd'):
            return ty[:2] + self.map_ty(info, ty[2], frame)
        if ty not in ('a', 'd'):
            return ty
        inv = {v: k for k, v in info.float_map.items()}
        c = inv.get(ty)
        top = frame.top()
        if c not in top.float_map:
            if 'd' in top.float_map.values() or c != 'double':
                raise Untranslatable('callee %s needs a floating type the caller does not have' % info.name)
            top.float_map['double'] = 'd'
            top.uses_delta = True
        return top.float_map[c]

    def eval_call(self, n, env, pre):
        frame = env.frame
        k = n.get('kind')
        if self.spec.get('dyn_sizes'):      # phase 4: `rows()`, `dot`, `resize`, `setConstant` … on dynamic-size Eigen objects
            r4 = self.dynx_call(n, env, pre)
            if r4 is not NotImplemented:
                return r4
        if k == 'CXXMemberCallExpr' and self.list_method(n) is not None:
            return self.eval_list_call(n, env, pre)
        if k == 'CXXMemberCallExpr' and self.wrapper_method(n) is not None:
            return self.eval_wrapper_call(n, env, pre)
        if k == 'CXXMemberCallExpr' and self.spec.get('abstract_classes') and self.abstract_call(n) is not None:
            return self.eval_abstract_call(n, env, pre)
        if self.spec.get('whole_containers'):
            if self.iter_compare(n) is not None:
                return self.eval_iter_compare(n, env)
            if self.whole_insert(n, frame) is not None:
                return self.eval_whole_insert(n, env, pre)
            if k == 'CXXOperatorCallExpr' and self.iter_incr(n) is not None:
                return self.iter_value(n, env)[0]
        if k == 'CXXOperatorCallExpr' and len(n['inner']) == 3 and is_duration(type_of(n['inner'][1])) and \
                strip_cv(type_of(n['inner'][1])) == strip_cv(type_of(n['inner'][2])):
            # arithmetic / comparison of two std::chrono::durations of the SAME type: on their counts
            nm = (self.callee_ref(n).get('referencedDecl') or {}).get('name')
            if nm in ('operator+', 'operator-') and strip_cv(type_of(n)) == strip_cv(type_of(n['inner'][1])):
                a = self.eval(n['inner'][1], env, pre)
                b = self.eval(n['inner'][2], env, pre)
                return Sc('(%s %s %s)' % (par(a.t), nm[-1], par(b.t)), 'i')
            if nm in ('operator<', 'operator>', 'operator<=', 'operator>=', 'operator==', 'operator!='):
                a = self.eval(n['inner'][1], env, pre)
                b = self.eval(n['inner'][2], env, pre)
                fmt, cls = self.CMP[nm[len('operator'):]]
                if nm in ('operator>', 'operator>='):
                    a, b = b, a
                return Sc('(' + fmt % (par(a.t), par(b.t)) + ')', 'p')
        if k == 'CallExpr' and not n['inner'][1:] and is_duration(type_of(n)) and \
                (self.callee_ref(n).get('referencedDecl') or {}).get('name') == 'zero':
            return sc_lit(Sc('0', 'i'), 0)      # std::chrono::duration<...>::zero()
        if k == 'CXXOperatorCallExpr':
            callee = self.callee_ref(n)
            nm = (callee.get('referencedDecl') or {}).get('name')
            if nm in ('operator[]', 'operator()'):
                return self.read_lvalue_scalar(n, env)
            if nm == 'operator+' and classify(type_of(n)) == 'string' and len(n['inner']) == 3:
                a = self.eval(n['inner'][1], env, pre)
                b = self.eval(n['inner'][2], env, pre)
                if a.ty != 's' or b.ty != 's':
                    raise Untranslatable('operator+ on a string and a non-string')
                return Sc('(%s ++ %s)' % (par(a.t), par(b.t)), 's')
            if nm in ('operator->', 'operator*') and len(n['inner']) == 2:
                return self.read_lvalue_scalar(n, env)
            raise Untranslatable('operator call %s' % nm)
        if k == 'CXXMemberCallExpr':
            callee = self.callee_ref(n)
            mid = callee.get('referencedMemberDecl')
            base = callee['inner'][0] if callee.get('inner') else None
            if callee.get('name') in self.spec.get('oracles', {}):      # phase 3: a member function that stays an ORACLE (spec key `oracles`)
                return self.oracle_call(callee.get('name'), mid, base, n, env, pre)
            decl = self.method_def(mid)
            if decl is not None:
                this_lv = self.resolve_lvalue(base, env)
                return self.call_fn(decl, this_lv, n['inner'][1:], env, pre)
            nm = callee.get('name')
            bt = type_of(base) if base else ''
            if ('Eigen::' in bt or 'Matrix<' in bt) and nm in ('x', 'y', 'z', 'w', 'coeff', 'coeffRef'):
                return self.read_lvalue_scalar(n, env)
            if ('Eigen::' in bt or 'Matrix<' in bt) and nm in ('norm', 'squaredNorm') and len(n['inner']) == 1:
                # Eigen fixed-size vector: sqrt of the sum of squares taken left to right (trusted reading of Eigen's redux)
                obj = self.eval_obj(base, env, pre)
                lv = leaves(obj)
                if not lv or isinstance(obj, Sc):
                    raise Untranslatable('norm() of an object without known components')
                ty = lv[0][1].ty
                frame.need('Mul', ty)
                acc = '(%s * %s)' % (par(lv[0][1].t), par(lv[0][1].t))
                for _, sc in lv[1:]:
                    frame.need('Add', ty)
                    acc = '(%s + (%s * %s))' % (acc, par(sc.t), par(sc.t))
                if nm == 'squaredNorm':
                    return Sc(acc, ty)
                frame.need('Trans', ty)
                return Sc('(Trans.sqrt %s)' % acc, ty)
            r2 = self.member_call_phase2(nm, base, bt, n, env, pre)
            if r2 is not NotImplemented:
                return r2
            if ('Eigen::' in bt or 'Matrix<' in bt) and nm == 'dot' and len(n['inner']) == 2:
                # fixed-size vectors: (a0*b0 + a1*b1) + a2*b2, sum taken left to right (trusted reading of Eigen's redux, as for norm())
                A = self.eval_obj(base, env, pre)
                B = self.eval_obj(n['inner'][1], env, pre)
                la_, lb_ = (leaves(A) if isinstance(A, dict) else []), (leaves(B) if isinstance(B, dict) else [])
                if not la_ or [p for p, _ in la_] != [p for p, _ in lb_]:
                    raise Untranslatable('dot() of objects without matching known components')
                ety = self.elem_ctype(bt)
                acc = None
                for (_, x), (_, y) in zip(la_, lb_):
                    if x.ty != y.ty:
                        raise Untranslatable('dot() of different scalar types')
                    t = self.arith('*', x, y, ety, frame)
                    acc = t if acc is None else self.arith('+', acc, t, ety, frame)
                return acc
            if (self.spec.get('uninterpreted', {}).get(nm) or {}).get('member') and 'const' in type_of(base):
                # phase 6 (C08): a member function without a body, listed as `uninterpreted: {name: {'member': True}}`, called on a CONST object
                # (`data_source.kdtree_get_pt(idx, dim)`): an uninterpreted function of its scalar arguments — a parameter of the translated
                # function; its dependence on the (unchanging) object is the parameter itself
                vs = [self.eval(a, env, pre) for a in n['inner'][1:]]
                rty = self.tyvar(frame, type_of(n))
                fty = ' → '.join([TY_LEAN[v.ty] for v in vs] + [TY_LEAN[rty]])
                fn = self.uninterp_param(env, nm, fty)
                return Sc('(%s %s)' % (fn, ' '.join(par(v.t) for v in vs)), rty)
            return self.unknown_call(nm, n, env, pre)
        callee = self.callee_ref(n)
        rd = callee.get('referencedDecl') or {}
        nm = rd.get('name')
        args = n['inner'][1:]
        decl = self.function_def(rd.get('id')) if nm not in self.spec.get('uninterpreted', {}) else None
        if decl is None and nm not in self.spec.get('uninterpreted', {}):
            decl = self.function_by_signature(rd)      # phase 3: a function of another dump pass (anonymous namespace)
        if decl is not None:
            return self.call_fn(decl, None, args, env, pre)
        if nm == 'copy' and len(args) == 3 and self.std_copy_data(args, env, pre):      # phase 3: std::copy(A.data(), A.data() + K, B.data())
            return None
        if nm in ('epsilon', 'max', 'lowest', 'min') and not args:
            m = re.match(r'^\s*(std::)?numeric_limits<\s*(double|float)\s*>::(epsilon|max|lowest|min)\s*\(\s*\)\s*$', self.tu.range_text(n))
            if m:      # the scalar type's Limits instance (RomeaModel/Scalar.lean)
                ty = self.tyvar(frame, type_of(n))
                frame.need('Limits', ty)
                fld = {'epsilon': 'eps', 'max': 'maxVal', 'lowest': 'lowest', 'min': 'minPos'}[m.group(3)]
                return Sc('(Limits.%s : %s)' % (fld, TY_LEAN[ty]), ty)
        if nm in ('epsilon', 'max', 'lowest', 'min') and not args and classify(type_of(n)) in ('double', 'float'):
            # phase 2: `std::numeric_limits<Scalar>::max()` with a type alias: the floating type is the call's result type
            m = re.match(r'^\s*(std::)?numeric_limits<\s*(?:typename\s+)?[\w:]+\s*>::(epsilon|max|lowest|min)\s*\(\s*\)\s*$', self.tu.range_text(n))
            if m:
                ty = self.tyvar(frame, type_of(n))
                frame.need('Limits', ty)
                fld = {'epsilon': 'eps', 'max': 'maxVal', 'lowest': 'lowest', 'min': 'minPos'}[m.group(2)]
                return Sc('(Limits.%s : %s)' % (fld, TY_LEAN[ty]), ty)
        if nm in ('epsilon', 'max', 'lowest', 'min') and not args and classify(type_of(n)) in ('double', 'float'):
            # (C08) the macro-proof spelling `(std::numeric_limits<T>::max)()` (parenthesised callee)
            m = re.match(r'^\s*\(\s*(std::)?numeric_limits<\s*(?:typename\s+)?[\w:]+\s*>::(epsilon|max|lowest|min)\s*\)\s*\(\s*\)\s*$', self.tu.range_text(n))
            if m:
                ty = self.tyvar(frame, type_of(n))
                frame.need('Limits', ty)
                fld = {'epsilon': 'eps', 'max': 'maxVal', 'lowest': 'lowest', 'min': 'minPos'}[m.group(2)]
                return Sc('(Limits.%s : %s)' % (fld, TY_LEAN[ty]), ty)
        if nm == 'quiet_NaN' and not args and re.match(r'^\s*(std::)?numeric_limits<\s*(double|float)\s*>::quiet_NaN\s*\(\s*\)\s*$', self.tu.range_text(n)):
            # a NaN: 0 / 0 (NaN at every IEEE type and at RN; the totalised reals have no NaN: the value is junk there)
            ty = self.tyvar(frame, type_of(n))
            frame.need('NatCast', ty)
            frame.need('Div', ty)
            return Sc('(((0 : Nat) : %s) / ((0 : Nat) : %s))' % (TY_LEAN[ty], TY_LEAN[ty]), ty)
        if nm in self.spec.get('uninterpreted', {}):
            vs = [self.eval(a, env, pre) for a in args]
            rty = self.tyvar(frame, type_of(n))
            fty = ' → '.join([TY_LEAN[v.ty] for v in vs] + [TY_LEAN[rty]])
            fn = self.uninterp_param(env, nm, fty)
            return Sc('(%s %s)' % (fn, ' '.join(par(v.t) for v in vs)), rty)
        if nm in self.externs:
            ext = self.externs[nm]
            ty = self.tyvar(frame, type_of(n))
            vs = [self.convert(self.eval(a, env, pre), frame, type_of(n)) for a in args]
            for cls in ext.get('classes', []):
                frame.need(cls, ty)
            return Sc('(%s %s)' % (ext['lean'], ' '.join(par(v.t) for v in vs)), ty)
        if nm in LIBM1 and len(args) == 1:
            v = self.eval(args[0], env, pre)
            if v.ty == 'i':
                if nm == 'abs':
                    return Sc('((Int.natAbs %s : Nat) : Int)' % par(v.t), 'i')
                raise Untranslatable('libm function %s on an integer' % nm)
            frame.need('Trans', v.ty)
            return Sc('(Trans.%s %s)' % (LIBM1[nm], par(v.t)), v.ty)
        if nm in LIBM2 and len(args) == 2:
            a = self.eval(args[0], env, pre)
            b = self.eval(args[1], env, pre)
            if a.ty != b.ty:      # std::pow(double, int) etc.: libstdc++ promotes both to the result type
                a, b = self.promote(a, frame, type_of(n)), self.promote(b, frame, type_of(n))
            if LIBM2[nm] == 'pow' and a.ty in ('a', 'd') and re.match(r'^\(\(2 : Nat\) : [αδ]\)$', b.t):
                # pow(x, 2) is x * x (gcc folds it at every optimisation level; the models write it that way)
                frame.need('Mul', a.ty)
                return Sc('(%s * %s)' % (par(a.t), par(a.t)), a.ty)
            if a.ty != b.ty or a.ty not in ('a', 'd'):
                raise Untranslatable('mixed argument types of %s' % nm)
            frame.need('Trans', a.ty)
            return Sc('(Trans.%s %s %s)' % (LIBM2[nm], par(a.t), par(b.t)), a.ty)
        if nm in ('min', 'max') and len(args) == 2:
            a = self.eval(args[0], env, pre)
            b = self.eval(args[1], env, pre)
            if a.ty != b.ty:
                raise Untranslatable('mixed argument types of std::%s' % nm)
            if a.ty in ('a', 'd'):
                frame.need('LT', a.ty)
                frame.need('DecidableLT', a.ty)
            # std::min(a,b) = (b < a) ? b : a ;  std::max(a,b) = (a < b) ? b : a
            c = '%s < %s' % ((par(b.t), par(a.t)) if nm == 'min' else (par(a.t), par(b.t)))
            return Sc('(if %s then %s else %s)' % (c, unpar(b.t), unpar(a.t)), a.ty)
        if nm == 'fill' and len(args) == 3 and pre is not None and re.match(r'^\s*(std::)?fill\s*\(', self.tu.range_text(n)):
            # std::fill(std::begin(v), std::end(v), x) / std::fill(v.begin(), v.end(), x) over a WHOLE list-encoded container
            r = self.fill_whole_list(args, env, pre)
            if r is not NotImplemented:
                return r
        return self.unknown_call(nm, n, env, pre)

    # ---- whole containers (spec option `whole_containers`): a `std::list<R>` / `std::vector<R>` of a record R whose fields are all
    #      scalars / strings / enums is ONE leaf of type `List (T1 × T2 × …)` (the fields in ALPHABETICAL order, like every aggregate's
    #      leaves); a `std::map<K, V>` of scalars / strings is ONE leaf `List (K × V)` = its entries in iteration order, i.e. ascending
    #      keys: key order and uniqueness are an INVARIANT of that representation (kept by the generated `mapInsertNew`), not enforced
    #      by the type. An iterator into such a container is an `Int` index into the list (`begin` = 0, `end` = the length, `++it` =
    #      `it + 1`, `it->f` = the projection of `List.getD l it <default element>`: dereferencing `end()` is undefined behaviour in C++,
    #      the default element stands for it). Recognised: `std::(c)begin/(c)end(c)`, `c.(c)begin/(c)end()`, iterator variables,
    #      `++it` / `--it` (statement or value), `it == / != it'`, `it->field`, `l.insert(end(l), begin(l2), end(l2))` (= `l ++ l2`),
    #      `m.insert(begin(m2), end(m2))` (= `List.foldl mapInsertNew m m2`: entries whose key is present keep their value).
    ITER_RE = re.compile(r'^(?:const )?(?:std::)?(?:_List_(?:const_)?iterator|_Rb_tree_(?:const_)?iterator|__gnu_cxx::__normal_iterator)<')

    def whole_code(self, ctype, frame):
        """type code of a container translated as a whole (None: not such a type); the code is registered in TY_LEAN"""
        if not self.spec.get('whole_containers'):
            return None
        t = strip_cv(ctype)
        m = re.match(r'^(?:std::)?(?:__cxx11::)?(list|vector|map)<', t)
        if not m:
            return None
        cache = self.__dict__.setdefault('whole_cache', {})
        key = (t, tuple(sorted(frame.top().float_map.items())))
        if key in cache:
            return cache[key]
        res = None
        try:
            if m.group(1) == 'map':
                kt = first_template_arg(t)
                rest = t[t.index('<') + 1 + len(kt):].lstrip(' ,')
                vt = first_template_arg('<' + rest)
                if classify(kt) in ('int', 'uint', 'string', 'double', 'float') and classify(vt) in ('int', 'uint', 'string', 'double', 'float', 'bool'):
                    tys = [self.tyvar(frame, kt), self.tyvar(frame, vt)]
                    res = 'Wm(%s)' % ','.join(tys)
                    TY_LEAN[res] = 'List (%s)' % ' × '.join(TY_LEAN[x] for x in tys)
                    self.__dict__.setdefault('whole_fields', {})[res] = [('first', tys[0]), ('second', tys[1])]
            else:
                et = first_template_arg(t)
                rid, rec = self.find_record(et)
                if rec is not None and not rec.get('bases'):
                    flds = [(c['name'], type_of(c)) for c in rec.get('inner', []) or [] if c.get('kind') == 'FieldDecl']
                    if flds and all(classify(ft) in ('int', 'uint', 'string', 'double', 'float', 'bool') for _, ft in flds):
                        flds = sorted((nm, self.tyvar(frame, ft)) for nm, ft in flds)
                        res = 'Wl(%s)' % ','.join(ty for _, ty in flds)
                        TY_LEAN[res] = 'List (%s)' % ' × '.join(TY_LEAN[ty] for _, ty in flds)
                        self.__dict__.setdefault('whole_fields', {})[res] = flds
        except Untranslatable:
            res = None
        cache[key] = res
        return res

    def whole_value(self, base, env):
        """(root, path, type code, current value) of a container lvalue translated as a whole"""
        code = self.whole_code(type_of(base), env.frame)
        if code is None:
            raise Untranslatable('container of type %s is not translatable as a whole' % strip_cv(type_of(base)))
        root, path = self.resolve_lvalue(base, env)
        o = self.lookup(env, root, path)
        if isinstance(o, dict):
            raise Untranslatable('container used both as a whole and by component (front() / begin()->)')
        return root, path, code, self.read_leaf(env, root, path, code)

    def whole_default(self, code, frame):
        parts = []
        for _, ty in self.whole_fields[code]:
            if ty == 's':
                parts.append('""')
            elif ty == 'i':
                parts.append('0')
            elif ty == 'b':
                parts.append('false')
            else:
                frame.need('NatCast', ty)
                parts.append('((0 : Nat) : %s)' % TY_LEAN[ty])
        return '(' + ', '.join(parts) + ')'

    @staticmethod
    def strip_iter(n):
        """through the copies / conversions of an iterator value (`const_iterator(iterator)`, temporaries)"""
        while True:
            n = strip_noop(n)
            if n.get('kind') in ('CXXConstructExpr', 'CXXTemporaryObjectExpr') and len(n.get('inner', []) or []) == 1 and Translator.ITER_RE.match(type_of(n)):
                n = n['inner'][0]
                continue
            if n.get('kind') == 'ImplicitCastExpr' and n.get('castKind') == 'LValueToRValue' and n.get('inner') and Translator.ITER_RE.match(type_of(n)):
                n = n['inner'][0]
                continue
            return n

    def iter_call(self, n, frame):
        """('begin' | 'end', container expression) when `n` is `std::(c)begin/(c)end(c)` / `c.(c)begin/(c)end()` of a whole container"""
        n = self.strip_iter(n)
        names = {'begin': 'begin', 'cbegin': 'begin', 'end': 'end', 'cend': 'end'}
        if n.get('kind') == 'CallExpr' and len(n.get('inner', []) or []) == 2:
            nm = (self.callee_ref(n).get('referencedDecl') or {}).get('name')
            if nm in names and self.whole_code(type_of(n['inner'][1]), frame) is not None:
                return names[nm], n['inner'][1]
        if n.get('kind') == 'CXXMemberCallExpr' and len(n.get('inner', []) or []) == 1:
            callee = self.callee_ref(n)
            if callee.get('name') in names and callee.get('inner') and self.whole_code(type_of(callee['inner'][0]), frame) is not None:
                return names[callee.get('name')], callee['inner'][0]
        return None

    def iter_var(self, n):
        """declaration id of the iterator variable `n` refers to (None: not a known iterator variable)"""
        n = self.strip_iter(n)
        if n.get('kind') == 'DeclRefExpr':
            rid = (n.get('referencedDecl') or {}).get('id')
            if rid in self.__dict__.get('iter_of', {}):
                return rid
        return None

    def iter_incr(self, n):
        """(iterator variable id, +1 | -1) when `n` is the PREFIX `++it` / `--it` of a known iterator variable"""
        n = self.strip_iter(n)
        if n.get('kind') == 'CXXOperatorCallExpr' and len(n.get('inner', []) or []) == 2:
            nm = (self.callee_ref(n).get('referencedDecl') or {}).get('name')
            if nm in ('operator++', 'operator--'):
                rid = self.iter_var(n['inner'][1])
                if rid is not None:
                    return rid, (1 if nm == 'operator++' else -1)
        return None

    def iter_value(self, n, env):
        """(index : Sc, container (root, path)) of an iterator-valued expression; `++it` updates the variable in `env`"""
        frame = env.frame
        ic = self.iter_call(n, frame)
        if ic is not None:
            root, path, code, cur = self.whole_value(ic[1], env)
            if ic[0] == 'begin':
                return sc_lit(Sc('0', 'i'), 0), (root, tuple(path))
            return Sc('((List.length %s : Nat) : Int)' % par(cur.t), 'i'), (root, tuple(path))
        inc = self.iter_incr(n)
        if inc is not None:
            rid, d = inc
            cur = self.read_leaf(env, rid, [], 'i')
            new = Sc('(%s %s 1)' % (par(cur.t), '+' if d > 0 else '-'), 'i')
            self.write(env, rid, [], new)
            return new, self.iter_of[rid]
        rid = self.iter_var(n)
        if rid is not None:
            return self.read_leaf(env, rid, [], 'i'), self.iter_of[rid]
        raise Untranslatable('unsupported iterator expression %s' % self.strip_iter(n).get('kind'))

    def exec_iter_decl(self, v, init, env, k):
        """`auto it = std::cbegin(c);`: the iterator variable is an index into the list that stands for `c`"""
        frame = env.frame
        if not init:
            raise Untranslatable('iterator `%s` without initialiser' % v.get('name'))
        idx, cont = self.iter_value(init[0], env)
        self.__dict__.setdefault('iter_of', {})[v['id']] = cont
        env.local_roots.add(v['id'])
        nm = frame.fresh(v.get('name', 'it'))
        env.vars[v['id']] = Sc(nm, 'i')
        return ('let', nm, unpar(idx.t), k(env))

    def iter_member_read(self, m, env):
        """`it->field` / `(*it).field` of a known iterator variable (None: not that form)"""
        if m.get('kind') != 'MemberExpr' or not m.get('inner'):
            return None
        b = strip_noop(m['inner'][0])
        if b.get('kind') == 'ImplicitCastExpr' and b.get('castKind') == 'LValueToRValue' and b.get('inner'):
            b = strip_noop(b['inner'][0])
        if b.get('kind') != 'CXXOperatorCallExpr' or len(b.get('inner', []) or []) != 2:
            return None
        if (self.callee_ref(b).get('referencedDecl') or {}).get('name') not in ('operator->', 'operator*'):
            return None
        rid = self.iter_var(b['inner'][1])
        if rid is None:
            return None
        root, path = self.iter_of[rid]
        cur = self.lookup(env, root, list(path))
        e = env
        while not isinstance(cur, Sc) and e.outer is not None:
            e = e.outer
            cur = self.lookup(e, root, list(path))
        if not isinstance(cur, Sc) or cur.ty not in self.__dict__.get('whole_fields', {}):
            raise Untranslatable('iterator into a container that is not translated as a whole')
        cur = self.read_leaf(env, root, list(path), cur.ty)
        flds = self.whole_fields[cur.ty]
        names = [nm for nm, _ in flds]
        if m.get('name') not in names:
            raise Untranslatable('iterator member `%s`' % m.get('name'))
        i = names.index(m.get('name'))
        idx = self.read_leaf(env, rid, [], 'i')
        elem = '(List.getD %s %s %s)' % (par(cur.t), self.nat_index(idx), self.whole_default(cur.ty, env.frame))
        return Sc(tuple_proj(elem, i, len(flds)), flds[i][1])

    def iter_compare(self, n):
        """'==' | '!=' when `n` compares two iterators"""
        if n.get('kind') != 'CXXOperatorCallExpr' or len(n.get('inner', []) or []) != 3:
            return None
        nm = (self.callee_ref(n).get('referencedDecl') or {}).get('name')
        if nm not in ('operator==', 'operator!=') or not self.ITER_RE.match(strip_cv(type_of(n['inner'][1]))):
            return None
        return nm[len('operator'):]

    def eval_iter_compare(self, n, env):
        op = self.iter_compare(n)
        a, ca = self.iter_value(n['inner'][1], env)
        b, cb = self.iter_value(n['inner'][2], env)
        if ca != cb:
            raise Untranslatable('comparison of iterators into different containers')
        return Sc('(%s %s %s)' % (par(a.t), '=' if op == '==' else '≠', par(b.t)), 'p')

    def whole_insert(self, n, frame):
        """the container expression when `n` is `c.insert(…)` on a whole container (None otherwise)"""
        if n.get('kind') != 'CXXMemberCallExpr':
            return None
        callee = self.callee_ref(n)
        if callee.get('kind') != 'MemberExpr' or callee.get('name') != 'insert' or not callee.get('inner'):
            return None
        if self.whole_code(type_of(callee['inner'][0]), frame) is None:
            return None
        return callee['inner'][0]

    def eval_whole_insert(self, n, env, pre):
        frame = env.frame
        base = self.whole_insert(n, frame)
        args = n['inner'][1:]
        if pre is None:
            raise Untranslatable('container insertion inside a conditionally evaluated expression')
        root, path, code, cur = self.whole_value(base, env)
        ics = [self.iter_call(a, frame) for a in args]
        if code.startswith('Wl') and len(args) == 3 and all(ics) and [i[0] for i in ics] == ['end', 'begin', 'end']:
            # l.insert(end(l), begin(x), end(x)): the whole of x appended
            if tuple(self.resolve_lvalue(ics[0][1], env)[1]) != tuple(path) or self.resolve_lvalue(ics[0][1], env)[0] != root:
                raise Untranslatable('list insertion at a position of another container')
            if self.resolve_lvalue(ics[1][1], env) != self.resolve_lvalue(ics[2][1], env):
                raise Untranslatable('list insertion of a range between two containers')
            r2, p2, code2, other = self.whole_value(ics[1][1], env)
            if code2 != code:
                raise Untranslatable('list insertion between different element types')
            self.list_store(env, pre, root, path, code, '(%s ++ %s)' % (par(cur.t), par(other.t)))
            return None
        if code.startswith('Wm') and len(args) == 2 and all(ics) and [i[0] for i in ics] == ['begin', 'end']:
            # m.insert(begin(x), end(x)): every entry of x, in ascending key order; keys already present keep their value
            if self.resolve_lvalue(ics[0][1], env) != self.resolve_lvalue(ics[1][1], env):
                raise Untranslatable('map insertion of a range between two containers')
            r2, p2, code2, other = self.whole_value(ics[0][1], env)
            if code2 != code:
                raise Untranslatable('map insertion between different entry types')
            kty = self.whole_fields[code][0][1]
            if kty in ('a', 'd'):
                frame.need('LT', kty)
                frame.need('DecidableLT', kty)
                raise Untranslatable('map with a floating-point key')
            self.need_helper('mapInsertNew')
            self.list_store(env, pre, root, path, code, '(List.foldl mapInsertNew %s %s)' % (par(cur.t), par(other.t)))
            return None
        raise Untranslatable('unsupported form of insert() on a container translated as a whole')

    # ---- abstract objects: spec key `abstract_classes` = names of classes whose objects are reached through a pointer / reference and
    #      touched ONLY by calls of bodiless (pure) virtual methods. Such an object is ONE opaque leaf of the abstract type σ; every
    #      virtual method `m` becomes a function-typed parameter of the translated function: a const method `m : σ → args → ret` (the state
    #      is not changed), a non-const one `m : σ → args → σ × ret` (`σ → args → σ` for `void`) whose first component is the new state.
    def abstract_class_of(self, ctype):
        t = strip_cv(ctype)
        if t.endswith('*'):
            t = strip_cv(t[:-1])
        for c in self.spec.get('abstract_classes', []) or []:
            if t == c or t.endswith('::' + c):
                return c
        return None

    def abstract_call(self, n):
        """(object expression, method declaration) when `n` calls a virtual method WITHOUT a body in the translation unit on an object
        of a class listed in `abstract_classes`; None otherwise"""
        if n.get('kind') != 'CXXMemberCallExpr':
            return None
        callee = self.callee_ref(n)
        if callee.get('kind') != 'MemberExpr' or not callee.get('inner'):
            return None
        base = callee['inner'][0]
        if self.abstract_class_of(type_of(base)) is None:
            return None
        md = self.tu.decl_by_id.get(callee.get('referencedMemberDecl'))
        if md is None or not md.get('virtual') or self.method_def(md.get('id')) is not None:
            return None
        return base, md

    def abstract_lvalue(self, base, env):
        b = strip_noop(base)
        if b.get('kind') == 'ImplicitCastExpr' and b.get('castKind') == 'LValueToRValue' and b.get('inner'):
            b = strip_noop(b['inner'][0])
        if b.get('kind') not in ('DeclRefExpr', 'MemberExpr'):
            raise Untranslatable('abstract object that is not a variable / member')
        return self.resolve_lvalue(b, env)

    def abstract_method_type(self, md, frame):
        qt = (md.get('type') or {}).get('qualType', '')
        rt = qt.split('(')[0].strip()
        rc = classify(rt)
        if rc == 'void':
            rty = None
        elif rc in ('int', 'uint', 'bool', 'double', 'float') and not rt.rstrip().endswith('&') and not rt.rstrip().endswith('*'):
            rty = self.tyvar(frame, rt)
        else:
            raise Untranslatable('virtual method %s of an abstract object returns a non-scalar (%s)' % (md.get('name'), rt))
        return qt.rstrip().endswith('const'), rty

    def eval_abstract_call(self, n, env, pre):
        base, md = self.abstract_call(n)
        frame = env.frame
        root, path = self.abstract_lvalue(base, env)
        st = self.read_leaf(env, root, path, 'o')
        if st.ty != 'o':
            raise Untranslatable('abstract object used as a scalar')
        const, rty = self.abstract_method_type(md, frame)
        parms = [c for c in md.get('inner', []) or [] if c.get('kind') == 'ParmVarDecl']
        for pd in parms:
            qt = (pd.get('type') or {}).get('qualType', '')
            if (qt.rstrip().endswith('&') and not re.match(r'^const\b', qt.strip())) or qt.rstrip().endswith('*'):
                raise Untranslatable('virtual method %s of an abstract object takes a non-const reference / pointer' % md.get('name'))
        vs = [self.eval(a, env, pre) for a in n['inner'][1:]]
        for v in vs:
            if v is None or v.ty not in ('a', 'd', 'i', 'b', 's'):
                raise Untranslatable('non-scalar argument of the virtual method %s' % md.get('name'))
        nm = md.get('name')
        dom = ['σ'] + [TY_LEAN[v.ty] for v in vs]
        actual = ' '.join([par(st.t)] + [par(self.as_bool(v).t if v.ty == 'p' else v.t) for v in vs])
        if const:
            if rty is None:
                return None      # a const method returning nothing: no observable effect
            fn = self.uninterp_param(env, nm, ' → '.join(dom + [TY_LEAN[rty]]))
            return Sc('(%s %s)' % (fn, actual), rty)
        if pre is None:
            raise Untranslatable('state-changing virtual call `%s` inside a conditionally evaluated expression' % nm)
        if rty is None:
            fn = self.uninterp_param(env, nm, ' → '.join(dom + ['σ']))
            nv = frame.fresh(path_name(self.root_name(frame, root), path))
            pre.append(('let', nv, '%s %s' % (fn, actual)))
            self.write(env, root, path, Sc(nv, 'o'))
            return None
        fn = self.uninterp_param(env, nm, ' → '.join(dom + ['σ × %s' % TY_LEAN[rty]]))
        r = frame.fresh('r')
        pre.append(('let', r, '%s %s' % (fn, actual)))
        self.write(env, root, path, Sc(tuple_proj(r, 0, 2), 'o'))
        return Sc(tuple_proj(r, 1, 2), rty)

    def fill_whole_list(self, args, env, pre):
        """`std::fill(std::begin(v), std::end(v), x)`: every element of the list `v` becomes `x` — `List.replicate (List.length v) x`"""
        def whole(a, which):
            a = strip_noop(a)
            while a.get('kind') in ('ImplicitCastExpr', 'MaterializeTemporaryExpr', 'CXXConstructExpr', 'CXXBindTemporaryExpr') and len(a.get('inner', []) or []) == 1:
                a = strip_noop(a['inner'][0])
            if a.get('kind') == 'CallExpr' and len(a['inner']) == 2 and (self.callee_ref(a).get('referencedDecl') or {}).get('name') == which:
                return a['inner'][1]
            if a.get('kind') == 'CXXMemberCallExpr' and len(a['inner']) == 1 and self.callee_ref(a).get('name') == which:
                return self.callee_ref(a)['inner'][0]
            return None
        b, e = whole(args[0], 'begin'), whole(args[1], 'end')
        if b is None or e is None or classify(type_of(b)) != 'seq' or classify(type_of(e)) != 'seq':
            return NotImplemented
        if self.resolve_lvalue(b, env) != self.resolve_lvalue(e, env):
            return NotImplemented
        root, path, lty, cur = self.list_value(b, env)
        if lty[1] == 'e':
            return NotImplemented
        x = self.eval_elem(args[2], lty[1], env, pre)
        self.list_store(env, pre, root, path, lty, '(List.replicate (List.length %s) %s)' % (par(cur.t), par(x.t)))
        return None

    def uninterp_param(self, env, nm, fty):
        key = ('fn', (nm,))
        if env.outer is not None:
            outer = self.uninterp_param(env.outer, nm, fty)
            return env.frame.param(key, nm, fty, arg=outer)
        return env.frame.param(key, nm, fty)

    def unknown_call(self, nm, n, env, pre):
        raise Untranslatable('call to `%s`, which has no body in the translation unit and no known meaning' % nm)

    def function_def(self, fid):
        if fid in self.tu.funcs:
            return self.tu.funcs[fid]
        # the referenced declaration may be a prototype: find the definition with the same mangled name
        d = self.tu.decl_by_id.get(fid)
        if d is not None and d.get('kind') in FUNC_KINDS and d.get('mangledName'):
            for f in self.tu.funcs.values():
                if f.get('mangledName') == d.get('mangledName'):
                    return f
        return None

    def method_def(self, mid):
        return self.function_def(mid)

    def find_record(self, ctype):
        t = strip_cv(ctype)
        for rid, rec in self.tu.records.items():
            q = rec.get('_qual', '')
            if q == t or q.endswith('::' + t) or t.endswith('::' + q):
                return rid, rec
        return None, None

    def find_ctor(self, ctype, ctor_type):
        rid, rec = self.find_record(ctype)
        if rid is None:
            return None
        for fid, d in self.tu.funcs.items():
            if d.get('kind') == 'CXXConstructorDecl' and (d.get('type') or {}).get('qualType') == ctor_type:
                if self.tu.parent.get(fid) == rid or d.get('parentDeclContextId') == rid:
                    return d
        return None

    def construct(self, decl, args, env, pre):
        """run a translated constructor on a fresh temporary object; result: the object's fields"""
        self.ntmp = getattr(self, 'ntmp', 0) + 1
        root = 'tmp%d' % self.ntmp
        env.local_roots.add(root)
        env.frame.top().root_names[root] = 'tmp'
        self.call_fn(decl, (root, []), args, env, pre)
        o = env.vars.get(root)
        return copy_obj(o) if isinstance(o, dict) else {}

    def call_fn(self, decl, this_lv, args, env, pre):
        frame = env.frame
        try:
            info = self.translate_fn(decl)
        except Untranslatable as e:
            info = None
            if 'is not an integer constant' in str(e):
                # phase 2: `step_(cellIndexes, 0)` with `v[axis]` inside: the callee is translated once per constant argument
                parms = [c for c in decl.get('inner', []) or [] if c.get('kind') == 'ParmVarDecl']
                consts = {}
                for i, (pd, a) in enumerate(zip(parms, args)):
                    qt = (pd.get('type') or {}).get('qualType', '')
                    if classify(type_of(pd)) in ('int', 'uint') and (not qt.rstrip().endswith('&') or re.match(r'^const\b', qt.strip())):
                        v = self.static_int(a)
                        if v is not None:
                            consts[i] = v
                if consts:
                    try:
                        info = self.translate_fn(decl, consts=consts)
                    except Untranslatable as e2:
                        raise Untranslatable('callee %s: %s' % (self.tu.fqual.get(decl['id'], decl.get('name')), e2))
            if info is None:
                raise Untranslatable('callee %s: %s' % (self.tu.fqual.get(decl['id'], decl.get('name')), e))
        if getattr(info, 'ret_ref', None):
            raise Untranslatable('call of %s, which returns a reference into a container (translated as a location)' % info.name)
        arg_obj = {}
        terms = []
        for (pname, ty, root, path) in info.params:
            if root == 'fn':
                terms.append(self.uninterp_param(env, path[0], ty))
                continue
            cty = self.map_ty(info, ty, frame)
            if root == 'this':
                if this_lv is None:
                    raise Untranslatable('method call without an object')
                sc = self.read_leaf(env, this_lv[0], list(this_lv[1]) + list(path), cty)
            else:
                if root >= len(args):
                    raise Untranslatable('default argument in a call of %s' % info.name)
                a = args[root]
                if not path and isinstance(ty, str) and ty.startswith('W') and self.spec.get('whole_containers'):
                    terms.append(par(self.whole_value(a, env)[3].t))      # a container translated as a whole is passed as such
                    continue
                if root not in arg_obj:
                    arg_obj[root] = self.eval_obj(a, env, pre)
                o = arg_obj[root]
                for kk in path:
                    if not isinstance(o, dict) or kk not in o:
                        raise Untranslatable('argument %d of %s has no component %s' % (root, info.name, key_name(kk)))
                    o = o[kk]
                if not isinstance(o, Sc):
                    raise Untranslatable('argument component is not a scalar')
                sc = self.coerce(o, cty) if o.ty != cty else o
            terms.append(par(sc.t))
        for (cls, tv) in info.classes:
            frame.need(cls, self.map_ty(info, tv, frame))
        if info.uses_delta:
            frame.top().uses_delta = True
        if info.fuel:
            f = frame
            while f is not None:
                f.fuel = True
                f = f.parent
        term = ' '.join([info.name] + (['fuel'] if info.fuel else []) + terms)
        outs = [(p, ty) for p, ty in info.ret] + [(None, ty) for (_, _, ty) in info.written]
        n = len(outs)
        if info.opt:
            f = frame
            while f is not None:
                f.opt = True
                f = f.parent
            base = frame.fresh('r')
            pre.append(('bind', base, term))
        elif n == 1:
            base = '(' + term + ')'
        elif n == 0:
            return None
        else:
            base = frame.fresh('r')
            pre.append(('let', base, term))
        res = None
        if info.ret:
            if info.ret_scalar:
                res = Sc(tuple_proj(base, 0, n), self.map_ty(info, info.ret[0][1], frame))
            else:
                res = {}
                for i, (p, ty) in enumerate(info.ret):
                    cur = res
                    for kk in p[:-1]:
                        cur = cur.setdefault(kk, {})
                    cur[p[-1]] = Sc(tuple_proj(base, i, n), self.map_ty(info, ty, frame))
        elem_upd = {}
        for j, (root, path, ty) in enumerate(info.written):
            i = len(info.ret) + j
            if root == 'this':
                lv = this_lv
            elif self.is_tuple_elem(args[root]):      # phase 3: `f(…, v[n])`, v a std::vector of Eigen vectors: written back below
                elem_upd.setdefault(root, {})[tuple(path)] = Sc(tuple_proj(base, i, n), self.map_ty(info, ty, frame))
                continue
            else:
                lv = self.resolve_lvalue(args[root], env)
            self.write(env, lv[0], list(lv[1]) + list(path), Sc(tuple_proj(base, i, n), self.map_ty(info, ty, frame)))
        for root, upd in elem_upd.items():
            if pre is None:
                raise Untranslatable('call writing a vector element inside an expression')
            if root not in arg_obj:
                arg_obj[root] = self.eval_obj(args[root], env, pre)
            obj = dict(arg_obj[root])
            for p_, sc_ in upd.items():
                if len(p_) != 1 or p_[0] not in obj:
                    raise Untranslatable('callee writes a component the vector element does not have')
                obj[p_[0]] = sc_
            self.tuple_elem_store(args[root], obj, env, pre)
        return res

    def elem_ctype(self, ctype):
        m = re.search(r'Matrix<\s*([\w ]+?)\s*,', strip_cv(ctype))
        if not m:
            raise Untranslatable('element type of %s' % ctype)
        return m.group(1)

    def arith(self, op, a, b, ctype, frame):
        """`a op b` (op in + - *) computed in the C++ scalar type `ctype`"""
        if a.ty != b.ty:
            raise Untranslatable('arithmetic on different scalar kinds')
        if a.ty == 'i':
            return self.uwrap(Sc('(%s %s %s)' % (par(a.t), op, par(b.t)), 'i'), ctype)
        frame.need({'+': 'Add', '-': 'Sub', '*': 'Mul'}[op], a.ty)
        return Sc('(%s %s %s)' % (par(a.t), op, par(b.t)), a.ty)

    # ------------------------------------------------------------------ fixed-width integers (spec option `unsigned_wrap`)
    def uwrap(self, sc, ctype):
        """result of `+ - *` / negation computed in the unsigned type `ctype`: reduced modulo 2^width (only when the spec sets
        `unsigned_wrap`; otherwise, and for signed types — where overflow is undefined behaviour — the unbounded integer)"""
        if not self.spec.get('unsigned_wrap'):
            return sc
        w = uwidth(ctype)
        if w is None:
            return sc
        lit = getattr(sc, 'lit', None)
        if lit is not None:
            v = lit % (1 << w)
            return sc_lit(Sc(str(v), 'i'), v)
        return Sc('(%s %% %d)' % (par(sc.t), 1 << w), 'i')

    def int_convert(self, v, from_t, to_t):
        """integral conversion between fixed-width types (spec option `unsigned_wrap`): to an unsigned type modulo 2^width, to a
        narrower / same-width signed type from a type that does not fit: two's complement (what gcc and clang define)"""
        wu, ws = uwidth(to_t), swidth(to_t)
        fu, fs = uwidth(from_t), swidth(from_t)
        lit = getattr(v, 'lit', None)
        if wu is not None:
            if fu is not None and fu <= wu:
                return v
            if lit is not None:
                r = lit % (1 << wu)
                return sc_lit(Sc(str(r), 'i'), r)
            if fu is None and fs is None and classify(from_t) == 'uint':
                return v      # unsigned char / short
            return Sc('(%s %% %d)' % (par(v.t), 1 << wu), 'i')
        if ws is not None:
            fits = (fs is not None and fs <= ws) or (fu is not None and fu < ws) or (fu is None and fs is None)
            if fits:
                return v
            h = 1 << (ws - 1)
            if lit is not None:
                r = (lit + h) % (1 << ws) - h
                return sc_lit(Sc(str(r) if r >= 0 else '(%d)' % r, 'i'), r)
            return Sc('(((%s + %d) %% %d) - %d)' % (par(v.t), h, 1 << ws, h), 'i')
        return v

    # ------------------------------------------------------------------ scalar wrappers (std::atomic, std::chrono::duration)
    def wrapper_method(self, n):
        if n.get('kind') != 'CXXMemberCallExpr':
            return None
        callee = self.callee_ref(n)
        if callee.get('kind') != 'MemberExpr' or not callee.get('inner'):
            return None
        if scalar_wrapper(type_of(callee['inner'][0])) is None:
            return None
        return callee.get('name')

    def wrapper_construct(self, n, env, pre):
        a = [c for c in n.get('inner', []) or [] if c.get('kind') != 'CXXDefaultArgExpr']
        ty = self.tyvar(env.frame, type_of(n))
        if not a:      # value-initialisation
            if ty == 'i':
                return sc_lit(Sc('0', 'i'), 0)
            if ty == 'b':
                return Sc('false', 'b')
            env.frame.need('NatCast', ty)
            return Sc('((0 : Nat) : %s)' % TY_LEAN[ty], ty)
        if len(a) == 1:
            v = self.eval(a[0], env, pre)
            if v is not None and v.ty == ty:
                return v
            if v is not None and ty == 'b':
                return self.as_bool(v)
        raise Untranslatable('constructor of %s with %d arguments' % (strip_cv(type_of(n)), len(a)))

    def eval_wrapper_call(self, n, env, pre):
        nm = self.wrapper_method(n)
        callee = self.callee_ref(n)
        base = callee['inner'][0]
        bt = type_of(base)
        args = [c for c in n['inner'][1:] if c.get('kind') != 'CXXDefaultArgExpr']
        if is_duration(bt) and nm == 'count' and not args:
            return self.eval(base, env, pre)
        if is_atomic(bt) and (nm == 'load' or nm.startswith('operator ')) and not args:      # load() / implicit conversion
            return self.eval(base, env, pre) if strip_noop(base).get('valueCategory') != 'lvalue' else self.read_lvalue_scalar(base, env)
        if is_atomic(bt) and nm == 'store' and len(args) == 1:
            if pre is None:
                raise Untranslatable('atomic store inside an expression')
            v = self.eval(args[0], env, pre)
            root, path = self.resolve_lvalue(base, env)
            ty = self.tyvar(env.frame, bt)
            v = self.coerce(v, ty)
            nmv = env.frame.fresh(path_name(self.root_name(env.frame, root), path))
            pre.append(('let', nmv, unpar(v.t)))
            self.write(env, root, path, Sc(nmv, ty))
            return None
        raise Untranslatable('member function `%s` of %s' % (nm, strip_cv(bt)))

    # ------------------------------------------------------------------ sequence containers as lists: std::queue / std::deque, and
    # std::vector in the 'plain' encoding (`vector_encoding`) — classify() == 'seq'
    def list_method(self, n):
        """name of the member function when `n` is a member call on a std::vector / std::queue / std::deque translated as a list"""
        if n.get('kind') != 'CXXMemberCallExpr':
            return None
        callee = self.callee_ref(n)
        if callee.get('kind') != 'MemberExpr' or not callee.get('inner'):
            return None
        if classify(type_of(callee['inner'][0])) != 'seq':
            return None
        return callee.get('name')

    def is_list_index(self, m):
        if LIST_OPTS.get('pointer_arrays') and self.ptr_index(m):
            return True
        if m.get('kind') != 'CXXOperatorCallExpr' or len(m.get('inner', [])) != 3:
            return False
        if (self.callee_ref(m).get('referencedDecl') or {}).get('name') != 'operator[]':
            return False
        return classify(type_of(m['inner'][1])) == 'seq'

    def ptr_index(self, m):
        """(C08) spec option `pointer_arrays`: `p[i]` (ArraySubscriptExpr) with `p` a variable / data member of type pointer to a scalar.
        The node is normalised IN PLACE to the shape of a container subscript `[callee, base lvalue, index]` (base = the pointer
        VARIABLE, i.e. the list that stands for the array it points into), so that every reader / writer of `v[i]` on a list-encoded
        container applies unchanged. Pointer arithmetic, `*p`, `&x` stay untranslatable."""
        if m.get('_ptr_index'):
            return True
        if m.get('kind') != 'ArraySubscriptExpr' or len(m.get('inner', [])) != 2:
            return False
        b = strip_noop(m['inner'][0])
        if b.get('kind') != 'ImplicitCastExpr' or b.get('castKind') != 'LValueToRValue' or not b.get('inner'):
            return False
        v = strip_noop(b['inner'][0])
        if v.get('kind') not in ('DeclRefExpr', 'MemberExpr') or classify(type_of(v)) != 'seq' or not PTR_ARRAY_RE.match(re.sub(r'\*const$', '*', strip_cv(type_of(v)))):
            return False
        m['_ptr_index'] = True
        m['inner'] = [{'kind': 'DeclRefExpr', 'referencedDecl': {'name': 'operator[]'}}, v, m['inner'][1]]
        return True

    def list_value(self, base, env):
        """(root, path, type code, current value) of a list-typed lvalue"""
        root, path = self.resolve_lvalue(base, env)
        lty = self.tyvar(env.frame, type_of(base))
        return root, path, lty, self.read_leaf(env, root, path, lty)

    def local_pre(self, pre, lp, what):
        if lp:
            if pre is None:
                raise Untranslatable('call with a tuple / Option result inside %s' % what)
            pre.extend(lp)

    def nat_index(self, v):
        if v.ty != 'i':
            raise Untranslatable('list index that is not an integer')
        lit = getattr(v, 'lit', None)
        if lit is not None and lit >= 0:
            return str(lit)
        return '(Int.toNat %s)' % par(v.t)

    def elem_default(self, frame, ety):
        if ety == 'i':
            return '0'
        frame.need('NatCast', ety)
        return '((0 : Nat) : %s)' % TY_LEAN[ety]

    def list_get(self, m, env, pre):
        """`v[i]`: `v.getD i 0` (an out-of-range access is undefined behaviour in C++: the default stands for it); for opaque elements
        the checked read `v[i]?` (only as a returned value)"""
        lp = []
        root, path, lty, cur = self.list_value(m['inner'][1], env)
        i = self.eval(m['inner'][2], env, lp)
        self.local_pre(pre, lp, 'a list index')
        if lty == 'le':
            return Sc('(%s[%s]?)' % (par(cur.t), unpar(self.nat_index(i))), 'oe')
        return Sc('(List.getD %s %s %s)' % (par(cur.t), self.nat_index(i), self.elem_default(env.frame, lty[1])), lty[1])

    def eval_elem(self, n, ety, env, pre):
        """a value stored into a list: a scalar of the element type, or (opaque elements) a plain copy of an lvalue"""
        if ety != 'e':
            v = self.eval(n, env, pre)
            if v.ty != ety:
                raise Untranslatable('list element of a different scalar kind')
            return v
        m = strip_noop(n)
        while m.get('kind') in ('ImplicitCastExpr', 'CXXConstructExpr') and m.get('inner') and len(m['inner']) == 1:
            m = strip_noop(m['inner'][0])
        if m.get('valueCategory') == 'lvalue' and m.get('kind') in ('DeclRefExpr', 'MemberExpr') and not self.is_list_index(m):
            root, path = self.resolve_lvalue(m, env)
            if isinstance(self.lookup(env, root, path), dict):
                raise Untranslatable('aggregate used both as a whole (list element) and by component')
            return self.read_leaf(env, root, path, 'e')
        raise Untranslatable('list element value that is not a plain copy of a variable')

    def list_construct(self, n, env, pre):
        a = [c for c in n.get('inner', []) or [] if c.get('kind') != 'CXXDefaultArgExpr']
        lty = self.tyvar(env.frame, type_of(n))
        if not a:
            return Sc('([] : %s)' % TY_LEAN[lty], lty)
        if len(a) == 1 and classify(type_of(a[0])) == 'seq':
            v = self.eval(a[0], env, pre)
            if v.ty != lty:
                raise Untranslatable('container copy between different element types')
            return v
        raise Untranslatable('container constructor with %d arguments' % len(a))

    def list_store(self, env, pre, root, path, lty, term):
        nm = env.frame.fresh(path_name(self.root_name(env.frame, root), path))
        pre.append(('let', nm, unpar(term)))
        self.write(env, root, path, Sc(nm, lty))

    def eval_list_call(self, n, env, pre):
        """member functions of a sequence container translated as a list (front of a queue = head of the list)"""
        frame = env.frame
        nm = self.list_method(n)
        callee = self.callee_ref(n)
        base = callee['inner'][0]
        args = n['inner'][1:]
        lp = []
        if nm == 'clear' and not args and pre is not None:      # overwrites: the old contents are not read
            root, path = self.resolve_lvalue(base, env)
            lty = self.tyvar(frame, type_of(base))
            self.list_store(env, pre, root, path, lty, '([] : %s)' % TY_LEAN[lty])
            return None
        root, path, lty, cur = self.list_value(base, env)
        ety = lty[1]
        if nm == 'size' and not args:
            return Sc('((List.length %s : Nat) : Int)' % par(cur.t), 'i')
        if nm == 'empty' and not args:
            return Sc('(List.length %s = 0)' % par(cur.t), 'p')
        if nm in ('front', 'back') and not args:
            if ety == 'e':
                raise Untranslatable('%s() of a container of opaque elements' % nm)
            if nm == 'front':
                return Sc('(List.getD %s 0 %s)' % (par(cur.t), self.elem_default(frame, ety)), ety)
            return Sc('(List.getD %s (List.length %s - 1) %s)' % (par(cur.t), par(cur.t), self.elem_default(frame, ety)), ety)
        if nm == 'at' and len(args) == 1 and ety != 'e':
            i = self.eval(args[0], env, lp)
            self.local_pre(pre, lp, 'a list index')
            return Sc('(List.getD %s %s %s)' % (par(cur.t), self.nat_index(i), self.elem_default(frame, ety)), ety)
        if nm in ('reserve', 'shrink_to_fit'):
            return None      # capacity only: no effect on the contents
        # mutators: only as statements
        if pre is None:
            raise Untranslatable('container mutation `%s` inside an expression' % nm)
        if nm in ('push_back', 'push', 'emplace_back') and len(args) == 1:
            x = self.eval_elem(args[0], ety, env, pre)
            self.list_store(env, pre, root, path, lty, '(%s ++ [%s])' % (par(cur.t), unpar(x.t)))
            return None
        if nm == 'resize' and len(args) == 1 and ety != 'e':
            # resize(n): the first n elements, then value-initialised (zero) elements
            nn = self.eval(args[0], env, pre)
            k_ = self.nat_index(nn)
            self.list_store(env, pre, root, path, lty, '(List.take %s %s ++ List.replicate (%s - List.length %s) %s)' % (
                k_, par(cur.t), k_, par(cur.t), self.elem_default(frame, ety)))
            return None
        if nm in ('pop', 'pop_front') and not args:
            self.list_store(env, pre, root, path, lty, '(List.drop 1 %s)' % par(cur.t))
            return None
        if nm == 'pop_back' and not args:
            self.list_store(env, pre, root, path, lty, '(List.dropLast %s)' % par(cur.t))
            return None
        raise Untranslatable('container member function `%s`' % nm)

    def exec_list_assign(self, lhs, rhs, op, node, env, k):
        """`v[i] = x` / `v[i] op= x`: `v.set i x`"""
        frame = env.frame
        pre = []
        root, path, lty, cur = self.list_value(lhs['inner'][1], env)
        ety = lty[1]
        i = self.eval(lhs['inner'][2], env, pre)
        it = self.nat_index(i)
        if op:
            if ety == 'e':
                raise Untranslatable('compound assignment on an opaque list element')
            old = Sc('(List.getD %s %s %s)' % (par(cur.t), it, self.elem_default(frame, ety)), ety)
            v = self.eval(rhs, env, pre)
            if v.ty != ety:
                raise Untranslatable('compound assignment on a list element with mixed operand types')
            if ety == 'i':
                t = {'+': '(%s + %s)', '-': '(%s - %s)', '*': '(%s * %s)'}.get(op)
                if not t:
                    raise Untranslatable('compound operator %s= on a list element' % op)
                x = self.uwrap(Sc(t % (par(old.t), par(v.t)), 'i'), type_of(lhs))
            else:
                cls = {'+': 'Add', '-': 'Sub', '*': 'Mul', '/': 'Div'}.get(op)
                if not cls:
                    raise Untranslatable('compound operator %s= on a list element' % op)
                frame.need(cls, ety)
                x = Sc('(%s %s %s)' % (par(old.t), op, par(v.t)), ety)
        else:
            x = self.eval_elem(rhs, ety, env, pre)
        # the list is read again AFTER the right-hand side was evaluated (it cannot have changed: mutators are statements)
        xt = unpar(x.t) if atomic(x.t) else x.t
        if ' ' in xt and not atomic(xt):      # (C08) a compound value (`v[i] = v[i-1]`: an application) keeps its parentheses as an argument
            xt = '(' + xt + ')'
        self.list_store(env, pre, root, path, lty, '(List.set %s %s %s)' % (par(cur.t), it, xt))
        return self.wrap(pre, k(env))

    # ------------------------------------------------------------------ aggregates
    def eigen_product(self, an, bn, env, pre):
        """fixed-size Eigen product A * B: coefficient (i,j) = (a_i0*b_0j + a_i1*b_1j) + a_i2*b_2j (sum taken left to right —
        trusted reading of Eigen's lazy coefficient-based product for small fixed sizes; a nested product is evaluated into a
        temporary first). Every coefficient is bound to a name."""
        frame = env.frame
        A = self.eval_obj(an, env, pre)
        B = self.eval_obj(bn, env, pre)
        if not isinstance(A, dict) or not isinstance(B, dict) or not A or not B:
            raise Untranslatable('product of objects without known coefficients')

        def dims(M):
            ks = list(M.keys())
            if not all(isinstance(k, tuple) for k in ks):
                raise Untranslatable('product of non-matrix objects')
            if all(len(k) == 2 for k in ks):
                return max(k[0] for k in ks) + 1, max(k[1] for k in ks) + 1, lambda i, j: M.get((i, j))
            if all(len(k) == 1 for k in ks):      # column vector
                return max(k[0] for k in ks) + 1, 1, lambda i, j: M.get((i,))
            raise Untranslatable('product of objects with mixed index shapes')
        ra, ca, ga = dims(A)
        rb, cb, gb = dims(B)
        if ca != rb:
            raise Untranslatable('product dimensions %dx%d * %dx%d' % (ra, ca, rb, cb))
        top = frame.top()
        top.nprod = getattr(top, 'nprod', 0) + 1
        res = {}
        for i in range(ra):
            for j in range(cb):
                acc = None
                for kk in range(ca):
                    a, b = ga(i, kk), gb(kk, j)
                    if not isinstance(a, Sc) or not isinstance(b, Sc):
                        raise Untranslatable('product operand coefficient (%d,%d) unknown' % (i, kk))
                    if a.ty != b.ty:
                        raise Untranslatable('product of different scalar types')
                    frame.need('Mul', a.ty)
                    t = '(%s * %s)' % (par(a.t), par(b.t))
                    if acc is None:
                        acc = t
                    else:
                        frame.need('Add', a.ty)
                        acc = '(%s + %s)' % (acc, t)
                nm = frame.fresh('prod%d_%d_%d' % (top.nprod, i, j) if cb > 1 else 'prod%d_%d' % (top.nprod, i))
                pre.append(('let', nm, unpar(acc)))
                res[(i, j) if cb > 1 else (i,)] = Sc(nm, a.ty)
        return res

    def eval_obj(self, n, env, pre):
        ct = type_of(n)
        if classify(ct) != 'agg':
            return self.eval(n, env, pre)
        m = strip_noop(n)
        k = m.get('kind')
        if self.spec.get('dyn_sizes') and DYNX_RE.search(ct):      # phase 4: an expression on dynamic-size Eigen objects
            return self.dynx_eval(m, env, pre)
        if self.is_list_index(m):
            return self.list_get(m, env, pre)
        if k in ('DeclRefExpr', 'MemberExpr') and m.get('valueCategory') == 'lvalue' and self.is_list(type_of(m)):
            return self.read_lvalue_scalar(m, env)      # phase 3: a std::vector of Eigen vectors / of structs passed on as a whole: one leaf
        if k == 'CXXMemberCallExpr' and m.get('valueCategory') == 'lvalue' and vec_elem(type_of(m)) is not None and self.is_list(type_of(m)) \
                and self.getter_member(m) is not None:      # phase 5: `x.get()` with `const V & get() const { return points_; }`: that leaf
            root5, path5 = self.resolve_lvalue(m, env)
            return self.read_leaf(env, root5, path5, self.tyvar(env.frame, type_of(m)))
        r2 = self.eval_obj_phase2(m, k, ct, env, pre)
        if r2 is not None:
            return r2
        if k in ('CXXConstructExpr', 'CXXTemporaryObjectExpr'):
            a = [c for c in m.get('inner', []) or [] if c.get('kind') != 'CXXDefaultArgExpr']
            if len(a) == 0:
                return {}
            ctor = self.find_ctor(ct, (m.get('ctorType') or {}).get('qualType'))
            if ctor is not None and not (len(a) == 1 and strip_cv(type_of(a[0])) == strip_cv(ct)):
                return self.construct(ctor, a, env, pre)
            if len(a) == 1 and classify(type_of(a[0])) == 'agg':
                return self.eval_obj(a[0], env, pre)
            shape = self.shape_of(ct)
            if len(a) == len(shape) and all(classify(type_of(x)) != 'agg' for x in a):
                res = {}
                for (p, st), x in zip(shape, a):
                    v = self.eval(x, env, pre)
                    cur = res
                    for kk in p[:-1]:
                        cur = cur.setdefault(kk, {})
                    cur[p[-1]] = v
                return res
            raise Untranslatable('constructor call of %s with %d arguments' % (strip_cv(ct), len(a)))
        if k in ('DeclRefExpr', 'MemberExpr', 'ArraySubscriptExpr') or (k == 'CXXOperatorCallExpr' and m.get('valueCategory') == 'lvalue'):
            root, path = self.resolve_lvalue(m, env)
            return self.read_obj(env, root, path, ct)
        if k == 'ImplicitCastExpr' and m.get('castKind') == 'LValueToRValue':
            root, path = self.resolve_lvalue(m['inner'][0], env)
            return self.read_obj(env, root, path, ct)
        if k == 'CallExpr' and ('Matrix<' in ct or 'Eigen::Array<' in ct) and (self.callee_ref(m).get('referencedDecl') or {}).get('name') in ('Identity', 'Zero', 'Ones') \
                and len(m['inner']) == 1:
            # Eigen::Matrix<T, R, C>::Identity() / Zero() / Ones() of a fixed size: literal coefficients
            nm = (self.callee_ref(m).get('referencedDecl') or {}).get('name')
            res = {}
            for p, st in self.shape_of(ct):
                ty = self.tyvar(env.frame, st)
                env.frame.need('NatCast', ty)
                idx = p[0]
                one = nm == 'Ones' or (nm == 'Identity' and (len(idx) == 2 and idx[0] == idx[1] or len(idx) == 1 and idx[0] == 0))
                res[idx] = Sc('((%d : Nat) : %s)' % (1 if one else 0, TY_LEAN[ty]), ty)
            return res
        if k in ('CallExpr', 'CXXMemberCallExpr'):
            v = self.eval_call(m, env, pre)
            if v is None:
                raise Untranslatable('void call used as a value')
            return v
        if k == 'CXXOperatorCallExpr':
            nm = (self.callee_ref(m).get('referencedDecl') or {}).get('name')
            if nm == 'operator*' and len(m['inner']) == 3 and 'Product<' in ct:
                return self.eigen_product(m['inner'][1], m['inner'][2], env, pre)
            raise Untranslatable('operator call %s on aggregates' % nm)
        if k == 'InitListExpr' and self.ARRAY_OF_EIGEN_RE.match(strip_cv(ct)):      # phase 5: `const Eigen::Matrix3d a[3] = {A, B, C};`
            a = m.get('inner', []) or []
            if len(a) != int(self.ARRAY_OF_EIGEN_RE.match(strip_cv(ct)).group(4)):
                raise Untranslatable('array initialiser with %d items' % len(a))
            res = {}
            for kk, x in enumerate(a):
                o5 = self.eval_obj(x, env, pre)
                if not isinstance(o5, dict) or not o5 or not all(isinstance(v_, Sc) for v_ in o5.values()):
                    raise Untranslatable('array element without known coefficients')
                res[(kk,)] = o5
            return res
        if k == 'InitListExpr':
            shape = self.shape_of(ct)
            a = m.get('inner', []) or []
            if len(a) == len(shape):
                res = {}
                for (p, st), x in zip(shape, a):
                    v = self.eval(x, env, pre)
                    cur = res
                    for kk in p[:-1]:
                        cur = cur.setdefault(kk, {})
                    cur[p[-1]] = v
                return res
        raise Untranslatable('unsupported aggregate expression %s of type %s' % (k, strip_cv(ct)))

    # ================================================================== Eigen coefficient-wise expressions, std::vector of scalars in
    # the 'checked' encoding (`vector_encoding`), unrolled / counted `for` loops
    EIG_BIN = {'operator+': ('+', 'Add'), 'operator-': ('-', 'Sub'), 'operator*': ('*', 'Mul'), 'operator/': ('/', 'Div')}
    EIG_CMP = {'operator<': '<', 'operator<=': '<=', 'operator>': '>', 'operator>=': '>=', 'operator==': '==', 'operator!=': '!='}
    VEC_MUTATORS = ('resize', 'clear', 'push_back', 'assign')
    HELPERS = {
        'vecGet?': "/-- `v[i]` of a `std::vector` (element read); `none` = index outside the vector (undefined behaviour in C++) -/\n"
                   "def vecGet? {β : Type} (v : List β) (i : Int) : Option β := if i < 0 then none else v[i.toNat]?",
        'vecSet?': "/-- `v[i] = x` on a `std::vector`; `none` = index outside the vector (undefined behaviour in C++) -/\n"
                   "def vecSet? {β : Type} (v : List β) (i : Int) (x : β) : Option (List β) :=\n"
                   "  if i < 0 then none else if i.toNat < v.length then some (v.set i.toNat x) else none",
        'dynSet2': "/-- `M(i, j) = x` on a dynamic-size Eigen matrix seen as a functional array (sizes are not tracked) -/\n"
                   "def dynSet2 {β : Type} (M : Int → Int → β) (i j : Int) (x : β) : Int → Int → β := fun a b => if a = i ∧ b = j then x else M a b",
        'dynSet1': "/-- `v(i) = x` on a dynamic-size Eigen vector seen as a functional array (sizes are not tracked) -/\n"
                   "def dynSet1 {β : Type} (v : Int → β) (i : Int) (x : β) : Int → β := fun a => if a = i then x else v a",
        'dynSum': "/-- `Σ_{0 ≤ κ < n} f κ`, accumulated upwards from 0 (`((0 + f 0) + f 1) + …`): the explicit-sum reading of Eigen's dynamic-size products / `dot` -/\n"
                  "def dynSumN {β : Type} [NatCast β] [Add β] : Nat → (Int → β) → β\n"
                  "  | 0, _ => ((0 : Nat) : β)\n"
                  "  | n + 1, f => dynSumN n f + f (n : Int)\n"
                  "def dynSum {β : Type} [NatCast β] [Add β] (n : Int) (f : Int → β) : β := dynSumN n.toNat f",
        'vecResize': "/-- `v.resize(n)` on a `std::vector`: truncated, or extended with value-initialised elements `z` -/\n"
                     "def vecResize {β : Type} (v : List β) (n : Int) (z : β) : List β := v.take n.toNat ++ List.replicate (n.toNat - v.length) z",
        'mapInsertNew': "/-- `std::map::insert(value)` on the entry list of a map (ascending keys): a key that is present keeps its value -/\n"
                        "def mapInsertNew {κ ν : Type} [LT κ] [DecidableLT κ] [DecidableEq κ] : List (κ × ν) → κ × ν → List (κ × ν)\n"
                        "  | [], kv => [kv]\n"
                        "  | (k, v) :: rest, kv =>\n"
                        "    if kv.1 < k then kv :: (k, v) :: rest\n"
                        "    else if kv.1 = k then (k, v) :: rest\n"
                        "    else (k, v) :: mapInsertNew rest kv",
    }

    def need_helper(self, name):
        done = getattr(self, 'helpers_done', None)
        if done is None:
            done = self.helpers_done = set()
        if name not in done:
            done.add(name)
            self.emit(self.HELPERS[name])

    @staticmethod
    def is_eigen_type(t):
        return bool(re.search(r'(Eigen::|\b(Matrix|Array|CwiseBinaryOp|CwiseUnaryOp|CwiseNullaryOp|ArrayWrapper|MatrixWrapper|Block|Transpose)<)', t))

    def eigen_keys(self, ct):
        """coefficient keys and C++ scalar type of a fixed-size Eigen expression type (the first `Matrix<T, r, c` / `Array<T, r, c`
        with literal positive sizes inside the type)"""
        for mm in re.finditer(r'\b(?:Matrix|Array)<\s*([\w ]+?)\s*,\s*(-?\d+)\s*,\s*(-?\d+)', ct):
            r, c = int(mm.group(2)), int(mm.group(3))
            if r >= 1 and c >= 1 and r * c <= 64:
                if c == 1 or r == 1:
                    return [(i,) for i in range(r * c)], mm.group(1)
                return [(i, j) for i in range(r) for j in range(c)], mm.group(1)
        raise Untranslatable('Eigen expression type %s has no small fixed size' % ct[:120])

    def literal_at(self, n, ty, frame):
        """`(float) 0.5`, `arrayOfFloat - 0.5`: a floating LITERAL (not from a macro) of ANOTHER floating type whose decimal value is
        exactly representable with a 24-bit significand and a small exponent (exact in binary32 and binary64) is that literal
        at the type `ty` it is converted to; None in every other case"""
        m = strip_noop(n)
        if m.get('kind') != 'FloatingLiteral' or ty not in ('a', 'd'):
            return None
        try:
            if self.tyvar(frame, type_of(m)) == ty:
                return None
            loc = (m.get('range') or {}).get('begin') or {}
            if self.tu.macro_name(loc) is not None:
                return None
            mant, e = decimal_literal(self.tu.text(loc))
        except Untranslatable:
            return None
        from fractions import Fraction
        q = Fraction(mant, 10 ** e)
        den, num = q.denominator, q.numerator
        if den & (den - 1) or den > 2 ** 60 or num >= 2 ** 60:
            return None
        if num and num.bit_length() - ((num & -num).bit_length() - 1) > 24:
            return None
        if e == 0:
            frame.need('NatCast', ty)
            return Sc('((%d : Nat) : %s)' % (mant, TY_LEAN[ty]), ty)
        frame.need('OfScientific', ty)
        return Sc('(OfScientific.ofScientific %d true %d : %s)' % (mant, e, TY_LEAN[ty]), ty)

    def num_to(self, v, ty, frame):
        """implicit conversion of a scalar operand to the coefficient type `ty` of an Eigen expression"""
        if v.ty == ty:
            return v
        if v.ty == 'i' and ty in ('a', 'd'):
            lit = getattr(v, 'lit', None)
            if lit is not None and lit >= 0:
                frame.need('NatCast', ty)
                return Sc('((%d : Nat) : %s)' % (lit, TY_LEAN[ty]), ty)
            if lit is not None:
                frame.need('NatCast', ty)
                frame.need('Neg', ty)
                return Sc('(-((%d : Nat) : %s))' % (-lit, TY_LEAN[ty]), ty)
            frame.need('IntCast', ty)
            return Sc('((%s : Int) : %s)' % (unpar(v.t), TY_LEAN[ty]), ty)
        if v.ty in ('a', 'd') and ty in ('a', 'd'):
            frame.classes.add(('DoubleConv', 'a'))
            frame.top().uses_delta = True
            if ty == 'd':
                return Sc('(DoubleConv.up %s : δ)' % par(v.t), 'd')
            return Sc('(DoubleConv.down %s : α)' % par(v.t), 'a')
        if v.ty in ('a', 'd') and ty == 'i':
            frame.need('Trunc', v.ty)
            return Sc('(Trunc.trunc %s)' % par(v.t), 'i')
        raise Untranslatable('conversion of %s to the coefficient type of an Eigen expression' % v.t)

    def getter_member(self, n):
        """name of the member `m` if the called method's whole body is `return m;` / `return this->m;` and it returns a
        reference (None otherwise)"""
        callee = self.callee_ref(n)
        decl = self.function_def(callee.get('referencedMemberDecl'))
        if decl is None and len(n.get('inner', [])) == 1 and callee.get('name') in self.spec.get('source_getters', {}):
            return self.source_getter(callee.get('name'))      # phase 3: a getter whose body is in a source file outside the translation unit
        if decl is None or len(n.get('inner', [])) != 1:
            return None
        rt = ((decl.get('type') or {}).get('qualType') or '').split('(')[0].strip()
        if not rt.endswith('&'):
            return None
        body = [c for c in decl.get('inner', []) or [] if c.get('kind') == 'CompoundStmt']
        st = (body[0].get('inner') or []) if body else []
        if len(st) != 1 or st[0].get('kind') != 'ReturnStmt' or not st[0].get('inner'):
            return None
        e = strip_noop(st[0]['inner'][0])
        if e.get('kind') == 'MemberExpr' and e.get('inner') and strip_noop(e['inner'][0]).get('kind') == 'CXXThisExpr':
            return e.get('name')
        return None

    def source_getter(self, nm):
        """spec key `source_getters`: name -> dict(cls=, member=, source=repo-relative .cpp). The member function templates of a class
        template that are defined in a .cpp with explicit instantiations can only be parsed by clang together with everything else that
        file instantiates (seconds of front-end time). For a TRIVIAL GETTER the translator reads the CURRENT text of that source instead:
        every definition `… cls<…>::nm() [const] { return member; }` must have exactly this body (comments and white space aside), and
        there must be at least one; the member is then the result (as for a getter parsed by clang). Anything else: None (untranslatable)."""
        g = self.spec['source_getters'][nm]
        cache = self.__dict__.setdefault('_src_getters', {})
        if nm not in cache:
            ok = None
            try:
                txt = open(os.path.join(self.tu.repo, g['source'])).read()
                txt = re.sub(r'//[^\n]*|/\*.*?\*/', ' ', txt, flags=re.S)
                defs = re.findall(r'\b%s\s*<[^<>{};]*>\s*::\s*%s\s*\(\s*\)\s*(?:const\s*)?\{([^{}]*)\}' % (re.escape(g['cls']), re.escape(nm)), txt)
                if defs and all(re.match(r'^\s*return\s+(?:this\s*->\s*)?%s\s*;\s*$' % re.escape(g['member']), b) for b in defs):
                    ok = g['member']
            except OSError:
                ok = None
            cache[nm] = ok
        return cache[nm]

    def cwise_operand(self, x, env, pre):
        if classify(type_of(x)) == 'agg':
            return self.eval_obj(x, env, pre)
        return self.eval(x, env, pre)

    def cwise_operands(self, x, y, env, pre):
        """both operands of a coefficient-wise binary operation; a floating literal operand is read at the other operand's
        coefficient type when that is exact (Eigen converts the scalar operand to the expression's scalar type first)"""
        xs, ys = classify(type_of(x)) != 'agg', classify(type_of(y)) != 'agg'
        if xs != ys and strip_noop(x if xs else y).get('kind') == 'FloatingLiteral':
            O = self.eval_obj(y if xs else x, env, pre)
            lv = leaves(O) if isinstance(O, dict) else []
            lit = self.literal_at(x if xs else y, lv[0][1].ty, env.frame) if lv else None
            if lit is None:
                lit = self.eval(x if xs else y, env, pre)
            return (lit, O) if xs else (O, lit)
        return self.cwise_operand(x, env, pre), self.cwise_operand(y, env, pre)

    def cwise2(self, A, B, fn, frame):
        """coefficient-wise combination of two operands, a scalar operand being broadcast (converted to the coefficient type)"""
        if isinstance(A, Sc) and isinstance(B, Sc):
            raise Untranslatable('coefficient-wise operation on two scalars')
        obj = A if isinstance(A, dict) else B
        if not obj or not all(isinstance(v, Sc) for v in obj.values()):
            raise Untranslatable('coefficient-wise operation on an object without known coefficients')
        if isinstance(A, dict) and isinstance(B, dict) and set(A.keys()) != set(B.keys()):
            raise Untranslatable('coefficient-wise operation on objects of different shapes')
        res = {}
        for kk in obj:
            a = A[kk] if isinstance(A, dict) else A
            b = B[kk] if isinstance(B, dict) else B
            if not isinstance(a, Sc) or not isinstance(b, Sc):
                raise Untranslatable('coefficient-wise operation on nested objects')
            if isinstance(A, Sc):
                a = self.num_to(a, b.ty, frame)
            if isinstance(B, Sc):
                b = self.num_to(b, a.ty, frame)
            if a.ty != b.ty:
                raise Untranslatable('coefficient-wise operation on different scalar types')
            res[kk] = fn(a, b)
        return res

    def sc_minmax(self, nm, a, b, frame):
        """Eigen's scalar_min_op / scalar_max_op = std::min / std::max (also the SSE packet versions of Eigen 3.4):
        min(a,b) = (b < a) ? b : a ; max(a,b) = (a < b) ? b : a"""
        if a.ty in ('a', 'd'):
            frame.need('LT', a.ty)
            frame.need('DecidableLT', a.ty)
        c = '%s < %s' % ((par(b.t), par(a.t)) if nm == 'min' else (par(a.t), par(b.t)))
        return Sc('(if %s then %s else %s)' % (c, unpar(b.t), unpar(a.t)), a.ty)

    def sc_cmp(self, op, a, b, frame):
        fmt, cls = self.CMP[op]
        if op in ('>', '>='):
            a, b = b, a
        if cls == 'EQ':
            if a.ty in ('a', 'd'):
                frame.need('DecidableEq', a.ty)
        else:
            frame.need(cls, a.ty)
            frame.need('Decidable' + cls, a.ty)
        return Sc('(' + fmt % (par(a.t), par(b.t)) + ')', 'p')

    def wrap_ctype(self, ct):
        """C++ coefficient type of the Eigen (expression) type `ct` when integer results must be reduced to it (spec option
        `unsigned_wrap`); None without the option"""
        return self.eigen_keys(ct)[1] if self.spec.get('unsigned_wrap') else None

    def sc_arith(self, op, cls, a, b, frame, ctype=None):
        """`a op b` on two coefficients of the same kind; `ctype` = the C++ type it is computed in (see wrap_ctype)"""
        if a.ty == 'i':
            if op in ('+', '-', '*'):
                r = Sc('(%s %s %s)' % (par(a.t), op, par(b.t)), 'i')
                return self.uwrap(r, ctype) if ctype is not None else r
            return Sc('(Int.tdiv %s %s)' % (par(a.t), par(b.t)), 'i')
        frame.need(cls, a.ty)
        return Sc('(%s %s %s)' % (par(a.t), op, par(b.t)), a.ty)

    def eval_obj_phase2(self, m, k, ct, env, pre):
        """aggregate expressions added in phase 2 (None = not one of them)"""
        frame = env.frame
        if k in ('CXXConstructExpr', 'CXXTemporaryObjectExpr') and vec_elem(ct) is not None:
            return self.vector_construct(m, ct, env, pre)
        if k in ('CXXConstructExpr', 'CXXTemporaryObjectExpr') and len(m.get('inner', []) or []) == 1 and self.is_oracle_call(m['inner'][0]) \
                and 'Matrix<' in strip_cv(type_of(m)):
            # phase 3: `Eigen::Matrix<T, 3, 1> x = obj.oracle();` (a dynamic-size result converted to a fixed size)
            return self.oracle_value(strip_noop(m['inner'][0]), type_of(m), env, pre)
        if k in ('CXXConstructExpr', 'CXXTemporaryObjectExpr') and m.get('zeroing') and not m.get('inner') and self.find_record(ct)[1] is not None:
            # phase 3: value-initialisation `T()` of a class without a user-provided default constructor: every scalar member is zero
            res = {}
            for p_, st in self.shape_of(ct):
                sty = self.tyvar(frame, st)
                cur = res
                for kk in p_[:-1]:
                    cur = cur.setdefault(kk, {})
                cur[p_[-1]] = Sc('false', 'b') if sty == 'b' else Sc(self.zero_of(sty, frame), sty)
            return res
        if k == 'CXXMemberCallExpr':
            callee = self.callee_ref(m)
            nm = callee.get('name')
            base = callee['inner'][0] if callee.get('inner') else None
            if base is None:
                return None
            bt = type_of(base)
            args = m['inner'][1:]
            if self.is_eigen_type(ct) and self.getter_member(m) is not None:
                root, path = self.resolve_lvalue(m, env)
                return self.read_obj(env, root, path, ct)
            if not self.is_eigen_type(bt) or self.method_def(callee.get('referencedMemberDecl')) is not None:
                return None
            r3 = self.eigen_geom_member(nm, base, bt, args, m, ct, env, pre)      # phase 3: Transform members, views, `.finished()`
            if r3 is not None:
                return r3
            if nm in ('array', 'matrix', 'eval') and not args:
                return self.eval_obj(base, env, pre)
            if nm == 'cast' and not args:
                mm = re.search(r'scalar_cast_op<\s*([\w ]+?)\s*,\s*([\w ]+?)\s*>', ct)
                if not mm:
                    raise Untranslatable('cast<>() without a recognisable target type')
                obj = self.eval_obj(base, env, pre)
                if not isinstance(obj, dict) or not all(isinstance(v, Sc) for v in obj.values()):
                    raise Untranslatable('cast<>() of an object without known coefficients')
                return {kk: self.convert(v, frame, mm.group(2)) for kk, v in obj.items()}
            if nm in ('min', 'max', 'cwiseMin', 'cwiseMax') and len(args) == 1:
                which = 'min' if nm in ('min', 'cwiseMin') else 'max'
                A = self.eval_obj(base, env, pre)
                B = self.cwise_operand(args[0], env, pre)
                return self.cwise2(A, B, lambda a, b: self.sc_minmax(which, a, b, frame), frame)
            if nm in ('abs', 'cwiseAbs', 'sqrt', 'cwiseSqrt', 'floor', 'ceil') and not args:
                fn = {'cwiseAbs': 'abs', 'cwiseSqrt': 'sqrt'}.get(nm, nm)
                obj = self.eval_obj(base, env, pre)
                return self.cwise1(obj, fn, frame)
            if nm == 'transpose' and not args:
                obj = self.eval_obj(base, env, pre)
                if isinstance(obj, dict) and obj and all(isinstance(kk, tuple) and len(kk) == 1 for kk in obj) \
                        and all(isinstance(v, Sc) for v in obj.values()):      # phase 5: a column vector: the 1 x n row vector
                    return {(0, kk[0]): v for kk, v in obj.items()}
                if not isinstance(obj, dict) or not obj or not all(isinstance(kk, tuple) and len(kk) == 2 for kk in obj):
                    raise Untranslatable('transpose() of an object that is not a matrix with known coefficients')
                return {(kk[1], kk[0]): v for kk, v in obj.items()}
            if nm in ('col', 'row') and len(args) == 1:
                obj = self.eval_obj(base, env, pre)
                j = self.const_int(args[0], env)
                if not isinstance(obj, dict) or not obj or not all(isinstance(kk, tuple) and len(kk) == 2 for kk in obj):
                    raise Untranslatable('%s() of an object that is not a matrix with known coefficients' % nm)
                res = {(kk[0] if nm == 'col' else kk[1],): v for kk, v in obj.items() if (kk[1] if nm == 'col' else kk[0]) == j}
                if not res:
                    raise Untranslatable('%s(%d) outside the matrix' % (nm, j))
                return res
            if nm in ('head', 'tail', 'segment') and len(args) <= 2:
                obj = self.eval_obj(base, env, pre)
                if not isinstance(obj, dict) or not obj or not all(isinstance(kk, tuple) and len(kk) == 1 for kk in obj):
                    raise Untranslatable('%s() of an object that is not a vector with known coefficients' % nm)
                targs = [int(x) for x in re.findall(r'-?\d+', (re.search(r'%s<([^<>]*)>' % nm, self.tu.range_text(m)) or [None, ''])[1])]
                nums = targs + [self.const_int(a, env) for a in args]
                size = len(obj)
                if nm == 'segment' and len(nums) == 2:
                    lo, cnt = (nums[1], nums[0]) if targs else (nums[0], nums[1])
                elif nm == 'head' and len(nums) == 1:
                    lo, cnt = 0, nums[0]
                elif nm == 'tail' and len(nums) == 1:
                    lo, cnt = size - nums[0], nums[0]
                else:
                    raise Untranslatable('%s() with these arguments' % nm)
                if lo < 0 or cnt < 1 or lo + cnt > size:
                    raise Untranslatable('%s() outside the vector' % nm)
                return {(i,): obj[(lo + i,)] for i in range(cnt)}
            if nm == 'block' and len(args) in (2, 4):
                bb = strip_noop(base)
                if bb.get('kind') in ('DeclRefExpr', 'MemberExpr') and bb.get('valueCategory') == 'lvalue':
                    # a block of a variable: only the coefficients of the block are read
                    keys, st = self.eigen_keys(type_of(base))
                    root, path = self.resolve_lvalue(bb, env)
                    ty = self.tyvar(frame, st)
                    return {sub: self.read_leaf(env, root, list(path) + [bk], ty) for sub, bk in self.block_map(m, {kk: None for kk in keys}, env)}
                obj = self.eval_obj(base, env, pre)
                return {sub: obj[bk] for sub, bk in self.block_map(m, obj, env)}
            if nm in ('cwiseProduct', 'cwiseQuotient') and len(args) == 1:
                op, cls = ('*', 'Mul') if nm == 'cwiseProduct' else ('/', 'Div')
                A = self.eval_obj(base, env, pre)
                B = self.eval_obj(args[0], env, pre)
                wt = self.wrap_ctype(ct)
                return self.cwise2(A, B, lambda a, b: self.sc_arith(op, cls, a, b, frame, wt), frame)
            return None
        if k == 'CallExpr':
            callee = self.callee_ref(m)
            nm = (callee.get('referencedDecl') or {}).get('name') or callee.get('name')
            args = m['inner'][1:]
            if nm in LIBM1 and len(args) == 1 and self.is_eigen_type(type_of(args[0])) and classify(type_of(args[0])) == 'agg' \
                    and 'CwiseUnaryOp<' in ct:
                return self.cwise1(self.eval_obj(args[0], env, pre), LIBM1[nm], frame)
            if nm == 'Identity' and not args and self.transform_type(ct) is not None:      # phase 3: Eigen::Transform<T, 3, Affine>::Identity()
                ty = self.tyvar(frame, self.transform_type(ct))
                frame.need('NatCast', ty)
                return {(i, j): Sc('((%d : Nat) : %s)' % (1 if i == j else 0, TY_LEAN[ty]), ty) for i in range(4) for j in range(4)}
            if nm == 'Constant' and len(args) == 1 and 'CwiseNullaryOp<' in ct and 'scalar_constant_op<' in ct:
                keys, st = self.eigen_keys(ct)
                v = self.num_to(self.eval(args[0], env, pre), self.tyvar(frame, st), frame)
                return {kk: v for kk in keys}
            return None
        if k == 'CXXOperatorCallExpr' and self.is_vec_elem(m):
            return self.vec_read(m, env, pre)
        if k == 'CXXOperatorCallExpr':
            nm = (self.callee_ref(m).get('referencedDecl') or {}).get('name')
            ops = m['inner'][1:]
            if nm == 'operator*' and len(ops) == 2 and self.transform_type(type_of(ops[0])) is not None:      # phase 3: `Transform * vector`
                return self.transform_apply(ops[0], ops[1], env, pre)
            if nm in self.EIG_BIN and len(ops) == 2 and 'CwiseBinaryOp<' in ct and 'Product<' not in ct.split('CwiseBinaryOp<')[0]:
                op, cls = self.EIG_BIN[nm]
                A, B = self.cwise_operands(ops[0], ops[1], env, pre)
                wt = self.wrap_ctype(ct)
                return self.cwise2(A, B, lambda a, b: self.sc_arith(op, cls, a, b, frame, wt), frame)
            if nm in self.EIG_CMP and len(ops) == 2 and 'CwiseBinaryOp<' in ct:
                op = self.EIG_CMP[nm]
                A, B = self.cwise_operands(ops[0], ops[1], env, pre)
                return self.cwise2(A, B, lambda a, b: self.sc_cmp(op, a, b, frame), frame)
            if nm == 'operator-' and len(ops) == 1 and 'CwiseUnaryOp<' in ct:
                obj = self.eval_obj(ops[0], env, pre)
                if not isinstance(obj, dict) or not all(isinstance(v, Sc) for v in obj.values()):
                    raise Untranslatable('negation of an object without known coefficients')
                res = {}
                for kk, v in obj.items():
                    frame.need('Neg', v.ty)
                    res[kk] = Sc('(-%s)' % par(v.t), v.ty)
                    if v.ty == 'i' and self.spec.get('unsigned_wrap'):
                        res[kk] = self.uwrap(res[kk], self.wrap_ctype(ct))
                return res
            return None
        return None

    def block_map(self, m, obj, env):
        """[(key inside the block, key of the underlying matrix)] of `M.block<R, C>(i, j)` / `M.block(i, j, R, C)` with constant
        arguments on a matrix whose coefficient keys are those of `obj`"""
        callee = self.callee_ref(m)
        args = m['inner'][1:]
        if not isinstance(obj, dict) or not obj or not all(isinstance(kk, tuple) and len(kk) == 2 for kk in obj):
            raise Untranslatable('block() of an object that is not a matrix with known coefficients')
        targs = [int(x) for x in re.findall(r'-?\d+', (re.search(r'block\s*<([^<>]*)>', self.tu.range_text(m)) or [None, ''])[1])]
        nums = [self.const_int(a, env) for a in args]
        if len(nums) == 4 and not targs:
            i0, j0, R, C = nums
        elif len(nums) == 2 and len(targs) == 2:
            (i0, j0), (R, C) = nums, targs
        else:
            raise Untranslatable('block() with these arguments')
        out = []
        for i in range(R):
            for j in range(C):
                if (i0 + i, j0 + j) not in obj:
                    raise Untranslatable('block() outside the matrix')
                out.append(((i, j), (i0 + i, j0 + j)))
        return out

    def block_assign(self, lhs, rhs, env, k):
        """`M.block<R, C>(i, j) = expr;` : the coefficients of the block are written one by one"""
        pre = []
        e2 = env.copy()
        lhs = strip_noop(lhs)
        callee = self.callee_ref(lhs)
        base = callee['inner'][0]
        val = self.eval_obj(rhs, e2, pre)
        root, path = self.resolve_lvalue(base, e2)
        keys, st = self.eigen_keys(type_of(base))
        bm = self.block_map(lhs, {kk: None for kk in keys}, e2)
        if isinstance(val, dict) and 'm' in val and 'rows' in val and self.spec.get('dyn_sizes'):      # phase 5: a dynamic-size value
            val = self.dynx_to_fixed(val, [sub for sub, _ in bm])
        if isinstance(val, dict) and val and set(val.keys()) != set(sub for sub, _ in bm) and all(isinstance(kk, tuple) and len(kk) == 1 for kk in val) \
                and set((kk[0], 0) for kk in val) == set(sub for sub, _ in bm):
            val = {(kk[0], 0): v_ for kk, v_ in val.items()}      # phase 5: an n x 1 block assigned from a vector
        if not isinstance(val, dict) or set(val.keys()) != set(sub for sub, _ in bm):
            raise Untranslatable('block assignment from an object of another shape')
        obj = {bk: val[sub] for sub, bk in bm}
        # bind_obj on the whole matrix would need the other coefficients: write leaf by leaf
        def go(items, e):
            if not items:
                return k(e)
            bk, v = items[0]
            return self.bind_obj(e, root, list(path) + [bk], v, lambda e3: go(items[1:], e3))
        return self.wrap(pre, go(sorted(obj.items()), e2))

    def cwise1(self, obj, fn, frame):
        if not isinstance(obj, dict) or not obj or not all(isinstance(v, Sc) for v in obj.values()):
            raise Untranslatable('coefficient-wise function of an object without known coefficients')
        res = {}
        for kk, v in obj.items():
            if v.ty == 'i' and fn == 'abs':
                res[kk] = Sc('((Int.natAbs %s : Nat) : Int)' % par(v.t), 'i')
                continue
            if v.ty not in ('a', 'd'):
                raise Untranslatable('coefficient-wise libm function on non-floating coefficients')
            frame.need('Trans', v.ty)
            res[kk] = Sc('(Trans.%s %s)' % (fn, par(v.t)), v.ty)
        return res

    def member_call_phase2(self, nm, base, bt, n, env, pre):
        """member calls without a body in the translation unit, with a scalar result or used as statements (phase 2)"""
        frame = env.frame
        args = n['inner'][1:]
        if base is not None and self.is_eigen_type(bt) and nm in ('all', 'any') and not args:
            obj = self.eval_obj(base, env, pre)
            lv = leaves(obj) if isinstance(obj, dict) else []
            if not lv:
                raise Untranslatable('%s() of an object without known coefficients' % nm)
            acc = self.as_prop(lv[0][1])
            for _, sc in lv[1:]:
                acc = '(%s %s %s)' % (par(acc), '∧' if nm == 'all' else '∨', par(self.as_prop(sc)))
            return Sc(acc, 'p')
        if base is not None and self.is_eigen_type(bt) and nm in ('sum', 'prod', 'minCoeff', 'maxCoeff') and not args:
            obj = self.eval_obj(base, env, pre)
            lv = leaves(obj) if isinstance(obj, dict) else []
            if not lv:
                raise Untranslatable('%s() of an object without known coefficients' % nm)
            if nm == 'prod' and all(sc.ty in ('p', 'b') for _, sc in lv):      # product of booleans = conjunction
                acc = self.as_prop(lv[0][1])
                for _, sc in lv[1:]:
                    acc = '(%s ∧ %s)' % (par(acc), par(self.as_prop(sc)))
                return Sc(acc, 'p')
            acc = lv[0][1]
            wt = self.wrap_ctype(bt)
            for _, sc in lv[1:]:      # Eigen's default (unvectorised, left-to-right) redux — trusted reading, as for norm()
                if sc.ty != acc.ty:
                    raise Untranslatable('reduction over different scalar types')
                if nm == 'sum':
                    acc = self.sc_arith('+', 'Add', acc, sc, frame, wt)
                elif nm == 'prod':
                    acc = self.sc_arith('*', 'Mul', acc, sc, frame, wt)
                else:
                    acc = self.sc_minmax('min' if nm == 'minCoeff' else 'max', acc, sc, frame)
            return acc
        if base is not None and self.is_eigen_type(bt) and nm in ('setConstant', 'setZero', 'setOnes') and len(args) == (1 if nm == 'setConstant' else 0) \
                and self.is_eigen_view(base):
            # phase 3: `v.tail<N>().setZero()`, `T.linear().setConstant(x)`: the coefficients of the view (possibly none)
            root, path, vm = self.eigen_view(base, env)
            _, st = self.outer_keys(type_of(strip_noop(base)))
            ty = self.tyvar(frame, st)
            if nm == 'setConstant':
                v = self.num_to(self.eval(args[0], env, pre), ty, frame)
            elif ty in ('a', 'd'):
                if vm:
                    frame.need('NatCast', ty)
                v = Sc('((%d : Nat) : %s)' % (1 if nm == 'setOnes' else 0, TY_LEAN[ty]), ty)
            else:
                v = Sc('1' if nm == 'setOnes' else '0', 'i')
            for sk, bk in vm:
                self.write(env, root, list(path) + [bk], v)
            return None
        if base is not None and self.is_eigen_type(bt) and nm in ('setConstant', 'setZero', 'setOnes') and len(args) == (1 if nm == 'setConstant' else 0):
            keys, st = self.eigen_keys(bt)
            ty = self.tyvar(frame, st)
            if nm == 'setConstant':
                v = self.num_to(self.eval(args[0], env, pre), ty, frame)
            else:
                frame.need('NatCast', ty)
                v = Sc('((%d : Nat) : %s)' % (1 if nm == 'setOnes' else 0, TY_LEAN[ty]), ty) if ty in ('a', 'd') else Sc('1' if nm == 'setOnes' else '0', 'i')
            root, path = self.resolve_lvalue(base, env)
            self.write(env, root, path, {kk: v for kk in keys})
            return None
        if base is not None and self.is_list(bt):
            root, path = self.resolve_lvalue(base, env)
            lty = self.tyvar(frame, bt)
            if lty[0] == 'L' and nm in ('capacity', 'reserve', 'resize') and len(args) == (0 if nm == 'capacity' else 1):
                return self.tuple_list_alloc(nm, root, path, lty, args, env, pre)      # phase 5
            if lty[0] in ('L', 'T') and nm not in ('size', 'empty'):
                return NotImplemented
            cur = self.read_leaf(env, root, path, lty)
            if nm == 'size' and not args:
                return Sc('(%s.length : Int)' % par(cur.t), 'i')
            if nm == 'empty' and not args:
                return Sc('(%s = [])' % par(cur.t), 'p') if False else Sc('(%s.length = 0)' % par(cur.t), 'p')
            if nm == 'resize' and len(args) == 1:
                self.need_helper('vecResize')
                cnt = self.eval(args[0], env, pre)
                if cnt.ty != 'i':
                    raise Untranslatable('resize() with a non-integer count')
                new = 'vecResize %s %s %s' % (par(cur.t), par(cnt.t), self.zero_of(lty[1], frame))
            elif nm == 'clear' and not args:
                new = '([] : %s)' % TY_LEAN[lty]
            elif nm == 'push_back' and len(args) == 1:
                v = self.coerce(self.eval(args[0], env, pre), lty[1])
                new = '%s ++ [%s]' % (par(cur.t), unpar(v.t))
            else:
                return NotImplemented
            name = frame.fresh(path_name(self.root_name(frame, root), path))
            pre.append(('let', name, new))
            self.write(env, root, path, Sc(name, lty))
            return None
        return NotImplemented

    def tuple_list_alloc(self, nm, root, path, lty, args, env, pre):
        """phase 5: `capacity()`, `reserve(n)`, `resize(n)` of a std::vector of small fixed-size Eigen vectors (a list of coordinate tuples).
        `capacity()` is the value of a HIDDEN integer leaf `<vector>_capacity` of the object (it is not a function of the contents; it is
        not tracked across mutators: a read after `reserve` / `resize` in the same body is untranslatable); `reserve(n)` changes nothing
        observable; `resize(n)` is `vecResize v n fill` with `fill` = the uninterpreted parameter `<vector>_resize_fill` (a
        default-constructed element: indeterminate for plain Eigen vectors)"""
        frame = env.frame
        top = frame.top()
        dirty = getattr(top, 'cap_dirty', None)
        if dirty is None:
            dirty = top.cap_dirty = set()
        key = (root, tuple(path))
        if nm == 'capacity':
            if key in dirty or not path or not isinstance(path[-1], str):
                raise Untranslatable('capacity() read after the vector was reallocated in the same function / of a non-member vector')
            return self.read_leaf(env, root, list(path[:-1]) + [path[-1] + '_capacity'], 'i')
        cnt = self.eval(args[0], env, pre)
        if cnt.ty != 'i':
            raise Untranslatable('%s() with a non-integer count' % nm)
        dirty.add(key)
        if nm == 'reserve':
            return None
        if pre is None:
            raise Untranslatable('container mutation `resize` inside an expression')
        cur = self.read_leaf(env, root, path, lty)
        self.need_helper('vecResize')
        ety = '(%s)' % tuple_type([lty[2]] * int(lty[1]))
        fill = self.uninterp_param(env, lean_ident(path_name(self.root_name(frame, root), path) + '_resize_fill'), ety)
        name = frame.fresh(path_name(self.root_name(frame, root), path))
        pre.append(('let', name, 'vecResize %s %s %s' % (par(cur.t), par(cnt.t), fill)))
        self.write(env, root, path, Sc(name, lty))
        return None

    def zero_of(self, ty, frame):
        if ty in ('a', 'd'):
            frame.need('NatCast', ty)
            return '((0 : Nat) : %s)' % TY_LEAN[ty]
        if ty == 'i':
            return '0'
        if ty == 'b':
            return 'false'
        raise Untranslatable('value-initialised element of type %s' % ty)

    def vector_construct(self, m, ct, env, pre):
        """`std::vector<T>()`, `std::vector<T>(n)` with a literal n: scalars -> a list of n zeros; T = std::vector<scalar> -> an
        aggregate of n empty lists (addressed with constant indices only)"""
        frame = env.frame
        a = [c for c in m.get('inner', []) or [] if c.get('kind') != 'CXXDefaultArgExpr']
        et = vec_elem(ct)
        if classify(ct) == 'list':
            lty = self.tyvar(frame, ct)
            if not a:
                return Sc('([] : %s)' % TY_LEAN[lty], lty)
            if len(a) == 1 and classify(type_of(a[0])) in ('int', 'uint'):
                cnt = self.eval(a[0], env, pre)
                return Sc('(List.replicate (Int.toNat %s) %s)' % (par(cnt.t), self.zero_of(lty[1], frame)), lty)
            if len(a) == 1 and classify(type_of(a[0])) == 'list':
                return self.eval(a[0], env, pre)
            raise Untranslatable('std::vector constructor with these arguments')
        if classify(et) == 'list':
            if not a:
                return {}
            if len(a) == 1 and classify(type_of(a[0])) in ('int', 'uint'):
                cnt = self.eval(a[0], env, pre)
                if getattr(cnt, 'lit', None) is None or not 0 <= cnt.lit <= 16:
                    raise Untranslatable('std::vector of vectors with a non-constant size')
                lty = self.tyvar(frame, et)
                return {(i,): Sc('([] : %s)' % TY_LEAN[lty], lty) for i in range(cnt.lit)}
        if self.is_list(ct) and classify(ct) == 'agg':
            # phase 3: `std::vector<V>()` / `std::vector<V>(n)`, V a small fixed-size Eigen vector: a list of n coordinate tuples. Eigen's
            # default constructor leaves the coefficients INDETERMINATE; the translation fills them with zeros (a read before the first
            # write is undefined behaviour in C++ and is not detected here)
            lty = self.tyvar(frame, ct)
            if not a:
                return Sc('([] : %s)' % TY_LEAN[lty], lty)
            if len(a) == 1 and classify(type_of(a[0])) in ('int', 'uint'):
                cnt = self.eval(a[0], env, pre)
                z = tuple_term([self.zero_of(lty[2], frame)] * int(lty[1]))
                return Sc('(List.replicate (Int.toNat %s) %s)' % (par(cnt.t), z), lty)
            if len(a) == 1 and self.is_list(type_of(a[0])) and strip_cv(type_of(a[0])) == strip_cv(ct):
                return self.eval_obj(a[0], env, pre)
        raise Untranslatable('constructor of %s' % strip_cv(ct))

    def exec_vec_tuple_assign(self, lhs, rhs, env, k):
        """`v[i] = x;` on a std::vector of small fixed-size Eigen vectors (checked encoding): `vecSet? v i (x0, x1, …)`, the function's
        result being `none` if `i` is outside `v`"""
        frame = env.frame
        lhs = strip_noop(lhs)
        pre = []
        e2 = env.copy()
        val = self.eval_obj(rhs, e2, pre)
        root, path = self.resolve_lvalue(lhs['inner'][1], e2)
        lty = self.tyvar(frame, type_of(lhs['inner'][1]))
        cur = self.read_leaf(e2, root, path, lty)
        idx = self.eval(lhs['inner'][2], e2, pre)
        if idx.ty != 'i':
            raise Untranslatable('vector index that is not an integer')
        cnt = int(lty[1])
        if not isinstance(val, dict) or sorted(val.keys()) != [(i,) for i in range(cnt)] or \
                not all(isinstance(val[(i,)], Sc) and val[(i,)].ty == lty[2] for i in range(cnt)):
            raise Untranslatable('assignment to a vector element from an object of another shape')
        self.need_helper('vecSet?')
        self.set_partial(frame)
        name = frame.fresh(path_name(self.root_name(frame, root), path))
        self.write(e2, root, path, Sc(name, lty))
        return self.wrap(pre, ('bind', name, 'vecSet? %s %s %s' % (par(cur.t), par(idx.t), tuple_term([val[(i,)].t for i in range(cnt)])), k(e2)))

    def is_vec_elem(self, n):
        n = strip_noop(n)
        if n.get('kind') != 'CXXOperatorCallExpr' or len(n.get('inner', [])) != 3:
            return False
        if (self.callee_ref(n).get('referencedDecl') or {}).get('name') != 'operator[]':
            return False
        return self.is_list(type_of(n['inner'][1]))

    def is_list(self, ctype):
        """std::vector of scalars, or of small fixed-size vectors of one scalar type"""
        if classify(ctype) == 'list':
            return True
        if LIST_OPTS['encoding'] != 'checked' or vec_elem(ctype) is None or classify(vec_elem(ctype)) != 'agg':
            return False
        try:
            sh = self.shape_of(vec_elem(ctype))
        except Untranslatable:
            return False
        if 2 <= len(sh) <= 4 and len(set(strip_cv(st) for _, st in sh)) == 1 and all(len(p_) == 1 for p_, _ in sh) \
                and classify(sh[0][1]) in ('double', 'float', 'int', 'uint'):
            return True
        return self.is_struct_list(ctype)

    def is_struct_list(self, ctype):
        """phase 3: std::vector of a plain struct (a record of the translation unit, not an Eigen matrix) whose members are 2 to 8 scalars of
        possibly different kinds: a list of tuples in member order (type code `T<codes>`), READ ONLY (`v[i]`, `v.size()`)"""
        et = vec_elem(ctype)
        if LIST_OPTS['encoding'] != 'checked' or et is None or classify(et) != 'agg' or re.search(r'\b(?:Matrix|Array)<', strip_cv(et)):
            return False
        rid, rec = self.find_record(et)
        if rec is None or rec.get('bases'):
            return False
        try:
            sh = self.record_shape(rec)
        except Untranslatable:
            return False
        return 2 <= len(sh) <= 8 and all(len(p_) == 1 and isinstance(p_[0], str) for p_, _ in sh) and \
            all(classify(st) in ('double', 'float', 'int', 'uint', 'bool') for _, st in sh)

    def is_vec_elem_member(self, n):
        """phase 5: `v[i].field`, v a std::vector of a plain struct of scalars (a list of tuples, read only)"""
        n = strip_noop(n)
        if n.get('kind') != 'MemberExpr' or n.get('isArrow') or not n.get('inner'):
            return False
        b = strip_noop(n['inner'][0])
        return self.is_vec_elem(b) and self.is_struct_list(type_of(b['inner'][1]))

    def vec_member_read(self, n, env, pre):
        n = strip_noop(n)
        d = self.vec_read(n['inner'][0], env, pre)
        if not isinstance(d, dict) or n.get('name') not in d:
            raise Untranslatable('member `%s` of a vector element' % n.get('name'))
        return d[n.get('name')]

    def set_partial(self, frame):
        f = frame
        while f is not None:
            f.opt = True
            f = f.parent

    def vec_read(self, n, env, pre):
        """`v[i]` (read) of a std::vector of scalars: `vecGet? v i`, the function's result being `none` if `i` is outside `v`"""
        frame = env.frame
        n = strip_noop(n)
        root, path = self.resolve_lvalue(n['inner'][1], env)
        lty = self.tyvar(frame, type_of(n['inner'][1]))
        cur = self.read_leaf(env, root, path, lty)
        idx = self.eval(n['inner'][2], env, pre)
        if idx.ty != 'i':
            raise Untranslatable('vector index that is not an integer')
        self.need_helper('vecGet?')
        self.set_partial(frame)
        name = frame.fresh(path_name(self.root_name(frame, root), path) + '_at')
        pre.append(('bind', name, 'vecGet? %s %s' % (par(cur.t), par(idx.t))))
        if lty[0] == 'L':      # an element that is a small vector: its coordinates
            cnt = int(lty[1])
            return {(i,): Sc(tuple_proj(name, i, cnt), lty[2]) for i in range(cnt)}
        if lty[0] == 'T':      # phase 3: an element that is a struct of scalars: its members
            sh = self.shape_of(vec_elem(type_of(n['inner'][1])))
            return {p_[0]: Sc(tuple_proj(name, i, len(sh)), lty[1 + i]) for i, (p_, _) in enumerate(sh)}
        return Sc(name, lty[1])

    def exec_vec_assign(self, lhs, rhs, op, node, env, k):
        frame = env.frame
        lhs = strip_noop(lhs)
        pre = []
        v = self.eval(rhs, env, pre)
        root, path = self.resolve_lvalue(lhs['inner'][1], env)
        lty = self.tyvar(frame, type_of(lhs['inner'][1]))
        cur = self.read_leaf(env, root, path, lty)
        idx = self.eval(lhs['inner'][2], env, pre)
        if idx.ty != 'i':
            raise Untranslatable('vector index that is not an integer')
        if op or lty[0] == 'L':
            raise Untranslatable('compound assignment to a vector element / assignment to an element that is a vector')
        v = self.coerce(v, lty[1])
        self.need_helper('vecSet?')
        self.set_partial(frame)
        name = frame.fresh(path_name(self.root_name(frame, root), path))
        self.write(env, root, path, Sc(name, lty))
        return self.wrap(pre, ('bind', name, 'vecSet? %s %s %s' % (par(cur.t), par(idx.t), par(v.t)), k(env)))

    # ================================================================== phase 3: Eigen::Transform<T, 3, Affine>, writable views of
    # fixed-size Eigen objects (`.linear() .translation() .col(j) .row(i) .block<R, C>(i, j)`), comma initialisers
    TRANSFORM_RE = re.compile(r'^(?:Eigen::)?Transform<\s*(double|float)\s*,\s*(\d+)\s*,\s*(\d+)\s*(?:,\s*\d+\s*)?>$')
    VIEW_NAMES = ('linear', 'translation', 'col', 'row', 'block', 'head', 'tail')

    def transform_type(self, ctype):
        """C++ scalar type of an `Eigen::Transform<T, 3, Affine>` (`Affine3d`, `Affine3f`) type; None for every other type; other
        dimensions / modes (Isometry, AffineCompact, Projective) are refused"""
        mm = self.TRANSFORM_RE.match(strip_cv(ctype))
        if not mm:
            return None
        if int(mm.group(2)) != 3 or int(mm.group(3)) != 2:
            raise Untranslatable('Eigen::Transform other than a 3-dimensional Affine one (%s)' % strip_cv(ctype))
        return mm.group(1)

    def outer_keys(self, ctype):
        """coefficient keys and C++ scalar type of a fixed-size Eigen lvalue type, read from the OUTERMOST template: a
        `Block<X, R, C, …>` is R x C (whatever X is), a `Transform<T, 3, Affine>` its 4x4 matrix, anything else as `eigen_keys`"""
        t = strip_cv(ctype)
        tf = self.transform_type(t)
        if tf is not None:
            return [(i, j) for i in range(4) for j in range(4)], tf
        mv = re.match(r'^(?:Eigen::)?VectorBlock<(.*),\s*(-?\d+)\s*>$', t)
        if mv:      # `v.head<N>()`, `v.tail<N>()`: N coefficients (possibly none)
            _, st = self.eigen_keys(t)
            if not 0 <= int(mv.group(2)) <= 64:
                raise Untranslatable('vector block type %s without a small fixed size' % t[:120])
            return [(i,) for i in range(int(mv.group(2)))], st
        mm = re.match(r'^(?:Eigen::)?Block<', t)
        if mm:
            d, parts, cur = 0, [], ''
            for ch in t[t.index('<') + 1:]:
                if ch == '<':
                    d += 1
                elif ch == '>':
                    if d == 0:
                        break
                    d -= 1
                if ch == ',' and d == 0:
                    parts.append(cur.strip())
                    cur = ''
                else:
                    cur += ch
            parts.append(cur.strip())
            try:
                r, c = int(parts[1]), int(parts[2])
            except (IndexError, ValueError):
                raise Untranslatable('block type %s without fixed sizes' % t[:120])
            if r < 1 or c < 1 or r * c > 64:
                raise Untranslatable('block type %s without small fixed sizes' % t[:120])
            _, st = self.eigen_keys(t)
            if c == 1 or r == 1:
                return [(i,) for i in range(r * c)], st
            return [(i, j) for i in range(r) for j in range(c)], st
        if not re.search(r'\b(?:Matrix|Array)<', t) and self.find_record(t)[1] is not None:
            sh = self.shape_of(t)      # a class derived from a fixed-size Eigen matrix (HomogeneousCoordinates3<double>)
            if sh and all(len(p_) == 1 and isinstance(p_[0], tuple) for p_, _ in sh) and len(set(strip_cv(st_) for _, st_ in sh)) == 1:
                return [p_[0] for p_, _ in sh], sh[0][1]
        return self.eigen_keys(t)

    def is_eigen_view(self, n):
        """`X.linear()`, `X.translation()`, `X.col(j)`, `X.row(i)`, `X.block<R, C>(i, j)` (possibly nested) of an Eigen lvalue"""
        m = strip_noop(n)
        if m.get('kind') != 'CXXMemberCallExpr':
            return False
        callee = self.callee_ref(m)
        if callee.get('kind') != 'MemberExpr' or not callee.get('inner') or callee.get('name') not in self.VIEW_NAMES:
            return False
        return self.is_eigen_type(type_of(callee['inner'][0])) and self.method_def(callee.get('referencedMemberDecl')) is None

    def eigen_view(self, n, env):
        """(root, path, [(key inside the view, key of the underlying object)]) of a writable view of a fixed-size Eigen lvalue. The view
        keys are listed in ROW-MAJOR order (the order in which a comma initialiser fills them)."""
        m = strip_noop(n)
        if self.is_eigen_view(m) or (m.get('kind') == 'CXXMemberCallExpr' and self.callee_ref(m).get('name') in ('matrix', 'array')
                                     and self.callee_ref(m).get('inner') and len(m['inner']) == 1
                                     and self.is_eigen_type(type_of(self.callee_ref(m)['inner'][0]))):
            callee = self.callee_ref(m)
            nm = callee.get('name')
            base = callee['inner'][0]
            root, path, bm = self.eigen_view(base, env)
            bmap = dict(bm)
            args = m['inner'][1:]
            if nm in ('matrix', 'array'):
                return root, path, bm
            is_tf = self.transform_type(type_of(base)) is not None
            if nm == 'linear' and is_tf and not args:
                return root, path, [((i, j), bmap[(i, j)]) for i in range(3) for j in range(3)]
            if nm == 'translation' and is_tf and not args:
                return root, path, [((i,), bmap[(i, 3)]) for i in range(3)]
            if is_tf:
                raise Untranslatable('member function `%s` of an Eigen::Transform as an lvalue' % nm)
            mat = bool(bmap) and all(len(kk) == 2 for kk in bmap)
            if nm in ('col', 'row') and len(args) == 1 and mat:
                j = self.const_int(args[0], env)
                sel = sorted(kk for kk in bmap if (kk[1] if nm == 'col' else kk[0]) == j)
                if not sel:
                    raise Untranslatable('%s(%d) outside the matrix' % (nm, j))
                return root, path, [(((kk[0] if nm == 'col' else kk[1]),), bmap[kk]) for kk in sel]
            if nm == 'block' and mat:
                sub = self.block_map(m, {kk: None for kk in bmap}, env)
                return root, path, [(sk, bmap[bk]) for sk, bk in sub]
            if nm in ('head', 'tail') and len([a_ for a_ in args if a_.get('kind') != 'CXXDefaultArgExpr']) == 1 and bmap and all(len(kk) == 1 for kk in bmap):
                cnt = self.const_int([a_ for a_ in args if a_.get('kind') != 'CXXDefaultArgExpr'][0], env)      # phase 5: `head(n)` / `tail(n)`, n constant
                size = len(bmap)
                if cnt > size or cnt < 0:
                    raise Untranslatable('%s(%d) outside the vector' % (nm, cnt))
                lo = 0 if nm == 'head' else size - cnt
                return root, path, [((i,), bmap[(lo + i,)]) for i in range(cnt)]
            if nm in ('head', 'tail') and not [a_ for a_ in args if a_.get('kind') != 'CXXDefaultArgExpr'] and bmap and all(len(kk) == 1 for kk in bmap):
                cnt = len(self.outer_keys(type_of(m))[0])      # `head<N>()` / `tail<N>()`: N is read from the instantiated result type
                size = len(bmap)
                if cnt > size:
                    raise Untranslatable('%s<%d>() outside the vector' % (nm, cnt))
                lo = 0 if nm == 'head' else size - cnt
                return root, path, [((i,), bmap[(lo + i,)]) for i in range(cnt)]
            raise Untranslatable('view `%s` of an Eigen object with these arguments' % nm)
        if m.get('valueCategory') == 'lvalue' and m.get('kind') in ('DeclRefExpr', 'MemberExpr', 'CXXMemberCallExpr'):
            root, path = self.resolve_lvalue(m, env)
            keys, _ = self.outer_keys(type_of(m))
            return root, path, [(kk, kk) for kk in keys]
        raise Untranslatable('view of an Eigen expression that is not an lvalue')

    def write_view(self, env, root, path, items, k):
        """write [(key of the underlying object, value)] leaf by leaf (each bound to a name), in the given order"""
        def go(rest, e):
            if not rest:
                return k(e)
            bk, v = rest[0]
            return self.bind_obj(e, root, list(path) + [bk], v, lambda e3: go(rest[1:], e3))
        return go(list(items), env)

    def view_assign(self, lhs, rhs, env, k):
        """`view = expr;` : the coefficients of the view are written one by one"""
        pre = []
        e2 = env.copy()
        val = self.eval_obj(rhs, e2, pre)
        root, path, vm = self.eigen_view(lhs, e2)
        if not isinstance(val, dict) or set(val.keys()) != set(sk for sk, _ in vm) or not all(isinstance(v, Sc) for v in val.values()):
            raise Untranslatable('assignment to a view from an object of another shape')
        return self.wrap(pre, self.write_view(e2, root, path, [(bk, val[sk]) for sk, bk in vm], k))

    def comma_items(self, n):
        """(target expression, [item expressions]) of `target << a, b, c` (None if `n` is not such a chain)"""
        items = []
        m = strip_noop(n)
        while m.get('kind') == 'CXXOperatorCallExpr' and len(m.get('inner', [])) == 3 and \
                (self.callee_ref(m).get('referencedDecl') or {}).get('name') == 'operator,' and 'CommaInitializer<' in type_of(m):
            items.insert(0, m['inner'][2])
            m = strip_noop(m['inner'][1])
        if m.get('kind') == 'CXXOperatorCallExpr' and len(m.get('inner', [])) == 3 and \
                (self.callee_ref(m).get('referencedDecl') or {}).get('name') == 'operator<<' and 'CommaInitializer<' in type_of(m):
            items.insert(0, m['inner'][2])
            return m['inner'][1], items
        return None

    def comma_values(self, items, nkeys, ety, env, pre):
        if len(items) != nkeys:
            raise Untranslatable('comma initialiser with %d items for %d coefficients' % (len(items), nkeys))
        vals = []
        for it in items:      # evaluated left to right (C++17 sequencing of `<<` and of the overloaded `,`)
            if classify(type_of(it)) == 'agg':
                raise Untranslatable('comma initialiser with a non-scalar item')
            vals.append(self.num_to(self.eval(it, env, pre), ety, env.frame))
        return vals

    def exec_comma_init(self, s, env, k):
        """`target << a, b, c;` (Eigen::CommaInitializer): the coefficients of the target (an Eigen lvalue or a view of one) are
        written in row-major order; every item must be a scalar and the number of items the number of coefficients"""
        ci = self.comma_items(s)
        if ci is None:
            raise Untranslatable('operator call statement operator,')
        target, items = ci
        pre = []
        e2 = env.copy()
        root, path, vm = self.eigen_view(target, e2)
        _, st = self.outer_keys(type_of(strip_noop(target)))
        vals = self.comma_values(items, len(vm), self.tyvar(e2.frame, st), e2, pre)
        return self.wrap(pre, self.write_view(e2, root, path, [(bk, v) for (sk, bk), v in zip(vm, vals)], k))

    def read_keys(self, base, keys, env, pre):
        """the coefficients `keys` of the Eigen-typed expression `base`; of a variable / member only these leaves are read"""
        bb = strip_noop(base)
        if bb.get('kind') in ('DeclRefExpr', 'MemberExpr') and bb.get('valueCategory') == 'lvalue':
            root, path = self.resolve_lvalue(bb, env)
            _, st = self.outer_keys(type_of(bb))
            ty = self.tyvar(env.frame, st)
            return {kk: self.read_leaf(env, root, list(path) + [kk], ty) for kk in keys}
        obj = self.eval_obj(base, env, pre)
        if not isinstance(obj, dict) or any(not isinstance(obj.get(kk), Sc) for kk in keys):
            raise Untranslatable('Eigen object without the needed known coefficients')
        return {kk: obj[kk] for kk in keys}

    AFFINE_KEYS = [(i, j) for i in range(3) for j in range(4)]

    def eigen_geom_member(self, nm, base, bt, args, m, ct, env, pre):
        """member calls (rvalue uses) on Eigen::Transform<T, 3, Affine> objects, reads of views, `(V() << a, b, c).finished()`;
        None = not one of them"""
        frame = env.frame
        real_args = [a for a in args if a.get('kind') != 'CXXDefaultArgExpr']
        if nm == 'finished' and not args and 'CommaInitializer<' in bt:
            ci = self.comma_items(base)
            if ci is None:
                raise Untranslatable('finished() of something that is not a comma initialiser chain')
            target, items = ci
            tg = strip_noop(target)
            if tg.get('kind') not in ('CXXTemporaryObjectExpr', 'CXXConstructExpr') or [c for c in tg.get('inner', []) or [] if c.get('kind') != 'CXXDefaultArgExpr']:
                raise Untranslatable('comma initialiser on an existing object inside an expression')
            keys, st = self.outer_keys(type_of(tg))
            vals = self.comma_values(items, len(keys), self.tyvar(frame, st), env, pre)
            return dict(zip(keys, vals))      # `keys` is in row-major order
        if self.transform_type(bt) is None:
            if nm in ('head', 'tail') and not real_args and re.match(r'^(?:const )?(?:Eigen::)?VectorBlock<', strip_cv(type_of(m))) and \
                    not re.search(r'%s\s*<\s*\d+\s*>' % nm, self.tu.range_text(m)):
                # `v.head<DIM>()` with a template argument that is not a literal: the size is read from the instantiated result type
                obj = self.eval_obj(base, env, pre)
                cnt = len(self.outer_keys(type_of(m))[0])
                if not isinstance(obj, dict) or not obj or not all(isinstance(kk, tuple) and len(kk) == 1 for kk in obj) or cnt > len(obj) or cnt < 1:
                    raise Untranslatable('%s<>() of an object that is not a vector with enough known coefficients' % nm)
                lo = 0 if nm == 'head' else len(obj) - cnt
                return {(i,): obj[(lo + i,)] for i in range(cnt)}
            return None
        if nm == 'linear' and not args:
            M = self.read_keys(base, [(i, j) for i in range(3) for j in range(3)], env, pre)
            return M
        if nm == 'translation' and not args:
            M = self.read_keys(base, [(i, 3) for i in range(3)], env, pre)
            return {(i,): M[(i, 3)] for i in range(3)}
        if nm == 'inverse' and not real_args:
            return self.affine3_inverse(self.read_keys(base, self.AFFINE_KEYS, env, pre), frame, pre)
        if nm in ('matrix',) and not args:
            return None      # (generic: the whole 4x4 matrix)
        if nm == 'rotation' and not args and 'rotation' in (self.spec.get('transform_oracles') or []):
            # phase 5 (spec key `transform_oracles`): `T.rotation()` (Eigen: the rotation of the polar decomposition of the linear part, by an
            # SVD) is an ORACLE: coefficient (i, j) = the uninterpreted function `Transform_rotation_i_j` of the 9 coefficients of `linear()`
            # in row-major order; every call on the same value is the same term
            if pre is None:
                raise Untranslatable('Transform::rotation() inside a conditionally evaluated expression')
            M = self.read_keys(base, [(i, j) for i in range(3) for j in range(3)], env, pre)
            lin = [M[(i, j)] for i in range(3) for j in range(3)]
            sty = lin[0].ty
            fty = ' → '.join([TY_LEAN[sty]] * 10)
            res = {}
            for i in range(3):
                for j in range(3):
                    fn = self.uninterp_param(env, 'Transform_rotation_%d_%d' % (i, j), fty)
                    res[(i, j)] = Sc('(%s %s)' % (fn, ' '.join(par(x.t) for x in lin)), sty)
            return res
        raise Untranslatable('member function `%s` of an Eigen::Transform' % nm)

    def transform_apply(self, tn, vn, env, pre):
        """`T * v` for `T : Transform<S, 3, Affine>`, `v` a 3-vector (Eigen 3.4 `transform_right_product_impl<…, 2, 1>`): the head of
        `T.matrix() * (v, 1)`, coefficient i = `((m_i0 * v0 + m_i1 * v1) + m_i2 * v2) + m_i3 * 1`, summed left to right (rows are
        evaluated packet-wise, each accumulated left to right — the trusted reading shared with the hand-written model)"""
        frame = env.frame
        M = self.read_keys(tn, self.AFFINE_KEYS, env, pre)
        V = self.eval_obj(vn, env, pre)
        if not isinstance(V, dict) or sorted(V.keys()) != [(0,), (1,), (2,)] or not all(isinstance(x, Sc) for x in V.values()):
            raise Untranslatable('Transform * something that is not a 3-vector with known coefficients')
        ty = M[(0, 0)].ty
        if any(x.ty != ty for x in V.values()):
            raise Untranslatable('Transform * vector of another scalar type')
        for cls in ('Add', 'Mul', 'NatCast'):
            frame.need(cls, ty)
        top = frame.top()
        top.nprod = getattr(top, 'nprod', 0) + 1
        res = {}
        for i in range(3):
            acc = '(%s * %s)' % (par(M[(i, 0)].t), par(V[(0,)].t))
            for j in (1, 2):
                acc = '(%s + (%s * %s))' % (acc, par(M[(i, j)].t), par(V[(j,)].t))
            acc = '(%s + (%s * ((1 : Nat) : %s)))' % (acc, par(M[(i, 3)].t), TY_LEAN[ty])
            name = frame.fresh('prod%d_%d' % (top.nprod, i))
            pre.append(('let', name, unpar(acc)))
            res[(i,)] = Sc(name, ty)
        return res

    def affine3_inverse(self, M, frame, pre):
        """`Transform<double, 3, Affine>::inverse()` (hint = Affine), as Eigen 3.4 computes it for fixed size 3 with SSE2 packets of two
        doubles (`Geometry/Transform.h` `Transform::inverse`, `LU/InverseImpl.h` "Size 3 implementation", `Core/Redux.h`):
        linear part by cofactors — `det = c00 * m00 + (c10 * m10 + c20 * m20)` (the unrolled scalar redux of a 3-vector splits 1 + 2),
        `invdet = 1 / det`, entry (r, c) = `cofactor<c, r> * invdet` —, translation `(-Linv) * t` with rows 0, 1 accumulated left to
        right (one packet) and row 2 by the scalar redux `a0 + (a1 + a2)`, last row `0 0 0 1` (`makeAffine`). A trusted reading of the
        library, the same as the hand-written model's (checked bit for bit by the correspondence run), only for `double`."""
        ty = M[(0, 0)].ty
        if frame.top().float_map.get('double') != ty:
            raise Untranslatable('Transform::inverse() of a transform that is not over `double`')
        for cls in ('Add', 'Sub', 'Mul', 'Div', 'Neg', 'NatCast'):
            frame.need(cls, ty)
        tv = TY_LEAN[ty]

        def mm(i, j):
            return par(M[(i, j)].t)

        def cof(i, j):
            i1, i2, j1, j2 = (i + 1) % 3, (i + 2) % 3, (j + 1) % 3, (j + 2) % 3
            return '((%s * %s) - (%s * %s))' % (mm(i1, j1), mm(i2, j2), mm(i1, j2), mm(i2, j1))

        def let(base, term):
            name = frame.fresh(base)
            pre.append(('let', name, unpar(term)))
            return name
        c = [let('inv_cof%d0' % kk, cof(kk, 0)) for kk in range(3)]
        det = let('inv_det', '((%s * %s) + ((%s * %s) + (%s * %s)))' % (c[0], mm(0, 0), c[1], mm(1, 0), c[2], mm(2, 0)))
        invdet = let('inv_invdet', '(((1 : Nat) : %s) / %s)' % (tv, det))
        L = {}
        for cc in range(3):
            L[(0, cc)] = let('inv_0_%d' % cc, '(%s * %s)' % (c[cc], invdet))
        for r in (1, 2):
            for cc in range(3):
                L[(r, cc)] = let('inv_%d_%d' % (r, cc), '(%s * %s)' % (cof(cc, r), invdet))
        res = {}
        for r in range(3):
            t = ['((-%s) * %s)' % (L[(r, cc)], mm(cc, 3)) for cc in range(3)]
            term = '((%s + %s) + %s)' % (t[0], t[1], t[2]) if r < 2 else '(%s + (%s + %s))' % (t[0], t[1], t[2])
            res[(r, 3)] = Sc(let('inv_%d_3' % r, term), ty)
            for cc in range(3):
                res[(r, cc)] = Sc(L[(r, cc)], ty)
        for cc in range(4):
            res[(3, cc)] = Sc('((%d : Nat) : %s)' % (1 if cc == 3 else 0, tv), ty)
        return res

    # ------------------------------------------------------------------ phase 3: oracles, elements of vectors of Eigen vectors, std::copy
    def function_by_signature(self, rd):
        """the unique function DEFINITION of the translation unit with the name and the type of the referenced declaration `rd` (its
        body was dumped by another clang pass — ids differ between passes —: a function of an anonymous namespace called from `romea`)"""
        nm, ty = rd.get('name'), (rd.get('type') or {}).get('qualType')
        if not nm or not ty or rd.get('kind') not in ('FunctionDecl',):
            return None
        c = [d for fid, d in self.tu.funcs.items() if d.get('name') == nm and (d.get('type') or {}).get('qualType') == ty
             and d.get('kind') == 'FunctionDecl' and not self.tu._dependent(d)]
        return c[0] if len(c) == 1 else None

    def oracle_leaves(self, nm, mid, base, env, preread=False, which='writes'):
        """[(root, path)] of the member leaves an oracle call writes (spec key `oracles`: name -> dict(writes=[members], hides=[members]))"""
        o = self.spec['oracles'][nm]
        root, path = self.resolve_lvalue(base, env)
        rec = self.tu.records.get(self.tu.parent.get(mid)) or self.tu.record_of(self.tu.decl_by_id.get(mid) or {})
        if not rec:
            raise Untranslatable('oracle `%s`: class of the member function not found' % nm)
        out = []
        for mem in o.get(which, []):
            fd = [c for c in rec.get('inner', []) or [] if c.get('kind') == 'FieldDecl' and c.get('name') == mem]
            if len(fd) != 1:
                raise Untranslatable('oracle `%s`: member `%s` not found in %s' % (nm, mem, rec.get('_qual')))
            ft = type_of(fd[0])
            lv = [([], ft)] if classify(ft) != 'agg' else self.shape_of(ft)
            for p_, st in lv:
                full = list(path) + [mem] + list(p_)
                if preread and self.lookup(env, root, full) is None and root not in env.local_roots:
                    self.read_leaf(env, root, full, self.tyvar(env.frame, st))
                out.append((root, tuple(full), st))
        return [(r, p) for r, p, _ in out] if preread else out

    def oracle_call(self, nm, mid, base, n, env, pre, target=None):
        """a call of a member function listed in the spec's `oracles` (a numerical routine that stays a PARAMETER of the model: k-NN
        query + eigen-decomposition, least-squares solver). Spec entry: name -> dict(writes=[members], reads=[members], hides=[members]).
        Every leaf of the members in `writes`, and the result (a scalar, or — `target` — the coefficients of the fixed-size object the
        result is converted to), becomes the application of an uninterpreted function `<oracle>_<leaf>` / `<oracle>_ret…` to the SCALAR
        arguments of the call followed by the current values of the members in `reads`. What the oracle depends on besides them — the
        aggregate arguments (required to be const-reference parameters of the translated function, so that they are the same at every
        call), the other members of its object — is not represented: the function parameter stands for the oracle on this object and
        these aggregates. Members in `hides` (modified or read by the oracle, not modelled) may not be read by any translated function."""
        if pre is None:
            raise Untranslatable('oracle call `%s` inside an expression' % nm)
        frame = env.frame
        o = self.spec['oracles'][nm]
        vs = []
        for a in n['inner'][1:]:
            if a.get('kind') == 'CXXDefaultArgExpr':
                raise Untranslatable('oracle call `%s` with a default argument' % nm)
            if classify(type_of(a)) in ('agg', 'list', 'seq', 'dyn') or self.is_list(type_of(a)):
                m_ = strip_noop(a)
                rd = m_.get('referencedDecl') or {}
                pd = self.tu.decl_by_id.get(rd.get('id')) or {}
                qt = (pd.get('type') or {}).get('qualType', '') or (rd.get('type') or {}).get('qualType', '')
                if m_.get('kind') != 'DeclRefExpr' or rd.get('kind') != 'ParmVarDecl' or not (re.match(r'^const\b', qt.strip()) and qt.rstrip().endswith('&')):
                    raise Untranslatable('oracle call `%s`: an aggregate argument that is not a const-reference parameter' % nm)
                continue
            v = self.eval(a, env, pre)
            if v.ty not in ('a', 'd', 'i', 'b'):
                raise Untranslatable('oracle call `%s`: argument of kind %s' % (nm, v.ty))
            vs.append(v)
        for root, path, st in self.oracle_leaves(nm, mid, base, env, which='reads'):
            vs.append(self.read_leaf(env, root, list(path), self.tyvar(frame, st)))

        def apply(leaf, ty):
            fty = ' → '.join([TY_LEAN[v.ty] for v in vs] + [TY_LEAN[ty]])
            fn = self.uninterp_param(env, lean_ident(nm + '_' + leaf), fty)
            return '(%s %s)' % (fn, ' '.join(par(v.t) for v in vs)) if vs else fn
        res = None
        rt = type_of(n)
        if target is not None:
            res = {}
            for p_, st in self.shape_of(target):
                ty = self.tyvar(frame, st)
                name = frame.fresh(lean_ident(nm + '_ret'))
                pre.append(('let', name, unpar(apply('ret_' + path_name('', list(p_)), ty))))
                res[p_[0]] = Sc(name, ty)
        elif classify(rt) in ('double', 'float', 'int', 'uint', 'bool'):
            ty = self.tyvar(frame, rt)
            res = Sc(apply('ret', ty), ty)
        elif classify(rt) != 'void':
            raise Untranslatable('oracle `%s`: a result of type %s used as it is' % (nm, strip_cv(rt)))
        for root, path, st in self.oracle_leaves(nm, mid, base, env):
            ty = self.tyvar(frame, st)
            name = frame.fresh(path_name(self.root_name(frame, root), list(path)))
            pre.append(('let', name, unpar(apply(path_name('', [p_ for p_ in path if p_ not in self.resolve_lvalue(base, env)[1]]), ty))))
            self.write(env, root, list(path), Sc(name, ty))
        return res

    def is_oracle_call(self, n):
        m = strip_noop(n)
        while m.get('kind') in ('ImplicitCastExpr', 'CXXConstructExpr', 'CXXFunctionalCastExpr') and len(m.get('inner', []) or []) == 1:
            m = strip_noop(m['inner'][0])
        return m.get('kind') == 'CXXMemberCallExpr' and self.callee_ref(m).get('kind') == 'MemberExpr' and \
            self.callee_ref(m).get('name') in self.spec.get('oracles', {})

    def oracle_value(self, n, target, env, pre):
        m = strip_noop(n)
        while m.get('kind') in ('ImplicitCastExpr', 'CXXConstructExpr', 'CXXFunctionalCastExpr') and len(m.get('inner', []) or []) == 1:
            m = strip_noop(m['inner'][0])
        callee = self.callee_ref(m)
        return self.oracle_call(callee.get('name'), callee.get('referencedMemberDecl'), callee['inner'][0], m, env, pre, target=target)

    # ---- dynamic-size Eigen matrices as functional arrays
    def is_dyn_elem(self, n):
        """`M(i, j)`, `v(i)`, `v[i]` with `M` / `v` an lvalue of a dynamic-size Eigen matrix / vector type"""
        m = strip_noop(n)
        if m.get('kind') != 'CXXOperatorCallExpr' or len(m.get('inner', [])) not in (3, 4):
            return False
        if (self.callee_ref(m).get('referencedDecl') or {}).get('name') not in ('operator()', 'operator[]'):
            return False
        di = dyn_info(type_of(strip_noop(m['inner'][1])))
        return di is not None and di[1] == len(m['inner']) - 2

    def dyn_parts(self, n, env, pre):
        m = strip_noop(n)
        bn = strip_noop(m['inner'][1])
        root, path = self.resolve_lvalue(bn, env)
        if self.spec.get('dyn_sizes'):      # phase 4: the coefficient leaf `m` of the (coefficients, sizes) aggregate
            path = list(path) + ['m']
            ty = self.tyvar(env.frame, strip_cv(type_of(bn)) + DYN_COEF)
        else:
            ty = self.tyvar(env.frame, type_of(bn))
        cur = self.read_leaf(env, root, path, ty)
        idx = [self.eval(a, env, pre) for a in m['inner'][2:]]
        if any(i.ty != 'i' for i in idx):
            raise Untranslatable('index of a dynamic matrix that is not an integer')
        return root, path, ty, cur, idx

    def dyn_read(self, n, env, pre):
        root, path, ty, cur, idx = self.dyn_parts(n, env, pre)
        return Sc('(%s %s)' % (par(cur.t), ' '.join(par(i.t) for i in idx)), ty[2])

    def exec_dyn_assign(self, lhs, rhs, op, node, env, k):
        """`M(i, j) = x` / `v(i) = x` (also compound) on a dynamic-size Eigen matrix: the functional array updated at that index"""
        frame = env.frame
        pre = []
        v = self.eval(rhs, env, pre)
        root, path, ty, cur, idx = self.dyn_parts(lhs, env, pre)
        if v.ty != ty[2]:
            v = self.convert(v, frame, dyn_info(type_of(strip_noop(strip_noop(lhs)['inner'][1])))[0])
        if op:
            cls = {'+': 'Add', '-': 'Sub', '*': 'Mul', '/': 'Div'}.get(op)
            if not cls:
                raise Untranslatable('compound operator %s= on a coefficient of a dynamic matrix' % op)
            frame.need(cls, ty[2])
            v = Sc('((%s %s) %s %s)' % (par(cur.t), ' '.join(par(i.t) for i in idx), op, par(v.t)), ty[2])
        helper = 'dynSet%d' % len(idx)
        self.need_helper(helper)
        name = frame.fresh(path_name(self.root_name(frame, root), path))
        self.write(env, root, path, Sc(name, ty))
        return self.wrap(pre, ('let', name, '%s %s %s %s' % (helper, par(cur.t), ' '.join(par(i.t) for i in idx), par(v.t)), k(env)))

    # ================================================================== phase 4 (spec option `dyn_sizes`): dynamic-size Eigen objects WITH
    # their sizes. A dynamic matrix / vector is an aggregate of the leaves `m` (coefficients: a total function of the indices), `rows`,
    # `cols` (Int; no `cols` for a vector). Expressions are evaluated to such aggregates; the coefficient leaf of an intermediate value
    # is a closed lambda term (binders ρ γ; κ for the index of a sum).
    def dx_val(self, frame, nidx, sty, fn, rows, cols=None):
        """a dynamic value whose coefficient at the index terms `idx` is `fn(idx)`"""
        binders = ['ρ', 'γ'][:nidx]
        sc = ScF('(fun %s => %s)' % (' '.join(binders), unpar(fn(binders))), 'M%d%s' % (nidx, sty), fn)
        res = {'m': sc, 'rows': rows}
        if nidx == 2:
            res['cols'] = cols
        return res

    @staticmethod
    def dx_at(v, idx):
        """coefficient term of the dynamic value `v` at the index terms `idx`"""
        sc = v['m']
        app = getattr(sc, 'app', None)
        if app is not None:
            return app(list(idx))
        return '(%s %s)' % (par(sc.t), ' '.join(par(i) for i in idx))

    @staticmethod
    def dx_nidx(v):
        return 2 if 'cols' in v else 1

    def dx_scalar_ty(self, ct, frame):
        mm = DYNX_RE.search(ct)
        return self.tyvar(frame, mm.group(1))

    def dx_bind(self, frame, pre, base, v):
        """bind the coefficient function of a dynamic value to a fresh name (so that it is a closed term when it is used inside a sum)"""
        if pre is None:
            raise Untranslatable('dynamic-size product inside a conditionally evaluated expression')
        sc = v['m']
        nm = frame.fresh(base)
        pre.append(('let', nm, unpar(sc.t)))
        out = dict(v)
        out['m'] = Sc(nm, sc.ty)
        return out

    def dx_sum(self, frame, sty, n_t, body):
        """`Σ_{0 ≤ κ < n} body(κ)`, accumulated upwards from 0 — an EXPLICIT SUM in index order with a leading zero (the reading of the
        hand-written models' `sumTo`); Eigen's vectorised / unrolled reduction order is not represented (trusted reading)"""
        self.need_helper('dynSum')
        frame.need('Add', sty)
        frame.need('NatCast', sty)
        return '(dynSum %s (fun κ => %s))' % (par(n_t), unpar(body('κ')))

    def oracle_class_of(self, ct):
        """spec key `oracle_classes` (class name -> dict(methods = {name: [shape terms]})): the entry a C++ type belongs to"""
        oc = self.spec.get('oracle_classes')
        if not oc:
            return None
        t = strip_cv(ct)
        for nm in oc:
            if re.match(r'^(?:Eigen::)?%s<' % re.escape(nm), t):
                return nm
        return None

    def exec_oracle_local(self, v, init, env, k):
        """`Eigen::JacobiSVD<Matrix> svd(A, flags);`: a local object of a class listed in `oracle_classes` is the record of its constructor
        arguments — dynamic matrices (coefficients, sizes), scalars, and, for anything else that is a constant expression (enumerators of a
        namespace the dump does not hold), the normalised SOURCE TEXT as a string; its methods are uninterpreted functions of them"""
        vid = v['id']
        if len(init) != 1 or strip_noop(init[0]).get('kind') != 'CXXConstructExpr':
            raise Untranslatable('oracle object `%s` without a constructor call' % v.get('name'))
        pre = []
        obj = {}
        args = [c for c in strip_noop(init[0]).get('inner', []) or [] if c.get('kind') != 'CXXDefaultArgExpr']
        if not args:
            raise Untranslatable('oracle object `%s` constructed without arguments' % v.get('name'))
        for i, a in enumerate(args):
            at = type_of(a)
            if DYNX_RE.search(at):
                val = self.dynx_eval(strip_noop(a), env, pre)
                if not re.match(r"^[A-Za-z_][A-Za-z0-9_']*$", val['m'].t):
                    val = self.dx_bind(env.frame, pre, '%s_arg%d' % (v.get('name'), i), val)
                obj['a%d' % i] = val
            elif classify(at) in ('double', 'float', 'bool'):
                obj['a%d' % i] = self.eval(a, env, pre)
            else:
                if self.has_side_effect(a) or self.contains(a, ('CallExpr', 'CXXMemberCallExpr', 'CXXOperatorCallExpr')):
                    raise Untranslatable('argument %d of the oracle object `%s`' % (i, v.get('name')))
                txt = re.sub(r'\s+', '', self.tu.range_text(a)).replace('Eigen::', '')
                if not re.match(r'^[\w|&+():]*$', txt):
                    raise Untranslatable('argument %d of the oracle object `%s`: `%s`' % (i, v.get('name'), txt[:60]))
                obj['a%d' % i] = Sc('"%s"' % txt, 's')
        env.local_roots.add(vid)
        env.vars[vid] = obj
        return self.wrap(pre, k(env))

    def oracle_method(self, m, env, pre):
        """`svd.matrixU()` on a local oracle object: `<Class>_<method> <constructor arguments…>`, an uninterpreted function; the shape of
        the result comes from the spec (`{r0}`, `{c0}` = rows / columns of constructor argument 0)"""
        frame = env.frame
        callee = self.callee_ref(m)
        base = strip_noop(callee['inner'][0])
        cls = self.oracle_class_of(type_of(base))
        nm = callee.get('name')
        meth = (self.spec['oracle_classes'][cls].get('methods') or {}).get(nm)
        if meth is None or len(m['inner']) != 1:
            raise Untranslatable('method `%s` of the oracle class %s is not in the spec' % (nm, cls))
        if base.get('kind') != 'DeclRefExpr':
            raise Untranslatable('oracle method on something that is not a local object')
        rid = (base.get('referencedDecl') or {}).get('id')
        e, obj = env, None
        while e is not None and obj is None:
            obj = e.vars.get(rid)
            e = e.outer
        if not isinstance(obj, dict) or env.outer is not None:
            raise Untranslatable('oracle object `%s` is not a local of this function body' % base.get('name', '?'))
        lv = leaves(obj)
        sty = self.dx_scalar_ty(type_of(base), frame)
        nidx = len(meth)
        fmt = {}
        for key, val in obj.items():
            if isinstance(val, dict) and 'rows' in val:
                fmt['r' + key[1:]] = par(val['rows'].t)
                fmt['c' + key[1:]] = par(val['cols'].t) if 'cols' in val else '1'
        rty = 'M%d%s' % (nidx, sty)
        fty = ' → '.join([TY_LEAN[sc.ty] for _, sc in lv] + [TY_LEAN[rty]])
        fn = self.uninterp_param(env, lean_ident('%s_%s' % (cls, nm)), fty)
        name = frame.fresh('%s_%s' % (base.get('name', 'o'), nm))
        if pre is None:
            raise Untranslatable('oracle method inside a conditionally evaluated expression')
        pre.append(('let', name, '%s %s' % (fn, ' '.join(par(sc.t) for _, sc in lv))))
        res = {'m': Sc(name, rty), 'rows': Sc(meth[0].format(**fmt), 'i')}
        if nidx == 2:
            res['cols'] = Sc(meth[1].format(**fmt), 'i')
        return res

    def dynx_eval(self, m, env, pre):
        """value (aggregate `m rows [cols]`) of an expression on dynamic-size Eigen objects"""
        frame = env.frame
        m = strip_noop(m)
        k = m.get('kind')
        ct = type_of(m)
        sty = self.dx_scalar_ty(ct, frame)
        tv = TY_LEAN[sty]
        zero = '((0 : Nat) : %s)' % tv
        one = '((1 : Nat) : %s)' % tv
        if k in ('CXXConstructExpr', 'CXXTemporaryObjectExpr'):
            a = [c for c in m.get('inner', []) or [] if c.get('kind') != 'CXXDefaultArgExpr']
            if not a:      # `Matrix()`: no coefficient at all (the total function is zero everywhere)
                frame.need('NatCast', sty)
                nidx = dyn_info(ct)[1] if dyn_info(ct) else None
                if nidx is None:
                    raise Untranslatable('default construction of %s' % strip_cv(ct)[:80])
                return self.dx_val(frame, nidx, sty, lambda idx: zero, sc_lit(Sc('0', 'i'), 0), sc_lit(Sc('0', 'i'), 0))
            if len(a) == 1 and DYNX_RE.search(type_of(a[0])):
                return self.dynx_eval(a[0], env, pre)
            if len(a) == 1 and self.is_eigen_type(type_of(a[0])) and dyn_info(ct) is not None:
                return self.dynx_of_fixed(a[0], ct, env, pre)      # phase 5: `Matrix<T, -1, -1>(fixed-size expression)`
            raise Untranslatable('constructor call of %s with %d arguments' % (strip_cv(ct)[:80], len(a)))
        if k in ('DeclRefExpr', 'MemberExpr') and dyn_info(ct) is not None:
            root, path = self.resolve_lvalue(m, env)
            return self.read_obj(env, root, path, ct)
        if k == 'CallExpr':
            nm = (self.callee_ref(m).get('referencedDecl') or {}).get('name')
            args = m['inner'][1:]
            if nm in ('Identity', 'Zero', 'Ones', 'Constant'):
                nidx = 2 if DYNX_RE.search(ct).group(2) == '-1' else 1
                nsz = len(args) - (1 if nm == 'Constant' else 0)
                if nsz != nidx:
                    raise Untranslatable('%s with %d size arguments for %d indices' % (nm, nsz, nidx))
                sz = [self.eval(a, env, pre) for a in args[:nsz]]
                if any(s_.ty != 'i' for s_ in sz):
                    raise Untranslatable('size argument of %s that is not an integer' % nm)
                frame.need('NatCast', sty)
                if nm == 'Identity':
                    fn = lambda idx: '(if %s = %s then %s else %s)' % (idx[0], idx[1], one, zero)
                elif nm == 'Constant':
                    x = self.convert(self.eval(args[-1], env, pre), frame, DYNX_RE.search(ct).group(1))
                    fn = lambda idx: x.t
                else:
                    fn = lambda idx: one if nm == 'Ones' else zero
                return self.dx_val(frame, nidx, sty, fn, sz[0], sz[1] if nidx == 2 else None)
            raise Untranslatable('call `%s` on dynamic-size Eigen objects' % nm)
        if k == 'CXXOperatorCallExpr':
            nm = (self.callee_ref(m).get('referencedDecl') or {}).get('name')
            ops = m['inner'][1:]
            if nm in ('operator*', 'operator+', 'operator-') and len(ops) == 2:
                dyn = [bool(DYNX_RE.search(type_of(x))) for x in ops]
                if dyn == [True, True]:
                    A = self.dynx_eval(ops[0], env, pre)
                    B = self.dynx_eval(ops[1], env, pre)
                    if nm == 'operator*':
                        if self.dx_nidx(A) != 2:
                            raise Untranslatable('dynamic-size product whose left factor is a vector')
                        if not re.match(r"^[A-Za-z_][A-Za-z0-9_']*$", A['m'].t):
                            A = self.dx_bind(frame, pre, 'fac', A)
                        if not re.match(r"^[A-Za-z_][A-Za-z0-9_']*$", B['m'].t):
                            B = self.dx_bind(frame, pre, 'fac', B)
                        frame.need('Mul', sty)
                        inner_t = A['cols'].t      # Eigen: the inner dimension is lhs.cols() (asserted equal to rhs.rows())
                        if self.dx_nidx(B) == 2:
                            fn = lambda idx: self.dx_sum(frame, sty, inner_t, lambda kk: '(%s * %s)' % (self.dx_at(A, [idx[0], kk]), self.dx_at(B, [kk, idx[1]])))
                            P = self.dx_val(frame, 2, sty, fn, A['rows'], B['cols'])
                        else:
                            fn = lambda idx: self.dx_sum(frame, sty, inner_t, lambda kk: '(%s * %s)' % (self.dx_at(A, [idx[0], kk]), self.dx_at(B, [kk])))
                            P = self.dx_val(frame, 1, sty, fn, A['rows'])
                        return self.dx_bind(frame, pre, 'prod', P)      # a (nested) product is evaluated into a temporary
                    if self.dx_nidx(A) != self.dx_nidx(B):
                        raise Untranslatable('coefficient-wise %s of a matrix and a vector' % nm)
                    op, cls = self.EIG_BIN[nm]
                    frame.need(cls, sty)
                    fn = lambda idx: '(%s %s %s)' % (self.dx_at(A, idx), op, self.dx_at(B, idx))
                    return self.dx_val(frame, self.dx_nidx(A), sty, fn, A['rows'], A.get('cols'))
                if nm == 'operator*' and dyn in ([True, False], [False, True]):
                    A = self.dynx_eval(ops[0 if dyn[0] else 1], env, pre)
                    x = self.eval(ops[1 if dyn[0] else 0], env, pre)
                    x = self.convert(x, frame, DYNX_RE.search(ct).group(1))
                    if not re.match(r"^[A-Za-z_][A-Za-z0-9_']*$", x.t) and not x.t.startswith('(('):
                        nmx = frame.fresh('factor')
                        pre.append(('let', nmx, unpar(x.t)))
                        x = Sc(nmx, x.ty)
                    frame.need('Mul', sty)
                    if dyn[0]:
                        fn = lambda idx: '(%s * %s)' % (self.dx_at(A, idx), par(x.t))
                    else:
                        fn = lambda idx: '(%s * %s)' % (par(x.t), self.dx_at(A, idx))
                    return self.dx_val(frame, self.dx_nidx(A), sty, fn, A['rows'], A.get('cols'))
            raise Untranslatable('operator call %s on dynamic-size Eigen objects' % nm)
        if k == 'CXXMemberCallExpr':
            callee = self.callee_ref(m)
            nm = callee.get('name')
            base = callee['inner'][0] if callee.get('inner') else None
            args = m['inner'][1:]
            if base is not None and self.oracle_class_of(type_of(strip_noop(base))) is not None:
                return self.oracle_method(m, env, pre)
            decl = self.method_def(callee.get('referencedMemberDecl'))
            if decl is not None:      # a translated member function that returns a dynamic matrix
                v = self.call_fn(decl, self.resolve_lvalue(base, env), args, env, pre)
                if not isinstance(v, dict) or 'm' not in v:
                    raise Untranslatable('call of %s: no dynamic-size result' % nm)
                return v
            if nm == 'solve' and len(args) == 1 and strip_noop(base).get('kind') == 'CXXMemberCallExpr':
                # `A.ldlt().solve(B)`: an uninterpreted function `<decomposition>_solve` of A and B (coefficients and sizes); the result has
                # A.cols() rows and B.cols() columns
                inner = strip_noop(base)
                dn = self.callee_ref(inner).get('name')
                if dn not in ('ldlt', 'llt', 'lu', 'partialPivLu', 'fullPivLu', 'householderQr', 'colPivHouseholderQr', 'fullPivHouseholderQr') \
                        or len(inner['inner']) != 1:
                    raise Untranslatable('solve() on `%s`' % dn)
                A = self.dynx_eval(self.callee_ref(inner)['inner'][0], env, pre)
                B = self.dynx_eval(args[0], env, pre)
                if self.dx_nidx(A) != 2:
                    raise Untranslatable('decomposition of a vector')
                if pre is None:
                    raise Untranslatable('solver call inside a conditionally evaluated expression')
                lv = leaves(A) + leaves(B)
                rty = 'M%d%s' % (self.dx_nidx(B), sty)
                fty = ' → '.join([TY_LEAN[sc.ty] for _, sc in lv] + [TY_LEAN[rty]])
                fn = self.uninterp_param(env, lean_ident('%s_solve' % dn), fty)
                name = frame.fresh('%s_solve' % dn)
                pre.append(('let', name, '%s %s' % (fn, ' '.join(par(sc.t) for _, sc in lv))))
                res = {'m': Sc(name, rty), 'rows': A['cols']}
                if self.dx_nidx(B) == 2:
                    res['cols'] = B['cols']
                return res
            if base is None or not DYNX_RE.search(type_of(base)):
                raise Untranslatable('member call `%s` on dynamic-size Eigen objects' % nm)
            A = self.dynx_eval(base, env, pre)
            if nm in ('array', 'matrix', 'eval') and not args:
                return A
            if nm == 'transpose' and not args:
                if self.dx_nidx(A) != 2:
                    raise Untranslatable('transpose of a dynamic-size vector')
                return self.dx_val(frame, 2, sty, lambda idx: self.dx_at(A, [idx[1], idx[0]]), A['cols'], A['rows'])
            if nm == 'col' and len(args) == 1 and self.dx_nidx(A) == 2:
                j = self.eval(args[0], env, pre)
                if j.ty != 'i':
                    raise Untranslatable('column index that is not an integer')
                return self.dx_val(frame, 1, sty, lambda idx: self.dx_at(A, [idx[0], par(j.t)]), A['rows'])
            if nm == 'head' and len(args) == 1 and self.dx_nidx(A) == 1:
                cnt = self.eval(args[0], env, pre)
                if cnt.ty != 'i':
                    raise Untranslatable('head() with a size that is not an integer')
                out = dict(A)
                out['rows'] = cnt
                return out
            if nm == 'asDiagonal' and not args and self.dx_nidx(A) == 1:
                frame.need('NatCast', sty)
                return self.dx_val(frame, 2, sty, lambda idx: '(if %s = %s then %s else %s)' % (idx[0], idx[1], self.dx_at(A, [idx[0]]), zero),
                                   A['rows'], A['rows'])
            raise Untranslatable('member call `%s` on dynamic-size Eigen objects' % nm)
        raise Untranslatable('unsupported expression %s on dynamic-size Eigen objects' % k)

    def dynx_of_fixed(self, a, ct, env, pre):
        """phase 5: a dynamic-size matrix / vector constructed from a FIXED-size Eigen expression (`JacobiSVD<MatrixXd> svd(cov.block(0, 0, d,
        d), …)` converts the block): sizes = those of the expression (integer literals), coefficient function = a chain of
        `if ρ = i ∧ γ = j then x_i_j else …` over its coefficients in row-major order, zero elsewhere (outside the sizes the total function
        is never meant to be read)"""
        frame = env.frame
        sty = self.dx_scalar_ty(ct, frame)
        nidx = dyn_info(ct)[1]
        obj = self.eval_obj(a, env, pre)
        if not isinstance(obj, dict) or not obj or not all(isinstance(kk, tuple) and isinstance(v, Sc) and v.ty == sty for kk, v in obj.items()):
            raise Untranslatable('dynamic-size matrix constructed from an object without known coefficients')
        if not (all(len(kk) == 2 for kk in obj) or all(len(kk) == 1 for kk in obj)):
            raise Untranslatable('dynamic-size matrix constructed from an object with mixed index shapes')
        ks = sorted((kk if len(kk) == 2 else (kk[0], 0)) for kk in obj)
        rows, cols = max(k_[0] for k_ in ks) + 1, max(k_[1] for k_ in ks) + 1
        if len(ks) != rows * cols or (nidx == 1 and cols != 1):
            raise Untranslatable('dynamic-size matrix constructed from an object of another shape')
        get = (lambda i, j: obj[(i, j)]) if all(len(kk) == 2 for kk in obj) else (lambda i, j: obj[(i,)])
        frame.need('NatCast', sty)
        zero = '((0 : Nat) : %s)' % TY_LEAN[sty]

        def fn(idx):
            t = zero
            for (i, j) in reversed(ks):
                c = ('%s = %d ∧ %s = %d' % (idx[0], i, idx[1], j)) if nidx == 2 else ('%s = %d' % (idx[0], i))
                t = '(if %s then %s else %s)' % (c, unpar(get(i, j).t), unpar(t))
            return t
        return self.dx_val(frame, nidx, sty, fn, sc_lit(Sc(str(rows), 'i'), rows), sc_lit(Sc(str(cols), 'i'), cols) if nidx == 2 else None)

    def dynx_to_fixed(self, val, keys):
        """phase 5: the coefficients `keys` (fixed-size index tuples) of a dynamic-size value that is assigned to a fixed-size target
        (`H.block(0, 0, d, d) = v * u.transpose();`): Eigen asserts equal sizes in debug builds only — the sizes of the value are NOT
        compared with the target's (under NDEBUG a mismatch is undefined behaviour): a trusted reading"""
        nidx = self.dx_nidx(val)
        res = {}
        for kk in keys:
            if len(kk) == nidx:
                idx = [str(i) for i in kk]
            elif len(kk) == 2 and nidx == 1 and kk[1] == 0:
                idx = [str(kk[0])]
            elif len(kk) == 1 and nidx == 2:
                idx = [str(kk[0]), '0']
            else:
                raise Untranslatable('dynamic-size value assigned to a fixed-size target of another shape')
            res[kk] = Sc(self.dx_at(val, idx), val['m'].ty[2])
        return res

    def dynx_call(self, n, env, pre):
        """calls on dynamic-size Eigen objects with a scalar / no result: `rows() cols() size()`, `a.dot(b)`, and the statements
        `resize(…)`, `setConstant(x)`, `setZero()`, `setOnes()` on an lvalue. NotImplemented = not such a call."""
        if n.get('kind') != 'CXXMemberCallExpr':
            return NotImplemented
        callee = self.callee_ref(n)
        nm = callee.get('name')
        base = callee['inner'][0] if callee.get('inner') else None
        if base is None or not DYNX_RE.search(type_of(base)) or self.oracle_class_of(type_of(strip_noop(base))) is not None:
            return NotImplemented
        frame = env.frame
        args = n['inner'][1:]
        sty = self.dx_scalar_ty(type_of(base), frame)
        if nm in ('rows', 'cols', 'size') and not args:
            A = self.dynx_eval(base, env, pre)
            if nm == 'rows':
                return A['rows']
            if nm == 'cols':
                return A['cols'] if 'cols' in A else sc_lit(Sc('1', 'i'), 1)
            return Sc('(%s * %s)' % (par(A['rows'].t), par(A['cols'].t)), 'i') if 'cols' in A else A['rows']
        if nm == 'dot' and len(args) == 1:
            A = self.dynx_eval(base, env, pre)
            B = self.dynx_eval(args[0], env, pre)
            if self.dx_nidx(A) != 1 or self.dx_nidx(B) != 1:
                raise Untranslatable('dot() of dynamic-size matrices')
            frame.need('Mul', sty)
            return Sc(self.dx_sum(frame, sty, A['rows'].t, lambda kk: '(%s * %s)' % (self.dx_at(A, [kk]), self.dx_at(B, [kk]))), sty)
        if nm == 'determinant' and not args:
            # phase 5: Eigen computes it through a partially pivoted LU: an uninterpreted function `determinant` of the coefficients and sizes
            A = self.dynx_eval(base, env, pre)
            if self.dx_nidx(A) != 2 or pre is None:
                raise Untranslatable('determinant() of a vector / inside a conditionally evaluated expression')
            if not re.match(r"^[A-Za-z_][A-Za-z0-9_']*$", A['m'].t):
                A = self.dx_bind(frame, pre, 'detArg', A)
            lv = leaves(A)
            fty = ' → '.join([TY_LEAN[sc.ty] for _, sc in lv] + [TY_LEAN[sty]])
            fn = self.uninterp_param(env, 'determinant', fty)
            return Sc('(%s %s)' % (fn, ' '.join(par(sc.t) for _, sc in lv)), sty)
        if nm in ('resize', 'setConstant', 'setZero', 'setOnes'):
            bn = strip_noop(base)
            if pre is None or bn.get('kind') not in ('MemberExpr', 'DeclRefExpr') or dyn_info(type_of(bn)) is None:
                raise Untranslatable('`%s` on something that is not a dynamic-size matrix variable' % nm)
            root, path = self.resolve_lvalue(bn, env)
            cur = self.read_obj(env, root, path, type_of(bn))
            nidx = self.dx_nidx(cur)
            tv = TY_LEAN[sty]
            if nm == 'resize':
                # Eigen: the coefficients are kept (same storage, reinterpreted column-major) iff rows*cols does not change, otherwise they
                # are UNINITIALISED: an uninterpreted function `resize_<member>` of the old coefficients / sizes and the new sizes
                if len(args) != nidx:
                    raise Untranslatable('resize with %d arguments on an object with %d indices' % (len(args), nidx))
                sz = [self.eval(a, env, pre) for a in args]
                if any(s_.ty != 'i' for s_ in sz):
                    raise Untranslatable('resize to a size that is not an integer')
                lv = [sc for _, sc in leaves(cur)] + sz
                fty = ' → '.join([TY_LEAN[sc.ty] for sc in lv] + [TY_LEAN[cur['m'].ty]])
                fn = self.uninterp_param(env, lean_ident('resize_' + path_name('', path)), fty)
                new = {'m': Sc('(%s %s)' % (fn, ' '.join(par(sc.t) for sc in lv)), cur['m'].ty), 'rows': sz[0]}
                if nidx == 2:
                    new['cols'] = sz[1]
            else:
                frame.need('NatCast', sty)
                if nm == 'setConstant':
                    if len(args) != 1:
                        raise Untranslatable('setConstant with sizes')
                    x = self.convert(self.eval(args[0], env, pre), frame, DYNX_RE.search(type_of(base)).group(1))
                else:
                    if args:
                        raise Untranslatable('%s with sizes' % nm)
                    x = Sc('((%d : Nat) : %s)' % (1 if nm == 'setOnes' else 0, tv), sty)
                new = self.dx_val(frame, nidx, sty, lambda idx: x.t, cur['rows'], cur.get('cols'))
            # bind the new leaves to names and write them
            out = {}
            for key in sorted(new.keys()):
                sc = new[key]
                if re.match(r"^[A-Za-z_][A-Za-z0-9_']*$", sc.t) or getattr(sc, 'lit', None) is not None:
                    out[key] = sc
                else:
                    name = frame.fresh(path_name(self.root_name(frame, root), list(path) + [key]))
                    pre.append(('let', name, unpar(sc.t)))
                    out[key] = Sc(name, sc.ty)
            self.write(env, root, list(path), out)
            return None
        return NotImplemented

    def dynx_view(self, n, env):
        """`V`, `V.head(n)`, `M.col(i)`, `M.col(i).head(n)` (through `.array()` / `.matrix()`) as an ASSIGNMENT TARGET:
        (root, path of the coefficient leaf, its pseudo C++ type, base node, [('head', node) | ('col', node)] outermost first); None otherwise"""
        ops = []
        m = strip_noop(n)
        while m.get('kind') == 'CXXMemberCallExpr':
            callee = self.callee_ref(m)
            nm = callee.get('name')
            if nm in ('array', 'matrix') and len(m['inner']) == 1:
                pass
            elif nm in ('head', 'col') and len(m['inner']) == 2:
                ops.append((nm, m['inner'][1]))
            else:
                return None
            if not callee.get('inner'):
                return None
            m = strip_noop(callee['inner'][0])
        if m.get('kind') not in ('MemberExpr', 'DeclRefExpr') or dyn_info(type_of(m)) is None:
            return None
        nidx = dyn_info(type_of(m))[1]
        kinds = [o[0] for o in ops]
        if (nidx == 1 and kinds not in ([], ['head'])) or (nidx == 2 and kinds not in (['col'], ['head', 'col'])):
            return None
        try:
            root, path = self.resolve_lvalue(m, env)
        except Untranslatable:
            return None
        return root, list(path) + ['m'], strip_cv(type_of(m)) + DYN_COEF, m, ops

    def dynx_compound(self, s, nm, env, k):
        """`V.head(n).array() *= W.head(n).array();`, `M.col(i).head(n).array() *= …`: the coefficients of the target region are combined
        with those of the right-hand side (indexed from 0 within the region), every other coefficient is kept"""
        vw = self.dynx_view(s['inner'][1], env)
        if vw is None:
            raise Untranslatable('compound assignment to an unsupported view of a dynamic-size Eigen object')
        root, path, cty, bn, ops = vw
        env = env.copy()
        frame = env.frame
        pre = []
        ty = self.tyvar(frame, cty)
        sty = ty[2]
        cur = self.read_leaf(env, root, path, ty)
        rt = type_of(s['inner'][2])
        op, cls = self.EIG_BIN['operator' + nm[len('operator')]]
        frame.need(cls, sty)
        if DYNX_RE.search(rt):
            R = self.dynx_eval(s['inner'][2], env, pre)
            if self.dx_nidx(R) != 1:
                raise Untranslatable('compound assignment of a matrix to a vector view')
            rhs = lambda r_: self.dx_at(R, [r_])
        else:
            x = self.convert(self.eval(s['inner'][2], env, pre), frame, DYNX_RE.search(type_of(s['inner'][1])).group(1))
            rhs = lambda r_: par(x.t)
        conds = []
        col_t = None
        for kind, an in ops:
            a = self.eval(an, env, pre)
            if a.ty != 'i':
                raise Untranslatable('view argument that is not an integer')
            if kind == 'head':
                conds.append(lambda idx, a=a: '0 ≤ %s ∧ %s < %s' % (idx[0], idx[0], par(a.t)))
            else:
                col_t = a
                conds.append(lambda idx, a=a: '%s = %s' % (idx[1], par(a.t)))
        if not any(kd == 'head' for kd, _ in ops):      # the whole vector / column: rows 0 … rows() - 1
            rows = self.read_leaf(env, root, path[:-1] + ['rows'], 'i')
            conds.append(lambda idx: '0 ≤ %s ∧ %s < %s' % (idx[0], idx[0], par(rows.t)))
        nidx = int(ty[1])
        binders = ['ρ', 'γ'][:nidx]
        old = '(%s %s)' % (par(cur.t), ' '.join(binders))
        cond = ' ∧ '.join(c(binders) for c in reversed(conds))
        term = 'fun %s => if %s then %s %s %s else %s' % (' '.join(binders), cond, old, op, rhs(binders[0]), old)
        name = frame.fresh(path_name(self.root_name(frame, root), path))
        self.write(env, root, path, Sc(name, ty))
        return self.wrap(pre, ('let', name, term, k(env)))

    def dynx_chain(self, rhs):
        """the inner assignment node of `M(i, j) = M(j, i) = x` (None: the right-hand side is not such an assignment)"""
        m = strip_noop(rhs)
        while m.get('kind') == 'ImplicitCastExpr' and m.get('castKind') == 'LValueToRValue' and m.get('inner'):
            m = strip_noop(m['inner'][0])
        if m.get('kind') == 'BinaryOperator' and m.get('opcode') == '=' and self.is_dyn_elem(m['inner'][0]):
            return m
        return None

    def exec_dyn_chain(self, lhs, rhs, env, k):
        """`M(i, j) = N(j, i) = x;`: x is evaluated once and bound, then assigned from the innermost target outwards (the value of an
        assignment expression is the assigned object — here of the same scalar type, so the value itself)"""
        frame = env.frame
        targets = [lhs]
        m = self.dynx_chain(rhs)
        while m is not None:
            targets.append(m['inner'][0])
            val_n = m['inner'][1]
            m = self.dynx_chain(val_n)
        pre = []
        v = self.eval(val_n, env, pre)
        tys = set(dyn_info(type_of(strip_noop(strip_noop(t)['inner'][1])))[0] for t in targets)
        if len(tys) != 1:
            raise Untranslatable('chained assignment through different scalar types')
        v = self.convert(v, frame, list(tys)[0])
        vn = frame.fresh('val')
        pre.append(('let', vn, unpar(v.t)))
        for t in reversed(targets):
            root, path, ty, cur, idx = self.dyn_parts(t, env, pre)
            helper = 'dynSet%d' % len(idx)
            self.need_helper(helper)
            name = frame.fresh(path_name(self.root_name(frame, root), path))
            pre.append(('let', name, '%s %s %s %s' % (helper, par(cur.t), ' '.join(par(i.t) for i in idx), vn)))
            self.write(env, root, path, Sc(name, ty))
        return self.wrap(pre, k(env))

    def is_tuple_elem(self, n):
        """`v[i]` with `v` a std::vector of small fixed-size Eigen vectors (checked encoding: a list of coordinate tuples)"""
        if not self.is_vec_elem(n):
            return False
        bt = type_of(strip_noop(n)['inner'][1])
        return classify(bt) == 'agg' and self.is_list(bt)

    def tuple_elem_store(self, n, obj, env, pre):
        """`v[i] = obj` (all coordinates): `vecSet? v i (x0, x1, …)`; `none` if `i` is outside `v`"""
        frame = env.frame
        m = strip_noop(n)
        root, path = self.resolve_lvalue(m['inner'][1], env)
        lty = self.tyvar(frame, type_of(m['inner'][1]))
        cur = self.read_leaf(env, root, path, lty)
        idx = self.eval(m['inner'][2], env, pre)
        cnt = int(lty[1])
        if idx.ty != 'i' or sorted(obj.keys()) != [(i,) for i in range(cnt)] or not all(isinstance(obj[(i,)], Sc) and obj[(i,)].ty == lty[2] for i in range(cnt)):
            raise Untranslatable('write of a vector element of another shape')
        self.need_helper('vecSet?')
        self.set_partial(frame)
        name = frame.fresh(path_name(self.root_name(frame, root), path))
        pre.append(('bind', name, 'vecSet? %s %s %s' % (par(cur.t), par(idx.t), tuple_term([obj[(i,)].t for i in range(cnt)]))))
        self.write(env, root, path, Sc(name, lty))

    def data_base(self, n):
        """`X` of the expression `X.data()` on an Eigen object (None otherwise)"""
        m = strip_noop(n)
        if m.get('kind') != 'CXXMemberCallExpr' or len(m.get('inner', [])) != 1:
            return None
        callee = self.callee_ref(m)
        if callee.get('name') != 'data' or not callee.get('inner') or not self.is_eigen_type(type_of(callee['inner'][0])):
            return None
        return callee['inner'][0]

    def storage_keys(self, ctype):
        """coefficient keys of a fixed-size Eigen matrix type in STORAGE order (column-major unless the Options argument says RowMajor)"""
        keys, st = self.outer_keys(ctype)
        if keys and all(len(kk) == 1 for kk in keys):
            return keys, st      # a vector: one storage order
        mm = re.search(r'\bMatrix<\s*[\w ]+?\s*,\s*(-?\d+)\s*,\s*(-?\d+)\s*(?:,\s*(\d+))?', strip_cv(ctype))
        if not mm:
            raise Untranslatable('storage order of %s' % strip_cv(ctype)[:100])
        if keys and len(keys[0]) == 2:
            r, c = int(mm.group(1)), int(mm.group(2))
            if int(mm.group(3) or 0) & 1:
                return [(i, j) for i in range(r) for j in range(c)], st
            return [(i, j) for j in range(c) for i in range(r)], st
        return keys, st

    def std_copy_data(self, args, env, pre):
        """`std::copy(A.data(), A.data() + K, B.data())` on fixed-size Eigen objects, K a constant: the first K coefficients of A in
        storage order are written over the first K coefficients of B in storage order (B may be an element `v[i]` of a std::vector
        of Eigen vectors). False = not this pattern."""
        A, B = self.data_base(args[0]), self.data_base(args[2])
        e1 = strip_noop(args[1])
        if A is None or B is None or e1.get('kind') != 'BinaryOperator' or e1.get('opcode') != '+':
            return False
        A2 = self.data_base(e1['inner'][0])
        if A2 is None or pre is None:
            return False
        if self.resolve_lvalue(A, env) != self.resolve_lvalue(A2, env):
            raise Untranslatable('std::copy over data() of two different objects')
        K = self.const_int(e1['inner'][1], env)
        ka, sta = self.storage_keys(type_of(strip_noop(A)))
        kb, stb = self.storage_keys(type_of(strip_noop(B)))
        if not 0 <= K <= min(len(ka), len(kb)) or strip_cv(sta) != strip_cv(stb):
            raise Untranslatable('std::copy over data(): count / scalar types')
        src = self.read_keys(A, ka[:K], env, pre)
        if self.is_tuple_elem(B):
            obj = dict(self.eval_obj(B, env, pre)) if K < len(kb) else {}      # (the old coordinates are read only when some survive)
            for i in range(K):
                obj[kb[i]] = src[ka[i]]
            self.tuple_elem_store(B, obj, env, pre)
            return True
        root, path = self.resolve_lvalue(B, env)
        for i in range(K):
            self.write(env, root, list(path) + [kb[i]], src[ka[i]])
        return True

    # ---- for loops with a constant trip count (unrolled) / a loop-invariant bound (counted)
    def for_parts(self, init, cond, inc, body):
        """(decl of the loop variable, bound expression, comparison) of `for (T i = a; i < b; ++i)` / `i++`, T an integer type,
        whose body does not assign `i` and contains no `break`; None otherwise"""
        if not init or not cond or not inc or init.get('kind') != 'DeclStmt' or not init.get('inner'):
            return None
        i0 = strip_noop(inc)
        tgt = strip_noop(i0['inner'][0]) if i0.get('kind') == 'UnaryOperator' and i0.get('inner') else {}
        tid = (tgt.get('referencedDecl') or {}).get('id') if tgt.get('kind') == 'DeclRefExpr' else None
        cands = [d for d in init['inner'] if d.get('kind') == 'VarDecl' and d.get('id') == tid]
        if len(cands) != 1 or any(d.get('kind') != 'VarDecl' for d in init['inner']):
            return None      # (`for (size_t n = 0, N = v.size(); n < N; ++n)`: the variable that is incremented)
        v = cands[0]
        if classify(type_of(v)) not in ('int', 'uint') or v.get('storageClass'):
            return None
        vid = v['id']

        def is_var(x):
            x = strip_noop(x)
            while x.get('kind') == 'ImplicitCastExpr' and x.get('castKind') in ('LValueToRValue', 'IntegralCast') and x.get('inner'):
                x = strip_noop(x['inner'][0])
            return x.get('kind') == 'DeclRefExpr' and (x.get('referencedDecl') or {}).get('id') == vid
        c = strip_noop(cond)
        if c.get('kind') != 'BinaryOperator' or c.get('opcode') != '<' or not is_var(c['inner'][0]):
            return None
        i = strip_noop(inc)
        if i.get('kind') != 'UnaryOperator' or i.get('opcode') != '++' or not is_var(i['inner'][0]):
            return None
        if self.contains(body, ('BreakStmt', 'ReturnStmt', 'GotoStmt')):
            return None

        def writes(x):
            kd = x.get('kind')
            if ((kd == 'BinaryOperator' and x.get('opcode') == '=') or kd == 'CompoundAssignOperator' or
                    (kd == 'UnaryOperator' and x.get('opcode') in ('++', '--', '&'))) and is_var(x['inner'][0]):
                return True
            if kd == 'DeclRefExpr' and (x.get('referencedDecl') or {}).get('id') == vid and x.get('valueCategory') == 'lvalue' \
                    and not x.get('_rv'):
                pass
            return any(writes(y) for y in x.get('inner', []) or [] if isinstance(y, dict))
        if writes(body) or self.binds_nonconst_ref(body, vid):
            return None
        return v, c['inner'][1]

    def binds_nonconst_ref(self, body, vid):
        """is the variable passed / bound to a non-const reference anywhere in the body (then it may be modified)?"""
        def refs(x, under_rvalue):
            kd = x.get('kind')
            if kd == 'ImplicitCastExpr' and x.get('castKind') == 'LValueToRValue':
                return False      # a read
            if kd == 'ImplicitCastExpr' and x.get('castKind') == 'NoOp' and x.get('valueCategory') == 'lvalue' and \
                    re.match(r'^const\b', ((x.get('type') or {}).get('qualType') or '').strip()):
                return False      # phase 3: bound to a CONST reference (`f(…, n)` with `const size_t & pointIndex`): a read
            if kd == 'DeclRefExpr' and (x.get('referencedDecl') or {}).get('id') == vid:
                return 'const' not in ((x.get('type') or {}).get('qualType') or '')      # an lvalue use that is not a read
            return any(refs(y, under_rvalue) for y in x.get('inner', []) or [] if isinstance(y, dict))
        return refs(body, False)

    def static_for(self, init, cond, inc, body, env):
        """(decl, first, last+1) when both bounds are integer constants and the trip count is at most 16"""
        fp = self.for_parts(init, cond, inc, body)
        if fp is None or self.contains(body, ('ContinueStmt',)) or len(init.get('inner', [])) != 1:
            return None
        v, bound = fp
        ini = [c for c in v.get('inner', []) or [] if 'Expr' in c.get('kind', '') or 'Literal' in c.get('kind', '')]
        if len(ini) != 1:
            return None
        try:
            a = self.eval(ini[0], env.copy(), [])
            b = self.eval(bound, env.copy(), [])
        except Untranslatable:
            return None
        la, lb = getattr(a, 'lit', None), getattr(b, 'lit', None)
        if la is None or lb is None or lb - la > 16:
            return None
        return v, la, lb

    def exec_unrolled_for(self, st, body, env, k):
        v, la, lb = st
        vid = v['id']
        env = env.copy()
        env.frame.top().root_names.setdefault(vid, v.get('name', 'i'))
        env.local_roots.add(vid)

        def it(i, e):
            e = e.copy()
            e.vars[vid] = sc_lit(Sc(str(i), 'i'), i)
            if i >= lb:
                return k(e)
            return ('note', 'for %s = %d (loop with the constant bounds %d ≤ %s < %d, unrolled)' % (v.get('name'), i, la, v.get('name'), lb),
                    self.exec_stmt(body, e, lambda e2: it(i + 1, e2)))
        return it(la, env)

    def counted_for(self, init, cond, inc, body):
        fp = self.for_parts(init, cond, inc, body)
        return None if fp is None else fp[0]['id']

    def counted_trip(self, vid, cond_n, carried, pats, env, EL):
        """Lean term (a Nat) of the trip count of a counted loop, or None when the bound is not loop-invariant"""
        if (vid, ()) not in carried:
            return None
        bound_n = strip_noop(cond_n)['inner'][1]
        pc = []
        try:
            bl = self.eval(bound_n, EL, pc)
            bo = self.eval(bound_n, env, pc)
        except Untranslatable:
            return None
        if pc or bl.ty != 'i' or bo.ty != 'i':
            return None
        carried_names = set(pn for pn, _ in pats)
        if carried_names & set(self.IDENT.findall(bl.t)):
            return None
        start = self.lookup(env, vid, [])
        if not isinstance(start, Sc) or start.ty != 'i':
            return None
        if getattr(start, 'lit', None) == 0 or start.t == '0':
            return 'Int.toNat %s' % par(bo.t)
        return 'Int.toNat (%s - %s)' % (par(bo.t), par(start.t))

    # ------------------------------------------------------------------ statements (continuation-passing; result: tree)
    # trees: ('let', name, term|tree, body) ('bind', name, term, body) ('if', cond, t, e) ('ret', term) ('hole', i)
    #        ('note', text, body)
    @staticmethod
    def wrap(pre, tree):
        for item in reversed(pre):
            tree = (item[0], item[1], item[2], tree)
        return tree

    @staticmethod
    def contains(n, kinds):
        if n.get('kind') in kinds:
            return True
        return any(Translator.contains(c, kinds) for c in n.get('inner', []) or [] if isinstance(c, dict))

    @staticmethod
    def tree_has(tree, tag):
        if not isinstance(tree, tuple):
            return False
        if tree[0] == tag:
            return True
        return any(Translator.tree_has(x, tag) for x in tree[1:])

    @staticmethod
    def count_holes(tree):
        if not isinstance(tree, tuple):
            return 0
        if tree[0] == 'hole':
            return 1
        return sum(Translator.count_holes(x) for x in tree[1:])

    @staticmethod
    def fill(tree, repl):
        if not isinstance(tree, tuple):
            return tree
        if tree[0] == 'hole':
            return repl
        return tuple([tree[0]] + [Translator.fill(x, repl) for x in tree[1:]])

    def exec_stmts(self, stmts, env, k):
        if not stmts:
            return k(env)
        return self.exec_stmt(stmts[0], env, lambda e: self.exec_stmts(stmts[1:], e, k))

    def exec_stmt(self, s, env, k):
        kind = s.get('kind')
        if kind == 'CompoundStmt':
            return self.exec_stmts(s.get('inner', []) or [], env, k)
        if kind == 'NullStmt':
            return k(env)
        if kind == 'DeclStmt':
            decls = s.get('inner', []) or []

            def go(i, e):
                if i == len(decls):
                    return k(e)
                return self.exec_vardecl(decls[i], e, lambda e2: go(i + 1, e2))
            return go(0, env)
        if kind in TRANSPARENT:
            return self.exec_stmt(s['inner'][0], env, k)
        if kind == 'IfStmt':
            return self.exec_if(s, env, k)
        if kind == 'ReturnStmt':
            inner = s.get('inner', []) or []
            if not inner:
                return self.on_return(None, env)
            rn = strip_noop(inner[0])
            if rn.get('kind') == 'DeclRefExpr' and (rn.get('referencedDecl') or {}).get('id') in env.frame.top().ref_out and \
                    (getattr(env.frame.top(), 'ret_ctype', '') or '').rstrip().endswith('&'):
                # `T & f(T & x, …) { …; return x; }`: the result IS the reference parameter, whose written leaves are results already
                return self.on_return(None, env)
            pre = []
            loc = self.ref_location(inner[0], env, pre)      # `T & f() { return container_[i]; }`: the location, not the value
            if loc is not None:
                return self.wrap(pre, self.on_return(loc, env))
            obj = self.eval_obj(inner[0], env, pre)
            return self.wrap(pre, self.on_return(obj, env))
        if kind == 'WhileStmt':
            inner = s['inner']
            if len(inner) != 2:
                raise Untranslatable('while statement with a condition variable')
            return self.exec_loop(inner[0], inner[1], None, env, k)
        if kind == 'ForStmt':
            inner = s['inner']
            if len(inner) != 5 or inner[1]:
                raise Untranslatable('for statement with a condition variable')
            init, _, cond, inc, body = inner
            st = self.static_for(init, cond, inc, body, env)      # phase 2: constant trip count -> unrolled
            if st is not None:
                return self.exec_unrolled_for(st, body, env, k)
            cv = self.counted_for(init, cond, inc, body)          # phase 2: `for (T i = a; i < b; ++i)` -> recursion on the trip count
            if cv is not None:
                return self.exec_stmt(init, env, lambda e: self.exec_loop(cond, body, inc, e, k, counted=cv))
            go = lambda e: self.exec_loop(cond if cond else None, body, inc if inc else None, e, k)
            if init:
                return self.exec_stmt(init, env, go)
            return go(env)
        if kind in ('BreakStmt', 'ContinueStmt') and getattr(self, 'cur_unroll', None) is not None and self.cur_unroll['frame'] is env.frame:
            return self.cur_unroll['break' if kind == 'BreakStmt' else 'continue'](env)
        if kind == 'BreakStmt':
            if env.frame.kind != 'loop':
                raise Untranslatable('break outside a translated loop')
            return env.frame.on_break(env)
        if kind == 'ContinueStmt':
            if env.frame.kind != 'loop':
                raise Untranslatable('continue outside a translated loop')
            return env.frame.on_continue(env)
        if kind == 'CXXForRangeStmt' and self.spec.get('range_for'):
            return self.exec_range_for(s, env, k)      # `for (auto p : points)` over a list-encoded container: recursion on the list
        if kind in ('DoStmt', 'CXXForRangeStmt', 'SwitchStmt', 'GotoStmt', 'CXXTryStmt'):
            raise Untranslatable('unsupported statement %s' % kind)
        # expression statements
        if kind in ('ImplicitCastExpr', 'CStyleCastExpr', 'CXXStaticCastExpr', 'CXXFunctionalCastExpr') and s.get('castKind') == 'ToVoid':
            inner = strip_noop(s['inner'][-1])
            if inner.get('kind') in ('IntegerLiteral',):
                return ('note', 'assert(...) compiled out by NDEBUG', k(env))
            return self.exec_stmt(inner, env, k)
        if kind == 'BinaryOperator' and s.get('opcode') == '=':
            return self.exec_assign(s['inner'][0], s['inner'][1], None, s, env, k)
        if kind == 'CompoundAssignOperator':
            return self.exec_assign(s['inner'][0], s['inner'][1], s.get('opcode')[:-1], s, env, k)
        if kind == 'UnaryOperator' and s.get('opcode') in ('++', '--'):
            return self.exec_incr(s, env, k)
        if kind == 'CXXOperatorCallExpr':
            callee = self.callee_ref(s)
            nm = (callee.get('referencedDecl') or {}).get('name')
            if nm == 'operator=' and strip_noop(s['inner'][1]).get('kind') == 'CXXMemberCallExpr' \
                    and self.callee_ref(strip_noop(s['inner'][1])).get('name') == 'block':      # phase 2
                return self.block_assign(s['inner'][1], s['inner'][2], env, k)
            if nm == 'operator=' and self.is_list_index(strip_noop(s['inner'][1])):
                return self.exec_list_assign(strip_noop(s['inner'][1]), s['inner'][2], None, s, env.copy(), k)
            if nm == 'operator=' and self.is_vec_elem(s['inner'][1]) and classify(type_of(strip_noop(s['inner'][1])['inner'][1])) == 'agg':
                return self.exec_vec_tuple_assign(s['inner'][1], s['inner'][2], env, k)      # phase 3: `v[i] = x;`, v a std::vector of Eigen vectors
            lhs5 = strip_noop(s['inner'][1])
            if nm == 'operator=' and lhs5.get('kind') == 'CXXMemberCallExpr' and self.callee_ref(lhs5).get('name') in ('array', 'matrix') \
                    and len(lhs5['inner']) == 1 and self.callee_ref(lhs5).get('inner') and self.is_vec_elem(self.callee_ref(lhs5)['inner'][0]) \
                    and classify(type_of(strip_noop(strip_noop(self.callee_ref(lhs5)['inner'][0])['inner'][1]))) == 'agg':
                return self.exec_vec_tuple_assign(self.callee_ref(lhs5)['inner'][0], s['inner'][2], env, k)      # phase 5: `v[i].array() = x;`
            if nm == 'operator,' and 'CommaInitializer<' in type_of(s):      # phase 3: `target << a, b, c;`
                return self.exec_comma_init(s, env, k)
            if nm == 'operator=' and self.is_eigen_view(s['inner'][1]):      # phase 3: `T.translation() = expr;`, `M.col(j) = expr;`
                return self.view_assign(s['inner'][1], s['inner'][2], env, k)
            if nm == 'operator=':
                pre = []
                obj = self.eval_obj(s['inner'][2], env, pre)
                root, path = self.resolve_lvalue(s['inner'][1], env)
                e2 = env.copy()
                return self.wrap(pre, self.bind_obj(e2, root, path, obj, k))
            if nm in ('operator+=', 'operator-=', 'operator*=', 'operator/=') and len(s['inner']) == 3 and self.spec.get('dyn_sizes') \
                    and DYNX_RE.search(type_of(s['inner'][1])):      # phase 4: `V.head(n).array() *= W.head(n).array();`
                return self.dynx_compound(s, nm, env, k)
            if nm in ('operator+=', 'operator-=', 'operator*=', 'operator/=') and len(s['inner']) == 3 and self.is_eigen_type(type_of(s['inner'][1])):
                # phase 2: `a += b`, `a.array() += b`, `a /= s` on fixed-size Eigen objects: coefficient-wise
                pre = []
                e2 = env.copy()
                op, cls = self.EIG_BIN['operator' + nm[len('operator')]]
                if self.is_eigen_view(s['inner'][1]) and (nm in ('operator+=', 'operator-=') or classify(type_of(s['inner'][2])) != 'agg'):
                    # phase 5: `M.block(i, j, R, C) += expr;`, `v.head(n) *= s;` (any writable view): the coefficients of the view are
                    # combined one by one (`*=` / `/=` only with a scalar: a matrix on the right would be a matrix product)
                    A, B = self.cwise_operands(s['inner'][1], s['inner'][2], e2, pre)
                    if not isinstance(A, dict) or (not isinstance(B, dict) and nm in ('operator+=', 'operator-=')):
                        raise Untranslatable('compound assignment to a view from a scalar')
                    root, path, vm = self.eigen_view(s['inner'][1], e2)
                    if isinstance(B, Sc):
                        B = {kk: B for kk in A}
                    if set(A.keys()) != set(sk for sk, _ in vm) and all(len(sk) == 2 and sk[1] == 0 for sk, _ in vm):
                        vm = [((sk[0],), bk) for sk, bk in vm]      # an n x 1 block is a vector
                    if set(A.keys()) != set(sk for sk, _ in vm):
                        A = {sk: A[(sk[0], 0)] for sk, _ in vm} if all((sk[0], 0) in A for sk, _ in vm) else A
                    if set(B.keys()) != set(A.keys()) and all(len(kk) == 1 for kk in B) and all(len(kk) == 2 and kk[1] == 0 for kk in A):
                        B = {(kk[0], 0): v_ for kk, v_ in B.items()}
                    if set(B.keys()) != set(A.keys()) and all(len(kk) == 1 for kk in A) and all(len(kk) == 2 and kk[1] == 0 for kk in B):
                        B = {(kk[0],): v_ for kk, v_ in B.items()}
                    wt = self.wrap_ctype(type_of(s['inner'][1]))
                    obj = self.cwise2(A, B, lambda a, b: self.sc_arith(op, cls, a, b, e2.frame, wt), e2.frame)
                    return self.wrap(pre, self.write_view(e2, root, path, [(bk, obj[sk]) for sk, bk in vm], k))
                A, B = self.cwise_operands(s['inner'][1], s['inner'][2], e2, pre)
                if ('Product<' in type_of(s['inner'][2]) and nm not in ('operator+=', 'operator-=')) or not isinstance(A, dict):
                    # (phase 5: `A += B * C`, `A -= B * C` add / subtract the evaluated product coefficient by coefficient; `A *= B` is not coefficient-wise)
                    raise Untranslatable('operator call statement %s with a matrix product' % nm)
                wt = self.wrap_ctype(type_of(s['inner'][1]))
                obj = self.cwise2(A, B, lambda a, b: self.sc_arith(op, cls, a, b, e2.frame, wt), e2.frame)
                root, path = self.resolve_lvalue(s['inner'][1], e2)
                return self.wrap(pre, self.bind_obj(e2, root, path, obj, k))
            if self.spec.get('whole_containers') and self.iter_incr(s) is not None:      # `++it;` on an iterator into a whole container
                e2 = env.copy()
                rid, _ = self.iter_incr(s)
                v2, _ = self.iter_value(s, e2)
                return self.bind_obj(e2, rid, [], v2, k)
            raise Untranslatable('operator call statement %s' % nm)
        if kind in ('CallExpr', 'CXXMemberCallExpr'):
            pre = []
            e2 = env.copy()
            self.eval_call(s, e2, pre)
            return self.wrap(pre, k(e2))
        raise Untranslatable('unsupported statement %s' % kind)

    def ref_location(self, n, env, pre):
        """a function whose return type is a NON-CONST lvalue reference to a scalar and whose returned expression is an element `c[i]` of
        a sequence container translated as a list (`T & operator()(…) { return buffer_[k]; }`): the result is the LOCATION — the index
        `i` into that list (an `Int`) —, not the value; the caller's read through the reference is `List.getD c i`, its assignment
        `List.set c i x`. None when this reading does not apply (the ordinary value translation is then used)."""
        frame = env.frame
        if frame.kind != 'fn' or frame is not frame.top():
            return None
        rt = (getattr(frame, 'ret_ctype', '') or '').strip()
        if not rt.endswith('&') or rt.endswith('&&') or re.match(r'^const\b', rt) or classify(rt[:-1].strip()) not in ('int', 'uint', 'double', 'float', 'bool'):
            return None
        m = strip_noop(n)
        if not self.is_list_index(m) or LIST_OPTS.get('encoding') != 'plain':
            raise Untranslatable('function returning a non-const reference to something other than an element of a list-encoded container')
        root, path = self.resolve_lvalue(m['inner'][1], env)      # the container itself is not read: only the index is the result
        i = self.eval(m['inner'][2], env, pre)
        if i.ty != 'i':
            raise Untranslatable('list index that is not an integer')
        where = path_name(self.root_name(frame, root), path)
        if getattr(frame, 'ret_ref', where) != where:
            raise Untranslatable('function returning references into different containers')
        frame.ret_ref = where
        return Sc(i.t, 'i')

    def bind_obj(self, env, root, path, obj, k):
        """write an object to (root, path), binding every non-trivial leaf term to a fresh name first"""
        frame = env.frame
        lets = []
        if isinstance(obj, Sc):
            nm = frame.fresh(path_name(self.root_name(frame, root), path))
            lets.append((nm, obj.t))
            self.write(env, root, path, sc_copy_lit(Sc(nm, obj.ty), obj if self.spec.get('unroll_constant_loops') else None))
        else:
            new = {}
            for p, sc in leaves(obj):
                if re.match(r"^[A-Za-z_][A-Za-z0-9_']*$", sc.t):
                    v = sc
                else:
                    nm = frame.fresh(path_name(self.root_name(frame, root), list(path) + list(p)))
                    lets.append((nm, sc.t))
                    v = Sc(nm, sc.ty)
                cur = new
                for kk in p[:-1]:
                    cur = cur.setdefault(kk, {})
                cur[p[-1]] = v
            self.write(env, root, path, new)
        tree = k(env)
        for nm, t in reversed(lets):
            tree = ('let', nm, unpar(t), tree)
        return tree

    def exec_vardecl(self, v, env, k):
        frame = env.frame
        if v.get('kind') != 'VarDecl':
            if v.get('kind') in ('TypedefDecl', 'TypeAliasDecl', 'UsingDecl', 'StaticAssertDecl'):
                return k(env)
            raise Untranslatable('local declaration %s' % v.get('kind'))
        name = v.get('name', 'v')
        if v.get('storageClass') == 'static' or v.get('tls'):
            raise Untranslatable('function-local static variable `%s` (hidden state: the model is a pure function)' % name)
        if v.get('storageClass') == 'extern':
            raise Untranslatable('local extern declaration `%s`' % name)
        vid = v['id']
        qt = (v.get('type') or {}).get('qualType', '')
        ct = type_of(v)
        if re.search(r'\b(lock_guard|unique_lock|scoped_lock)<', qt + ' ' + ct):
            return ('note', '%s %s: lock (no effect on the sequential meaning)' % (qt, name), k(env))
        init = [c for c in v.get('inner', []) or [] if 'Expr' in c.get('kind', '') or 'Literal' in c.get('kind', '') or 'Operator' in c.get('kind', '')]
        env = env.copy()
        env.frame.top().root_names.setdefault(vid, name)
        if self.oracle_class_of(ct) is not None:      # phase 4: `Eigen::JacobiSVD<Matrix> svd(A, flags);` — a local ORACLE object
            return self.exec_oracle_local(v, init, env, k)
        if self.spec.get('whole_containers') and self.ITER_RE.match(strip_cv(ct)):      # an iterator into a whole container: an index
            return self.exec_iter_decl(v, init, env, k)
        if qt.rstrip().endswith('&'):
            if not init:
                raise Untranslatable('reference `%s` without initialiser' % name)
            tgt = strip_noop(init[0])
            if tgt.get('valueCategory') == 'lvalue' and tgt.get('kind') in ('DeclRefExpr', 'MemberExpr', 'CXXOperatorCallExpr', 'ArraySubscriptExpr', 'CXXMemberCallExpr') \
                    and not (self.is_vec_elem(tgt) and re.match(r'^const\b', qt.strip())) \
                    and not (tgt.get('kind') == 'MemberExpr' and self.is_vec_elem_member(tgt) and re.match(r'^const\b', qt.strip())):      # (phase 2: `const T & x = v[i]` is bound by value; phase 5: `const T & x = v[i].field` too)
                try:
                    root, path = self.resolve_lvalue(tgt, env)
                    env.vars[vid] = Alias(root, path)
                    return k(env)
                except Untranslatable:
                    if tgt.get('kind') != 'CXXMemberCallExpr':
                        raise
            if 'const' not in qt:
                raise Untranslatable('non-const reference `%s` to a temporary' % name)
        env.local_roots.add(vid)
        if not init:
            return k(env)
        pre = []
        if classify(ct) == 'agg':
            obj = self.eval_obj(init[0], env, pre)
            if self.spec.get('dyn_sizes') and isinstance(obj, dict) and 'm' in obj and 'rows' in obj and dyn_info(ct) is None \
                    and not DYNX_RE.search(ct) and self.is_eigen_type(ct):
                # phase 7 (C11): `Eigen::Matrix2d U = svd.matrixU();` — a FIXED-size local initialised from a dynamic-size value is read
                # at the local's indices (sizes not compared, as for `dynx_to_fixed` of phase 5: Eigen asserts them in debug builds only)
                obj = self.dynx_to_fixed(obj, self.eigen_keys(ct)[0])
            return self.wrap(pre, self.bind_obj(env, vid, [], obj, k))
        if v.get('constexpr') and classify(ct) in ('int', 'uint'):
            # phase 3: `constexpr int DIM = Traits<T>::DIM;` whose initialiser cannot be followed (a static member of a class the dump does
            # not hold): a constant expression has no side effect; the local stays WITHOUT a value (any read of it is an error), its
            # uses as a template argument are already substituted in the types of the instantiated code
            try:
                self.eval(init[0], env.copy(), [])
            except Untranslatable as ex:
                return ('note', 'constexpr %s %s: value not followed (%s); usable only through the instantiated types' % (qt, name, str(ex)[:80]), k(env))
        sc = self.eval(init[0], env, pre)
        if sc is None:
            raise Untranslatable('void initialiser of `%s`' % name)
        ty = self.tyvar(frame, ct)
        sc = self.coerce(sc, ty)
        nm = frame.fresh(name)
        env.vars[vid] = sc_copy_lit(Sc(nm, ty), sc if ('const' in qt or self.spec.get('unroll_constant_loops')) else None)
        return self.wrap(pre, ('let', nm, unpar(sc.t), k(env)))

    def promote(self, v, frame, to_ctype):
        ty = self.tyvar(frame, to_ctype)
        if v.ty == 'i' and ty in ('a', 'd') and getattr(v, 'lit', None) is not None and v.lit >= 0:
            frame.need('NatCast', ty)
            return Sc('((%d : Nat) : %s)' % (v.lit, TY_LEAN[ty]), ty)
        return self.convert(v, frame, to_ctype)

    def convert(self, v, frame, to_ctype):
        """implicit arithmetic conversion of a scalar value to a C++ type"""
        ty = self.tyvar(frame, to_ctype)
        if v.ty == ty:
            return v
        if v.ty == 'i' and ty in ('a', 'd'):
            frame.need('IntCast', ty)
            return Sc('((%s : Int) : %s)' % (unpar(v.t), TY_LEAN[ty]), ty)
        if v.ty == 'a' and ty == 'd':
            frame.classes.add(('DoubleConv', 'a'))
            frame.top().uses_delta = True
            return Sc('(DoubleConv.up %s : δ)' % par(v.t), 'd')
        if v.ty == 'd' and ty == 'a':
            frame.classes.add(('DoubleConv', 'a'))
            frame.top().uses_delta = True
            return Sc('(DoubleConv.down %s : α)' % par(v.t), 'a')
        if v.ty in ('a', 'd') and ty == 'i':
            frame.need('Trunc', v.ty)
            return Sc('(Trunc.trunc %s)' % par(v.t), 'i')
        return self.coerce(v, ty)

    def exec_assign(self, lhs, rhs, op, node, env, k):
        frame = env.frame
        lt = type_of(lhs)
        env = env.copy()
        pre = []
        if self.is_vec_elem(lhs):      # phase 2: `v[i] = x` on a std::vector of scalars
            return self.exec_vec_assign(lhs, rhs, op, node, env, k)
        if self.is_dyn_elem(lhs) and not op and self.dynx_chain(rhs) is not None:      # phase 4: `M(i, j) = M(j, i) = x`
            return self.exec_dyn_chain(lhs, rhs, env, k)
        if self.is_dyn_elem(lhs):      # phase 3: `M(i, j) = x` on a dynamic Eigen matrix
            return self.exec_dyn_assign(lhs, rhs, op, node, env, k)
        if self.is_list_index(strip_noop(lhs)):
            return self.exec_list_assign(strip_noop(lhs), rhs, op, node, env, k)
        if classify(lt) == 'agg':
            if op:
                raise Untranslatable('compound assignment on an aggregate')
            obj = self.eval_obj(rhs, env, pre)
            root, path = self.resolve_lvalue(lhs, env)
            return self.wrap(pre, self.bind_obj(env, root, path, obj, k))
        v = self.eval(rhs, env, pre)
        root, path = self.resolve_lvalue(lhs, env)
        ty = self.tyvar(frame, lt)
        if op:
            cur = self.read_leaf(env, root, path, ty)
            comp_t = (node.get('computeLHSType') or {}).get('qualType') or lt
            a = self.convert(cur, frame, comp_t)
            if a.ty != v.ty:
                raise Untranslatable('compound assignment with mixed operand types')
            if a.ty == 'i':
                t = {'+': '(%s + %s)', '-': '(%s - %s)', '*': '(%s * %s)', '/': '(Int.tdiv %s %s)', '%': '(Int.tmod %s %s)'}.get(op)
                if not t:
                    raise Untranslatable('compound operator %s=' % op)
                r = self.uwrap(Sc(t % (par(a.t), par(v.t)), 'i'), comp_t) if op in ('+', '-', '*') else Sc(t % (par(a.t), par(v.t)), 'i')
                if self.spec.get('unsigned_wrap'):
                    r = self.int_convert(r, comp_t, lt)
            else:
                cls = {'+': 'Add', '-': 'Sub', '*': 'Mul', '/': 'Div'}.get(op)
                if not cls:
                    raise Untranslatable('compound operator %s=' % op)
                frame.need(cls, a.ty)
                r = Sc('(%s %s %s)' % (par(a.t), op, par(v.t)), a.ty)
            v = self.convert(r, frame, lt)
        else:
            v = self.coerce(v, ty)
        return self.wrap(pre, self.bind_obj(env, root, path, v, k))

    def eval_incr(self, n, env, pre):
        """`++x` / `--x` / `x++` / `x--` on an integer lvalue used as a VALUE: the variable is updated in the environment of the
        enclosing evaluation (conditionally evaluated operands refuse side effects: eval_guarded) and the new (prefix) or old
        (postfix) value is the result"""
        root, path = self.resolve_lvalue(n['inner'][0], env)
        cur = self.read_leaf(env, root, path, 'i')
        if cur.ty != 'i' or classify(type_of(n['inner'][0])) not in ('int', 'uint'):
            raise Untranslatable('++/-- on a non-integer inside an expression')
        new = Sc('(%s %s 1)' % (par(cur.t), '+' if n.get('opcode') == '++' else '-'), 'i')
        if self.spec.get('unroll_constant_loops') and getattr(cur, 'lit', None) is not None:
            sc_lit(new, cur.lit + (1 if n.get('opcode') == '++' else -1))
        new = self.uwrap(new, type_of(n['inner'][0]))      # (spec option `unsigned_wrap`)
        self.write(env, root, path, new)
        return cur if n.get('isPostfix') else new

    @staticmethod
    def has_side_effect(n):
        kd = n.get('kind')
        if (kd == 'UnaryOperator' and n.get('opcode') in ('++', '--')) or kd == 'CompoundAssignOperator' or \
                (kd == 'BinaryOperator' and n.get('opcode') == '='):
            return True
        return any(Translator.has_side_effect(c) for c in n.get('inner', []) or [] if isinstance(c, dict))

    def exec_incr(self, s, env, k):
        env = env.copy()
        root, path = self.resolve_lvalue(s['inner'][0], env)
        cur = self.read_leaf(env, root, path, 'i')
        if cur.ty != 'i':
            raise Untranslatable('++/-- on a non-integer')
        v = Sc('(%s %s 1)' % (par(cur.t), '+' if s.get('opcode') == '++' else '-'), 'i')
        if self.spec.get('unroll_constant_loops') and getattr(cur, 'lit', None) is not None:
            sc_lit(v, cur.lit + (1 if s.get('opcode') == '++' else -1))
        v = self.uwrap(v, type_of(s['inner'][0]))
        return self.bind_obj(env, root, path, v, k)

    # ---- if
    def exec_if(self, s, env, k):
        if s.get('hasInit') or s.get('hasVar'):
            raise Untranslatable('if statement with an initialiser / condition variable')
        inner = s['inner']
        cond_n, then_n = inner[0], inner[1]
        else_n = inner[2] if len(inner) > 2 else None
        cn = strip_noop(cond_n)
        if cn.get('kind') == 'BinaryOperator' and cn.get('opcode') == '&&' and self.has_side_effect(cn['inner'][1]):
            # phase 2: `if (a && b) S else T` with a side effect in b (`--n == 0`)  ==  `if (a) { if (b) S else T } else T`
            tail = [else_n] if else_n is not None else []
            inner_if = {'kind': 'IfStmt', 'inner': [cn['inner'][1], then_n] + tail}
            return self.exec_if({'kind': 'IfStmt', 'inner': [cn['inner'][0], inner_if] + tail}, env, k)
        pre = []
        env = env.copy()
        cv = self.eval(cond_n, env, pre)
        if cv.ty == 'p' and getattr(cv, 'lit', None) in (True, False) and not pre:      # statically decided (`if (DIM == 3)`)
            if cv.lit:
                return ('note', 'condition `%s` is true at compile time' % self.tu.range_text(cond_n).strip(), self.exec_stmt(then_n, env, k))
            tree = self.exec_stmt(else_n, env, k) if else_n is not None else k(env)
            return ('note', 'condition `%s` is false at compile time: branch not taken' % self.tu.range_text(cond_n).strip(), tree)
        c = self.as_prop(cv)
        ctl = ('ReturnStmt', 'WhileStmt', 'DoStmt', 'ForStmt', 'BreakStmt', 'ContinueStmt')
        dup = self.contains(then_n, ctl) or (else_n is not None and self.contains(else_n, ctl))
        if not dup:
            merged = self.try_merge(c, then_n, else_n, env, k)
            if merged is not None:
                return self.wrap(pre, merged)
        # general form: the continuation is executed on both paths
        tt = self.exec_stmt(then_n, env.copy(), k)
        te = self.exec_stmt(else_n, env.copy(), k) if else_n is not None else k(env.copy())
        return self.wrap(pre, ('if', unpar(c), tt, te))

    def try_merge(self, c, then_n, else_n, env, k):
        frame = env.frame
        fin = []

        def kh(e):
            fin.append(e)
            return ('hole', len(fin) - 1)
        tt = self.exec_stmt(then_n, env.copy(), kh)
        if len(fin) != 1 or self.tree_has(tt, 'bind') or self.tree_has(tt, 'ret'):
            return None
        et = fin[0]
        fin2 = []

        def kh2(e):
            fin2.append(e)
            return ('hole', len(fin2) - 1)
        te = self.exec_stmt(else_n, env.copy(), kh2) if else_n is not None else kh2(env.copy())
        if len(fin2) != 1 or self.tree_has(te, 'bind') or self.tree_has(te, 'ret'):
            return None
        ee = fin2[0]
        # modified leaves
        roots = [r for r in list(et.vars.keys()) + list(ee.vars.keys())]
        seen, mods, adopt = set(), [], []
        for r in roots:
            if r in seen:
                continue
            seen.add(r)
            if isinstance(et.vars.get(r), Alias) or isinstance(ee.vars.get(r), Alias):
                continue
            if r in et.local_roots and r not in env.local_roots:
                continue      # declared inside the branch
            if r in ee.local_roots and r not in env.local_roots:
                continue
            lt = dict(leaves(et.vars[r])) if r in et.vars else {}
            le = dict(leaves(ee.vars[r])) if r in ee.vars else {}
            lo = dict(leaves(env.vars[r])) if r in env.vars and not isinstance(env.vars[r], Alias) else {}
            for p in sorted(set(lt) | set(le), key=lambda q: [key_sort(x) for x in q]):
                a, b, o = lt.get(p), le.get(p), lo.get(p)
                lazy = r not in env.local_roots
                if a is None or b is None:
                    if not lazy:
                        continue      # assigned on one path only: stays uninitialised for what follows
                    ty = (a or b).ty
                    if a is None:
                        a = self.read_leaf(et, r, list(p), ty)
                    if b is None:
                        b = self.read_leaf(ee, r, list(p), ty)
                if a.t == b.t:
                    if o is None or o.t != a.t:
                        adopt.append((r, p, a))
                    continue
                mods.append((r, p, a, b))
        out = env.copy()
        for r, p, a in adopt:
            self.store(out, r, list(p), a)
        if not mods:
            return k(out)
        mods.sort(key=lambda m: path_name(self.root_name(frame, m[0]), list(m[1])))
        for (r, p, a, b) in mods:
            if a.ty != b.ty:
                return None
        n = len(mods)
        rt = ('val', tuple_term([m[2].t for m in mods]))
        re_ = ('val', tuple_term([m[3].t for m in mods]))
        ifx = ('if', unpar(c), self.fill(tt, rt), self.fill(te, re_))
        if n == 1:
            r, p, a, b = mods[0]
            nm = frame.fresh(path_name(self.root_name(frame, r), list(p)))
            self.store(out, r, list(p), Sc(nm, a.ty))
            return ('let', nm, ifx, k(out))
        mname = frame.fresh('m')
        lets = []
        for i, (r, p, a, b) in enumerate(mods):
            nm = frame.fresh(path_name(self.root_name(frame, r), list(p)))
            self.store(out, r, list(p), Sc(nm, a.ty))
            lets.append((nm, tuple_proj(mname, i, n)))
        tree = k(out)
        for nm, t in reversed(lets):
            tree = ('let', nm, t, tree)
        return ('let', mname, ifx, tree)

    # ---- return
    def on_return(self, obj, env):
        frame = env.frame
        if frame.kind != 'fn':
            raise Untranslatable('return inside a loop')
        terms = []
        if obj is not None:
            lv = leaves(obj)
            shape = [(p, sc.ty if sc.ty != 'p' else 'b') for p, sc in lv]
            if frame.ret_leaves is None:
                frame.ret_leaves = shape
                frame.ret_scalar = isinstance(obj, Sc)
            elif frame.ret_leaves != shape:
                raise Untranslatable('return statements with different component sets')
            for p, sc in lv:
                terms.append(self.as_bool(sc).t if sc.ty == 'p' else sc.t)
        elif frame.ret_leaves is None:
            frame.ret_leaves = []
            frame.ret_scalar = False
        wr = frame.written_final if frame.written_final is not None else frame.written
        wr = self.filter_outputs(frame, wr)
        for (root, path) in sorted(wr.keys(), key=lambda kk: path_name(self.root_name(frame, kk[0]), list(kk[1]))):
            sc = self.read_leaf(env, root, list(path), wr[(root, path)])
            terms.append(sc.t)
        t = tuple_term(terms)
        if frame.opt:
            t = 'some ' + par(t)
        return ('ret', t)

    def filter_outputs(self, frame, wr):
        flt = getattr(frame, 'out_filter', None)
        if not flt:
            return wr
        return {kk: ty for kk, ty in wr.items() if kk[1] and str(kk[1][0]) in flt}

    # ---- dead-code elimination (only for translations restricted to some outputs)
    IDENT = re.compile(r"[A-Za-z_][A-Za-z0-9_']*")

    def dce(self, tree):
        tag = tree[0]
        if tag in ('ret', 'val'):
            return tree, set(self.IDENT.findall(tree[1]))
        if tag == 'note':
            b, u = self.dce(tree[2])
            return ('note', tree[1], b), u
        if tag == 'let':
            _, name, term, body = tree
            b, u = self.dce(body)
            if name not in u:
                return b, u
            if isinstance(term, tuple):
                t, ut = self.dce(term)
            else:
                t, ut = term, set(self.IDENT.findall(term))
            return ('let', name, t, b), (u - {name}) | ut
        if tag == 'bind':
            _, name, term, body = tree
            b, u = self.dce(body)
            return ('bind', name, term, b), (u - {name}) | set(self.IDENT.findall(term))
        if tag == 'if':
            _, c, t, e = tree
            t2, ut = self.dce(t)
            e2, ue = self.dce(e)
            return ('if', c, t2, e2), ut | ue | set(self.IDENT.findall(c))
        return tree, set()

    # ---- while
    def assigned_leaves(self, nodes, env):
        declared = set()
        found = []

        def decls(n):
            if n.get('kind') == 'VarDecl':
                declared.add(n.get('id'))
            for c in n.get('inner', []) or []:
                if isinstance(c, dict):
                    decls(c)

        def root_decl(n):
            n = strip_noop(n)
            while n.get('kind') in ('MemberExpr', 'CXXOperatorCallExpr', 'ArraySubscriptExpr', 'CXXMemberCallExpr'):
                idx = 1 if n.get('kind') == 'CXXOperatorCallExpr' else 0
                if n.get('kind') == 'CXXMemberCallExpr':
                    n = strip_noop(self.callee_ref(n)['inner'][0])
                    continue
                n = strip_noop(n['inner'][idx])
            if n.get('kind') == 'DeclRefExpr':
                return (n.get('referencedDecl') or {}).get('id')
            return None

        def walk(n):
            kd = n.get('kind')
            tgt = None
            if (kd == 'BinaryOperator' and n.get('opcode') == '=') or kd == 'CompoundAssignOperator' or \
                    (kd == 'UnaryOperator' and n.get('opcode') in ('++', '--')):
                tgt = n['inner'][0]
            elif kd == 'CXXOperatorCallExpr' and (self.callee_ref(n).get('referencedDecl') or {}).get('name') in ('operator=', 'operator+=', 'operator-=', 'operator*=', 'operator/='):
                tgt = n['inner'][1]
            if tgt is not None:      # phase 5: `v[i].array() = x` assigns `v[i]`
                t5 = strip_noop(tgt)
                if t5.get('kind') == 'CXXMemberCallExpr' and self.callee_ref(t5).get('name') in ('array', 'matrix') and len(t5['inner']) == 1 \
                        and self.callee_ref(t5).get('inner') and self.is_vec_elem(self.callee_ref(t5)['inner'][0]):
                    tgt = self.callee_ref(t5)['inner'][0]
            if tgt is not None and self.is_vec_elem(tgt):      # phase 2: `v[i] = x` assigns the vector `v`
                tgt = strip_noop(tgt)['inner'][1]
            if tgt is not None and self.is_dyn_elem(tgt):      # phase 3: `M(i, j) = x` assigns the functional array `M` (one leaf)
                bn = strip_noop(tgt)['inner'][1]
                if root_decl(bn) not in declared:
                    root, path = self.resolve_lvalue(bn, env)
                    bty = type_of(bn)
                    if self.spec.get('dyn_sizes'):      # phase 4: the coefficient leaf
                        path, bty = list(path) + ['m'], strip_cv(type_of(strip_noop(bn))) + DYN_COEF
                    if self.lookup(env, root, list(path)) is None and root not in env.local_roots:
                        self.read_leaf(env, root, list(path), self.tyvar(env.frame, bty))
                    found.append((root, tuple(path)))
                tgt = None
            if tgt is not None and self.spec.get('dyn_sizes') and DYNX_RE.search(type_of(tgt)) and self.dynx_view(tgt, env) is not None:
                vroot, vpath = self.dynx_view(tgt, env)[:2]      # phase 4: `M.col(i).head(n).array() *= …` assigns the coefficients of M
                if root_decl(tgt) not in declared:
                    if self.lookup(env, vroot, list(vpath)) is None and vroot not in env.local_roots:
                        self.read_leaf(env, vroot, list(vpath), self.tyvar(env.frame, self.dynx_view(tgt, env)[2]))
                    found.append((vroot, tuple(vpath)))
                tgt = None
            if kd == 'CXXMemberCallExpr' and self.callee_ref(n).get('name') in self.VEC_MUTATORS and self.callee_ref(n).get('inner') \
                    and self.is_list(type_of(self.callee_ref(n)['inner'][0])):
                tgt = self.callee_ref(n)['inner'][0]
            if tgt is not None and self.is_list_index(strip_noop(tgt)):      # `v[i] = x` on a container: the container is carried
                bn = strip_noop(tgt)['inner'][1]
                if root_decl(bn) not in declared:
                    root, path, _, _ = self.list_value(bn, env)      # (reads it: a member gets its value before the loop)
                    found.append((root, tuple(path)))
                tgt = None
            if kd == 'CXXMemberCallExpr' and self.list_method(n) in ('push_back', 'push', 'emplace_back', 'pop', 'pop_front', 'pop_back',
                                                                     'clear', 'resize'):
                bn = self.callee_ref(n)['inner'][0]
                if root_decl(bn) not in declared:
                    root, path, _, _ = self.list_value(bn, env)
                    found.append((root, tuple(path)))
            if tgt is not None and root_decl(tgt) not in declared and self.spec.get('unroll_constant_loops') and \
                    strip_noop(tgt).get('kind') == 'CXXOperatorCallExpr' and len(strip_noop(tgt).get('inner', [])) == 3 and \
                    'Matrix<' in type_of(strip_noop(tgt)['inner'][1]) and self.index_unknown(strip_noop(tgt)['inner'][2], env):
                # `v[a] = …` with an index that is only known while the enclosing (unrolled) loop is executed: every component of v
                bn = strip_noop(tgt)['inner'][1]
                root, path = self.resolve_lvalue(bn, env)
                for p_, st in self.shape_of(type_of(bn)):
                    found.append((root, tuple(path) + tuple(p_)))
                tgt = None
            if tgt is not None and root_decl(tgt) not in declared and self.is_list(type_of(tgt)):
                root, path = self.resolve_lvalue(tgt, env)      # phase 3: `v[i] = x` assigns the list `v`; a reference parameter / member that
                if self.lookup(env, root, list(path)) is None and root not in env.local_roots:      # nothing has read yet gets its value here
                    self.read_leaf(env, root, list(path), self.tyvar(env.frame, type_of(tgt)))
                if classify(type_of(tgt)) == 'agg':      # (a std::vector of Eigen vectors is ONE leaf)
                    found.append((root, tuple(path)))
                    tgt = None
            if tgt is not None and root_decl(tgt) not in declared:
                root, path = self.resolve_lvalue(tgt, env)
                if classify(type_of(tgt)) == 'agg':
                    for p, st in self.shape_of(type_of(tgt)):
                        found.append((root, tuple(path) + tuple(p)))
                else:
                    found.append((root, tuple(path)))
            if self.spec.get('whole_containers'):
                if kd == 'CXXOperatorCallExpr' and self.iter_incr(n) is not None and self.iter_incr(n)[0] not in declared:
                    found.append((self.iter_incr(n)[0], ()))      # `++it` on an iterator into a whole container: the index is carried
                if self.whole_insert(n, env.frame) is not None and root_decl(self.whole_insert(n, env.frame)) not in declared:
                    root, path, _, _ = self.whole_value(self.whole_insert(n, env.frame), env)
                    found.append((root, tuple(path)))
            if kd == 'CXXMemberCallExpr' and self.spec.get('abstract_classes') and self.abstract_call(n) is not None:
                ab, amd = self.abstract_call(n)      # a state-changing virtual call on an abstract object: its state is carried
                if not self.abstract_method_type(amd, env.frame)[0]:
                    root, path = self.abstract_lvalue(ab, env)
                    self.read_leaf(env, root, path, 'o')      # (a member gets its value before the loop)
                    found.append((root, tuple(path)))
            if kd == 'CXXMemberCallExpr' and self.callee_ref(n).get('name') in self.spec.get('oracles', {}):
                for lf in self.oracle_leaves(self.callee_ref(n).get('name'), self.callee_ref(n).get('referencedMemberDecl'),
                                             self.callee_ref(n)['inner'][0], env, preread=True):      # phase 3
                    found.append(lf)
            if kd == 'CallExpr' and (self.callee_ref(n).get('referencedDecl') or {}).get('name') == 'copy' and len(n.get('inner', [])) == 4:
                tg = self.data_base(n['inner'][3])      # phase 3: std::copy(…, …, B.data()) assigns B
                if tg is not None and self.is_tuple_elem(tg) and root_decl(strip_noop(tg)['inner'][1]) not in declared:
                    root, path = self.resolve_lvalue(strip_noop(tg)['inner'][1], env)
                    if self.lookup(env, root, list(path)) is None and root not in env.local_roots:
                        self.read_leaf(env, root, list(path), self.tyvar(env.frame, type_of(strip_noop(tg)['inner'][1])))
                    found.append((root, tuple(path)))
            if kd in ('CallExpr', 'CXXMemberCallExpr') and self.callee_ref(n).get('name') not in self.spec.get('oracles', {}):
                callee = self.callee_ref(n)
                decl = self.function_def(callee.get('referencedMemberDecl') or (callee.get('referencedDecl') or {}).get('id'))
                if decl is None and kd == 'CallExpr':
                    decl = self.function_by_signature(callee.get('referencedDecl') or {})
                if decl is not None:
                    info = self.translate_fn(decl)
                    for (root, path, ty) in info.written:
                        if root == 'this':
                            lv = self.resolve_lvalue(callee['inner'][0], env)
                        else:
                            a = n['inner'][1 + root]
                            if self.is_tuple_elem(a):      # phase 3: the callee writes `v[n]`: the list `v` is assigned
                                if root_decl(strip_noop(a)['inner'][1]) not in declared:
                                    lr, lp = self.resolve_lvalue(strip_noop(a)['inner'][1], env)
                                    if self.lookup(env, lr, list(lp)) is None and lr not in env.local_roots:
                                        self.read_leaf(env, lr, list(lp), self.tyvar(env.frame, type_of(strip_noop(a)['inner'][1])))
                                    found.append((lr, tuple(lp)))
                                continue
                            if root_decl(a) in declared:
                                continue
                            lv = self.resolve_lvalue(a, env)
                        if self.lookup(env, lv[0], list(lv[1]) + list(path)) is None and lv[0] not in env.local_roots:
                            # phase 3: a member / reference-parameter leaf the callee writes and nothing has read yet: it gets its value
                            # (a parameter of the enclosing function) before the loop
                            self.read_leaf(env, lv[0], list(lv[1]) + list(path), self.map_ty(info, ty, env.frame))
                        found.append((lv[0], tuple(lv[1]) + tuple(path)))
            for c in n.get('inner', []) or []:
                if isinstance(c, dict):
                    walk(c)
        for n in nodes:
            decls(n)
        for n in nodes:
            walk(n)
        out = []
        for f in found:
            if f not in out:
                out.append(f)
        return out

    def index_unknown(self, n, env):
        m = strip_noop(n)
        while m.get('kind') == 'ImplicitCastExpr' and m.get('inner'):
            m = strip_noop(m['inner'][-1])
        if m.get('kind') == 'DeclRefExpr' and (m.get('referencedDecl') or {}).get('kind') == 'VarDecl':
            rid = (m.get('referencedDecl') or {}).get('id')
            e = env
            while e is not None and rid not in e.vars and rid not in e.local_roots:
                e = e.outer
            if e is None:
                return True      # a variable that is declared inside the loop: no value yet
        try:
            self.const_int(n, env.copy())
            return False
        except Untranslatable:
            return True

    def exec_loop(self, cond_n, body_n, inc_n, env, k, counted=None):
        """`while (cond) body` / `for (;cond;inc) body` (cond / inc may be None); `break` and `continue` inside are supported,
        `return` is not. `counted` = decl id of the loop variable of a `for (T i = a; i < b; ++i)` whose body neither assigns
        `i` nor breaks (phase 2): if `b` is loop-invariant the auxiliary function recurses on the trip count `(b - a).toNat`
        instead of on fuel and does not test the condition (it holds exactly for that many iterations)."""
        frame = env.frame
        top = frame.top()
        if self.spec.get('unroll_constant_loops') and cond_n and self.constant_condition(cond_n, env) is not None:
            return self.exec_unrolled_cond(cond_n, body_n, inc_n, env, k)
        if self.contains(body_n, ('ReturnStmt', 'GotoStmt')):
            raise Untranslatable('return inside a loop')
        env = env.copy()
        nodes = [n for n in (cond_n, body_n, inc_n) if n]
        carried = self.assigned_leaves(nodes, env)
        carried.sort(key=lambda c: path_name(self.root_name(frame, c[0]), list(c[1])))
        if not carried:
            raise Untranslatable('loop without loop-carried variables')
        top.nloops += 1
        name = '%s.loop%d' % (top.name, top.nloops)
        L = Frame(self, name, 'loop', parent=frame)
        L.carried = set(carried)
        L.final = frame.final
        EL = Env(L, outer=env)
        inits, pats = [], []
        for (root, path) in carried:
            o = self.lookup(env, root, list(path))
            if not isinstance(o, Sc):
                if root in env.local_roots or env.outer is not None:
                    raise Untranslatable('loop-carried variable `%s` has no value before the loop' % path_name(self.root_name(frame, root), list(path)))
                raise Untranslatable('loop writes `%s` before it was read' % path_name(self.root_name(frame, root), list(path)))
            pn = L.fresh(path_name(self.root_name(frame, root), list(path)))
            self.store(EL, root, list(path), Sc(pn, o.ty))
            inits.append(o)
            pats.append((pn, o.ty))
        count_t = None
        if counted is not None:
            count_t = self.counted_trip(counted, cond_n, carried, pats, env, EL)
        L.counted = count_t is not None
        if count_t is None:
            f = frame
            while f is not None:
                if getattr(f, 'counted', False):
                    raise Untranslatable('loop on fuel nested inside a counted loop')
                f = f.parent
        pc = []
        c = self.as_prop(self.eval(cond_n, EL, pc)) if cond_n else None
        if pc:
            raise Untranslatable('call with a tuple / Option result in a loop condition')

        def recur(e):
            cur = [self.read_leaf(e, r, list(p), ty) for (r, p), (_, ty) in zip(carried, pats)]
            return ('ret', '%s @@FREE@@ %s %s' % (name, 'fuel' if count_t is None else 'cnt', ' '.join(par(x.t) for x in cur)))

        def again(e):
            if inc_n:
                return self.exec_stmt(inc_n, e, recur)
            return recur(e)

        def leave(e):
            cur = [self.read_leaf(e, r, list(p), ty) for (r, p), (_, ty) in zip(carried, pats)]
            return ('ret', 'some ' + par(tuple_term([x.t for x in cur])))
        L.on_break = leave
        L.on_continue = again
        body = self.exec_stmt(body_n, EL.copy(), again)
        # the values on exit are those AFTER the evaluation of the condition (`while (++it != end)`: the increment has happened)
        exit_t = 'some ' + par(tuple_term([self.read_leaf(EL, r_, list(p_), ty_).t for (r_, p_), (_, ty_) in zip(carried, pats)]))
        free = sorted(L.params.keys())
        for cls, tv in L.classes:
            frame.need(cls, tv)
        if L.uses_delta:
            top.uses_delta = True
        f = frame
        while f is not None:
            f.opt = True
            if count_t is None:
                f.fuel = True
            f = f.parent
        # auxiliary definition
        freestr = ' '.join(free)
        tree = ('if', unpar(c), body, ('ret', exit_t)) if (c is not None and count_t is None) else body
        lines = self.render(tree, 4)
        # a scalar type variable that occurs only in the loop's instance arguments (`float x = <size_t>` inside the body, no parameter
        # and no carried variable of that type) cannot be inferred at a call: it is passed by name
        shown = ' '.join([TY_LEAN.get(L.params[nm]['ty'], L.params[nm]['ty']) for nm in free] + [TY_LEAN[ty] for _, ty in pats])
        explicit = ''.join(' (%s := %s)' % (sym, sym) for tv, sym in (('a', 'α'), ('d', 'δ'))
                           if any(t == tv for _, t in L.classes) and sym not in shown)
        txt = '\n'.join(lines).replace(' @@FREE@@', explicit + ((' ' + freestr) if free else ''))
        sig = self.signature(L, [(nm, L.params[nm]['ty']) for nm in free], fuel=False)
        tys = [TY_LEAN[ty] for _, ty in pats]
        hdr = '/-- loop %d of `%s`: `none` = fuel exhausted; carried variables: %s -/\ndef %s%s : Nat → %s → Option (%s)' % (
            top.nloops, top.cxx, ', '.join(pn for pn, _ in pats), name, sig, ' → '.join(tys), tuple_type([ty for _, ty in pats]))
        alt0 = '  | 0, %s => none' % ', '.join('_' for _ in pats)
        alt1 = '  | fuel + 1, %s =>' % ', '.join(pn for pn, _ in pats)
        if count_t is not None:
            hdr = '/-- loop %d of `%s`, counted (recursion on the trip count %s, condition not re-tested; `none` = a partial operation failed); carried variables: %s -/\ndef %s%s : Nat → %s → Option (%s)' % (
                top.nloops, top.cxx, count_t, ', '.join(pn for pn, _ in pats), name, sig, ' → '.join(tys), tuple_type([ty for _, ty in pats]))
            alt0 = '  | 0, %s => %s' % (', '.join(pn for pn, _ in pats), exit_t)
            alt1 = '  | cnt + 1, %s =>' % ', '.join(pn for pn, _ in pats)
        if frame.final:
            top.loop_defs.append('\n'.join([hdr, alt0, alt1, txt]))
        # call
        args = [par(L.params[nm]['arg']) for nm in free]
        term = ' '.join([name + explicit] + args + ['fuel' if count_t is None else par(count_t)] + [par(x.t) for x in inits])
        r = frame.fresh('r')
        out = env.copy()
        lets = []
        n = len(carried)
        for i, ((root, path), (pn, ty)) in enumerate(zip(carried, pats)):
            nm = frame.fresh(path_name(self.root_name(frame, root), list(path)))
            lets.append((nm, tuple_proj(r, i, n)))
            self.store(out, root, list(path), Sc(nm, ty))
        tree = k(out)
        for nm, t in reversed(lets):
            tree = ('let', nm, t, tree)
        return ('bind', r, term, tree)

    # ---- range-based for (spec option `range_for`)
    def exec_range_for(self, s, env, k):
        """`for (auto p : c) body` / `for (const auto & p : c) body` over a whole container `c` that is encoded as a Lean list (a
        std::vector / deque of scalars, a std::vector of fixed-size points in the 'checked' encoding): an auxiliary function that is
        STRUCTURALLY RECURSIVE ON THE LIST (no fuel, no index, never `none`): `| [], vars => vars | p :: rest, vars => body; loop rest
        vars'`. The body must not `break`, `continue`, `return` or assign the container; `p` is bound by value."""
        frame = env.frame
        top = frame.top()
        inner = s.get('inner', []) or []
        if len(inner) != 8 or inner[0]:
            raise Untranslatable('range-based for with an init statement')
        range_decl, var_decl, body_n = inner[1], inner[6], inner[7]
        if self.contains(body_n, ('ReturnStmt', 'GotoStmt', 'BreakStmt', 'ContinueStmt')):
            raise Untranslatable('break / continue / return inside a range-based for')
        rv = [c for c in range_decl.get('inner', []) or [] if c.get('kind') == 'VarDecl']
        lv = [c for c in var_decl.get('inner', []) or [] if c.get('kind') == 'VarDecl']
        if len(rv) != 1 or len(lv) != 1 or not rv[0].get('inner'):
            raise Untranslatable('unsupported form of range-based for')
        cont = strip_noop(rv[0]['inner'][0])
        if cont.get('valueCategory') != 'lvalue' or cont.get('kind') not in ('DeclRefExpr', 'MemberExpr'):
            raise Untranslatable('range-based for over a temporary')
        env = env.copy()
        lty = self.tyvar(frame, type_of(cont))
        if not (lty in ('la', 'ld', 'li') or (len(lty) == 3 and lty[0] == 'L')):
            raise Untranslatable('range-based for over a container that is not a list of scalars / points')
        croot, cpath = self.resolve_lvalue(cont, env)
        cval = self.read_leaf(env, croot, cpath, lty)
        carried = self.assigned_leaves([body_n], env)
        carried = [c for c in carried if c[0] != lv[0]['id']]
        if (croot, tuple(cpath)) in carried:
            raise Untranslatable('range-based for whose body assigns the container')
        carried.sort(key=lambda c: path_name(self.root_name(frame, c[0]), list(c[1])))
        if not carried:
            raise Untranslatable('loop without loop-carried variables')
        top.nloops += 1
        name = '%s.loop%d' % (top.name, top.nloops)
        L = Frame(self, name, 'loop', parent=frame)
        L.carried = set(carried)
        L.final = frame.final
        L.counted = True      # (no fuel: loops on fuel may not be nested inside)
        EL = Env(L, outer=env)
        inits, pats = [], []
        for (root, path) in carried:
            o = self.lookup(env, root, list(path))
            if not isinstance(o, Sc):
                raise Untranslatable('loop-carried variable `%s` has no value before the loop' % path_name(self.root_name(frame, root), list(path)))
            pn = L.fresh(path_name(self.root_name(frame, root), list(path)))
            self.store(EL, root, list(path), Sc(pn, o.ty))
            inits.append(o)
            pats.append((pn, o.ty))
        # the loop variable, bound by value to the head of the list
        vid = lv[0]['id']
        vname = lv[0].get('name', 'x')
        top.root_names.setdefault(vid, vname)
        EL.local_roots.add(vid)
        head = L.fresh(vname + '_at')
        lets = []
        if lty[0] == 'l':
            EL.vars[vid] = Sc(head, lty[1])
        else:
            nco, ety = int(lty[1]), lty[2]
            obj = {}
            for i in range(nco):
                nm = L.fresh('%s_%d' % (vname, i))
                lets.append((nm, tuple_proj(head, i, nco)))
                obj[(i,)] = Sc(nm, ety)
            EL.vars[vid] = obj

        def recur(e):
            cur = [self.read_leaf(e, r, list(p), ty) for (r, p), (_, ty) in zip(carried, pats)]
            return ('ret', '%s @@FREE@@ rest_v %s' % (name, ' '.join(par(x.t) for x in cur)))

        def no_jump(e):
            raise Untranslatable('break / continue inside a range-based for')
        L.on_break = no_jump
        L.on_continue = no_jump
        body = self.exec_stmt(body_n, EL.copy(), recur)
        for nm, t in reversed(lets):
            body = ('let', nm, t, body)
        free = sorted(L.params.keys())
        for cls, tv in L.classes:
            frame.need(cls, tv)
        if L.uses_delta:
            top.uses_delta = True
        freestr = ' '.join(free)
        lines = self.render(body, 4)
        shown = ' '.join([TY_LEAN.get(L.params[nm]['ty'], L.params[nm]['ty']) for nm in free] + [TY_LEAN[ty] for _, ty in pats] + [TY_LEAN[lty]])
        explicit = ''.join(' (%s := %s)' % (sym, sym) for tv, sym in (('a', 'α'), ('d', 'δ'))
                           if any(t == tv for _, t in L.classes) and sym not in shown)
        txt = '\n'.join(lines).replace(' @@FREE@@', explicit + ((' ' + freestr) if free else ''))
        sig = self.signature(L, [(nm, L.params[nm]['ty']) for nm in free], fuel=False, ret_tys=[lty] + [ty for _, ty in pats])
        tys = [TY_LEAN[ty] for _, ty in pats]
        hdr = '/-- loop %d of `%s`: range-based for, structural recursion on the list `%s`; carried variables: %s -/\ndef %s%s : %s → %s → %s' % (
            top.nloops, top.cxx, path_name(self.root_name(frame, croot), cpath), ', '.join(pn for pn, _ in pats), name, sig,
            TY_LEAN[lty], ' → '.join(tys), tuple_type([ty for _, ty in pats]))
        alt0 = '  | [], %s => %s' % (', '.join(pn for pn, _ in pats), tuple_term([pn for pn, _ in pats]))
        alt1 = '  | %s :: rest_v, %s =>' % (head, ', '.join(pn for pn, _ in pats))
        if frame.final:
            top.loop_defs.append('\n'.join([hdr, alt0, alt1, txt]))
        args = [par(L.params[nm]['arg']) for nm in free]
        term = ' '.join([name + explicit] + args + [par(cval.t)] + [par(x.t) for x in inits])
        out = env.copy()
        n = len(carried)
        if n == 1:
            (root, path), (pn, ty) = carried[0], pats[0]
            nm = frame.fresh(path_name(self.root_name(frame, root), list(path)))
            self.store(out, root, list(path), Sc(nm, ty))
            return ('let', nm, term, k(out))
        r = frame.fresh('r')
        lets2 = []
        for i, ((root, path), (pn, ty)) in enumerate(zip(carried, pats)):
            nm = frame.fresh(path_name(self.root_name(frame, root), list(path)))
            lets2.append((nm, tuple_proj(r, i, n)))
            self.store(out, root, list(path), Sc(nm, ty))
        tree = k(out)
        for nm, t in reversed(lets2):
            tree = ('let', nm, t, tree)
        return ('let', r, term, tree)

    # ---- loops whose condition is decided at translation time (`for (size_t a = 0; a < DIM; ++a)`): unrolled
    def constant_condition(self, cond_n, env):
        try:
            pc = []
            cv = self.eval(cond_n, env.copy(), pc)
        except Untranslatable:
            return None
        if pc or cv is None or cv.ty != 'p' or getattr(cv, 'lit', None) not in (True, False):
            return None
        return cv.lit

    def exec_unrolled_cond(self, cond_n, body_n, inc_n, env, k):
        """the loop condition is a comparison of constants on entry (spec option `unroll_constant_loops`; needs
        `fold_constant_conditions`): the iterations are executed one after the other; `break` / `continue` jump to the code after the
        loop / to the increment. The condition must stay decidable on every pass."""
        outer = getattr(self, 'cur_unroll', None)

        def with_outer(f):
            def g(e):
                saved = getattr(self, 'cur_unroll', None)
                self.cur_unroll = outer
                try:
                    return f(e)
                finally:
                    self.cur_unroll = saved
            return g

        def after_body(e, i):
            if inc_n:
                return self.exec_stmt(inc_n, e, lambda e2: iteration(e2, i + 1))
            return iteration(e, i + 1)

        def iteration(e, i):
            if i > 16:
                raise Untranslatable('loop with a constant condition runs more than 16 times')
            c = self.constant_condition(cond_n, e)
            if c is None:
                raise Untranslatable('loop condition is a constant on entry but not on pass %d' % i)
            if not c:
                return ('note', 'loop `%s` unrolled: %d pass(es)' % (self.tu.range_text(cond_n).strip(), i), k(e))
            entry = {'frame': e.frame, 'break': with_outer(k), 'continue': with_outer(lambda e2: after_body(e2, i))}
            saved = getattr(self, 'cur_unroll', None)
            self.cur_unroll = entry
            try:
                return self.exec_stmt(body_n, e, with_outer(lambda e2: after_body(e2, i)))
            finally:
                self.cur_unroll = saved
        return with_outer(lambda e: iteration(e, 0))(env)

    # ------------------------------------------------------------------ rendering
    def render(self, tree, ind):
        pad = ' ' * ind
        tag = tree[0]
        if tag in ('ret', 'val'):
            return [pad + unpar(tree[1])]
        if tag == 'note':
            return [pad + '-- ' + tree[1]] + self.render(tree[2], ind)
        if tag == 'let':
            _, name, term, body = tree
            if isinstance(term, tuple):
                lines = [pad + 'let %s :=' % name] + self.render(term, ind + 2)
            else:
                lines = [pad + 'let %s := %s' % (name, term)]
            return lines + self.render(body, ind)
        if tag == 'bind':
            _, name, term, body = tree
            return [pad + 'match %s with' % term, pad + '| none => none', pad + '| some %s =>' % name] + self.render(body, ind + 2)
        if tag == 'if':
            _, c, t, e = tree
            return [pad + 'if %s then' % c] + self.block(t, ind + 2) + [pad + 'else'] + self.block(e, ind + 2)
        raise Untranslatable('internal: unfilled hole')

    def block(self, tree, ind):
        lines = self.render(tree, ind)
        code = [l for l in lines if not l.strip().startswith('--')]
        if len(code) > 1:
            i0 = next(i for i, l in enumerate(lines) if not l.strip().startswith('--'))
            lines[i0] = ' ' * (ind - 1) + '(' + lines[i0][ind:]
            lines[-1] = lines[-1] + ')'
        return lines

    def signature(self, frame, params, fuel, ret_tys=()):
        tys = set(ty for _, ty in params) | set(ret_tys) | set(tv for _, tv in frame.classes)
        tys |= set(ty[1] for ty in tys if len(ty) == 2 and ty[0] == 'l')
        tys |= set(ty[2] for ty in tys if len(ty) == 3 and ty[0] in ('L', 'M'))
        tys |= set(c for ty in tys if len(ty) >= 2 and ty[0] == 'T' for c in ty[1:] if c in ('a', 'd'))
        for _, ty in params:
            if ty not in TY_LEAN:
                tys |= {'a'} if 'α' in ty else set()
                tys |= {'d'} if 'δ' in ty else set()
        conv = any(cls == 'DoubleConv' for cls, _ in frame.classes)
        tvs = []
        if 'a' in tys or conv:
            tvs.append('α')
        if 'd' in tys or conv:
            tvs.append('δ')
        if any('τ' in TY_LEAN.get(ty, ty) for ty in tys):
            tvs.append('τ')
        if any('σ' in TY_LEAN.get(ty, ty) for ty in tys):      # abstract objects (spec key `abstract_classes`)
            tvs.append('σ')
        s = ''
        if tvs:
            s += ' {%s : Type}' % ' '.join(tvs)
        for tv, sym in (('a', 'α'), ('d', 'δ')):
            for cls in CLASS_ORDER:
                if (cls, tv) in frame.classes:
                    s += ' [%s %s]' % (cls, sym)
        if conv:
            s += ' [DoubleConv α δ]'
        if fuel:
            s += ' (fuel : Nat)'
        for nm, ty in params:
            s += ' (%s : %s)' % (nm, TY_LEAN.get(ty, ty))
        return s

    # ------------------------------------------------------------------ functions
    def scan_float_types(self, decl):
        found = set()

        def walk(n):
            t = n.get('type')
            if isinstance(t, dict):
                q = t.get('desugaredQualType') or t.get('qualType') or ''
                if '(' not in q:
                    c = classify(q)
                    if c in ('double', 'float'):
                        found.add(c)
                    elif c in ('agg', 'list', 'seq', 'dyn'):      # Eigen matrices / arrays / standard containers of float or double
                        for em in re.finditer(r'\b(?:Matrix|Array|vector|queue|deque)<\s*(float|double)\b', q):
                            found.add(em.group(1))
                        if vec_elem(q) is not None and self.is_struct_list(q):      # phase 3: std::vector of a struct: its members' types
                            for _, st_ in self.shape_of(vec_elem(q)):
                                if classify(st_) in ('double', 'float'):
                                    found.add(classify(st_))
            for c in n.get('inner', []) or []:
                if isinstance(c, dict):
                    walk(c)
        walk(decl)
        rt = ((decl.get('type') or {}).get('qualType') or '').split('(')[0]
        if classify(rt) in ('double', 'float'):
            found.add(classify(rt))
        if found == {'double', 'float'}:
            return {'float': 'a', 'double': 'd'}
        if found == {'float'}:
            return {'float': 'a'}
        if not found:      # phase 3: no floating type in the function itself: a member of `C<float, …>` works in `float` (its callees do)
            mq = re.search(r'<(.*)>$', self.tu.record_of(decl).get('_qual', ''))
            if mq and 'float' in [x.strip() for x in mq.group(1).split(',')] and 'double' not in [x.strip() for x in mq.group(1).split(',')]:
                return {'float': 'a'}
        return {'double': 'a'}

    def lean_name(self, decl, suffix=''):
        q = self.tu.fqual[decl['id']]
        for ns in self.spec.get('strip_ns', ['romea::core::', 'romea::']):
            if q.startswith(ns):
                q = q[len(ns):]
                break
        ops = {'<': 'lt', '>': 'gt', '<=': 'le', '>=': 'ge', '==': 'eq', '!=': 'ne', '()': 'call', '[]': 'index', '+': 'add', '-': 'sub',
               '*': 'mul', '/': 'div', '=': 'assign', '<<': 'shl', '+=': 'addAssign', '-=': 'subAssign'}
        parts = []
        for p in q.split('::'):
            if p.startswith('operator'):
                o = p[len('operator'):].strip()
                p = 'operator_' + ops.get(o, lean_ident(o))
            parts.append(lean_ident(p))
        if not suffix:      # instantiations with `float` are told apart from the `double` ones
            ta = self.tu.tmpl_args.get(decl['id'], '')
            rec = self.tu.records.get(self.tu.parent.get(decl['id']) or decl.get('parentDeclContextId')) or {}
            m = re.search(r'<(.*)>$', rec.get('_qual', ''))
            if 'float' in ta.split(',') or (m and 'float' in [x.strip() for x in m.group(1).split(',')]):
                suffix = '_f32'
        name = '.'.join(parts) + suffix
        base, i = name, 1
        while name in self.names:
            i += 1
            name = '%s_%d' % (base, i)
        self.names.add(name)
        return name

    # ------------------------------------------------------------------ phase 6 (C08): walking pointers (spec option `pointer_arrays`)
    def ptr_walk_rewrite(self, parms, body):
        """A pointer to a scalar that takes part in pointer arithmetic (`a + n`, `a += 4`, `*a++`, `a < last`) is read as the PAIR (array,
        offset): the function body is rewritten — on a copy of the AST — into index form, which the ordinary translation then handles:
        a PARAMETER `a` that walks keeps its name for the array (a list) and gets a synthetic local `long a_off = 0;`; a LOCAL pointer
        initialised from pointer arithmetic (`const T * last = a + size;`) and never assigned again becomes a `long` (its offset in the
        array of the parameter it derives from); `a[k]` is `a[a_off + k]`, `*a` is `a[a_off]`, `*a++` is `a[a_off++]`, `a += n` / `++a` act on
        `a_off`, comparisons / differences of pointers INTO THE SAME ARRAY compare / subtract offsets (offsets are unbounded `Int`s: a
        one-before-the-begin pointer such as `last - 3` with `size < 3`, formally undefined in C++, is just a negative offset). Every other
        use of such a pointer (passed on, stored, compared with a pointer into another array, assigned) makes the function untranslatable.
        Returns `body` itself when no pointer walks."""
        def is_sptr(t):
            t = strip_cv(t or '')
            if t.endswith('*const'):
                t = t[:-len('const')]
            m = PTR_ARRAY_RE.match(t)
            return bool(m) and classify(m.group(1).strip()) in ('int', 'uint', 'double', 'float')

        def ref_id(n):
            n = strip_noop(n)
            if n.get('kind') == 'ImplicitCastExpr' and n.get('castKind') == 'LValueToRValue' and n.get('inner'):
                n = strip_noop(n['inner'][0])
            return (n.get('referencedDecl') or {}).get('id') if n.get('kind') == 'DeclRefExpr' else None

        pparm = {p_['id']: p_ for p_ in parms if is_sptr(type_of(p_))}
        walk, der = set(), {}

        def scan(n):
            k = n.get('kind')
            inner = n.get('inner', []) or []
            if k == 'VarDecl' and is_sptr(type_of(n)):
                der[n['id']] = None
            if k in ('BinaryOperator', 'CompoundAssignOperator') and inner and is_sptr(type_of(inner[0])) and n.get('opcode') != '=' \
                    or k == 'UnaryOperator' and n.get('opcode') in ('++', '--') and is_sptr(type_of(inner[0])):
                for c in inner:
                    if ref_id(c) in pparm:
                        walk.add(ref_id(c))
            for c in inner:
                scan(c)
        scan(body)
        if not walk and not der:
            return body
        if not walk:
            raise Untranslatable('local pointer variable that does not derive from a walking pointer parameter')
        import copy
        body = copy.deepcopy(body)
        LONG = {'qualType': 'long'}
        off_id = {a: 'ptroff_%s' % a for a in walk}
        off_name = {a: (pparm[a].get('name') or 'p') + '_off' for a in walk}

        def off_ref(a):
            return {'kind': 'DeclRefExpr', 'type': dict(LONG), 'valueCategory': 'lvalue', '_ptr_ok': True,
                    'referencedDecl': {'id': off_id[a], 'kind': 'VarDecl', 'name': off_name[a], 'type': dict(LONG)}}

        def rval(lv):
            return {'kind': 'ImplicitCastExpr', 'castKind': 'LValueToRValue', 'type': dict(LONG), 'valueCategory': 'prvalue', 'inner': [lv]}

        def base_of(n):
            """the walking parameter a pointer-valued expression points into (None: unknown)"""
            r = ref_id(n)
            if r in walk:
                return r
            if r in der:
                return der[r]
            m = strip_noop(n)
            if m.get('kind') == 'BinaryOperator' and m.get('opcode') in ('+', '-'):
                bs = [base_of(c) for c in m.get('inner', []) if is_sptr(type_of(c)) or c.get('_was_ptr')]
                return bs[0] if len(bs) == 1 else None
            return None

        def subscript(n, a, idx):
            aref = {'kind': 'DeclRefExpr', 'type': dict(pparm[a].get('type') or {}), 'valueCategory': 'lvalue', '_ptr_ok': True,
                    'referencedDecl': {'id': a, 'kind': 'ParmVarDecl', 'name': pparm[a].get('name')}}
            return {'kind': 'ArraySubscriptExpr', 'type': n.get('type'), 'valueCategory': 'lvalue', 'range': n.get('range'),
                    'inner': [{'kind': 'ImplicitCastExpr', 'castKind': 'LValueToRValue', 'type': dict(pparm[a].get('type') or {}),
                               'valueCategory': 'prvalue', 'inner': [aref]}, idx]}

        def rw(n):
            k = n.get('kind')
            inner = n.get('inner', []) or []
            if k == 'VarDecl' and n.get('id') in der:
                init = [c for c in inner if 'Expr' in c.get('kind', '') or 'Operator' in c.get('kind', '')]
                if len(init) != 1 or base_of(init[0]) is None:
                    raise Untranslatable('local pointer `%s` that is not initialised from arithmetic on a walking pointer' % n.get('name'))
                der[n['id']] = base_of(init[0])
                n['type'] = dict(LONG)
                n['inner'] = [rw(c) for c in inner]
                return n
            if k == 'ArraySubscriptExpr' and len(inner) == 2 and ref_id(inner[0]) in walk:      # a[k] -> a[a_off + k]
                a = ref_id(inner[0])
                idx = {'kind': 'BinaryOperator', 'opcode': '+', 'type': dict(LONG), 'valueCategory': 'prvalue',
                       'inner': [rval(off_ref(a)), rw(inner[1])]}
                return subscript(n, a, idx)
            if k == 'UnaryOperator' and n.get('opcode') == '*' and inner:
                m = strip_noop(inner[0])
                if m.get('kind') == 'ImplicitCastExpr' and m.get('castKind') == 'LValueToRValue' and m.get('inner'):
                    m = strip_noop(m['inner'][0])
                if m.get('kind') == 'UnaryOperator' and m.get('opcode') in ('++', '--') and ref_id(m['inner'][0]) in walk:      # *a++ -> a[a_off++]
                    a = ref_id(m['inner'][0])
                    inc = {'kind': 'UnaryOperator', 'opcode': m['opcode'], 'isPostfix': m.get('isPostfix', False), 'type': dict(LONG),
                           'valueCategory': 'prvalue' if m.get('isPostfix') else 'lvalue', 'inner': [off_ref(a)]}
                    return subscript(n, a, inc if m.get('isPostfix') else rval(inc))
                if ref_id(inner[0]) in walk:      # *a -> a[a_off]
                    a = ref_id(inner[0])
                    return subscript(n, a, rval(off_ref(a)))
            if k == 'ImplicitCastExpr' and n.get('castKind') == 'LValueToRValue' and ref_id(n) in walk:      # the VALUE of a walking pointer: its offset
                r = rval(off_ref(ref_id(n)))
                r['_was_ptr'] = True
                return r
            if k == 'DeclRefExpr' and (n.get('referencedDecl') or {}).get('id') in der:
                if der[n['referencedDecl']['id']] is None:
                    raise Untranslatable('pointer `%s` used before its declaration was seen' % n['referencedDecl'].get('name'))
                n['type'] = dict(LONG)
                n['_ptr_ok'] = True
                n['_was_ptr'] = True
                return n
            if k in ('CompoundAssignOperator', 'UnaryOperator') and n.get('opcode') in ('+=', '-=', '++', '--') and inner and \
                    strip_noop(inner[0]).get('kind') == 'DeclRefExpr' and ref_id(inner[0]) in walk:      # a += n, ++a
                a = ref_id(inner[0])
                n['inner'] = [off_ref(a)] + [rw(c) for c in inner[1:]]
                n['type'] = dict(LONG)
                for key in ('computeLHSType', 'computeResultType'):
                    if key in n:
                        n[key] = dict(LONG)
                return n
            if k in ('BinaryOperator',) and n.get('opcode') == '=' and inner and (ref_id(inner[0]) in walk or ref_id(inner[0]) in der) \
                    and strip_noop(inner[0]).get('kind') == 'DeclRefExpr':
                raise Untranslatable('assignment to a walking pointer')
            was_ptr = is_sptr(type_of(n)) and k in ('BinaryOperator', 'ImplicitCastExpr', 'ParenExpr')
            if k == 'BinaryOperator' and n.get('opcode') in ('<', '>', '<=', '>=', '==', '!=', '-') and len(inner) == 2 \
                    and is_sptr(type_of(inner[0])) and is_sptr(type_of(inner[1])):
                b0, b1 = base_of(inner[0]), base_of(inner[1])
                if b0 is None or b0 != b1:
                    raise Untranslatable('comparison / difference of pointers that are not known to point into the same array')
            n['inner'] = [rw(c) for c in inner] if inner else n.get('inner')
            if was_ptr and n.get('inner') and any(c.get('_was_ptr') for c in n['inner']):
                n['type'] = dict(LONG)
                n['_was_ptr'] = True
            return n

        body = rw(body)

        def check(n):
            if n.get('kind') == 'DeclRefExpr' and not n.get('_ptr_ok') and ((n.get('referencedDecl') or {}).get('id') in walk
                                                                            or (n.get('referencedDecl') or {}).get('id') in der):
                raise Untranslatable('unsupported use of the walking pointer `%s`' % (n.get('referencedDecl') or {}).get('name'))
            for c in n.get('inner', []) or []:
                check(c)
        check(body)
        decls = []
        for a in sorted(walk, key=lambda x: off_name[x]):
            lit = {'kind': 'IntegerLiteral', 'value': '0', 'type': dict(LONG), 'valueCategory': 'prvalue'}
            decls.append({'kind': 'DeclStmt', 'inner': [{'kind': 'VarDecl', 'id': off_id[a], 'name': off_name[a], 'type': dict(LONG), 'init': 'c',
                                                           'inner': [lit]}]})
        body['inner'] = decls + (body.get('inner', []) or [])
        return body

    def loop_return_rewrite(self, body):
        """phase 6 (C08): `while (c) { …; if (p) return e; … } rest` is rewritten — on a copy of the AST, innermost loops first — into
        `bool ret_set_N = false; T ret_val_N = T(); while (c) { …; if (p) { ret_val_N = e; ret_set_N = true; break; } … }
        if (ret_set_N) return ret_val_N; rest` (the C++ meaning exactly: nothing of the loop runs after the `return`), which the ordinary
        translation of loops with `break` handles; only scalar return values; a `return` inside a `switch` inside the loop, or in a loop that
        is not a direct statement of a compound statement, stays untranslatable. Returns `body` itself when no loop holds a `return`."""
        LOOPS = ('WhileStmt', 'ForStmt', 'DoStmt')

        def has_ret(n, top=True):
            if n.get('kind') == 'ReturnStmt':
                return True
            if n.get('kind') == 'LambdaExpr':
                return False
            return any(has_ret(c, False) for c in n.get('inner', []) or [] if c)

        def loops_with_ret(n):
            if n.get('kind') in LOOPS and has_ret(n):
                return True
            return any(loops_with_ret(c) for c in n.get('inner', []) or [] if c)
        if not loops_with_ret(body):
            return body
        import copy
        body = copy.deepcopy(body)
        counter = [0]

        def replace_returns(n, flag, val, vtype):
            """inside ONE loop (nested loops were rewritten before: they hold no `return`)"""
            k = n.get('kind')
            if k == 'SwitchStmt' and has_ret(n):
                raise Untranslatable('return inside a switch inside a loop')
            if k == 'ReturnStmt':
                e = [c for c in n.get('inner', []) or []]
                if len(e) != 1:
                    raise Untranslatable('return without a value inside a loop')
                asg = {'kind': 'BinaryOperator', 'opcode': '=', 'type': dict(vtype), 'valueCategory': 'lvalue', 'inner': [val(), e[0]]}
                tru = {'kind': 'CXXBoolLiteralExpr', 'value': True, 'type': {'qualType': 'bool'}, 'valueCategory': 'prvalue'}
                st = {'kind': 'BinaryOperator', 'opcode': '=', 'type': {'qualType': 'bool'}, 'valueCategory': 'lvalue', 'inner': [flag(), tru]}
                return {'kind': 'CompoundStmt', 'inner': [asg, st, {'kind': 'BreakStmt'}]}
            if n.get('inner'):
                n['inner'] = [replace_returns(c, flag, val, vtype) if c else c for c in n['inner']]
            return n

        def first_ret_type(n):
            if n.get('kind') == 'ReturnStmt':
                e = n.get('inner', []) or []
                return dict(e[0].get('type') or {}) if e else None
            for c in n.get('inner', []) or []:
                t = first_ret_type(c) if c else None
                if t:
                    return t
            return None

        def rw(n):
            if not n.get('inner'):
                return n
            n['inner'] = [rw(c) if c else c for c in n['inner']]
            if n.get('kind') != 'CompoundStmt':
                if any(c and c.get('kind') in LOOPS and has_ret(c) for c in n['inner']) :
                    raise Untranslatable('return inside a loop that is not a direct statement of a block')
                return n
            out = []
            for c in n['inner']:
                if c.get('kind') in LOOPS and has_ret(c):
                    counter[0] += 1
                    vtype = first_ret_type(c)
                    if vtype is None or classify(vtype.get('desugaredQualType') or vtype.get('qualType') or '') not in ('double', 'float', 'int', 'uint', 'bool'):
                        raise Untranslatable('return of a non-scalar inside a loop')
                    fid, vid = 'retset_%d_%s' % (counter[0], c.get('id')), 'retval_%d_%s' % (counter[0], c.get('id'))
                    fname, vname = 'ret_set_%d' % counter[0], 'ret_val_%d' % counter[0]
                    BOOL = {'qualType': 'bool'}

                    def flag(fid=fid, fname=fname):
                        return {'kind': 'DeclRefExpr', 'type': dict(BOOL), 'valueCategory': 'lvalue',
                                'referencedDecl': {'id': fid, 'kind': 'VarDecl', 'name': fname, 'type': dict(BOOL)}}

                    def val(vid=vid, vname=vname, vtype=vtype):
                        return {'kind': 'DeclRefExpr', 'type': dict(vtype), 'valueCategory': 'lvalue',
                                'referencedDecl': {'id': vid, 'kind': 'VarDecl', 'name': vname, 'type': dict(vtype)}}
                    fal = {'kind': 'CXXBoolLiteralExpr', 'value': False, 'type': dict(BOOL), 'valueCategory': 'prvalue'}
                    out.append({'kind': 'DeclStmt', 'inner': [{'kind': 'VarDecl', 'id': fid, 'name': fname, 'type': dict(BOOL), 'init': 'c', 'inner': [fal]}]})
                    zero = {'kind': 'CXXScalarValueInitExpr', 'type': dict(vtype), 'valueCategory': 'prvalue'}
                    out.append({'kind': 'DeclStmt', 'inner': [{'kind': 'VarDecl', 'id': vid, 'name': vname, 'type': dict(vtype), 'init': 'c', 'inner': [zero]}]})
                    out.append(replace_returns(c, flag, val, vtype))

                    def rv(lv, t):
                        return {'kind': 'ImplicitCastExpr', 'castKind': 'LValueToRValue', 'type': dict(t), 'valueCategory': 'prvalue', 'inner': [lv]}
                    out.append({'kind': 'IfStmt', 'inner': [rv(flag(), BOOL), {'kind': 'CompoundStmt', 'inner': [{'kind': 'ReturnStmt', 'inner': [rv(val(), vtype)]}]}]})
                else:
                    out.append(c)
            n['inner'] = out
            return n
        return rw(body)

    def translate_fn(self, decl, suffix='', outputs=None, consts=None):
        fid = decl['id']
        if consts:      # phase 2: the function specialised to constant integer arguments {parameter index: value}
            key = (fid, tuple(sorted(consts.items())))
            if key in self.fn_cache:
                r = self.fn_cache[key]
                if isinstance(r, Untranslatable):
                    raise r
                return r
            if key in self.in_progress:
                raise Untranslatable('recursive function')
            self.in_progress.add(key)
            try:
                info = self._translate_fn(decl, suffix, None, consts)
                self.fn_cache[key] = info
                return info
            except Untranslatable as e:
                self.fn_cache[key] = e
                raise
            except (KeyError, IndexError, TypeError, AttributeError, ValueError) as e:
                u = Untranslatable('translator error (%s: %s)' % (type(e).__name__, e))
                self.fn_cache[key] = u
                raise u
            finally:
                self.in_progress.discard(key)
        if outputs:      # a view of the function restricted to some written members: never used as a callee
            try:
                return self._translate_fn(decl, suffix, outputs)
            except (KeyError, IndexError, TypeError, AttributeError, ValueError) as e:
                raise Untranslatable('translator error (%s: %s)' % (type(e).__name__, e))
        if fid in self.fn_cache:
            r = self.fn_cache[fid]
            if isinstance(r, Untranslatable):
                raise r
            return r
        if fid in self.in_progress:
            raise Untranslatable('recursive function')
        self.in_progress.add(fid)
        try:
            info = self._translate_fn(decl, suffix)
            self.fn_cache[fid] = info
            return info
        except Untranslatable as e:
            self.fn_cache[fid] = e
            raise
        except (KeyError, IndexError, TypeError, AttributeError, ValueError) as e:
            u = Untranslatable('translator error (%s: %s)' % (type(e).__name__, e))
            self.fn_cache[fid] = u
            raise u
        finally:
            self.in_progress.discard(fid)

    def _translate_fn(self, decl, suffix, outputs=None, consts=None):
        fid = decl['id']
        cxx = self.tu.fqual[fid]
        if consts:      # one base name per function (told apart per instantiation as usual), `_c<value>` per constant argument
            bases = self.__dict__.setdefault('spec_base', {})
            if fid not in bases:
                q = cxx
                for ns in self.spec.get('strip_ns', ['romea::core::', 'romea::']):
                    if q.startswith(ns):
                        q = q[len(ns):]
                        break
                ta = re.search(r'<(.*)>$', self.tu.record_of(decl).get('_qual', ''))
                tag = ('_' + re.sub(r'_+', '_', lean_ident(ta.group(1)))) if ta else ''
                bases[fid] = '.'.join(lean_ident(x) for x in q.split('::')) + tag + suffix
            name = bases[fid] + ''.join('_c%d' % v if v >= 0 else '_cm%d' % -v for _, v in sorted(consts.items()))
            self.names.add(name)
        else:
            name = self.lean_name(decl, suffix)
        parms = [c for c in decl.get('inner', []) or [] if c.get('kind') == 'ParmVarDecl']
        pindex = {p['id']: i for i, p in enumerate(parms)}
        body = [c for c in decl.get('inner', []) or [] if c.get('kind') == 'CompoundStmt'][0]
        if self.spec.get('pointer_arrays'):      # phase 6: a pointer that WALKS through its array = the array + an integer offset
            body = self.ptr_walk_rewrite(parms, body)
        body = self.loop_return_rewrite(body)      # phase 6: `return e;` inside a loop = set a flag + the value, `break`, return after the loop
        inits = [c for c in decl.get('inner', []) or [] if c.get('kind') == 'CXXCtorInitializer']
        prev = None
        for pass_no in (1, 2):
            frame = Frame(self, name, 'fn')
            frame.cxx = cxx
            frame.ret_ctype = (decl.get('type') or {}).get('qualType', '').split('(')[0]      # declared return type (ref_location)
            frame.out_filter = outputs
            frame.final = pass_no == 2
            frame.float_map = dict(prev.float_map) if prev else self.scan_float_types(decl)
            for i, p in enumerate(parms):
                frame.root_names[p['id']] = p.get('name') or 'arg%d' % i
                qt = (p.get('type') or {}).get('qualType', '')
                if qt.rstrip().endswith('&') and not qt.rstrip().endswith('&&') and not re.match(r'^const\b', qt.strip()):
                    frame.ref_out.add(p['id'])
            if prev:
                frame.reserved = set(prev.params)
                frame.opt, frame.fuel = prev.opt, prev.fuel
                frame.written_final = dict(prev.written)
            env = Env(frame)
            for ci, cv in (consts or {}).items():
                env.vars[parms[ci]['id']] = sc_lit(Sc(str(cv) if cv >= 0 else '(%d)' % cv, 'i'), cv)
                env.local_roots.add(parms[ci]['id'])

            def run_inits(i, e):
                if i == len(inits):
                    return self.exec_stmts(body.get('inner', []) or [], e, lambda e2: self.on_return(None, e2))
                ini = inits[i]
                if 'baseInit' in ini:
                    ce = strip_noop(ini['inner'][0])
                    bt = (ini['baseInit'].get('desugaredQualType') or ini['baseInit'].get('qualType'))
                    ctor = self.find_ctor(bt, (ce.get('ctorType') or {}).get('qualType')) if ce.get('kind') == 'CXXConstructExpr' else None
                    if ctor is None:
                        raise Untranslatable('base-class initialiser of %s without a translatable constructor' % bt)
                    pre = []
                    e = e.copy()
                    self.call_fn(ctor, ('this', []), [c for c in ce.get('inner', []) or []], e, pre)
                    return self.wrap(pre, run_inits(i + 1, e))
                if 'anyInit' not in ini:
                    ce = strip_noop(ini['inner'][0]) if ini.get('inner') else {}
                    ctor = self.find_ctor(type_of(ce), (ce.get('ctorType') or {}).get('qualType')) if ce.get('kind') == 'CXXConstructExpr' else None
                    if ctor is None:
                        raise Untranslatable('delegating constructor initialiser without a translatable target')
                    pre = []
                    e = e.copy()
                    self.call_fn(ctor, ('this', []), [c for c in ce.get('inner', []) or []], e, pre)
                    return self.wrap(pre, run_inits(i + 1, e))
                fld = ini['anyInit'].get('name')
                pre = []
                e = e.copy()
                obj = self.eval_obj(ini['inner'][0], e, pre)
                if isinstance(obj, Sc):
                    obj = self.coerce(obj, self.tyvar(frame, (ini['anyInit'].get('type') or {}).get('desugaredQualType') or (ini['anyInit'].get('type') or {}).get('qualType', '')))
                return self.wrap(pre, self.bind_obj(e, 'this', [fld], obj, lambda e2: run_inits(i + 1, e2)))
            tree = run_inits(0, env)
            prev = frame
        frame = prev
        frame.written_final = self.filter_outputs(frame, frame.written_final)
        frame.written = self.filter_outputs(frame, frame.written)
        if outputs:
            tree, used = self.dce(tree)
            for nm in list(frame.params.keys()):
                if nm not in used:
                    del frame.params[nm]
        params = sorted(frame.params.keys())
        plist = [(nm, frame.params[nm]['ty']) for nm in params]
        rets = list(frame.ret_leaves or [])
        wkeys = sorted(frame.written_final.keys(), key=lambda kk: path_name(self.root_name(frame, kk[0]), list(kk[1])))
        if set(frame.written.keys()) != set(frame.written_final.keys()):
            raise Untranslatable('internal: written set changed between passes')
        out_tys = [ty for _, ty in rets] + [frame.written_final[kk] for kk in wkeys]
        if not out_tys:
            raise Untranslatable('function has no observable result (void, nothing written)')
        rt = tuple_type(out_tys)
        if frame.opt:
            rt = 'Option (%s)' % rt if len(out_tys) > 1 else 'Option %s' % rt
        sig = self.signature(frame, plist, frame.fuel, out_tys)
        outs_doc = [('ret' + ('_' + '_'.join(key_name(x) for x in p) if p else '')) for p, _ in rets] + \
                   [path_name(self.root_name(frame, kk[0]), list(kk[1])) + "'" for kk in wkeys]
        if getattr(frame, 'ret_ref', None) and outs_doc:
            outs_doc[0] = 'ret = the LOCATION returned by reference (index into %s)' % frame.ret_ref
        if consts:
            cxx = cxx + ' with ' + ', '.join('%s = %d' % (parms[ci].get('name', 'arg%d' % ci), cv) for ci, cv in sorted(consts.items()))
        doc = '/-- `%s`%s — %s%s\n    result: %s%s -/' % (cxx, (' (restricted to the members %s; dead code removed)' % ', '.join(outputs)) if outputs else '', self.tu.where(decl), (' <%s>' % self.tu.tmpl_args[fid]) if fid in self.tu.tmpl_args else '',
                                                     ', '.join(outs_doc), (' (none = fuel exhausted)' if frame.fuel else ' (none = a partial operation failed: index outside a vector)') if frame.opt else '')
        text = '%s\ndef %s%s : %s :=\n%s' % (doc, name, sig, rt, '\n'.join(self.render(tree, 2)))
        for t in frame.loop_defs:
            self.out.append(t)
        self.out.append(text)
        info = FnInfo()
        info.name = name
        for nm in params:
            root, path = frame.params[nm]['key']
            info.params.append((nm, frame.params[nm]['ty'], root if root in ('this', 'fn') else pindex[root], tuple(path)))
        info.fuel, info.opt = frame.fuel, frame.opt
        info.ret = rets
        info.ret_scalar = frame.ret_scalar
        info.written = [('this' if kk[0] == 'this' else pindex[kk[0]], tuple(kk[1]), frame.written_final[kk]) for kk in wkeys]
        info.classes = set(frame.classes)
        info.uses_delta = frame.uses_delta or any(tv == 'd' for _, tv in frame.classes)
        info.float_map = dict(frame.float_map)
        info.cxx = cxx
        info.ret_ref = getattr(frame, 'ret_ref', None)
        info.signature = 'def %s%s : %s' % (name, sig, rt)
        return info


# ------------------------------------------------------------------------------------------------ top level
HEADER = """/-! GENERATED by tools/cxx2lean.py from the CURRENT source of /repo on every check run (stage G) — do not edit.
    Property %(id)s; translation unit: %(srcs)s.
    Each definition is the literal translation of one C++ function (clang's typed AST): parameters = the scalar leaves the
    function reads (alphabetical), result = the leaves it returns / writes. A function that could not be translated has NO
    definition here, only a comment with the reason — the bridge theorem about it then fails to compile. -/
"""


def translate(repo, scratch, spec):
    """returns (lean text, info). spec: dict(id=, sources=[repo-relative .cpp], headers=[...], extra=[C++ lines],
    functions=[dict(cxx=qualified name suffix, sig=substring of the type (optional), targs=template args (optional),
    record= / cls= class template specialisation (optional), suffix=lean name suffix (optional), outputs=[...] (optional))],
    imports=[...], opens=[...], externs={...}, and the spec-wide options listed at the end of the module docstring)"""
    pid = spec['id']
    info = {'translated': {}, 'untranslatable': {}}
    blocks = []
    imports = ['RomeaModel.Scalar'] + list(spec.get('imports', []))
    head = HEADER % {'id': pid, 'srcs': ', '.join(list(spec.get('sources', [])) + list(spec.get('headers', [])))}
    pre = '\n'.join('import ' + m for m in imports) + '\n' + head + 'set_option linter.unusedVariables false\n\nnamespace Romea.Src.%s\nopen Romea %s\n' % (pid, ' '.join(spec.get('opens', [])))
    LIST_OPTS['opaque'] = bool(spec.get('opaque_elements'))
    LIST_OPTS['encoding'] = spec.get('vector_encoding', 'checked')
    LIST_OPTS['dyn_sizes'] = bool(spec.get('dyn_sizes'))      # phase 4
    LIST_OPTS['pointer_arrays'] = bool(spec.get('pointer_arrays'))      # (C08) pointers to scalars as arrays (lists)
    if LIST_OPTS['encoding'] not in ('checked', 'plain'):
        raise ValueError("spec key `vector_encoding` must be 'checked' or 'plain'")
    if spec.get('incr_encoding', 'inline') not in ('inline', 'let'):
        raise ValueError("spec key `incr_encoding` must be 'inline' or 'let'")
    try:
        tu = TU(repo, scratch, spec)
        tr = Translator(tu, spec)
    except (Untranslatable, OSError, ValueError) as e:
        for f in spec['functions']:
            info['untranslatable'][f['cxx']] = 'translation unit: %s' % e
        body = '\n/- UNTRANSLATABLE (whole translation unit): %s -/\n' % str(e).replace('-/', '- /')
        return pre + body + '\nend Romea.Src.%s\n' % pid, info
    for f in spec['functions']:
        cxx = f['cxx']
        try:
            cands = tu.find_function(cxx, f.get('sig'), f.get('targs'), f.get('record'), f.get('cls'), f.get('nosig'))
            if not cands:
                raise Untranslatable('no definition of `%s`%s found in the translation unit' % (cxx, (' with signature containing `%s`' % f['sig']) if f.get('sig') else ''))
            if len(cands) > 1:
                raise Untranslatable('`%s` is ambiguous (%d definitions): %s' % (cxx, len(cands), '; '.join((c.get('type') or {}).get('qualType', '') for c in cands)))
            fi = tr.translate_fn(cands[0], f.get('suffix', ''), f.get('outputs'))
            info['translated'][cxx + f.get('suffix', '')] = fi.signature
        except Untranslatable as e:
            info['untranslatable'][cxx + f.get('suffix', '')] = str(e)
            tr.out.append('/- UNTRANSLATABLE `%s`: %s -/' % (cxx, str(e).replace('-/', '- /')))
    text = pre + '\n' + '\n\n'.join(tr.out) + '\n\nend Romea.Src.%s\n' % pid
    return text, info


def main():
    import importlib
    import tempfile
    here = os.path.dirname(os.path.abspath(__file__))
    sys.path.insert(0, here)
    pid = sys.argv[1]
    repo = sys.argv[2] if len(sys.argv) > 2 else '/repo'
    plugin = importlib.import_module('props.' + pid.lower())
    with tempfile.TemporaryDirectory() as d:
        text, info = translate(repo, d, plugin.BRIDGE_SPEC)
    print(text)
    print(json.dumps(info, indent=1), file=sys.stderr)


if __name__ == '__main__':
    main()
