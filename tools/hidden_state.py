#!/usr/bin/env python3
"""Hidden-state census (stage G, every property): the models are functions of the arguments and of the members of the object they
model. State that lives anywhere else — a function-local `static` or `thread_local` variable — is invisible to them: it is shared by
every object of the class (or of the process / thread) and survives the object. On every run this module lists the function-local
`static` / `thread_local` declarations in the property's anchored files (from /repo's working tree) into
`lean/RomeaModel/Generated/Statics<Cxx>.lean`; the hand-maintained `lean/RomeaProofs/Hidden/<Cxx>.lean` pins the list
(`hidden_state_as_recorded`, by `rfl`), so a new / changed / removed one breaks a proof obligation of stage A. The verdict logic of
check.py then applies: the probe searches for a failing input, and the violation is reported `no-failing-input-found` when it finds
none (a harmless new `static const` table does that too — a broken obligation is not by itself a violation).

The census is a brace-context scan of the source text (comments and literals stripped), not a parse: inside a function body (any
depth), a statement starting with `static` / `thread_local` (after optional `const`/`constexpr`/`inline` keywords in any order).
Declarations at namespace or class scope (globals, static members, static member functions) are not listed: they are visible in the
translation (translated constants) or not state at all. Only the Python standard library is used.

Signature census (same files, same pin): the translator names the parameters of a translated function after the scalar leaves the
function READS and orders them — and the components of its result, the leaves it WRITES — alphabetically; the bridge theorems apply
the translated functions to the model's fields. A change that makes a function read (or write) a DIFFERENT member of the same type
keeps the Lean type of the definition, so a bridge stated with positional arguments can keep checking although the code now uses
another member. `signatures` lists, per definition of `Generated/Src<Cxx>.lean` (as regenerated in this run), its explicit parameter
names, the carried variables of a loop function and the names of its result components; the pin file fixes that list by `rfl` too.

usage (coordinator): hidden_state.py --write-pins     regenerates Generated/Statics*.lean AND the pin files from /repo (baseline)"""
import json
import os
import re
import sys

V = os.path.dirname(os.path.dirname(os.path.abspath(__file__)))


def _strip(src):
    out, i, n = [], 0, len(src)
    while i < n:
        c = src[i]
        if src.startswith('//', i):
            j = src.find('\n', i)
            i = n if j < 0 else j
        elif src.startswith('/*', i):
            j = src.find('*/', i + 2)
            out.append(' ')
            i = n if j < 0 else j + 2
        elif c == '"' or c == "'":
            j = i + 1
            while j < n and src[j] != c:
                j += 2 if src[j] == '\\' else 1
            out.append('0')
            i = j + 1
        elif c == '#':          # preprocessor line (with continuations)
            j = i
            while True:
                k = src.find('\n', j)
                if k < 0:
                    k = n
                if k > 0 and src[k - 1] == '\\':
                    j = k + 1
                    continue
                break
            i = k
        else:
            out.append(c)
            i += 1
    return ''.join(out)


def _untemplate(head):
    """drops leading `template<...>` clauses (balanced angle brackets)"""
    h = head.lstrip()
    while h.startswith('template'):
        j = h.find('<')
        if j < 0:
            break
        depth, k = 0, j
        while k < len(h):
            depth += {'<': 1, '>': -1}.get(h[k], 0)
            k += 1
            if depth == 0:
                break
        h = h[k:].lstrip()
    return h


_KEY = re.compile(r'^(?:(?:const|constexpr|inline|mutable)\s+)*(static|thread_local)\b(?!_)')


def census_text(src):
    """-> list of (function name, declaration text)"""
    s = _strip(src)
    found = []
    stack = []          # (kind, name): kind in ns | type | func | block | other
    stmt_start = 0
    paren = 0
    i, n = 0, len(s)

    def in_func():
        return any(k == 'func' for k, _ in stack)

    def func_name():
        for k, nm in reversed(stack):
            if k == 'func':
                return nm
        return '?'
    while i < n:
        c = s[i]
        if c == '(':
            paren += 1
        elif c == ')':
            paren = max(0, paren - 1)
        elif c == '{' and paren == 0:
            head = ' '.join(s[stmt_start:i].split())
            if in_func():
                # a braced initialiser of a local (`static T x{...}` / `= {...}`) belongs to its statement
                if _KEY.match(head) or head.endswith('=') or re.search(r'[\w>\]]$', head) and not re.search(r'\b(else|do|try)$', head) and '(' not in head and head:
                    depth, j = 1, i + 1
                    while j < n and depth:
                        depth += {'{': 1, '}': -1}.get(s[j], 0)
                        j += 1
                    i = j
                    continue
                kind, name = 'block', ''
            elif re.search(r'\bnamespace\b', head) or re.search(r'\bextern\b', head) and '(' not in head:
                kind, name = 'ns', ''
            elif re.match(r'^(?:template\s*<[^{}]*>\s*)*(?:typedef\s+)?(?:class|struct|union|enum)\b', _untemplate(head)):
                kind, name = 'type', ''
            elif '(' in head:
                m = re.search(r'([~\w:<>,\s]*?)([~\w]+)\s*\(', head.split(' : ')[0])
                mm = re.findall(r'([~\w]+(?:<[^<>()]*>)?(?:::[~\w]+)*)\s*\(', head)
                kind, name = 'func', (mm[0] if mm else '?')
            else:
                kind, name = 'other', ''
            stack.append((kind, name))
            stmt_start = i + 1
        elif c == '}' and paren == 0:
            if stack:
                stack.pop()
            stmt_start = i + 1
        elif c == ';' and paren == 0:
            stmt = ' '.join(s[stmt_start:i].split())
            if in_func() and _KEY.match(stmt) and not stmt.startswith(('static_assert', 'static_cast')):
                found.append((func_name(), stmt[:200]))
            stmt_start = i + 1
        i += 1
    return found


def anchored_files(pid):
    for l in open(os.path.join(V, 'properties.jsonl')):
        p = json.loads(l)
        if p['id'] == pid:
            return [f for f in p['anchors']['files'] if f.endswith(('.cpp', '.hpp', '.h'))]
    return []


def census(repo, pid):
    out = []
    for f in anchored_files(pid):
        path = os.path.join(repo, f)
        if not os.path.exists(path):
            out.append('%s: <file missing>' % f)
            continue
        for fn, decl in census_text(open(path, errors='replace').read()):
            out.append('%s: %s: %s' % (f, fn, decl))
    return sorted(out)


def signatures(lean, pid):
    """-> ['<def name> (<explicit parameter names>) carried: <..> result: <..>'] of Generated/Src<pid>.lean ([] when there is none)"""
    path = os.path.join(lean, 'RomeaModel', 'Generated', 'Src%s.lean' % pid)
    if not os.path.exists(path):
        return []
    txt = open(path, errors='replace').read()
    out = []
    for m in re.finditer(r'(?:/--((?:(?!-/).)*)-/\s*)?^(?:noncomputable\s+|partial\s+)*def\s+(\S+)([^\n]*)$', txt, re.M | re.S):
        doc, name, head = m.group(1) or '', m.group(2), m.group(3)
        params = []
        for b in re.finditer(r'\(([^():]+?)\s*:', head):
            params += b.group(1).split()
        res = re.search(r'result:\s*([^\n]*?)\s*(?:-/|$)', doc, re.M)
        car = re.search(r'carried variables:\s*([^\n]*?)\s*(?:-/|$)', doc, re.M)
        out.append('%s (%s)%s%s' % (name, ' '.join(params), ' carried: ' + car.group(1).strip() if car else '',
                                    ' result: ' + res.group(1).strip() if res else ''))
    return out


def _lean_str(x):
    return '"' + x.replace('\\', '\\\\').replace('"', '\\"') + '"'


def _list_lit(items, indent):
    if not items:
        return '[]'
    return '[\n' + ',\n'.join(indent + _lean_str(x) for x in items) + ']'


def generated_text(pid, items, sigs=()):
    return ('/-! GENERATED by tools/hidden_state.py from the CURRENT source of /repo on every check run (stage G) — do not edit.\n'
            '    Function-local `static` / `thread_local` declarations in the anchored files of %s (state outside the objects the model\n'
            '    describes); pinned by `RomeaProofs/Hidden/%s.lean`. -/\n'
            'namespace Romea.Generated.%s\n\n'
            'def hiddenState : List String := %s\n\n'
            '/-- per definition of Generated/Src%s.lean: explicit parameters, loop-carried variables, result components (by name) -/\n'
            'def signatures : List String := %s\n\n'
            'end Romea.Generated.%s\n' % (pid, pid, pid, _list_lit(items, '  '), pid, _list_lit(list(sigs), '  '), pid))


def pin_text(pid, items, sigs=()):
    return ('import RomeaModel.Generated.Statics%s\n'
            '/-!\n# Hidden-state pin for %s\n\n'
            'The model of %s is a function of call arguments and of the members of the objects it describes. `Generated/Statics%s.lean` is\n'
            'regenerated from /repo on every check run and lists the function-local `static` / `thread_local` declarations of the anchored\n'
            'files; this theorem pins that list to what was reviewed when the model was written (each entry below is either a constant\n'
            'table or state the model accounts for). A new one — a cache shared by all objects of a class, a memo that survives its\n'
            'object, a shared workspace — breaks this obligation even where no sampled input shows a difference. Hand-maintained:\n'
            'after reviewing an intended change of the list, regenerate with `python3 tools/hidden_state.py --write-pins`.\n-/\n'
            'namespace Romea.Hidden.%s\n\n'
            'theorem hidden_state_as_recorded : Romea.Generated.%s.hiddenState = %s := by rfl\n\n'
            '/-- The names (not only the types) of what every translated function reads, carries through its loops and returns are those\n'
            '    the bridge theorems were written against: a function that now reads or writes ANOTHER member of the same type keeps its Lean\n'
            '    type, and a positional application in a bridge would keep checking. -/\n'
            'theorem signatures_as_recorded : Romea.Generated.%s.signatures = %s := by rfl\n\n'
            'end Romea.Hidden.%s\n' % (pid, pid, pid, pid, pid, pid, _list_lit(items, '    '), pid, _list_lit(list(sigs), '    '), pid))


def regen(ctx, pid):
    """stage-G hook (called by check.py for every property): rewrites the generated census only when it changes"""
    items = census(ctx['repo'], pid)
    path = os.path.join(ctx['lean'], 'RomeaModel', 'Generated', 'Statics%s.lean' % pid)
    sigs = signatures(ctx['lean'], pid)
    text = generated_text(pid, items, sigs)
    old = open(path).read() if os.path.exists(path) else None
    if old != text:
        with open(path, 'w') as f:
            f.write(text)
    return {'hidden_state': {'entries': len(items), 'signatures': len(sigs), 'rewritten': old != text}}


def main():
    if '--write-pins' in sys.argv:
        lean = os.path.join(V, 'lean')
        os.makedirs(os.path.join(lean, 'RomeaProofs', 'Hidden'), exist_ok=True)
        for l in open(os.path.join(V, 'properties.jsonl')):
            pid = json.loads(l)['id']
            items = census('/repo', pid)
            sigs = signatures(lean, pid)
            open(os.path.join(lean, 'RomeaModel', 'Generated', 'Statics%s.lean' % pid), 'w').write(generated_text(pid, items, sigs))
            open(os.path.join(lean, 'RomeaProofs', 'Hidden', '%s.lean' % pid), 'w').write(pin_text(pid, items, sigs))
            print(pid, len(items), len(sigs))
            for x in items:
                print('   ', x[:150])
    else:
        for pid in sys.argv[1:]:
            for x in census('/repo', pid):
                print(x)


if __name__ == '__main__':
    main()
