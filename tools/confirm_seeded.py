#!/usr/bin/env python3
"""Confirms a seeded change produced by an independent sub-agent and files it under /verif/seeded/<name>/.

usage: confirm_seeded.py <property id> <name> <dir with patch.diff, demo.cpp|demo.sh, notes.txt> [--tier quick|thorough]

Steps (all in a scratch worktree of /repo, removed afterwards; /repo itself is never touched):
 1. the patch applies to /repo's HEAD and the repository's own test suite still passes with it
 2. the demonstration passes on the unmodified tree and fails with the change
 3. the registered check of the property is run against the modified tree (VERIF_REPO) and its verdict recorded
"""
import json
import os
import shutil
import subprocess
import sys
import time

VERIF = os.path.dirname(os.path.dirname(os.path.abspath(__file__)))


def sh(cmd, **kw):
    return subprocess.run(cmd, shell=True, stdout=subprocess.PIPE, stderr=subprocess.STDOUT, text=True, **kw)


def main():
    pid, name, src = sys.argv[1], sys.argv[2], sys.argv[3]
    tier = sys.argv[5] if len(sys.argv) > 5 and sys.argv[4] == '--tier' else 'quick'
    wt = '/tmp/seedwt_%s' % name
    sh('git -C /repo worktree remove --force %s' % wt)
    r = sh('git -C /repo worktree add --detach %s HEAD' % wt)
    meta = {'property': pid, 'name': name, 'repo_head': sh('git -C /repo rev-parse --short HEAD').stdout.strip(),
            'confirmed_at': time.strftime('%Y-%m-%d %H:%M:%S'), 'steps': {}}
    try:
        demo = 'demo.sh' if os.path.exists(os.path.join(src, 'demo.sh')) else 'demo.cpp'
        notes = open(os.path.join(src, 'notes.txt')).read() if os.path.exists(os.path.join(src, 'notes.txt')) else ''
        # the demo's compile line: taken from notes if present, else generic (all library sources)
        def run_demo(label):
            if demo == 'demo.sh':
                r_ = sh('bash %s %s' % (os.path.join(src, 'demo.sh'), wt), timeout=1800)
            else:
                srcs = ' '.join(os.path.join(dp, f) for dp, _, fs in os.walk(os.path.join(wt, 'src')) for f in fs if f.endswith('.cpp'))
                exe = '/tmp/seed_demo_%s' % name
                flags = '-fsanitize=thread -O1 -g' if 'fsanitize=thread' in notes and pid == 'C19' else '-O2'
                cxx = 'clang++-14' if 'fsanitize=thread' in flags else 'g++'
                c = sh('%s -std=c++17 %s -w -I%s/include -I/usr/include/eigen3 %s %s -o %s -lpthread' % (cxx, flags, wt, os.path.join(src, 'demo.cpp'), srcs, exe), timeout=1800)
                if c.returncode != 0:
                    return {'rc': 'compile-error', 'out': c.stdout[-1500:]}
                r_ = sh('cd %s && %s' % (wt, exe), timeout=1800)
                os.remove(exe)
            return {'rc': r_.returncode, 'out': r_.stdout[-800:]}
        meta['steps']['demo_original'] = run_demo('original')
        a = sh('git -C %s apply %s' % (wt, os.path.join(src, 'patch.diff')))
        meta['steps']['patch_applies'] = a.returncode == 0
        if a.returncode != 0:
            meta['steps']['patch_error'] = a.stdout[-500:]
        else:
            t = sh('VERIF_REPO=%s bash %s/tools/baseline_off.sh' % (wt, VERIF), timeout=3600)
            meta['steps']['tests_with_change'] = '100% tests passed' in t.stdout
            meta['steps']['tests_tail'] = t.stdout[-300:]
            meta['steps']['demo_changed'] = run_demo('changed')
            # the check runs from a PRIVATE copy of /verif (own lean project, generated files and evidence), so several
            # confirmations can run side by side and nothing in /verif is rewritten from a modified tree
            priv = '/tmp/seedvf_%s' % name
            sh('rm -rf %s && rsync -a --exclude .git --exclude replays %s/ %s/' % (priv, VERIF, priv))
            c = sh('cd %s && VERIF_REPO=%s python3 tools/check.py %s --tier %s' % (priv, wt, pid, tier), timeout=7200)
            sh('rm -rf %s' % priv)
            lines = [l for l in c.stdout.split('\n') if l.startswith('[%s]' % pid) or 'VIOLATION' in l or 'failing input' in l or 'broken obligation' in l]
            meta['steps']['check'] = {'rc': c.returncode, 'tier': tier, 'violation_line': next((l for l in c.stdout.split('\n') if l.startswith('VIOLATION')), None),
                                      'log': [l[:300] for l in lines][:14]}
        ok = (meta['steps'].get('patch_applies') and meta['steps'].get('tests_with_change')
              and meta['steps']['demo_original'].get('rc') == 0 and meta['steps'].get('demo_changed', {}).get('rc') not in (0, 'compile-error'))
        meta['confirmed'] = bool(ok)
        meta['detected'] = bool(meta['steps'].get('check', {}).get('violation_line'))
    finally:
        sh('git -C /repo worktree remove --force %s' % wt)
        sh('rm -rf /tmp/seedvf_%s' % name)
    out = os.path.join(VERIF, 'seeded', name)
    os.makedirs(out, exist_ok=True)
    for f in ('patch.diff', 'demo.cpp', 'demo.sh', 'notes.txt'):
        if os.path.exists(os.path.join(src, f)):
            shutil.copy(os.path.join(src, f), os.path.join(out, f))
    old = os.path.join(out, 'meta.json')
    if os.path.exists(old):
        try:
            meta['summary'] = json.load(open(old)).get('summary') or ''
        except Exception:
            pass
    json.dump(meta, open(os.path.join(out, 'meta.json'), 'w'), indent=1)
    print(json.dumps({k: meta[k] for k in ('property', 'name', 'confirmed', 'detected')}))
    print(json.dumps(meta['steps'], indent=1)[:2500])


if __name__ == '__main__':
    main()
