#!/usr/bin/env python3
"""Entry point of every registered check:  python3 tools/check.py Cxx [--tier quick|thorough] [--replay f]

Stages (DESIGN.md section 3):
  G  regenerate model data from /repo's source (plugin hook)
  A  lake build of the model, the driver and the property's proof modules; forbidden-token scan;
     `#print axioms` audit of every property theorem (thorough: leanchecker as well)
  H  build the C++ harness from /repo's current working tree (scratch dir, removed afterwards)
  B  correspondence: run the model driver and the implementation on the same ops, diff
  C  property probe on the implementation = failing-input search
Verdict: exit 0 if A, B, C pass (KNOWN-FINDING lines allowed); otherwise exit 1 with a
`VIOLATION property=<id> replay=<path>` line (suffix `no-failing-input-found` when only a proof
obligation or the correspondence broke and the search found no concrete failing input).
"""
import argparse
import concurrent.futures as cf
import fcntl
import importlib
import json
import os
import re
import shutil
import subprocess
import sys
import tempfile
import time

HERE = os.path.dirname(os.path.abspath(__file__))
VERIF = os.path.dirname(HERE)
sys.path.insert(0, HERE)
import vlib  # noqa: E402

REPO = os.environ.get('VERIF_REPO', '/repo')
LEAN = os.environ.get('VERIF_LEAN', os.path.join(VERIF, 'lean'))
GUARD = 'ROMEA_CORE_COMMON_VERIF'
ALLOWED_AXIOMS = {'propext', 'Classical.choice', 'Quot.sound'}
FORBIDDEN = re.compile(r'\bsorry\b|\badmit\b|^\s*axiom\s|native_decide|bv_decide|implemented_by|\bunsafe\s|maxHeartbeats\s+0\b', re.M)
BASE_TRUSTED = [
    'Lean 4.33.0 kernel; Mathlib v4.33.0 as compiled on this image',
    'axioms allowed per theorem: propext, Classical.choice, Quot.sound (audited by #print axioms on every run)',
    'hand-written Lean model tied to the C++ by this run\'s differential correspondence check (a seeded test, not a proof)',
    'g++ 12 -O3 -DNDEBUG build of the anchored sources from the working tree',
]


def log(*a):
    print(*a, flush=True)


# ----------------------------------------------------------------------------- stage A
def strip_comments(src):
    out = []
    i, n, depth = 0, len(src), 0
    while i < n:
        if src.startswith('/-', i):
            depth += 1
            i += 2
        elif depth and src.startswith('-/', i):
            depth -= 1
            i += 2
        elif depth:
            if src[i] == '\n':
                out.append('\n')
            i += 1
        elif src.startswith('--', i):
            while i < n and src[i] != '\n':
                i += 1
        else:
            out.append(src[i])
            i += 1
    return ''.join(out)


def lean_files():
    for root, dirs, files in os.walk(LEAN):
        dirs[:] = [d for d in dirs if d != '.lake']
        for f in files:
            if f.endswith('.lean'):
                yield os.path.join(root, f)


def import_closure(mods):
    """local modules (RomeaModel.*, RomeaProofs.*, Drivers.*) reachable from `mods` through `import` lines"""
    seen, stack = set(), list(mods)
    while stack:
        m = stack.pop()
        if m in seen:
            continue
        f = os.path.join(LEAN, m.replace('.', '/') + '.lean')
        if not os.path.exists(f):
            continue
        seen.add(m)
        for line in open(f):
            mm = re.match(r'\s*(?:public\s+)?import\s+((?:RomeaModel|RomeaProofs|Drivers)[\w.]*)', line)
            if mm:
                stack.append(mm.group(1))
    return seen


def forbidden_scan(mods=None):
    """forbidden tokens in every Lean file the property's proofs and driver depend on"""
    hits = []
    files = [os.path.join(LEAN, m.replace('.', '/') + '.lean') for m in sorted(import_closure(mods))] if mods else list(lean_files())
    for p in files:
        body = strip_comments(open(p).read())
        for m in FORBIDDEN.finditer(body):
            line = body.count('\n', 0, m.start()) + 1
            hits.append('%s:%d: %s' % (os.path.relpath(p, LEAN), line, m.group(0).strip()))
    return hits


def module_path(mod):
    return os.path.join(LEAN, mod.replace('.', '/') + '.lean')


def theorems_of(mod):
    """names of all `theorem`s of a property module, qualified by the enclosing namespaces"""
    src = strip_comments(open(module_path(mod)).read())
    ns, names = [], []
    for line in src.split('\n'):
        m = re.match(r'\s*namespace\s+(\S+)', line)
        if m:
            ns.append(m.group(1))
            continue
        m = re.match(r'\s*end\s+(\S+)\s*$', line)
        if m and ns and ns[-1] == m.group(1):
            ns.pop()
            continue
        # `private theorem`s are helper lemmas: audited transitively through the property theorems using them
        m = re.match(r'\s*(?:@\[[^\]]*\]\s*)?(?:protected\s+)?theorem\s+([^\s:({\[]+)', line)
        if m:
            names.append('.'.join(ns + [m.group(1)]))
    return names


def theorem_at(mod_file, lineno):
    """the theorem whose text contains line `lineno` of a lean file (for error attribution)"""
    try:
        lines = open(mod_file).read().split('\n')
    except OSError:
        return None
    for i in range(min(lineno, len(lines)) - 1, -1, -1):
        m = re.match(r'\s*(?:@\[[^\]]*\]\s*)?(?:private\s+|protected\s+)?(?:theorem|lemma|def|example|instance)\s+([^\s:({\[]+)?', lines[i])
        if m:
            return m.group(1) or 'example@%d' % (i + 1)
    return None


def lake(args, timeout=3600):
    return subprocess.run(['lake'] + args, cwd=LEAN, stdout=subprocess.PIPE, stderr=subprocess.STDOUT,
                          text=True, timeout=timeout)


def stage_A(plugin, tier, scratch):
    """caller holds the Lean build lock (regeneration and build must be one critical section)"""
    res = {'ok': True, 'build_ok': True, 'driver_ok': True, 'obligations': [], 'failed': [], 'axioms': {},
           'errors': [], 'forbidden': [], 'leanchecker': None}
    mods = list(plugin.PROOF_MODULES)
    driver = getattr(plugin, 'DRIVER', None)
    if True:
        t0 = time.time()
        # model + driver first (so that a broken proof does not hide a working driver)
        if driver:
            r = lake(['build', driver])
            if r.returncode != 0:
                res['driver_ok'] = False
                res['ok'] = False
                res['errors'] += [l for l in r.stdout.split('\n') if 'error' in l][:20]
        r = lake(['build'] + mods)
        res['build_s'] = round(time.time() - t0, 1)
        for m in mods:
            try:
                res['obligations'] += theorems_of(m)
            except OSError:
                res['errors'].append('missing module ' + m)
        if r.returncode != 0:
            res['ok'] = False
            res['build_ok'] = False
            bad = set()
            for l in r.stdout.split('\n'):
                m = re.match(r'error: (\S+?\.lean):(\d+):(\d+): (.*)', l)
                if m:
                    res['errors'].append(l[:300])
                    th = theorem_at(os.path.join(LEAN, m.group(1)), int(m.group(2)))
                    bad.add('%s:%s' % (m.group(1), th))
            res['failed'] = sorted(bad) or ['lake build failed (no located error)']
            if not res['errors']:
                res['errors'] = r.stdout.split('\n')[-15:]
        res['forbidden'] = forbidden_scan(mods + (['Drivers.' + driver.split('_')[1].upper()] if driver else []))
        res['scanned_modules'] = len(import_closure(mods))
        if res['forbidden']:
            res['ok'] = False
        if res['build_ok'] and res['obligations']:
            f = os.path.join(scratch, 'Axioms.lean')
            with open(f, 'w') as fh:
                for m in mods:
                    fh.write('import %s\n' % m)
                for t in res['obligations']:
                    fh.write('#print axioms %s\n' % t)
            r = lake(['env', 'lean', f])
            out = r.stdout.replace('\n ', ' ')
            for t in res['obligations']:
                m = re.search(r"'%s' depends on axioms: \[([^\]]*)\]" % re.escape(t), out)
                if m:
                    ax = [a.strip() for a in m.group(1).split(',') if a.strip()]
                elif re.search(r"'%s' does not depend on any axioms" % re.escape(t), out):
                    ax = []
                else:
                    ax = ['<not-reported>']
                res['axioms'][t] = ax
                if not set(ax) <= ALLOWED_AXIOMS:
                    res['ok'] = False
                    res['failed'].append('%s: axioms %s' % (t, ax))
        if tier == 'thorough' and res['build_ok']:
            okc = True
            for m in mods:
                r = lake(['env', 'leanchecker', m], timeout=1800)
                okc = okc and r.returncode == 0
            res['leanchecker'] = okc
            if not okc:
                res['ok'] = False
                res['failed'].append('leanchecker rejected a property module')
    return res


# ----------------------------------------------------------------------------- stage H
def build_harness(plugin, scratch, sanitize=False):
    """compile harness + anchored sources from REPO's working tree"""
    out = os.path.join(scratch, 'harness_san' if sanitize else 'harness')
    objdir = os.path.join(scratch, 'obj_san' if sanitize else 'obj')
    os.makedirs(objdir, exist_ok=True)
    if sanitize:
        # asserts stay compiled out as in the baseline build: this pass looks for memory errors and undefined behaviour only
        flags = ['-O1', '-g', '-fsanitize=address,undefined', '-fno-sanitize-recover=all', '-DNDEBUG']
    else:
        flags = ['-O3', '-DNDEBUG']
    flags += ['-std=c++17', '-D' + GUARD, '-I' + os.path.join(REPO, 'include'), '-I/usr/include/eigen3',
              '-I' + os.path.join(VERIF, 'harness'), '-w'] + list(getattr(plugin, 'EXTRA_FLAGS', []))
    srcs = [os.path.join(VERIF, 'harness', plugin.HARNESS)] + [os.path.join(REPO, s) for s in plugin.SOURCES]

    def cc(i_src):
        i, src = i_src
        obj = os.path.join(objdir, '%d.o' % i)
        r = subprocess.run(['g++'] + flags + ['-c', src, '-o', obj], stdout=subprocess.PIPE, stderr=subprocess.STDOUT, text=True)
        return obj, r.returncode, r.stdout

    with cf.ThreadPoolExecutor(max_workers=16) as ex:
        results = list(ex.map(cc, enumerate(srcs)))
    errs = [o for _, rc, o in results if rc != 0]
    if errs:
        return None, '\n'.join(errs)[-4000:]
    link = ['g++'] + (['-fsanitize=address,undefined'] if sanitize else []) + [o for o, _, _ in results] + ['-o', out, '-lpthread'] + list(getattr(plugin, 'LINK_FLAGS', []))
    r = subprocess.run(link, stdout=subprocess.PIPE, stderr=subprocess.STDOUT, text=True)
    if r.returncode != 0:
        return None, r.stdout[-4000:]
    return out, ''


# ----------------------------------------------------------------------------- running streams
def run_stream(exe, cases, hang_secs=20, env_extra=None):
    """Feed the cases to `exe`; returns one list of output lines per case (same length as its ops).
    If the process dies inside a case, the op it died on gets `abort`/`hang` (printed by the harness'
    signal handler, or synthesised), the rest of that case `skipped`, and the process is restarted
    on the remaining cases."""
    outs = [None] * len(cases)
    start = 0
    env = dict(os.environ, VP_HANG_SECS=str(hang_secs))
    env.update(env_extra or {})
    while start < len(cases):
        text = ''.join('#case %d\n%s\n' % (i, '\n'.join(cases[i]['lines'])) for i in range(start, len(cases)))
        budget = 120 + hang_secs * 3 + 0.02 * text.count('\n')
        try:
            p = subprocess.run([exe], input=text, stdout=subprocess.PIPE, stderr=subprocess.DEVNULL, text=True,
                               env=env, timeout=budget)
            rc, so = p.returncode, p.stdout
        except subprocess.TimeoutExpired as e:
            rc, so = -9, (e.stdout.decode() if isinstance(e.stdout, bytes) else (e.stdout or ''))
        lines = so.split('\n')
        if lines and lines[-1] == '':
            lines.pop()
        idx, ci, cur = 0, start - 1, None
        for l in lines:
            if l == '#':
                ci += 1
                cur = []
                outs[ci] = cur
            elif cur is not None:
                cur.append(l)
        if rc == 0 and ci == len(cases) - 1 and all(len(outs[i]) == len(cases[i]['lines']) for i in range(start, len(cases))):
            break
        # died: find the case that is incomplete
        bad = None
        for i in range(start, len(cases)):
            if outs[i] is None or len(outs[i]) < len(cases[i]['lines']) or (outs[i] and outs[i][-1] in ('abort', 'hang') and i == ci):
                bad = i
                break
        if bad is None:
            bad = max(ci, start)
        o = outs[bad] or []
        if not (o and o[-1] in ('abort', 'hang')):
            o.append('hang' if rc == -9 else 'abort')
        while len(o) < len(cases[bad]['lines']):
            o.append('skipped')
        outs[bad] = o[:len(cases[bad]['lines'])]
        for i in range(bad + 1, len(cases)):
            outs[i] = None
        start = bad + 1
    for i in range(len(cases)):
        if outs[i] is None:
            outs[i] = ['skipped'] * len(cases[i]['lines'])
    return outs


def run_parallel(exe, cases, jobs, hang_secs=20, env_extra=None):
    if not cases:
        return []
    jobs = max(1, min(jobs, len(cases) // 4 or 1))
    # block-cyclic distribution: blocks of BLOCK CONSECUTIVE cases are dealt to the processes in turn, so that cases the generator
    # placed next to each other (an object built right after a related one: state shared between objects of a process, seeded
    # change c13e) are run next to each other by ONE process, while heavy cases appended last still spread over all processes
    BLOCK = 8
    owner = [(i // BLOCK) % jobs for i in range(len(cases))]
    index = [[i for i in range(len(cases)) if owner[i] == j] for j in range(jobs)]
    chunks = [[cases[i] for i in idx] for idx in index]
    with cf.ThreadPoolExecutor(max_workers=jobs) as ex:
        parts = list(ex.map(lambda c: run_stream(exe, c, hang_secs, env_extra), chunks))
    outs = [None] * len(cases)
    for idx, part in zip(index, parts):
        for i, o in zip(idx, part):
            outs[i] = o
    return outs



# ----------------------------------------------------------------------------- sanitizer pass (thorough tier)
def sanitizer_pass(plugin, scratch, cases, impl, jobs, hang):
    """Thorough tier: the same cases are replayed on an ASan+UBSan build (-O1, asserts compiled out as in the
    baseline) of the harness and the anchored sources. An op that aborts there but produced data in the plain
    build is a memory error / undefined behaviour inside the property's domain: reported as a failing input of
    kind `sanitizer` (testing, like the rest of stage C). Values are NOT compared (-O1 vs -O3 may differ in ulps)."""
    info = {'built': False, 'ops': 0, 'aborts': 0}
    if getattr(plugin, 'NO_SANITIZE', False) or not getattr(plugin, 'HARNESS', None):
        info['skipped'] = 'plugin opts out'
        return [], info
    t0 = time.time()
    exe, err = build_harness(plugin, scratch, sanitize=True)
    if exe is None:
        info['build_error'] = err[-600:]
        return [], info
    info['built'] = True
    env = {'ASAN_OPTIONS': 'abort_on_error=1:detect_leaks=0:allocator_may_return_null=1', 'UBSAN_OPTIONS': 'print_stacktrace=1'}
    limit = getattr(plugin, 'SANITIZE_MAX_CASES', 4000)
    sub = cases[:limit]
    outs = run_parallel(exe, sub, jobs, max(hang * 5, 60), env)
    fails = []
    for ci, c in enumerate(sub):
        for li, o in enumerate(outs[ci]):
            info['ops'] += 1
            if o == 'abort' and impl[ci][li] not in ('abort', 'hang', 'skipped'):
                info['aborts'] += 1
                if len(fails) < 5:
                    # re-run the single case with stderr captured to get the sanitizer's report
                    text = '#case 0\n%s\n' % '\n'.join(c['lines'])
                    try:
                        p = subprocess.run([exe], input=text, stdout=subprocess.PIPE, stderr=subprocess.PIPE, text=True,
                                           env=dict(os.environ, VP_HANG_SECS=str(max(hang * 5, 60)), **env), timeout=600)
                        rep = [l for l in p.stderr.split('\n') if l.strip()][:25]
                    except Exception as e:
                        rep = [repr(e)]
                    head = next((l for l in rep if 'ERROR' in l or 'runtime error' in l), rep[0] if rep else '')
                    fails.append({'kind': 'sanitizer', 'case_index': ci,
                                  'detail': 'op %d (%s) aborts under ASan/UBSan: %s' % (li, c['lines'][li][:120], head[:300]),
                                  'fields': {'op': c['lines'][li].split()[0], 'report': rep}})
                break
    info['wall_s'] = round(time.time() - t0, 1)
    return fails, info

# ----------------------------------------------------------------------------- known findings
def load_known():
    p = os.path.join(VERIF, 'known_findings.json')
    if not os.path.exists(p):
        return []
    return json.load(open(p)).get('findings', [])


def match_known(pid, failure, known):
    for e in known:
        if e.get('property') != pid or not str(e.get('status', '')).startswith('open'):
            continue
        m = e.get('match', {})
        if m.get('kind') != failure.get('kind'):
            continue
        f = failure.get('fields', {})
        ok = True
        for k, v in m.get('equals', {}).items():
            ok = ok and f.get(k) == v
        for k, (lo, hi) in m.get('ranges', {}).items():
            ok = ok and (k in f) and lo <= f[k] <= hi
        if ok:
            return e
    return None


# ----------------------------------------------------------------------------- main
def shrink_case(plugin, exe_impl, exe_model, case, pred):
    """drop ops while `pred(case)` stays true (first line kept: it is the constructor)"""
    lines = list(case['lines'])
    changed = True
    rounds = 0
    while changed and rounds < 6 and len(lines) > 1:
        changed = False
        rounds += 1
        i = len(lines) - 1
        while i >= 1:
            cand = dict(case, lines=lines[:i] + lines[i + 1:])
            try:
                if pred(cand):
                    lines = cand['lines']
                    changed = True
            except Exception:
                pass
            i -= 1
    return dict(case, lines=lines)


def main():
    ap = argparse.ArgumentParser()
    ap.add_argument('prop')
    ap.add_argument('--tier', default=os.environ.get('VERIF_TIER', 'quick'), choices=['quick', 'thorough'])
    ap.add_argument('--replay')
    ap.add_argument('--jobs', type=int, default=int(os.environ.get('VERIF_JOBS', '12')))
    args = ap.parse_args()
    pid = args.prop.upper()
    seed = int(os.environ.get('VERIF_SEED', '1') or 1)
    tier = args.tier
    t_start = time.time()
    plugin = importlib.import_module('props.' + pid.lower())
    scratch = tempfile.mkdtemp(prefix='romea_verif_%s_' % pid.lower(), dir=os.environ.get('VERIF_SCRATCH', '/tmp'))
    rc = 2
    try:
        rc = run_check(plugin, pid, seed, tier, args, scratch, t_start)
    finally:
        shutil.rmtree(scratch, ignore_errors=True)
    sys.exit(rc)


def run_check(plugin, pid, seed, tier, args, scratch, t_start):
    rng = vlib.Rng(seed * 1000003 + sum(map(ord, pid)))
    known = load_known()
    ctx = {'repo': REPO, 'verif': VERIF, 'lean': LEAN, 'scratch': scratch, 'tier': tier, 'seed': seed, 'jobs': args.jobs,
           'notes': []}
    log('[%s] tier=%s seed=%d repo=%s' % (pid, tier, seed, REPO))

    # ---- G
    gen_info = {}
    with open(os.path.join(LEAN, '.build.lock'), 'w') as lk:
        # G and A are one critical section: another check (possibly against another working tree) must not
        # regenerate model data between this run's regeneration and its build
        fcntl.flock(lk, fcntl.LOCK_EX)
        if hasattr(plugin, 'regen'):
            gen_info = plugin.regen(ctx) or {}
            log('[%s] G regenerated: %s' % (pid, json.dumps(gen_info)[:300]))
        # hidden-state census of the anchored files (every property): Generated/Statics<Cxx>.lean, pinned by RomeaProofs/Hidden/<Cxx>.lean
        try:
            import hidden_state
            gen_info.update(hidden_state.regen(ctx, pid))
            pin = 'RomeaProofs.Hidden.%s' % pid
            if os.path.exists(os.path.join(LEAN, 'RomeaProofs', 'Hidden', pid + '.lean')) and pin not in plugin.PROOF_MODULES:
                plugin.PROOF_MODULES = list(plugin.PROOF_MODULES) + [pin]
        except Exception as ex:      # the census is an extra obligation: a failure of the tool itself is recorded, not hidden
            ctx['notes'].append('hidden-state census failed: %r' % (ex,))
        # ---- A
        A = stage_A(plugin, tier, scratch)
        # the driver binary is used after the lock is released: keep a private copy
        if getattr(plugin, 'DRIVER', None):
            src_bin = os.path.join(LEAN, '.lake', 'build', 'bin', plugin.DRIVER)
            if os.path.exists(src_bin):
                shutil.copy2(src_bin, os.path.join(scratch, plugin.DRIVER))
    log('[%s] A build_ok=%s driver_ok=%s obligations=%d failed=%d forbidden=%d (%.1fs)' % (
        pid, A['build_ok'], A['driver_ok'], len(A['obligations']), len(A['failed']), len(A['forbidden']), A.get('build_s', 0)))
    for e in A['errors'][:10]:
        log('    ' + e)
    for e in A['failed'][:10]:
        log('    broken obligation: ' + e)
    for e in A['forbidden'][:10]:
        log('    forbidden token: ' + e)

    # ---- H
    exe = None
    if getattr(plugin, 'HARNESS', None):
        exe, err = build_harness(plugin, scratch)
        if exe is None:
            log('[%s] H harness build FAILED (tool failure, not a verdict on the property)\n%s' % (pid, err))
            write_evidence(plugin, pid, seed, tier, t_start, A, None, None, [], [], gen_info, ctx, note='harness build failed')
            # the repository no longer compiles against the harness: the property is not shown to hold
            rp = write_replay(pid, seed, tier, 'H', 'harness build', [], err, 'harness does not compile against the working tree')
            log('VIOLATION property=%s replay=%s no-failing-input-found' % (pid, rp))
            return 1
    model_exe = None
    if getattr(plugin, 'DRIVER', None):
        model_exe = os.path.join(scratch, plugin.DRIVER)
        if not os.path.exists(model_exe):
            model_exe = os.path.join(LEAN, '.lake', 'build', 'bin', plugin.DRIVER)
    ctx['A'] = A
    ctx['gen_info'] = gen_info

    # ---- cases
    if args.replay:
        rj = json.load(open(args.replay))
        cases = rj.get('cases', [])
    else:
        cases = load_corpus(pid) + plugin.gen_cases(rng.fork(), tier)
    nops = sum(len(c['lines']) for c in cases)
    hang = getattr(plugin, 'HANG_SECS', 20)

    # ---- B + C inputs
    t0 = time.time()
    impl = run_parallel(exe, cases, args.jobs, hang) if exe else [[] for _ in cases]
    t_impl = time.time() - t0
    t0 = time.time()
    model = run_parallel(model_exe, cases, args.jobs, 600) if (model_exe and A['driver_ok']) else None
    t_model = time.time() - t0

    # ---- B
    disagreements = []
    compared = 0
    if model is not None:
        cmpf = getattr(plugin, 'compare', None)
        tolf = getattr(plugin, 'tolerance', None)
        for ci, c in enumerate(cases):
            for li, op in enumerate(c['lines']):
                a, b = impl[ci][li], model[ci][li]
                compared += 1
                if cmpf:
                    ok = cmpf(c, li, op, a, b)
                else:
                    tol = tolf(op.split()) if tolf else {}
                    ok = vlib.lines_agree(a, b, **tol)
                if not ok:
                    disagreements.append({'case': ci, 'line': li, 'op': op, 'impl': a, 'model': b})
                    break
    log('[%s] B cases=%d ops=%d compared=%d disagreements=%d (impl %.1fs, model %.1fs)' % (
        pid, len(cases), nops, compared, len(disagreements), t_impl, t_model))
    for d in disagreements[:5]:
        log('    disagreement case=%d line=%d op=%s\n      impl : %s\n      model: %s' % (d['case'], d['line'], d['op'][:200], d['impl'][:300], d['model'][:300]))

    # ---- C
    failures = []
    stats = {}
    t0 = time.time()
    for ci, c in enumerate(cases):
        try:
            fs = plugin.oracle(c, impl[ci], stats) or []
        except Exception as e:  # an oracle crash must not look like a pass
            fs = [{'kind': 'oracle-exception', 'detail': repr(e), 'fields': {}}]
        for f in fs:
            f['case_index'] = ci
            failures.append(f)
    if hasattr(plugin, 'extra_probe'):
        failures += plugin.extra_probe(ctx, stats) or []
    if tier == 'thorough' and exe and not args.replay:
        sfails, sinfo = sanitizer_pass(plugin, scratch, cases, impl, args.jobs, hang)
        stats['sanitizer_pass'] = sinfo
        failures += sfails
        log('[%s] C sanitizer pass: %s' % (pid, json.dumps(sinfo)[:300]))
        try:    # measured, not assumed: which anchored lines did the cases of this run execute at all?
            import coverage as covmod
            cv = covmod.measure(pid, tier, seed, args.jobs, cases=cases[:getattr(plugin, 'COVERAGE_MAX_CASES', 3000)])
            stats['anchored_line_coverage'] = cv
            log('[%s] C anchored line coverage of the generated cases: %s' % (pid, json.dumps({k: v for k, v in cv.items() if k != 'files'})))
        except Exception as e:
            stats['anchored_line_coverage'] = {'error': repr(e)}
    # focused search around disagreeing inputs
    if (disagreements or not A['ok']) and hasattr(plugin, 'focused_cases') and not failures:
        extra = plugin.focused_cases(rng.fork(), [cases[d['case']] for d in disagreements[:20]], tier)
        eout = run_parallel(exe, extra, args.jobs, hang)
        for ci, c in enumerate(extra):
            fs = plugin.oracle(c, eout[ci], stats) or []
            for f in fs:
                f['case_index'] = len(cases) + ci
                failures.append(f)
        cases_all = cases + extra
        impl_all = impl + eout
    else:
        cases_all, impl_all = cases, impl
    t_oracle = time.time() - t0
    new_failures, known_hits = [], {}
    for f in failures:
        e = match_known(pid, f, known)
        if e:
            known_hits.setdefault(e['id'], [e, 0])[1] += 1
        else:
            new_failures.append(f)
    log('[%s] C probe failures=%d (known=%d, new=%d) (%.1fs)' % (pid, len(failures), len(failures) - len(new_failures), len(new_failures), t_oracle))
    for kid, (e, n) in known_hits.items():
        log('KNOWN-FINDING: property=%s %s [%s, %d occurrence(s) this run]' % (pid, e['what'], kid, n))

    # ---- verdict
    rc = 0
    replay = None
    if new_failures:
        f = new_failures[0]
        ci = f.get('case_index')
        if ci is None:   # found by extra_probe (not a line-protocol case): the failure carries its own replay data
            replay = write_replay(pid, seed, tier, 'C', f.get('kind'), f.get('cases', []), f.get('replay', {'fields': f.get('fields')}), f.get('detail'))
        else:
            case = cases_all[ci]
            replay = write_replay(pid, seed, tier, 'C', f.get('kind'), [case], {'impl_out': impl_all[ci], 'model_out': (model[ci] if model and ci < len(model) else None)}, f.get('detail'))
        log('    failing input: kind=%s detail=%s' % (f.get('kind'), str(f.get('detail'))[:400]))
        log('VIOLATION property=%s replay=%s' % (pid, os.path.relpath(replay, VERIF)))
        rc = 1
    elif disagreements or not A['ok']:
        if disagreements:
            d = disagreements[0]
            replay = write_replay(pid, seed, tier, 'B', 'correspondence:' + d['op'].split()[0], [cases[d['case']]],
                                  {'impl_out': impl[d['case']], 'model_out': model[d['case']], 'first_difference_line': d['line']},
                                  'model and implementation disagree; the property probe found no failing input')
        else:
            replay = write_replay(pid, seed, tier, 'A', '; '.join(A['failed'][:5]) or 'forbidden tokens', [],
                                  {'errors': A['errors'][:20], 'forbidden': A['forbidden']},
                                  'a proof obligation no longer checks; the property probe found no failing input')
        log('VIOLATION property=%s replay=%s no-failing-input-found' % (pid, os.path.relpath(replay, VERIF)))
        rc = 1
    write_evidence(plugin, pid, seed, tier, t_start, A, cases, impl, disagreements, new_failures, gen_info, ctx,
                   stats=stats, known_hits=known_hits, compared=compared, model_ran=model is not None)
    log('[%s] done rc=%d wall=%.1fs' % (pid, rc, time.time() - t_start))
    return rc


def load_corpus(pid):
    d = os.path.join(VERIF, 'corpus', pid)
    cases = []
    if os.path.isdir(d):
        for f in sorted(os.listdir(d)):
            if f.endswith('.ops'):
                cur = None
                for line in open(os.path.join(d, f)):
                    line = line.rstrip('\n')
                    if not line.strip():
                        continue
                    if line.startswith('#case') or cur is None:
                        cur = {'name': 'corpus:' + f, 'lines': [], 'meta': {'corpus': f}}
                        cases.append(cur)
                        if line.startswith('#'):
                            continue
                    cur['lines'].append(line)
    return [c for c in cases if c['lines']]


def write_replay(pid, seed, tier, stage, what, cases, outputs, note):
    os.makedirs(os.path.join(VERIF, 'replays'), exist_ok=True)
    p = os.path.join(VERIF, 'replays', '%s-%s-%d.json' % (pid, stage, seed))
    json.dump({'property': pid, 'seed': seed, 'tier': tier, 'stage': stage, 'theorem_or_op': what, 'cases': cases,
               'outputs': outputs, 'note': note, 'replay_cmd': 'python3 tools/check.py %s --replay %s' % (pid, os.path.relpath(p, VERIF))},
              open(p, 'w'), indent=1, default=str)
    return p


def write_evidence(plugin, pid, seed, tier, t_start, A, cases, impl, disagreements, failures, gen_info, ctx,
                   stats=None, known_hits=None, compared=0, model_ran=False, note=None):
    os.makedirs(os.path.join(VERIF, 'evidence'), exist_ok=True)
    cases = cases or []
    distinct = set()
    ops_hist = {}
    for ci, c in enumerate(cases):
        for li, l in enumerate(c['lines']):
            op = l.split()[0]
            ops_hist[op] = ops_hist.get(op, 0) + 1
            out = impl[ci][li] if impl else ''
            if out not in ('ok', 'bad-op', 'skipped', ''):
                distinct.add(l)
    samples = []
    for c in cases[:1] + cases[len(cases) // 2:len(cases) // 2 + 1] + cases[-1:]:
        samples.append({'name': c.get('name'), 'ops': c['lines'][:12], 'n_ops': len(c['lines'])})
    nob = len(A['obligations'])
    failed_names = set()
    for f in A['failed']:
        failed_names.add(f)
    discharged = nob if (A['build_ok'] and not [t for t, ax in A['axioms'].items() if not set(ax) <= ALLOWED_AXIOMS]) else max(0, nob - max(1, len(A['failed'])))
    level = plugin.LEVEL
    cov = {
        'obligations': nob,
        'discharged': discharged,
        'checker_cmd': 'cd lean && lake build %s && lake env lean <#print axioms of every theorem>%s' % (
            ' '.join(plugin.PROOF_MODULES), ' && lake env leanchecker <module>' if tier == 'thorough' else ''),
        'trusted_base': BASE_TRUSTED + list(getattr(plugin, 'TRUSTED', [])),
        'theorems': A['obligations'],
        'axioms_used': sorted({a for ax in A['axioms'].values() for a in ax}),
        'leanchecker': A.get('leanchecker'),
        'evaluations': sum(len(c['lines']) for c in cases),
        'distinct_nontrivial': len(distinct),
        'rule': 'ops are generated by tools/props/%s.py from one splitmix64 state (VERIF_SEED); an op counts as distinct and '
                'non-trivial when its text is unique in this run and the implementation answered it with something other than '
                'ok/bad-op/skipped (i.e. it produced data that was compared)' % pid.lower(),
        'samples': samples or [{'note': 'no cases ran'}],
        'traces_validated_against_impl': compared,
        'correspondence_disagreements': len(disagreements),
        'model_driver_ran': model_ran,
        'cases': len(cases),
        'op_histogram': ops_hist,
        'probe_stats': stats or {},
        'generated': gen_info,
        'known_findings_seen': {k: v[1] for k, v in (known_hits or {}).items()},
        'explanation': getattr(plugin, 'EXPLANATION', ''),
        'notes': ctx.get('notes', []) + ([note] if note else []),
    }
    for k_, v_ in ((stats or {}).get('evidence_override') or {}).items():
        cov[k_] = v_
    ev = {
        'property_id': pid, 'tier': tier, 'seed': seed, 'level': level, 'coverage': cov,
        'assumptions': list(getattr(plugin, 'ASSUMPTIONS', [])),
        'wall_s': round(time.time() - t_start, 2),
        'violations': len(failures) + len(disagreements) + (0 if A['ok'] else 1),
    }
    if os.path.realpath(REPO) == '/repo':
        out = os.path.join(VERIF, 'evidence', pid + '.json')
    else:   # a run against a scratch worktree (seeded-change testing) must not overwrite the evidence of /repo
        os.makedirs(os.path.join(VERIF, 'replays'), exist_ok=True)
        out = os.path.join(VERIF, 'replays', 'evidence-%s-altrepo.json' % pid)
    json.dump(ev, open(out, 'w'), indent=1, default=str)


if __name__ == '__main__':
    main()
