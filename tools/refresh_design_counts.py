#!/usr/bin/env python3
"""Refreshes the numbers of DESIGN.md's summary table ("thms" column: theorems of the property module / all audited obligations of the
last quick run, from evidence/<id>.json) and the "Sizes:" paragraph. Documentation aid; not a check."""
import glob
import json
import os
import re

V = os.path.dirname(os.path.dirname(os.path.abspath(__file__)))


def lines(pattern, exclude=None):
    n = 0
    for f in glob.glob(os.path.join(V, pattern), recursive=True):
        if exclude and exclude in f or '/.lake/' in f:
            continue
        n += sum(1 for _ in open(f, errors='replace'))
    return n


d = open(os.path.join(V, 'DESIGN.md')).read()
total = 0
for i in range(1, 21):
    pid = 'C%02d' % i
    ev = json.dumps(json.load(open(os.path.join(V, 'evidence', pid + '.json'))))
    ob = int(re.search(r'"obligations": *(\d+)', ev).group(1))
    total += ob
    nth = 0
    for f in glob.glob(os.path.join(V, 'lean/RomeaProofs/Properties/%s.lean' % pid)):
        nth += len(re.findall(r'^theorem ', open(f).read(), re.M))
    d, k = re.subn(r'(\| %s \|[^|]*\|[^|]*\| )\d+ / \d+( \|)' % pid, lambda m: '%s%d / %d%s' % (m.group(1), nth, ob, m.group(2)), d, count=1)
    if not k:
        print('row not found', pid)
gen = lines('lean/RomeaModel/Generated/*.lean')
model = lines('lean/RomeaModel/**/*.lean') - gen
proofs = lines('lean/RomeaProofs/**/*.lean')
tr = lines('tools/cxx2lean.py')
seeded = len(glob.glob(os.path.join(V, 'seeded/*/patch.diff')))
d = re.sub(r'Sizes: Lean model \d+ lines', 'Sizes: Lean model %d lines' % model, d)
d = re.sub(r'\+ \d+ lines regenerated from /repo', '+ %d lines regenerated from /repo' % gen, d)
d = re.sub(r'theorems and lemmas \d+ lines', 'theorems and lemmas %d lines' % proofs, d)
d = re.sub(r'\d+ audited theorems', '%d audited theorems' % total, d)
d = re.sub(r'C\+\+→Lean translator \d+ lines', 'C++→Lean translator %d lines' % tr, d)
d = re.sub(r'\d+ confirmed seeded changes \([^)]*\)', '%d confirmed seeded changes (rounds a–f)' % seeded, d)
open(os.path.join(V, 'DESIGN.md'), 'w').write(d)
print('model', model, 'generated', gen, 'proofs', proofs, 'audited', total, 'translator', tr, 'seeded', seeded)
