#!/usr/bin/env python3
"""Runs the registered quick check of every filed seeded change (seeded/*/patch.diff) at several seeds in scratch
worktrees and records which stage caught it: seeded/MATRIX.json. Development aid (not a registered check).
usage: seeded_matrix.py [seeds, default "1 2 3"] [--only name-substring]"""
import json, os, re, subprocess, sys
V = os.path.dirname(os.path.dirname(os.path.abspath(__file__)))
only = sys.argv[sys.argv.index('--only') + 1] if '--only' in sys.argv else ''
seeds = [int(x) for x in sys.argv[1:] if x.isdigit()] or [1, 2, 3]
out = os.path.join(V, 'seeded', 'MATRIX.json')
res = json.load(open(out)) if os.path.exists(out) else {}
for name in sorted(os.listdir(os.path.join(V, 'seeded'))):
    d = os.path.join(V, 'seeded', name)
    if not os.path.exists(os.path.join(d, 'patch.diff')) or only not in name or name.endswith('-tmp'):
        continue
    pid = json.load(open(os.path.join(d, 'meta.json')))['property']
    wt = '/tmp/mxwt_' + name
    subprocess.run('git -C /repo worktree remove --force %s; git -C /repo worktree add --detach %s HEAD && git -C %s apply %s/patch.diff' % (wt, wt, wt, d),
                   shell=True, stdout=subprocess.DEVNULL, stderr=subprocess.DEVNULL)
    row = {}
    for s in seeds:
        r = subprocess.run('cd %s && VERIF_SEED=%d VERIF_REPO=%s python3 tools/check.py %s' % (V, s, wt, pid), shell=True,
                           stdout=subprocess.PIPE, stderr=subprocess.STDOUT, text=True)
        o = r.stdout
        st = ''
        if 'broken obligation' in o:
            st += 'A'
        m = re.search(r'disagreements=(\d+)', o)
        if m and int(m.group(1)) > 0:
            st += 'B'
        if 'failing input' in o:
            st += 'C'
        v = [l for l in o.split('\n') if l.startswith('VIOLATION')]
        row[str(s)] = {'rc': r.returncode, 'stages': st, 'violation': v[0] if v else None}
        print(name, s, r.returncode, st, flush=True)
    res[name] = {'property': pid, 'by_seed': row, 'always_detected': all(x['rc'] == 1 and x['violation'] for x in row.values())}
    subprocess.run('git -C /repo worktree remove --force %s' % wt, shell=True, stdout=subprocess.DEVNULL, stderr=subprocess.DEVNULL)
    json.dump(res, open(out, 'w'), indent=1, sort_keys=True)
subprocess.run('git -C %s checkout -- lean/RomeaModel/Generated' % V, shell=True)
