#!/usr/bin/env python3
"""Runs the registered quick checks against every filed seeded change (seeded/*/patch.diff) and records which stage caught it:
seeded/MATRIX.json. Development aid (not a registered check).

For each seeded change the checks run are: the property the change was written against, plus every other property one of whose
anchored files (properties.jsonl `anchors.files`) the patch touches — a change to a shared file (ECEFConverter.cpp, LeastSquares.cpp,
KdTree.cpp, Checkup.hpp, …) is a change to every property anchored there. Each (change, property, seed) job runs in its own scratch
worktree of /repo and from its own private copy of /verif (so jobs run in parallel and nothing in /verif is rewritten).

usage: seeded_matrix.py [seeds, default "1"] [--only name-substring] [--jobs N, default 4] [--own-only]"""
import concurrent.futures
import json
import os
import re
import subprocess
import sys

V = os.path.dirname(os.path.dirname(os.path.abspath(__file__)))
args = sys.argv[1:]


def opt(name, default):
    return args[args.index(name) + 1] if name in args else default


only = opt('--only', '')
jobs = int(opt('--jobs', '4'))
own_only = '--own-only' in args
seeds = [int(x) for x in args if x.isdigit() and (args.index(x) == 0 or args[args.index(x) - 1] not in ('--jobs',))] or [1]
props = [json.loads(l) for l in open(os.path.join(V, 'properties.jsonl'))]
anch = {p['id']: set(p['anchors']['files']) for p in props}


def sh(cmd):
    return subprocess.run(cmd, shell=True, stdout=subprocess.PIPE, stderr=subprocess.STDOUT, text=True)


def touched(patch):
    return set(m.group(1) for m in re.finditer(r'^\+\+\+ b/(\S+)', open(patch).read(), re.M))


def run(job):
    name, pid, seed = job
    tag = '%s_%s_%d' % (name, pid, seed)
    wt, priv = '/tmp/mxwt_' + tag, '/tmp/mxvf_' + tag
    d = os.path.join(V, 'seeded', name)
    sh('git -C /repo worktree remove --force %s; git -C /repo worktree add --detach %s HEAD && git -C %s apply %s/patch.diff' % (wt, wt, wt, d))
    sh('rm -rf %s && rsync -a --exclude .git --exclude replays %s/ %s/' % (priv, V, priv))
    r = sh('cd %s && VERIF_SEED=%d VERIF_REPO=%s python3 tools/check.py %s --tier quick' % (priv, seed, wt, pid))
    o = r.stdout
    st = ''
    if 'broken obligation' in o:
        st += 'A'
    m = re.search(r'disagreements=(\d+)', o)
    if m and int(m.group(1)) > 0:
        st += 'B'
    if 'failing input' in o:
        st += 'C'
    v = [l for l in o.split('\n') if l.startswith('VIOLATION')]
    k = re.search(r'failing input: kind=(\S+)', o)
    sh('git -C /repo worktree remove --force %s; rm -rf %s' % (wt, priv))
    return job, {'rc': r.returncode, 'stages': st, 'violation': v[0] if v else None, 'kind': k.group(1) if k else None}


def main():
    out = os.path.join(V, 'seeded', 'MATRIX.json')
    res = json.load(open(out)) if os.path.exists(out) else {}
    todo = []
    for name in sorted(os.listdir(os.path.join(V, 'seeded'))):
        d = os.path.join(V, 'seeded', name)
        if not os.path.exists(os.path.join(d, 'patch.diff')) or not any(o in name for o in only.split(',')) or name.endswith('-tmp'):
            continue
        own = json.load(open(os.path.join(d, 'meta.json')))['property']
        files = touched(os.path.join(d, 'patch.diff'))
        pids = [own] + ([] if own_only else sorted(p for p in anch if p != own and anch[p] & files))
        res[name] = {'property': own, 'files': sorted(files), 'checks': {}}
        for pid in pids:
            for s in seeds:
                todo.append((name, pid, s))
    with concurrent.futures.ThreadPoolExecutor(max_workers=jobs) as ex:
        for (name, pid, s), row in ex.map(run, todo):
            res[name]['checks'].setdefault(pid, {})[str(s)] = row
            print(name, pid, s, row['rc'], row['stages'], row['kind'], flush=True)
            json.dump(res, open(out, 'w'), indent=1, sort_keys=True)
    for name, r in res.items():
        own = r['checks'].get(r['property'], {})
        r['always_detected_by_own_check'] = bool(own) and all(x['rc'] == 1 and x['violation'] for x in own.values())
        r['also_detected_by'] = sorted(p for p, rows in r['checks'].items() if p != r['property'] and any(x['violation'] for x in rows.values()))
    json.dump(res, open(out, 'w'), indent=1, sort_keys=True)
    missed = [n for n, r in res.items() if not r.get('always_detected_by_own_check')]
    print('%d seeded changes, not always detected by their own check: %s' % (len(res), missed))


if __name__ == '__main__':
    main()
