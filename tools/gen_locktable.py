#!/usr/bin/env python3
"""Translator for C19: regenerates lean/RomeaModel/Generated/LockTable.lean from /repo's source.

For every anchored class it dumps clang's typed AST (clang++-14 -Xclang -ast-dump=json, instantiated
template bodies included) and turns each method body into the ordered list of events

    acq m | rel m | rd f | wr f | atomic f | escape f

* a `std::lock_guard` / `std::unique_lock` / `std::scoped_lock` local constructed from member mutex m gives
  `acq m` at its position and `rel m` at the end of its enclosing compound statement;
* every member access through `this` is an access of that field, classified READ iff it is immediately
  loaded (LValueToRValue), const-qualified (const method, or implicit const conversion of the object of a
  const member call), otherwise WRITE (assignment target, ++/--, non-const member call or operator,
  bound to a non-const reference, address taken, or anything not recognised: the translator errs towards
  reporting);
* members of type std::atomic<..> / SharedVariable<..> / SharedOptionalVariable<..> give `atomic f`;
  in the EXTENDED table (`xcls_<Class>`, emitted for every class that has such a member event) the same event is
  `ald f` (a `.load()` / conversion-operator call: one atomic load), `ast f` (a `.store(v)` / `operator=` call: one
  atomic store) or `armw f` (anything else: exchange, fetch_add, compare_exchange, ++, a reference bound to the
  member, an unrecognised use) — so a load / store of such a member AFTER the release of the guard is visible
  as such (`RomeaModel/LinAtomic.lean` checks the shape of `RateMonitoring` on it);
* calls of other methods of the same object (this->g()) are inlined;
* a method returning a reference or pointer to a member gives `escape f` after its last `rel`
  (the caller reads f after the lock is gone);
* local ALIASES of a member are followed: a local reference / pointer variable initialised from (or a pointer
  variable assigned) an lvalue rooted at a member of `this` (`Diagnostic & d = report_.diagnostics.front();`,
  `p = &value_;`) makes every later use of that variable an access of the member at the position of the use
  (so a copy made through such an alias after the guard's scope ended is an access outside the critical section).
Constructors and destructors are not summarised (the object is not shared while they run).
"""
import json
import os
import subprocess
import sys

CLASSES = [
    # (class name as it appears in the AST, template instantiation line or None)
    ('SharedVariable', 'template class SharedVariable<double>;'),
    ('SharedOptionalVariable', 'template class SharedOptionalVariable<double>;'),
    ('OnlineAverage', None),
    ('OnlineVariance', None),
    ('RateMonitoring', None),
    ('Checkup', 'template class Checkup<double>;'),
    ('CheckupEqualTo', 'template class CheckupEqualTo<double>;'),
    ('CheckupGreaterThan', 'template class CheckupGreaterThan<double>;'),
    ('CheckupLowerThan', 'template class CheckupLowerThan<double>;'),
    ('CheckupRate', None),
    ('CheckupReliability', None),
]
TU = '''
#include "romea_core_common/concurrency/SharedVariable.hpp"
#include "romea_core_common/concurrency/SharedOptionalVariable.hpp"
#include "romea_core_common/diagnostic/CheckupEqualTo.hpp"
#include "romea_core_common/diagnostic/CheckupGreaterThan.hpp"
#include "romea_core_common/diagnostic/CheckupLowerThan.hpp"
#include "%(repo)s/src/monitoring/OnlineAverage.cpp"
#include "%(repo)s/src/monitoring/OnlineVariance.cpp"
#include "%(repo)s/src/monitoring/RateMonitoring.cpp"
#include "%(repo)s/src/diagnostics/CheckupRate.cpp"
#include "%(repo)s/src/diagnostics/CheckupReliability.cpp"
namespace romea { namespace core {
%(inst)s
}}
'''
# the operations the property quantifies over (writer: update/store/evaluate/reset; readers: load/consume/get*/
# isAvailable/getReport/heartbeat/timeout). Configuration methods (setWindowSize, initialize, ...) are out of scope.
SCOPE = {'update', 'reset', 'getAverage', 'getVariance', 'isAvailable', 'store', 'load', 'operator=', 'operator double',
         'consume', 'evaluate', 'getReport', 'timeout', 'heartBeatCallback', 'getRate'}
LOCK_TYPES = ('lock_guard<', 'unique_lock<', 'scoped_lock<')
ATOMIC_TYPES = ('std::atomic<', 'atomic<', 'SharedVariable<', 'SharedOptionalVariable<')


def parse_concat(txt):
    dec = json.JSONDecoder()
    i, objs = 0, []
    while i < len(txt):
        while i < len(txt) and txt[i] in ' \n\r\t':
            i += 1
        if i >= len(txt):
            break
        o, j = dec.raw_decode(txt, i)
        objs.append(o)
        i = j
    return objs


def qual(n):
    return (n.get('type') or {}).get('qualType', '')


def strip_casts(n):
    while n.get('kind') in ('ImplicitCastExpr', 'ParenExpr', 'MaterializeTemporaryExpr', 'ExprWithCleanups', 'CXXBindTemporaryExpr') and n.get('inner'):
        n = n['inner'][0]
    return n


def is_this_member(n):
    """MemberExpr whose base is `this` (possibly through derived-to-base casts)"""
    if n.get('kind') != 'MemberExpr' or not n.get('inner'):
        return False
    b = strip_casts(n['inner'][0])
    return b.get('kind') == 'CXXThisExpr'


class Summariser:
    def __init__(self, methods_by_class, bases):
        self.methods = methods_by_class      # class -> {name: [decl nodes]}
        self.bases = bases
        self.unclassified = []
        self.alias = {}                      # id of a local reference / pointer variable -> member it aliases
        self.akind = {}                      # id() of a MemberExpr node of an atomic member -> 'ald' | 'ast' (else 'armw')

    def lookup(self, cls, name):
        seen = set()
        stack = [cls]
        while stack:
            c = stack.pop()
            if c in seen:
                continue
            seen.add(c)
            if name in self.methods.get(c, {}):
                return c, self.methods[c][name]
            stack += self.bases.get(c, [])
        return None, None

    def root_field(self, e):
        """member of `this` at the root of an lvalue expression (x_.a.front().b, *x_, x_[i], &x_), or None"""
        e = strip_casts(e)
        k = e.get('kind')
        inner = e.get('inner') or []
        if k == 'MemberExpr':
            if is_this_member(e) and qual(e) != '<bound member function type>':
                return e.get('name')
            return self.root_field(inner[0]) if inner else None
        if k == 'CXXMemberCallExpr':
            return self.root_field(inner[0]) if inner else None
        if k == 'CXXOperatorCallExpr':
            return self.root_field(inner[1]) if len(inner) > 1 else None
        if k in ('UnaryOperator', 'ArraySubscriptExpr'):
            return self.root_field(inner[0]) if inner else None
        if k == 'DeclRefExpr':
            return self.alias.get((e.get('referencedDecl') or {}).get('id'))
        return None

    def summarise(self, cls, decl, depth=0):
        if depth == 0:
            self.alias = {}
        evs = []
        body = [c for c in decl.get('inner', []) if c.get('kind') == 'CompoundStmt']
        if not body:
            return evs
        self.walk(cls, body[0], None, evs, depth)
        ret = qual(decl).split('(')[0]
        if '&' in ret or '*' in ret:
            for f in self.returned_fields(body[0]):
                evs.append(('escape', f))
        return evs

    def returned_fields(self, n):
        out = []
        if n.get('kind') == 'ReturnStmt' and n.get('inner'):
            e = strip_casts(n['inner'][0])
            if e.get('kind') == 'UnaryOperator' and e.get('opcode') == '&' and e.get('inner'):
                e = strip_casts(e['inner'][0])
            if is_this_member(e) and qual(e) != '<bound member function type>':
                out.append(e.get('name'))
        for c in n.get('inner', []) or []:
            out += self.returned_fields(c)
        return out

    def walk(self, cls, n, parent, evs, depth):
        k = n.get('kind')
        if k == 'CompoundStmt':
            held = []
            for c in n.get('inner', []) or []:
                m = self.lock_decl(c)
                if m:
                    evs.append(('acq', m))
                    held.append(m)
                else:
                    self.walk(cls, c, n, evs, depth)
            for m in reversed(held):
                evs.append(('rel', m))
            return
        if k in ('CXXMemberCallExpr', 'CXXOperatorCallExpr') and n.get('inner'):
            self.note_atomic_call(n)
        if k == 'CXXMemberCallExpr' and n.get('inner'):
            callee = n['inner'][0]
            if callee.get('kind') == 'MemberExpr' and is_this_member(callee) and qual(callee) == '<bound member function type>':
                # call of another method of the same object: arguments first, then the inlined body
                for a in n['inner'][1:]:
                    self.walk(cls, a, n, evs, depth)
                c2, decls = self.lookup(cls, callee.get('name'))
                if decls and depth < 6:
                    evs += self.summarise(c2, decls[0], depth + 1)
                else:
                    evs.append(('wr', '?call:' + str(callee.get('name'))))
                    self.unclassified.append('%s: call %s not resolved' % (cls, callee.get('name')))
                return
        if k == 'MemberExpr' and is_this_member(n) and qual(n) != '<bound member function type>':
            f = n.get('name')
            t = qual(n)
            tt = t.replace('const ', '').strip()
            if tt.startswith('std::mutex') or tt.startswith('mutex') or 'std::mutex' in tt:
                evs.append(('rd', '?mutex-use:' + f))     # a mutex used other than in a lock guard
                self.unclassified.append('%s: mutex %s used outside a lock guard' % (cls, f))
            elif is_atomic_type(tt):
                evs.append((self.akind.get(id(n), 'armw'), f))
            else:
                evs.append((self.classify(n, parent), f))
            return
        if k == 'DeclRefExpr':
            f = self.alias.get((n.get('referencedDecl') or {}).get('id'))
            if f is not None:
                evs.append((self.classify(n, parent), f))
            return
        for c in n.get('inner', []) or []:
            self.walk(cls, c, n, evs, depth)
        # after the initialiser / right-hand side has been walked: record local aliases of members
        if k == 'VarDecl' and qual(n).rstrip().endswith(('&', '*')) and n.get('inner'):
            f = self.root_field(n['inner'][-1])
            if f is not None:
                self.alias[n.get('id')] = f
        if k == 'BinaryOperator' and n.get('opcode') == '=' and len(n.get('inner') or []) == 2:
            lhs = strip_casts(n['inner'][0])
            if lhs.get('kind') == 'DeclRefExpr' and qual(lhs).rstrip().endswith('*'):
                f = self.root_field(n['inner'][1])
                if f is not None:
                    self.alias[(lhs.get('referencedDecl') or {}).get('id')] = f

    def note_atomic_call(self, n):
        """`x_.load()` / `x_.store(v)` / `x_ = v` / conversion operator on an atomic member `x_` of `this`: remember, for
        the MemberExpr node of `x_`, whether the call is one atomic load or one atomic store"""
        inner = n['inner']
        if n.get('kind') == 'CXXMemberCallExpr':
            callee = inner[0]
            if callee.get('kind') != 'MemberExpr' or qual(callee) != '<bound member function type>' or not callee.get('inner'):
                return
            obj, name = strip_casts(callee['inner'][0]), callee.get('name') or ''
        else:
            ref = strip_casts(inner[0])
            if ref.get('kind') != 'DeclRefExpr' or len(inner) < 2:
                return
            obj, name = strip_casts(inner[1]), (ref.get('referencedDecl') or {}).get('name') or ''
        if not (is_this_member(obj) and is_atomic_type(qual(obj).replace('const ', '').strip())):
            return
        if name == 'load' or (name.startswith('operator ') and not name.startswith('operator new')):
            self.akind[id(obj)] = 'ald'
        elif name in ('store', 'operator='):
            self.akind[id(obj)] = 'ast'

    def lock_decl(self, n):
        if n.get('kind') != 'DeclStmt':
            return None
        for v in n.get('inner', []) or []:
            if v.get('kind') == 'VarDecl' and any(x in qual(v) for x in LOCK_TYPES):
                for e in v.get('inner', []) or []:
                    m = self.find_mutex(e)
                    if m:
                        return m
                return '?unknown-mutex'
        return None

    def find_mutex(self, e):
        if e.get('kind') == 'MemberExpr' and is_this_member(e):
            return e.get('name')
        for c in e.get('inner', []) or []:
            m = self.find_mutex(c)
            if m:
                return m
        return None

    def classify(self, n, parent):
        t = qual(n)
        if t.startswith('const ') or ' const' in t.split('<')[0]:
            return 'rd'
        if parent is None:
            return 'wr'
        pk = parent.get('kind')
        if pk == 'ImplicitCastExpr':
            ck = parent.get('castKind')
            if ck == 'LValueToRValue':
                return 'rd'
            if ck == 'NoOp' and qual(parent).startswith('const '):
                return 'rd'
        return 'wr'


def is_atomic_type(tt):
    return any(tt.startswith(a) or (' ' + a) in (' ' + tt) for a in ATOMIC_TYPES)


XATOMIC = ('ald', 'ast', 'armw')


def plain_events(evs):
    """the event list of the base table: every kind of atomic-member event is `atomic f`"""
    return [('atomic', f) if k in XATOMIC else (k, f) for k, f in evs]


ACCESS = {}


def collect(repo, workdir):
    inst = '\n'.join(i for _, i in CLASSES if i)
    tu = os.path.join(workdir, 'locktable_tu.cpp')
    open(tu, 'w').write(TU % {'repo': repo, 'inst': inst})
    methods, bases, fields = {}, {}, {}
    raw_sizes = {}
    for cls, _ in CLASSES:
        r = subprocess.run(['clang++-14', '-std=gnu++17', '-I' + os.path.join(repo, 'include'), '-I/usr/include/eigen3',
                            '-fsyntax-only', '-Xclang', '-ast-dump=json', '-Xclang', '-ast-dump-filter=' + cls, tu],
                           stdout=subprocess.PIPE, stderr=subprocess.PIPE, text=True)
        if r.returncode != 0:
            raise RuntimeError('clang failed on %s: %s' % (cls, r.stderr[-2000:]))
        raw_sizes[cls] = len(r.stdout)
        objs = parse_concat(r.stdout)
        records = {}
        access = {}

        def visit(n, owner):
            k = n.get('kind')
            if k in ('CXXRecordDecl', 'ClassTemplateSpecializationDecl') and n.get('name') == cls and n.get('completeDefinition'):
                records[n['id']] = n
                bs = []
                for b in n.get('bases', []) or []:
                    bt = b.get('type', {}).get('qualType', '')
                    bs.append(bt.split('<')[0].split('::')[-1])
                if bs:
                    bases.setdefault(cls, [])
                    for b in bs:
                        if b not in bases[cls]:
                            bases[cls].append(b)
                cur = 'private' if n.get('tagUsed') == 'class' else 'public'
                for c in n.get('inner', []) or []:
                    if c.get('kind') == 'AccessSpecDecl':
                        cur = c.get('access', cur)
                    if c.get('kind') == 'FieldDecl':
                        fields.setdefault(cls, {})[c['name']] = qual(c)
                    if c.get('kind') in ('CXXMethodDecl', 'CXXConversionDecl'):
                        access[c.get('name')] = cur
                    visit(c, n['id'])
                return
            if k in ('CXXMethodDecl', 'CXXConversionDecl') and any(c.get('kind') == 'CompoundStmt' for c in n.get('inner', []) or []):
                par = n.get('parentDeclContextId') or owner
                # keep only methods of (an instantiation / the definition of) this class
                methods.setdefault(cls, {}).setdefault(n['name'], []).append((par, n))
            for c in n.get('inner', []) or []:
                visit(c, owner)
        for o in objs:
            visit(o, None)
        # prefer instantiated bodies (their parent is a specialization record we saw); drop template patterns
        if cls in methods:
            spec_ids = {i for i, r_ in records.items() if r_.get('kind') == 'ClassTemplateSpecializationDecl'}
            plain_ids = {i for i, r_ in records.items() if r_.get('kind') == 'CXXRecordDecl'}
            sel = {}
            for name, lst in methods[cls].items():
                lst = [(p_, d) for p_, d in lst if p_ in records]       # only methods of THIS class
                if not lst:
                    continue
                pick = [d for p, d in lst if p in spec_ids] or [d for p, d in lst if p in plain_ids] or [d for p, d in lst]
                # instantiated declarations carry concrete types; skip dependent ones
                pick = [d for d in pick if '<dependent type>' not in json.dumps(d)[:200000]] or pick
                sel[name] = pick
            methods[cls] = sel
        ACCESS[cls] = access
    return methods, bases, fields, raw_sizes


def build_table(repo, workdir):
    methods, bases, fields, raw_sizes = collect(repo, workdir)
    S = Summariser(methods, bases)
    table = []
    for cls, _ in CLASSES:
        fl = dict(fields.get(cls, {}))
        for b in bases.get(cls, []):
            for f, t in fields.get(b, {}).items():
                fl.setdefault(f, t)
        ms = []

        def entry(c_, name):
            return name in SCOPE and ACCESS.get(c_, {}).get(name, 'public') == 'public'
        xs = []
        for name in sorted(methods.get(cls, {})):
            if entry(cls, name):
                xs.append((name, S.summarise(cls, methods[cls][name][0])))
        # inherited public methods are part of the class's interface too
        for b in bases.get(cls, []):
            for name in sorted(methods.get(b, {})):
                if name not in dict(xs) and entry(b, name):
                    xs.append((name, S.summarise(b, methods[b][name][0])))
        ms = [(name, plain_events(evs)) for name, evs in xs]
        # 'methods': the base table (atomic-member events are `atomic f`); 'xmethods': the same lists with the
        # atomic-member events split into ald / ast / armw
        table.append({'name': cls, 'fields': fl, 'methods': ms, 'xmethods': xs})
    return table, S.unclassified, raw_sizes


def emit_lean(table, path, note):
    # stable numbering of field / mutex names per class
    out = ['-- GENERATED by tools/gen_locktable.py from the clang AST of /repo\'s sources on every run. Do not edit.',
           '-- ' + note,
           'import RomeaModel.Lockset',
           'namespace Romea.Generated.C19',
           'open Romea.Lockset', '']
    cls_defs = []
    xcls_defs = []
    for c in table:
        names = []

        def idx(s):
            if s not in names:
                names.append(s)
            return names.index(s)
        ms = []
        for mname, evs in c['methods']:
            es = ', '.join('.%s %d' % (k, idx(f)) for k, f in evs)
            ms.append('    { name := "%s", evs := [%s] }' % (mname, es))
        mutexes = [idx(f) for f, t in c['fields'].items() if 'mutex' in t]
        for f in c['fields']:
            idx(f)
        ident = 'cls_' + c['name']
        out.append('/-- fields: %s -/' % ', '.join('%d=%s' % (i, n) for i, n in enumerate(names)))
        out.append('def %s : Class :=\n  { name := "%s", mutexes := %s, methods := [\n%s] }' % (
            ident, c['name'], '[' + ', '.join(map(str, mutexes)) + ']', ',\n'.join(ms)))
        out.append('')
        cls_defs.append(ident)
        # extended table entry (atomic-member events split into ald / ast / armw), same field numbering
        xms = c.get('xmethods') or []
        if any(k in XATOMIC for _, evs in xms for k, _ in evs):
            xl = []
            for mname, evs in xms:
                es = ', '.join('.%s %d' % (k, idx(f)) for k, f in evs)
                xl.append('    { name := "%s", evs := [%s] }' % (mname, es))
            out.append('/-- `%s` with the events of its atomic / internally synchronised members split into loads (`ald`), stores (`ast`) '
                       'and other uses (`armw`); same field numbers -/' % ident)
            out.append('def x%s : XClass :=\n  { name := "%s", mutexes := %s, methods := [\n%s] }' % (
                ident, c['name'], '[' + ', '.join(map(str, mutexes)) + ']', ',\n'.join(xl)))
            out.append('')
            xcls_defs.append('x' + ident)
        # the member names by field number, as DATA (used by RomeaProofs/Properties/C19Reports.lean to find `report_` and the
        # threshold members by name instead of by a hand-copied number; the numbering depends on the order of first access)
        out.append('/-- member names of `%s`, by field number -/' % ident)
        out.append('def fields_%s : List String := [%s]' % (c['name'], ', '.join('"%s"' % n for n in names)))
        out.append('')
    out.append('def xtable : List XClass := [%s]' % ', '.join(xcls_defs))
    out.append('def table : List Class := [%s]' % ', '.join(cls_defs))
    out.append('end Romea.Generated.C19')
    new = '\n'.join(out) + '\n'
    old = open(path).read() if os.path.exists(path) else ''
    if old != new:
        open(path, 'w').write(new)
        return True
    return False


def main():
    repo = sys.argv[1] if len(sys.argv) > 1 else '/repo'
    out = sys.argv[2] if len(sys.argv) > 2 else os.path.join(os.path.dirname(os.path.dirname(os.path.abspath(__file__))), 'lean/RomeaModel/Generated/LockTable.lean')
    import tempfile
    with tempfile.TemporaryDirectory() as d:
        table, uncls, sizes = build_table(repo, d)
    for c in table:
        print(c['name'], 'fields:', list(c['fields']))
        for m, evs in c.get('xmethods') or c['methods']:
            print('   ', m, ' '.join('%s(%s)' % e for e in evs))
    print('unclassified:', uncls)
    emit_lean(table, out, 'regenerated')


if __name__ == '__main__':
    main()
