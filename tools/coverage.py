#!/usr/bin/env python3
"""Line/branch coverage of the anchored C++ sources under the cases a check generates (development and
thorough-tier evidence aid: shows which anchored lines the correspondence check and the probe never execute,
i.e. where a behavioural change could hide from sampling).

usage: coverage.py Cxx [--tier quick|thorough] [--json out.json]

Builds harness + anchored sources from the working tree with `g++ --coverage -O0 -DNDEBUG`, runs the cases
(corpus + generated, same seed logic as check.py), and summarises gcov's JSON per anchored file: executable
lines, executed lines, and the line numbers never executed. Template headers are attributed through the
translation units that instantiate them.
"""
import gzip
import importlib
import json
import os
import shutil
import subprocess
import sys
import tempfile

HERE = os.path.dirname(os.path.abspath(__file__))
sys.path.insert(0, HERE)
import check  # noqa: E402
import vlib   # noqa: E402


def measure(pid, tier='quick', seed=1, jobs=12, cases=None, anchors_only=True):
    plugin = importlib.import_module('props.' + pid.lower())
    if not getattr(plugin, 'HARNESS', None):
        return {'skipped': 'no line-protocol harness'}
    scratch = tempfile.mkdtemp(prefix='romea_cov_%s_' % pid.lower(), dir=os.environ.get('VERIF_SCRATCH', '/tmp'))
    try:
        objdir = os.path.join(scratch, 'obj')
        os.makedirs(objdir)
        flags = ['-O0', '-DNDEBUG', '--coverage', '-std=c++17', '-D' + check.GUARD, '-I' + os.path.join(check.REPO, 'include'),
                 '-I/usr/include/eigen3', '-I' + os.path.join(check.VERIF, 'harness'), '-w'] + list(getattr(plugin, 'EXTRA_FLAGS', []))
        srcs = [os.path.join(check.VERIF, 'harness', plugin.HARNESS)] + [os.path.join(check.REPO, s) for s in plugin.SOURCES]
        procs = []
        for i, src in enumerate(srcs):
            procs.append(subprocess.Popen(['g++'] + flags + ['-c', src, '-o', os.path.join(objdir, '%d.o' % i)],
                                          stdout=subprocess.PIPE, stderr=subprocess.STDOUT, text=True))
        for p in procs:
            out, _ = p.communicate()
            if p.returncode != 0:
                return {'error': 'coverage build failed', 'log': out[-1500:]}
        exe = os.path.join(scratch, 'harness_cov')
        r = subprocess.run(['g++', '--coverage'] + [os.path.join(objdir, '%d.o' % i) for i in range(len(srcs))] +
                           ['-o', exe, '-lpthread'] + list(getattr(plugin, 'LINK_FLAGS', [])), stdout=subprocess.PIPE, stderr=subprocess.STDOUT, text=True)
        if r.returncode != 0:
            return {'error': 'coverage link failed', 'log': r.stdout[-1500:]}
        if cases is None:
            rng = vlib.Rng(seed * 1000003 + sum(map(ord, pid)))
            cases = check.load_corpus(pid) + plugin.gen_cases(rng.fork(), tier)
        # one process at a time per chunk is fine: gcda files are merged atomically by libgcov on exit
        check.run_parallel(exe, cases, jobs, max(getattr(plugin, 'HANG_SECS', 20) * 10, 120))
        lines = {}   # file -> {line: count}
        funcs = {}
        for i in range(len(srcs)):
            gcda = os.path.join(objdir, '%d.gcda' % i)
            if not os.path.exists(gcda):
                continue
            r = subprocess.run(['gcov', '--json-format', '--stdout', '-b', gcda], cwd=objdir, stdout=subprocess.PIPE, stderr=subprocess.DEVNULL)
            try:
                data = json.loads(r.stdout.decode())
            except Exception:
                continue
            for f in data.get('files', []):
                fn = os.path.normpath(os.path.join(objdir, f['file'])) if not os.path.isabs(f['file']) else f['file']
                if not fn.startswith(os.path.realpath(check.REPO) + '/') and not fn.startswith(check.REPO + '/'):
                    continue
                rel = os.path.relpath(fn, check.REPO)
                d = lines.setdefault(rel, {})
                for l in f.get('lines', []):
                    d[l['line_number']] = d.get(l['line_number'], 0) + l['count']
                fd = funcs.setdefault(rel, {})
                for fu in f.get('functions', []):
                    k = (fu.get('demangled_name') or fu['name'])
                    fd[k] = fd.get(k, 0) + fu.get('execution_count', 0)
        anchors = anchor_files(pid) if anchors_only else None
        res = {'files': {}, 'cases': len(cases)}
        tot_e = tot_x = 0
        for rel, d in sorted(lines.items()):
            if anchors is not None and rel not in anchors:
                continue
            if 'nanoflann' in rel and pid != 'C08':
                continue
            ex = len(d)
            hit = sum(1 for c in d.values() if c > 0)
            miss = sorted(l for l, c in d.items() if c == 0)
            tot_e += ex
            tot_x += hit
            res['files'][rel] = {'executable_lines': ex, 'executed': hit, 'never_executed': miss[:200]}
        res['executable_lines'] = tot_e
        res['executed_lines'] = tot_x
        res['line_coverage'] = round(tot_x / tot_e, 4) if tot_e else None
        return res
    finally:
        shutil.rmtree(scratch, ignore_errors=True)


def anchor_files(pid):
    for l in open(os.path.join(check.VERIF, 'properties.jsonl')):
        p = json.loads(l)
        if p['id'] == pid:
            return set(p['anchors']['files'])
    return set()


if __name__ == '__main__':
    pid = sys.argv[1].upper()
    tier = sys.argv[sys.argv.index('--tier') + 1] if '--tier' in sys.argv else 'quick'
    res = measure(pid, tier, int(os.environ.get('VERIF_SEED', '1') or 1), anchors_only='--all' not in sys.argv)
    if '--json' in sys.argv:
        json.dump(res, open(sys.argv[sys.argv.index('--json') + 1], 'w'), indent=1)
    for f, d in res.get('files', {}).items():
        print('%-90s %4d/%4d  never: %s' % (f, d['executed'], d['executable_lines'], d['never_executed'][:40]))
    print({k: v for k, v in res.items() if k != 'files'})
