"""Shared helpers for the verification checks: PRNG, float/bit conversions, comparison."""
import math
import struct

MASK = (1 << 64) - 1


class Rng:
    """splitmix64; every random choice of a run derives from one VERIF_SEED state."""

    def __init__(self, seed):
        self.s = (seed * 0x9E3779B97F4A7C15 + 0x1234567) & MASK

    def u64(self):
        self.s = (self.s + 0x9E3779B97F4A7C15) & MASK
        z = self.s
        z = ((z ^ (z >> 30)) * 0xBF58476D1CE4E5B9) & MASK
        z = ((z ^ (z >> 27)) * 0x94D049BB133111EB) & MASK
        return z ^ (z >> 31)

    def below(self, n):
        return self.u64() % n if n > 0 else 0

    def int(self, lo, hi):
        """uniform integer in [lo, hi]"""
        return lo + self.below(hi - lo + 1)

    def unit(self):
        return (self.u64() >> 11) / float(1 << 53)

    def uniform(self, lo, hi):
        return lo + (hi - lo) * self.unit()

    def chance(self, p):
        return self.unit() < p

    def choice(self, seq):
        return seq[self.below(len(seq))]

    def gauss(self):
        u1 = max(self.unit(), 1e-300)
        u2 = self.unit()
        return math.sqrt(-2.0 * math.log(u1)) * math.cos(2 * math.pi * u2)

    def loguniform(self, lo, hi):
        return math.exp(self.uniform(math.log(lo), math.log(hi)))

    def shuffle(self, l):
        for i in range(len(l) - 1, 0, -1):
            j = self.below(i + 1)
            l[i], l[j] = l[j], l[i]
        return l

    def fork(self):
        return Rng(self.u64())


def f64_bits(x):
    return struct.unpack('<Q', struct.pack('<d', x))[0]


def bits_f64(b):
    return struct.unpack('<d', struct.pack('<Q', b & MASK))[0]


def f32_bits(x):
    return struct.unpack('<I', struct.pack('<f', x))[0]


def bits_f32(b):
    return struct.unpack('<f', struct.pack('<I', b & 0xFFFFFFFF))[0]


def to_f32(x):
    """round a python float to binary32"""
    return bits_f32(f32_bits(x))


def D(x):
    """protocol token of a binary64 value"""
    return 'd%d' % f64_bits(float(x))


def S(x):
    """protocol token of a binary32 value"""
    return 's%d' % f32_bits(float(x))


def is_float_tok(t):
    return t == 'nan' or (len(t) > 1 and t[0] in 'ds' and t[1:].isdigit())


def tok_val(t):
    """decode d<bits>/s<bits>/nan -> python float"""
    if t == 'nan':
        return float('nan')
    if t[0] == 'd':
        return bits_f64(int(t[1:]))
    if t[0] == 's':
        return bits_f32(int(t[1:]))
    raise ValueError(t)


def nextafter(x, direction):
    return math.nextafter(x, direction)



def ulp_dist(ta, tb):
    """distance in units in the last place between two float tokens of the same width"""
    if ta == 'nan' or tb == 'nan':
        return 0 if ta == tb else float('inf')
    if ta[0] != tb[0]:
        return float('inf')
    width = 64 if ta[0] == 'd' else 32
    a, b = int(ta[1:]), int(tb[1:])
    sign = 1 << (width - 1)
    oa = -(a & (sign - 1)) if a & sign else a
    ob = -(b & (sign - 1)) if b & sign else b
    return abs(oa - ob)


def float_close(ta, tb, ulps=64, abs_tol=0.0, rel_tol=0.0):
    if ta == tb:
        return True
    if ta == 'nan' or tb == 'nan':
        return False
    if ulp_dist(ta, tb) <= ulps:
        return True
    a, b = tok_val(ta), tok_val(tb)
    if math.isinf(a) or math.isinf(b):
        return a == b
    d = abs(a - b)
    return d <= abs_tol or d <= rel_tol * max(abs(a), abs(b))


def lines_agree(impl, model, ulps=64, abs_tol=0.0, rel_tol=0.0):
    """token-wise comparison of two canonical output lines"""
    a, b = impl.split(), model.split()
    if len(a) != len(b):
        return False
    for x, y in zip(a, b):
        if x == y:
            continue
        if is_float_tok(x) and is_float_tok(y):
            if not float_close(x, y, ulps, abs_tol, rel_tol):
                return False
        else:
            return False
    return True
