/-!
# Scrolling (wrappable) grid (C15)

Mirrors `include/romea_core_common/containers/grid/Grid.hpp` and
`include/romea_core_common/containers/grid/WrappableGrid.hpp` as they are at /repo's HEAD (after the
commit "fix: WrappableGrid::translate accumulates the offset and blanks the slabs that leave the window").

Concrete state = the C++ members: `numberOfCellsAlongAxes_` (`dims`), `indexOffsetsAlongAxes_` (`off`) and
the linear `buffer_` (`buf`). The model is dimension-generic (lists); the C++ instantiates DIM = 2 and 3.
Index arithmetic (`size_t`) is over `Nat`; the `long long` arithmetic of `translate` is over `Int` with the
C++ truncating `%` (`Int.tmod`), `static_cast<size_t>` and the `size_t` additions are explicit
(`toSizeT`, `% two64`). `RomeaProofs/Properties/C15.lean` proves that on the stated side conditions
(every offset fits a C++ `int`, every axis has fewer than 2^62 cells) no `long long` operation leaves the
64-bit range and the explicit wrap-arounds are the identity.

The abstract specification (`Spec`) is at the end of the file: a window `List Nat → T` that a translation
re-indexes by the offset, blanking what enters.
-/
namespace Romea.WrapGrid

/-! ### Grid.hpp -/

/-- number of cells = `numberOfCellsAlongAxes_.array().prod()` (Grid.hpp:97, size of `buffer_`) -/
def cellCount : List Nat → Nat
  | [] => 1
  | n :: ns => n * cellCount ns

/-- `indexCoefficients_` = (1, n0, n1*n0) (Grid.hpp:99-102), for any number of axes: (1, n0, n0*n1, …) -/
def coeffs : List Nat → List Nat
  | [] => []
  | n :: ns => 1 :: (coeffs ns).map (n * ·)

/-- `a.dot(b)` of two index vectors -/
def dot : List Nat → List Nat → Nat
  | a :: as, b :: bs => a * b + dot as bs
  | _, _ => 0

/-- `wrapCellIndexes_` (WrappableGrid.hpp:71-91): `(cellIndexes[a] + indexOffsetsAlongAxes_[a]) % n[a]` per axis -/
def wrap : (dims off idx : List Nat) → List Nat
  | n :: ns, o :: os, i :: is => (i + o) % n :: wrap ns os is
  | _, _, _ => []

structure WGrid (T : Type) where
  dims : List Nat       -- numberOfCellsAlongAxes_
  off : List Nat        -- indexOffsetsAlongAxes_
  buf : List T          -- buffer_

variable {T : Type}

/-- constructor (WrappableGrid.hpp:61-66, Grid::init) followed by `setValue(v)` (Grid.hpp:153-156) -/
def WGrid.init (dims : List Nat) (v : T) : WGrid T :=
  { dims := dims, off := dims.map (fun _ => 0), buf := List.replicate (cellCount dims) v }

/-- `computeCellLinearIndex_` (WrappableGrid.hpp:95-98): wrapped indexes dot `indexCoefficients_` -/
def WGrid.linIdx (g : WGrid T) (idx : List Nat) : Nat :=
  dot (wrap g.dims g.off idx) (coeffs g.dims)

/-- `operator()(cellIndexes) const` (WrappableGrid.hpp:109-112) -/
def WGrid.get [Inhabited T] (g : WGrid T) (idx : List Nat) : T :=
  g.buf.getD (g.linIdx idx) default

/-- assignment through `operator()(cellIndexes)` (WrappableGrid.hpp:102-105) -/
def WGrid.set (g : WGrid T) (idx : List Nat) (v : T) : WGrid T :=
  { g with buf := g.buf.set (g.linIdx idx) v }

/-! ### WrappableGrid::translate (WrappableGrid.hpp:125-165) -/

def two64 : Nat := 2 ^ 64

/-- `static_cast<size_t>(x)` of a `long long` -/
def toSizeT (x : Int) : Nat := (x % (2 ^ 64 : Int)).toNat

/-- line 140: `numberOfSlabs = std::min(offset > 0 ? offset : -offset, numberOfCells)` -/
def numberOfSlabs (n : Nat) (offset : Int) : Int :=
  min (if offset > 0 then offset else -offset) (n : Int)

/-- line 141: `firstSlab = offset > 0 ? 0 : static_cast<size_t>(numberOfCells - numberOfSlabs)` -/
def firstSlab (n : Nat) (offset : Int) : Nat :=
  if offset > 0 then 0 else toSizeT ((n : Int) - numberOfSlabs n offset)

/-- line 142: `lastSlab = firstSlab + static_cast<size_t>(numberOfSlabs)` (`size_t` addition) -/
def lastSlab (n : Nat) (offset : Int) : Nat :=
  (firstSlab n offset + toSizeT (numberOfSlabs n offset)) % two64

/-- line 160: `wrappedOffset = ((offset % numberOfCells) + numberOfCells) % numberOfCells`, C++ `%` truncates -/
def wrappedOffset (n : Nat) (offset : Int) : Int :=
  ((offset.tmod (n : Int)) + (n : Int)).tmod (n : Int)

/-- lines 161-163: `(indexOffsetsAlongAxes_[axis] + static_cast<size_t>(wrappedOffset)) % n` in `size_t` -/
def newOffset (n o : Nat) (offset : Int) : Nat :=
  ((o + toSizeT (wrappedOffset n offset)) % two64) % n

/-- lines 150-151: per axis `a` the odometer runs over `[begin, end)` with
    `begin = (a == axis) ? firstSlab : 0`, `end = (a == axis) ? lastSlab : n[a]` -/
def slabRanges : (dims : List Nat) → (axis first last : Nat) → List (Nat × Nat)
  | [], _, _, _ => []
  | _ :: ns, 0, first, last => (first, last) :: ns.map (fun n => (0, n))
  | n :: ns, axis + 1, first, last => (0, n) :: slabRanges ns axis first last

/-- all multi-indexes of a box of ranges in odometer order (axis 0 runs fastest), i.e. the sequence of values
    `cellIndexes` takes in the loop of lines 144-158 (the loop is a do-while: it visits `firstSlab` before
    testing; for a well-formed grid and `offset != 0` the box is non-empty, so this makes no difference). -/
def box : List (Nat × Nat) → List (List Nat)
  | [] => [[]]
  | (lo, hi) :: rs => (box rs).flatMap (fun tl => (List.range' lo (hi - lo)).map (· :: tl))

/-- one iteration of the `for (axis …)` loop (lines 133-164) -/
def WGrid.translateAxis (g : WGrid T) (axis : Nat) (offset : Int) (e : T) : WGrid T :=
  let n := g.dims.getD axis 0
  if offset = 0 then g            -- lines 136-138: `continue`
  else
    let cells := box (slabRanges g.dims axis (firstSlab n offset) (lastSlab n offset))
    -- line 147: `buffer_[computeCellLinearIndex_(cellIndexes)] = emptyValue` through the CURRENT offsets
    let buf := cells.foldl (fun b c => b.set (g.linIdx c) e) g.buf
    { g with buf := buf, off := g.off.set axis (newOffset n (g.off.getD axis 0) offset) }

/-- `translate(indexOffset, emptyValue)`: the axes are processed one after the other (line 133) -/
def WGrid.translate (g : WGrid T) (δ : List Int) (e : T) : WGrid T :=
  (List.range g.dims.length).foldl (fun g a => g.translateAxis a (δ.getD a 0) e) g

/-- `getIndexOffsetAlongAxes()` -/
def WGrid.reportedOffset (g : WGrid T) : List Nat := g.off

/-- operations of a history -/
inductive Op (T : Type)
  | set (i : List Nat) (v : T)
  | tr (δ : List Int) (e : T)

def WGrid.step (g : WGrid T) : Op T → WGrid T
  | .set i v => g.set i v
  | .tr δ e => g.translate δ e

def WGrid.run (g : WGrid T) (ops : List (Op T)) : WGrid T := ops.foldl WGrid.step g

/-- all cells in logical odometer order (for the dump) -/
def WGrid.logicalCells [Inhabited T] (g : WGrid T) : List T :=
  (box (g.dims.map (fun n => (0, n)))).map g.get

/-! ### Abstract specification -/

/-- a window: contents by logical multi-index (only in-range indexes matter) -/
abbrev Window (T : Type) := List Nat → T

/-- logical index in range: one coordinate per axis, each below the number of cells -/
def InRange : (dims idx : List Nat) → Prop
  | [], [] => True
  | n :: ns, i :: is => i < n ∧ InRange ns is
  | _, _ => False

instance : (dims idx : List Nat) → Decidable (InRange dims idx)
  | [], [] => isTrue trivial
  | n :: ns, i :: is =>
    have := instDecidableInRange ns is
    if h : i < n ∧ InRange ns is then isTrue h else isFalse h
  | [], _ :: _ => isFalse (fun h => h)
  | _ :: _, [] => isFalse (fun h => h)

/-- `i + δ` per axis, as integers -/
def shift (i : List Nat) (δ : List Int) : List Int := List.zipWith (fun (x : Nat) (d : Int) => (x : Int) + d) i δ

/-- a (possibly shifted) integer multi-index lies inside the window: `0 ≤ x_a < n_a` on every axis -/
def inWindow : (dims : List Nat) → (x : List Int) → Bool
  | [], [] => true
  | n :: ns, x :: xs => decide (0 ≤ x ∧ x < (n : Int)) && inWindow ns xs
  | _, _ => false

namespace Spec

/-- after `translate δ e` the cell of logical index `i` reads what `i + δ` read before if `i + δ` is inside the
    window, else the empty value `e` -/
def translate (dims : List Nat) (δ : List Int) (e : T) (w : Window T) : Window T :=
  fun i => if inWindow dims (shift i δ) then w ((shift i δ).map Int.toNat) else e

def set (j : List Nat) (v : T) (w : Window T) : Window T :=
  fun i => if i = j then v else w i

def step (dims : List Nat) (w : Window T) : Op T → Window T
  | .set j v => set j v w
  | .tr δ e => translate dims δ e w

end Spec

end Romea.WrapGrid
