import RomeaModel.Registration

/-!
# Executable SVD oracle for the registration model (driver side only)

One-sided (Hestenes) Jacobi SVD of a small square matrix, polymorphic in the scalar so that it runs at
`Float` and `Float32`.  It stands in for `Eigen::JacobiSVD` in the model driver: nothing is proved about
it, the theorems quantify over every oracle with the contract `IsSVD`, the C++ harness checks the contract
residuals of Eigen's own output at run time, and oracle-dependent results are compared within tolerance.

`G := A / max|A|`, `V := 1`; plane rotations are applied on the right of both until the columns of `G` are mutually
orthogonal (relative criterion); then `σ_j = ‖G_j‖`, `U_j = G_j / σ_j`, sorted in descending order; columns
of `U` belonging to a negligible `σ_j` are completed by Gram–Schmidt against the coordinate axes.
-/
namespace Romea.Registration.Oracle
open Romea Romea.Registration

section
variable {α : Type} [Add α] [Sub α] [Mul α] [Div α] [Neg α] [LT α] [DecidableLT α] [NatCast α]
  [Trans α] [Limits α]

/-- state: columns of `G` and of `V` as arrays of column vectors -/
structure JS (α : Type) where
  g : Array (Array α)     -- g[j] = column j
  v : Array (Array α)

def dot (a b : Array α) : α := Id.run do
  let mut s : α := zero
  for i in [0:a.size] do
    s := s + a.getD i zero * b.getD i zero
  return s

def axpby (c : α) (a : Array α) (s : α) (b : Array α) : Array α :=
  (Array.range a.size).map (fun i => c * a.getD i zero + s * b.getD i zero)

/-- one rotation of the column pair (p, q); returns the new state and whether a rotation was applied -/
def rotate (st : JS α) (p q : Nat) : JS α × Bool :=
  let gp := st.g.getD p #[]
  let gq := st.g.getD q #[]
  let alpha := dot gp gp
  let beta := dot gq gq
  let gamma := dot gp gq
  let thr := Limits.eps * (Trans.sqrt alpha * Trans.sqrt beta)
  if Trans.abs gamma > thr then
    let two : α := ((2 : Nat) : α)
    let zeta := (beta - alpha) / (two * gamma)
    let az := Trans.abs zeta
    let t0 := one / (az + Trans.sqrt (one + zeta * zeta))
    let t := if zeta < zero then -t0 else t0
    let c := one / Trans.sqrt (one + t * t)
    let s := c * t
    let vp := st.v.getD p #[]
    let vq := st.v.getD q #[]
    ({ g := (st.g.set! p (axpby c gp (-s) gq)).set! q (axpby s gp c gq),
       v := (st.v.set! p (axpby c vp (-s) vq)).set! q (axpby s vp c vq) }, true)
  else (st, false)

def sweep (d : Nat) (st : JS α) : JS α × Bool := Id.run do
  let mut s := st
  let mut any := false
  for p in [0:d] do
    for q in [p+1:d] do
      let (s', r) := rotate s p q
      s := s'
      any := any || r
  return (s, any)

def sweeps (d : Nat) : Nat → JS α → JS α
  | 0, st => st
  | fuel + 1, st =>
    let (st', any) := sweep d st
    if any then sweeps d fuel st' else st'

def unitAxis (d k : Nat) : Array α := (Array.range d).map (fun i => if i = k then one else zero)

def scaleArr (c : α) (a : Array α) : Array α := a.map (fun x => c * x)

/-- remove from `w` its components along the (orthonormal) vectors `basis` -/
def projectOut (basis : Array (Array α)) (w : Array α) : Array α :=
  basis.foldl (fun w b => axpby one w (-(dot b w)) b) w

/-- a unit vector orthogonal to `basis`: the coordinate axis with the largest residual, re-orthogonalised -/
def complete (d : Nat) (basis : Array (Array α)) : Array α := Id.run do
  let mut best : Array α := unitAxis d 0
  let mut bestN : α := -one
  for k in [0:d] do
    let w := projectOut basis (projectOut basis (unitAxis d k))
    let n := dot w w
    if n > bestN then
      best := w
      bestN := n
  let w := projectOut basis best
  return scaleArr (one / Trans.sqrt (dot w w)) w

/-- indices `0..d-1` sorted by descending key (repeated selection of the first maximum) -/
def sortDesc (keys : Array α) : Array Nat := Id.run do
  let mut remaining : List Nat := List.range keys.size
  let mut out : Array Nat := #[]
  for _ in [0:keys.size] do
    match remaining with
    | [] => pure ()
    | r0 :: rs =>
      let mut m := r0
      for j in rs do
        if keys.getD j zero > keys.getD m zero then m := j
      out := out.push m
      remaining := remaining.filter (· != m)
  return out

/-- the oracle: `A = U · diag S · Vᵀ`, `U`, `V` orthogonal, `S` non-negative descending -/
def jacobiSVD (d : Nat) (A : Mat d d α) : SVD d α :=
  -- scale by the largest |entry| (as Eigen does) so that squares neither overflow nor underflow in binary32
  let amax : α := (List.finRange d).foldl (fun m i => (List.finRange d).foldl (fun m j =>
    let x := Trans.abs (A i j); if x > m then x else m) m) zero
  let scale : α := if amax > zero then amax else one
  let cols : Array (Array α) := (Array.range d).map (fun j => (Array.range d).map (fun i =>
    if h : i < d ∧ j < d then A ⟨i, h.1⟩ ⟨j, h.2⟩ / scale else zero))
  let eye : Array (Array α) := (Array.range d).map (fun j => unitAxis d j)
  let st := sweeps d 60 { g := cols, v := eye }
  let sig : Array α := st.g.map (fun c => Trans.sqrt (dot c c))
  let order := sortDesc sig
  let sigS : Array α := order.map (fun k => sig.getD k zero)
  let gS : Array (Array α) := order.map (fun k => st.g.getD k #[])
  let vS : Array (Array α) := order.map (fun k => st.v.getD k #[])
  let smax := sigS.getD 0 zero
  let tiny := Limits.eps * ((d : Nat) : α) * smax
  -- U: normalised columns where σ is significant, completed otherwise
  let uS : Array (Array α) := Id.run do
    let mut acc : Array (Array α) := #[]
    for j in [0:d] do
      let s := sigS.getD j zero
      if s > tiny then
        acc := acc.push (scaleArr (one / s) (gS.getD j #[]))
      else
        acc := acc.push (complete d acc)
    return acc
  { U := fun i j => (uS.getD j.1 #[]).getD i.1 zero,
    S := fun j => sigS.getD j.1 zero * scale,
    V := fun i j => (vS.getD j.1 #[]).getD i.1 zero }

end
end Romea.Registration.Oracle
