import RomeaModel.Ransac
import RomeaModel.Sampler

/-!
# The RANSAC skeleton with the REAL sampler as its draw oracle (C06)

`RomeaModel/Ransac.lean` models `Ransac::estimateModel` over an abstract `RansacModel` (`ModelOps`) and the rigid-transformation
model `Rigid` whose `draw` consumes a scripted list of oracle outputs (`todo`); `RomeaModel/Sampler.lean` models
`RansacRandomCorrespondences` (engine, weights, `drawPoints`).  This file composes them, mirroring
`RansacRigidTransformationModel<PointType>::draw` (`src/transform/estimation/RansacRigidTransformationModel.cpp:231-251`):

```
std::vector<Correspondence> sampleCorrespondences =
  randomCorrespondences_.drawPoints(*sourcePoints_, *correspondences_, getNumberOfPointsToDrawModel());   // :233-237
compute_(precondionedSourcePoints_, precondionedTargetPoints_, sampleCorrespondences);                    // :241-244
return check_(*sourcePoints_, *targetPoints_, sampleCorrespondences, modelDeviationError);                // :246-250
```

The sampler object is a member of the model (`randomCorrespondences_`, `RansacRigidTransformationModel.hpp:125`): its `State` is
threaded through the iterations of `estimateModel` (and, since ICP calls `estimateModel` on the same object again and again, through
successive runs: every theorem starts from an ARBITRARY sampler state).  What stays an oracle is the geometry behind the sample:
`compute_` (SVD / least squares on the drawn correspondences), `check_`, and the per-correspondence errors `countInliers` computes
under the resulting transformation — `Scene.geom`, a function of the number of `draw` calls made before (so that it generalises a
scripted list) and of the DRAWN INDEXES (so that the candidate is tied to the sample).  Nothing of the existing definitions is changed:
`sampledOps` re-uses `rigidOps` for `countInliers` / `refine` / the sizes.  Core Lean only.
-/
namespace Romea.RansacSampled
open Romea.Ransac

/-- what `draw` reads besides the object's own state: `*sourcePoints_` (raw, not preconditioned), `*correspondences_` as the sampler
    reads them (source index, target index, weight), the measured Eigen summation order of the point type, and the geometry oracle -/
structure Scene (α β : Type) where
  order : Sampler.SumOrder
  pts : Array (List β)
  corrs : List (Sampler.Corr α)
  /-- `geom i sample`: the `i`-th `draw` call (counted from 0 on this object), having drawn the correspondences `sample` (indexes into
      `corrs`, in drawing order): verdict of `check_` and the squared errors of the sorted correspondences under `compute_`'s result -/
  geom : Nat → List Nat → Candidate α

/-- the rigid-transformation model WITH its sampler member; `samples` is a ghost log of the index lists drawn so far (oldest first) -/
structure Sampled (α β : Type) where
  rigid : Rigid α
  smp : Sampler.State α β
  samples : List (List Nat)

section
variable {α β : Type}
variable [Add α] [Sub α] [Mul α] [Div α] [LT α] [DecidableLT α] [LE α] [DecidableLE α] [NatCast α] [Trans α]
variable [Add β] [Sub β] [Mul β] [Div β] [Neg β] [NatCast β] [Trans β] [Sampler.Widen β α]

/-- `RansacRigidTransformationModel::draw` (.cpp:231-251) with the real sampler: draw `getNumberOfPointsToDrawModel()` correspondences,
    hand them to the geometry, keep the new sampler state -/
def drawSampled (sc : Scene α β) (s : Sampled α β) : Sampled α β × Bool :=
  let r := s.smp.drawPoints sc.order sc.pts sc.corrs (nDrawOf s.rigid.dim)                  -- :233-237
  let c := sc.geom s.samples.length r.2                                                     -- :241-250 (+ the errors of :270-272)
  ({ rigid := { s.rigid with current := c.errs }, smp := r.1, samples := s.samples ++ [r.2] }, c.ok)

/-- the composed `RansacModel`: sizes, `countInliers` and `refine` are the skeleton's (`rigidOps`), `draw` is `drawSampled` -/
def sampledOps (sc : Scene α β) (cast : α → α) : ModelOps (Sampled α β) where
  nPts s := (rigidOps cast).nPts s.rigid
  nDraw s := (rigidOps cast).nDraw s.rigid
  minInl s := (rigidOps cast).minInl s.rigid
  draw s := drawSampled sc s
  count s := ({ s with rigid := ((rigidOps cast).count s.rigid).1 }, ((rigidOps cast).count s.rigid).2)
  refine s := { s with rigid := (rigidOps cast).refine s.rigid }

/-- the sampler's own sequence: the index lists returned by `n` successive `drawPoints(…, k)` calls from state `st` -/
def sampleSeq (sc : Scene α β) (k : Nat) : Nat → Sampler.State α β → List (List Nat)
  | 0, _ => []
  | n + 1, st =>
    let r := st.drawPoints sc.order sc.pts sc.corrs k
    r.2 :: sampleSeq sc k n r.1

/-- the sampler state behind `n` successive `drawPoints(…, k)` calls -/
def smpAfter (sc : Scene α β) (k : Nat) : Nat → Sampler.State α β → Sampler.State α β
  | 0, st => st
  | n + 1, st => smpAfter sc k n (st.drawPoints sc.order sc.pts sc.corrs k).1

/-- the oracle outputs the geometry produces on the sampler's own sequence, `draw` calls numbered from `i` -/
def candSeq (sc : Scene α β) (k : Nat) : Nat → Nat → Sampler.State α β → List (Candidate α)
  | _, 0, _ => []
  | i, n + 1, st =>
    let r := st.drawPoints sc.order sc.pts sc.corrs k
    sc.geom i r.2 :: candSeq sc k (i + 1) n r.1

/-- the skeleton's view of a composed state: the same rigid model whose scripted oracle list `todo` holds what the sampler and the
    geometry are going to produce during the next `n` draws -/
def toRigid (sc : Scene α β) (n : Nat) (s : Sampled α β) : Rigid α :=
  { s.rigid with todo := candSeq sc (nDrawOf s.rigid.dim) s.samples.length n s.smp }

/-- a freshly constructed composed model: default-constructed sampler (`State.init`: engine seeded with 1, zero `scale_`), no draw yet -/
def Sampled.fresh (rigid : Rigid α) (size : Nat) : Sampled α β :=
  { rigid := rigid, smp := Sampler.State.init size, samples := [] }

end

end Romea.RansacSampled
