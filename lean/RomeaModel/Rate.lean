import RomeaModel.Checkup
import RomeaModel.Generated.ConstantsC17
/-!
# Rate monitor and rate check-ups (C17)

Mirrors `src/monitoring/RateMonitoring.cpp` and `src/diagnostics/CheckupRate.cpp`.
Time is integer nanoseconds (`Duration = std::chrono::duration<long long, std::nano>`).
The rate is kept symbolically: `none` = the stored `0.`, `some s` = `1e9 / (s / double(W))` where `s`
is the sum of the last `W` periods; the driver evaluates that formula at `Float`, the theorems at `ℝ`.
The literal constants (window clamp 4..64, 0.5 s timeout) are regenerated from the source.
-/
namespace Romea.Rate
open Romea.Generated.C17

structure Mon where
  W : Nat               -- windowSize_
  last : Int            -- lastDuration_ (ns)
  q : List Int          -- periods_ (front = head)
  sum : Int             -- periodsSum_
  rate : Option Int     -- rate_: none = 0., some s = 1e9 / (s / W)
  deriving Repr

/-- `initialize`: `clamp(static_cast<size_t>(2 * expectedRate), MINIMAL, MAXIMAL)`; the argument is the
    already truncated `2 * expectedRate`. -/
def windowOf (twiceRate : Nat) : Nat := min (max twiceRate minWindow) maxWindow

def Mon.init (W : Nat) : Mon := { W := W, last := 0, q := [], sum := 0, rate := none }

/-- `update(stamp)` (RateMonitoring.cpp:74-93) -/
def Mon.update (m : Mon) (t : Int) : Mon :=
  let p := t - m.last
  let q := m.q ++ [p]
  let sum := m.sum + p
  if q.length = m.W + 1 then
    let sum' := sum - q.headD 0
    { m with q := q.tail, sum := sum', rate := some sum', last := t }
  else
    { m with q := q, sum := sum, last := t }

/-- `timeout(stamp)`: `!periods_.empty() && durationToSecond(stamp - last) > 0.5`.
    (`count / 1e9 > 0.5` in double is equivalent to `count > 5·10^8` for |count| < 2^53.) -/
def Mon.timeout (m : Mon) (t : Int) : Mon × Bool :=
  if m.q ≠ [] ∧ t - m.last > timeoutNs then ({ m with rate := none }, true) else (m, false)

inductive Ev | stamp (t : Int) | hb (t : Int)
  deriving Repr

def Mon.step (m : Mon) : Ev → Mon
  | .stamp t => m.update t
  | .hb t => (m.timeout t).1

def Mon.run (m : Mon) (evs : List Ev) : Mon := evs.foldl Mon.step m

def stamps : List Ev → List Int
  | [] => []
  | .stamp t :: r => t :: stamps r
  | .hb _ :: r => stamps r

/-! ### CheckupRate -/

/-- `CheckupRate<CheckupType>`: the monitor plus an equal-to / greater-than check-up constructed with
    `Diagnostic(ERROR, "no data received from " + name)` (message class `initial`). -/
structure CR (α : Type) where
  mon : Mon
  chk : Checkup.State α

section
variable {α : Type} [Add α] [Sub α] [LT α] [DecidableLT α]

def CR.init (k : Checkup.Kind) (rate eps : α) (W : Nat) : CR α :=
  { mon := Mon.init W, chk := Checkup.init k rate eps .error }

/-- `evaluate(stamp)`: `rate = rateMonitoring_.update(stamp); return checkup_.evaluate(rate)`.
    `val W r` turns the symbolic rate into the scalar the check-up sees. -/
def CR.stamp (val : Nat → Option Int → α) (c : CR α) (t : Int) : CR α × Checkup.Status :=
  let m := c.mon.update t
  let (chk, st) := Checkup.evaluate c.chk (val m.W m.rate)
  ({ mon := m, chk := chk }, st)

/-- `heartBeatCallback(stamp)`: on timeout the check-up goes STALE and `false` is returned. -/
def CR.heartbeat (c : CR α) (t : Int) : CR α × Bool :=
  let (m, to) := c.mon.timeout t
  if to then ({ mon := m, chk := Checkup.timeout c.chk }, false) else ({ c with mon := m }, true)

def CR.step (val : Nat → Option Int → α) (c : CR α) : Ev → CR α
  | .stamp t => (c.stamp val t).1
  | .hb t => (c.heartbeat t).1

def CR.run (val : Nat → Option Int → α) (c : CR α) (evs : List Ev) : CR α := evs.foldl (CR.step val) c
end

end Romea.Rate
