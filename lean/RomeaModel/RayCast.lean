import RomeaModel.Scalar

/-!
# Ray casting through a regular grid (C14)

Mirrors, as a state machine,
* `src/containers/grid/RayTracing.cpp` (`RayCasting<Scalar, DIM>`: `setOriginPoint`, `setEndPoint`,
  `computeRayNumberOfCells`, `next` — the four explicit specialisations —, `cast` ×3), with the members of
  `include/romea_core_common/containers/grid/RayTracing.hpp:67-78` as the `State`,
* the part of `src/containers/grid/GridIndexMapping.cpp` it uses (constructor: origin snapping and number of
  cells, `computeCellIndexes`, `computeCellCenterPosition`, `getCellResolution`).  This is a private minimal
  copy (C13 has its own model of that class).

The scalar type is a parameter: the driver runs the definitions at `Float` (`double`) and `Float32`
(`float`), the theorems are stated at `ℝ` and `RN`.  Vectors are core `Vector`s (strict, O(1) access), built
pointwise with `build`; `CellIndexes` (`Eigen::Matrix<size_t, DIM, 1>`) are `Int`s kept in `[0, 2^64)` by
`wrap64`, because `cellIndexes[i] += rayStep_[i]` adds an `int` to a `size_t` (RayTracing.cpp:201), i.e.
works modulo 2^64.

Things the C++ leaves undefined and the model totalises (the generators stay clear of them, the harness and
the driver both answer `bad-op`): a negative or huge float → `size_t` conversion (`computeCellIndexes` of a
point outside the grid), reading the centre table outside `[0, N)` (`setEndPoint` with an origin outside the
grid), `int` overflow in `computeRayNumberOfCells`.
-/
namespace Romea.RayCast

/-! ### fixed-width integers -/

/-- 2^64 -/
def two64 : Int := 18446744073709551616
/-- `size_t` arithmetic -/
def wrap64 (x : Int) : Int := x % two64
/-- `Eigen cast<int>()` of a `size_t`: truncation to 32 bits, two's complement -/
def toInt32 (x : Int) : Int := (x + 2147483648) % 4294967296 - 2147483648
/-- `Eigen abs()` on `int` -/
def iabs (x : Int) : Int := if x < 0 then -x else x

/-! ### small vectors -/

abbrev Vec (d : Nat) (α : Type) := Vector α d

/-- component `i` -/
@[inline] def Vec.at {d : Nat} {α : Type} (v : Vec d α) (i : Fin d) : α := v[i.1]'i.2
/-- the vector with components `f i` -/
@[inline] def build {d : Nat} {α : Type} (f : Fin d → α) : Vec d α := Vector.ofFn f
/-- `v[i] = x` -/
@[inline] def upd {d : Nat} {α : Type} (v : Vec d α) (i : Fin d) (x : α) : Vec d α := v.set i.1 x i.2

/-- `Σ_i f i` in index order, starting from `z` -/
def sumFrom {d : Nat} {β : Type} [Add β] (z : β) (f : Fin d → β) : β :=
  (List.finRange d).foldl (fun acc i => acc + f i) z

/-! ### what depends on the template instantiation -/

/-- The parts of `RayCasting<Scalar, DIM>` that are written (or compiled) per instantiation:
* `pick`: the axis `next` advances — the decision trees of the four explicit specialisations
  (RayTracing.cpp:211-275);
* `sqNorm`: the order in which Eigen's `squaredNorm()` reduction adds the squares inside
  `direction.norm()` (RayTracing.cpp:106).  With Eigen 3.4 / g++ -O3 on x86-64 (SSE2):
  `Vector3d` is `(x² + y²) + z²` (one packet + remainder), `Vector3f` is `x² + (y² + z²)` (unrolled
  scalar tree); for two components the order is immaterial.  Over the reals all of them coincide. -/
structure Spec (d : Nat) (α : Type) where
  pick : Vec d α → Fin d
  sqNorm : Vec d α → α

section
variable {α : Type} [Add α] [Sub α] [Mul α] [Div α] [LT α] [DecidableLT α]

/-- `RayCasting<float|double, 2>::next`, RayTracing.cpp:216 / 228: `if (tMax[0] < tMax[1]) 0 else 1` -/
def pick2 (t : Vec 2 α) : Fin 2 :=
  if t.at 0 < t.at 1 then 0 else 1

/-- `RayCasting<float|double, 3>::next`, RayTracing.cpp:239-251 / 258-270 -/
def pick3 (t : Vec 3 α) : Fin 3 :=
  if t.at 0 < t.at 1 then
    (if t.at 0 < t.at 2 then 0 else 2)
  else
    (if t.at 1 < t.at 2 then 1 else 2)

def sqNorm2 (v : Vec 2 α) : α := v.at 0 * v.at 0 + v.at 1 * v.at 1
/-- `Vector3d::squaredNorm()` -/
def sqNorm3L (v : Vec 3 α) : α := (v.at 0 * v.at 0 + v.at 1 * v.at 1) + v.at 2 * v.at 2
/-- `Vector3f::squaredNorm()` -/
def sqNorm3R (v : Vec 3 α) : α := v.at 0 * v.at 0 + (v.at 1 * v.at 1 + v.at 2 * v.at 2)

/-- `RayCasting<float, 2>` and `RayCasting<double, 2>` -/
def spec2 : Spec 2 α := ⟨pick2, sqNorm2⟩
/-- `RayCasting<double, 3>` -/
def spec3d : Spec 3 α := ⟨pick3, sqNorm3L⟩
/-- `RayCasting<float, 3>` -/
def spec3f : Spec 3 α := ⟨pick3, sqNorm3R⟩
end

/-! ### the grid index map (GridIndexMapping.cpp) -/

/-- members of `GridIndexMapping<Scalar, DIM>` (the centre table is the function `centre` below) -/
structure Grid (d : Nat) (α : Type) where
  r : α               -- cellResolution_
  n : Vec d Int       -- numberOfCellsAlongAxes_ (size_t)
  fmin : Vec d α      -- flooredMinimalPositionAlongAxes_

section
variable {d : Nat} {α : Type} [Add α] [Sub α] [Mul α] [Div α] [LT α] [DecidableLT α]
  [NatCast α] [IntCast α] [OfScientific α] [Trans α] [Trunc α]

/-- `Scalar(0.5)` -/
@[inline] def half : α := OfScientific.ofScientific 5 true 1

/-- `GridIndexMapping(extremities, cellResolution)`, GridIndexMapping.cpp:47-51:
    `floored = r * (floor(lower / r) - 0.5)`, `N = size_t(ceil(upper / r) - floor(lower / r) + 1)` -/
def mkGrid (lo hi : Vec d α) (r : α) : Grid d α :=
  { r := r
    fmin := build fun i => r * (Trans.floor (lo.at i / r) - half)
    n := build fun i => wrap64 (Trunc.trunc (Trans.ceil (hi.at i / r) - Trans.floor (lo.at i / r) + ((1 : Nat) : α))) }

/-- entry `k` of the centre table of axis `i`, GridIndexMapping.cpp:60-62:
    `floored + (n + Scalar(0.5)) * r` (`n` a `size_t` converted to `Scalar`).
    The table only has the entries `k < N`. -/
def centre1 (G : Grid d α) (i : Fin d) (k : Int) : α :=
  G.fmin.at i + ((k : α) + half) * G.r

/-- `computeCellCenterPosition`, GridIndexMapping.cpp:103-111 (table look-up) -/
def centre (G : Grid d α) (c : Vec d Int) : Vec d α :=
  build fun i => centre1 G i (c.at i)

/-- `computeCellIndexes`, GridIndexMapping.cpp:97: `((p - floored) / r).cast<size_t>()` -/
def cellIndexes (G : Grid d α) (p : Vec d α) : Vec d Int :=
  build fun i => wrap64 (Trunc.trunc ((p.at i - G.fmin.at i) / G.r))

/-- every index addresses an entry of the centre table -/
def inGrid (G : Grid d α) (c : Vec d Int) : Bool :=
  (List.finRange d).all fun i => decide (0 ≤ c.at i) && decide (c.at i < G.n.at i)

end

/-! ### the caster (RayTracing.cpp) -/

/-- members of `RayCasting<Scalar, DIM>`, RayTracing.hpp:72-82 (the grid pointer is passed separately) -/
structure State (d : Nat) (α : Type) where
  o : Vec d α          -- rayOriginPoint_
  e : Vec d α          -- rayEndPoint_
  oIdx : Vec d Int     -- rayOriginIndexes_
  eIdx : Vec d Int     -- rayEndIndexes_
  tMax : Vec d α       -- rayTMax_
  tDelta : Vec d α     -- rayTDelta_
  dir : Vec d α        -- rayDirection_
  step : Vec d Int     -- rayStep_ (int)
  rem : Vec d Int      -- rayRemainingSteps_ (int): border crossings still to be made along each axis

section
variable {d : Nat} {α : Type} [Add α] [Sub α] [Mul α] [Div α] [LT α] [DecidableLT α]
  [NatCast α] [IntCast α] [OfScientific α] [Trans α] [Trunc α] [Limits α]

/-- constructor, RayTracing.cpp:37-49: everything `Zero()` -/
def init : State d α :=
  let z : Vec d α := build fun _ => ((0 : Nat) : α)
  let zi : Vec d Int := build fun _ => 0
  { o := z, e := z, oIdx := zi, eIdx := zi, tMax := z, tDelta := z, dir := z, step := zi, rem := zi }

/-- `setOriginPoint`, RayTracing.cpp:62-66.  Nothing else is touched: `tMax`, `tDelta`, `step`, `dir`, `rem`
    keep describing the previous ray. -/
def setOrigin (G : Grid d α) (s : State d α) (p : Vec d α) : State d α :=
  { s with o := p, oIdx := cellIndexes G p }

/-- `setEndPoint`, RayTracing.cpp:97-140.  After the Amanatides–Woo initialisation the number of border
    crossings along each axis is recorded (`int` arithmetic on the `size_t` indexes), and an axis that has none
    gets the sentinel as crossing parameter whatever its direction component says. -/
def setEnd (sp : Spec d α) (G : Grid d α) (s : State d α) (p : Vec d α) : State d α :=
  let eIdx := cellIndexes G p                                           -- :100
  let c := centre G s.oIdx                                              -- :102-103
  let direction : Vec d α := build fun i => p.at i - s.o.at i           -- :105
  let range := Trans.sqrt (sp.sqNorm direction)                         -- :106
  let dir : Vec d α := build fun i => direction.at i / range            -- :107
  let step : Vec d Int := build fun i =>                                -- :111-117
    if dir.at i > ((0 : Nat) : α) then 1 else if dir.at i < ((0 : Nat) : α) then -1 else 0
  let rem : Vec d Int := build fun i =>                                 -- :134-135
    iabs (toInt32 (eIdx.at i) - toInt32 (s.oIdx.at i))
  let tMax : Vec d α := build fun i =>
    if rem.at i = 0 then Limits.maxVal                                  -- :136-138
    else if step.at i ≠ 0 then                                          -- :120-129
      let voxelBorder := c.at i + ((step.at i : α) * G.r * half)        -- :122-123
      (voxelBorder - s.o.at i) / dir.at i                               -- :124
    else Limits.maxVal                                                  -- :127
  let tDelta : Vec d α := build fun i =>
    if step.at i ≠ 0 then G.r / Trans.abs (dir.at i)                    -- :125
    else Limits.maxVal                                                  -- :128
  { s with e := p, eIdx := eIdx, dir := dir, step := step, tMax := tMax, tDelta := tDelta, rem := rem }

/-- `computeRayNumberOfCells`, RayTracing.cpp:82-83:
    `(end.cast<int>() - origin.cast<int>()).array().abs().sum() + 1`, returned as `size_t` -/
def numCells (s : State d α) : Int :=
  wrap64 (sumFrom (0 : Int) (fun i => iabs (toInt32 (s.eIdx.at i) - toInt32 (s.oIdx.at i))) + 1)

/-- `step_(cellIndexes, axis)`, RayTracing.cpp:199-207: the index moves by `rayStep_` (modulo 2^64);
    `if (rem > 0 && --rem == 0) tMax = max; else tMax += tDelta` — the decrement only happens when `rem > 0`. -/
def stepAxis (s : State d α) (c : Vec d Int) (a : Fin d) : State d α × Vec d Int :=
  let c' := upd c a (wrap64 (c.at a + s.step.at a))
  if s.rem.at a > 0 then
    let r' := s.rem.at a - 1
    if r' = 0 then
      ({ s with rem := upd s.rem a r', tMax := upd s.tMax a Limits.maxVal }, c')
    else
      ({ s with rem := upd s.rem a r', tMax := upd s.tMax a (s.tMax.at a + s.tDelta.at a) }, c')
  else
    ({ s with tMax := upd s.tMax a (s.tMax.at a + s.tDelta.at a) }, c')

/-- `next(cellIndexes)`, RayTracing.cpp:211-275: `step_` along the axis chosen by the decision tree -/
def next (sp : Spec d α) (s : State d α) (c : Vec d Int) : State d α × Vec d Int :=
  stepAxis s c (sp.pick s.tMax)

/-- `k` consecutive `next` calls, recording the cell after each -/
def steps (sp : Spec d α) : Nat → State d α → Vec d Int → State d α × List (Vec d Int)
  | 0, s, _ => (s, [])
  | k + 1, s, c =>
    let r := next sp s c
    let rest := steps sp k r.1 r.2
    (rest.1, r.2 :: rest.2)

/-- `cast()`, RayTracing.cpp:171-185: `N = computeRayNumberOfCells()`, first cell = origin cell, then
    `N - 1` steps (`while (++n != N)`).  `N ≥ 1` whenever the `int` sum did not overflow. -/
def cast (sp : Spec d α) (s : State d α) : State d α × List (Vec d Int) :=
  let r := steps sp ((numCells s).toNat - 1) s s.oIdx
  (r.1, s.oIdx :: r.2)

/-- `cast(endPoint)`, RayTracing.cpp:162-166 -/
def castTo (sp : Spec d α) (G : Grid d α) (s : State d α) (e : Vec d α) : State d α × List (Vec d Int) :=
  cast sp (setEnd sp G s e)

/-- `cast(originPoint, endPoint)`, RayTracing.cpp:191-195 -/
def castOE (sp : Spec d α) (G : Grid d α) (s : State d α) (o e : Vec d α) : State d α × List (Vec d Int) :=
  castTo sp G (setOrigin G s o) e

/-- the caster's operations, for statements over call sequences -/
inductive Op (d : Nat) (α : Type)
  | origin (p : Vec d α)         -- setOriginPoint
  | endp (p : Vec d α)           -- setEndPoint
  | cast                         -- cast()
  | castTo (e : Vec d α)         -- cast(end)
  | castOE (o e : Vec d α)       -- cast(origin, end)
  | next (c : Vec d Int)         -- next(cellIndexes) on a caller-owned index vector

def stepOp (sp : Spec d α) (G : Grid d α) (s : State d α) : Op d α → State d α
  | .origin p => setOrigin G s p
  | .endp p => setEnd sp G s p
  | .cast => (cast sp s).1
  | .castTo e => (castTo sp G s e).1
  | .castOE o e => (castOE sp G s o e).1
  | .next c => (next sp s c).1

def runOps (sp : Spec d α) (G : Grid d α) (s : State d α) (ops : List (Op d α)) : State d α :=
  ops.foldl (stepOp sp G) s

end
end Romea.RayCast
