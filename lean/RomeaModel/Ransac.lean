import RomeaModel.Scalar
import RomeaModel.Generated.ConstantsC06

/-!
# RANSAC / ICP control skeleton (C06)

Only the *control and bookkeeping* of

* `src/regression/ransac/RansacIterations.cpp` (adaptive iteration bound),
* `src/regression/ransac/Ransac.cpp` (`Ransac::estimateModel`),
* `src/transform/estimation/RansacRigidTransformationModel.cpp` (`countInliers`: 3σ inlier test, RMSE,
  best-consensus update),
* `src/transform/estimation/FindRigidTransformationByICP.cpp` (one-to-one correspondence filter, outer loop:
  best-RMSE bookkeeping, convergence test, return flag)

is modelled.  All geometry (candidate transformations, per-correspondence errors, nearest neighbours, the
random sampler) enters as *oracle outputs*: scripted values in the correspondence check, universally
quantified in the theorems.  The literal thresholds come from `Generated/ConstantsC06.lean`, regenerated from
the sources on every run.  Scalars are polymorphic (`Float` in the driver, `ℝ` in the theorems).
-/
namespace Romea.Ransac
open Romea.Generated

section Scalars
variable {α : Type}

/-- the literal `1.0` -/
def one [NatCast α] : α := ((1 : Nat) : α)
/-- the literal `0.0` -/
def zero [NatCast α] : α := ((0 : Nat) : α)

/-- `std::max(a, b)` = `(a < b) ? b : a` -/
def stdMax [LT α] [DecidableLT α] (a b : α) : α := if a < b then b else a
/-- `std::min(a, b)` = `(b < a) ? b : a` -/
def stdMin [LT α] [DecidableLT α] (a b : α) : α := if b < a then b else a

/-- `size_t k = <double>`: truncation toward zero (the value is positive on every path that reaches it). -/
def truncNat [Trunc α] (x : α) : Nat := (Trunc.trunc x).toNat

/-! ## `RansacIterations` (RansacIterations.cpp:35-64) -/

structure Iterations (α : Type) where
  /-- `logOfFittingOppositeProbability_ = std::log(1.0 - fittingProbability)` -/
  logOpp : α
  /-- `oneOverNumberOfPoints_ = 1.0 / double(numberOfPoints)` -/
  oneOverN : α
  /-- `numberOfIterations_` (a `double`), initially `maximalNumberOfIterations` -/
  n : α

variable [Sub α] [Mul α] [Div α] [LT α] [DecidableLT α] [NatCast α] [Trans α] [Trunc α]

/-- constructor, RansacIterations.cpp:35-44 -/
def Iterations.init (p : α) (nPts maxIter : Nat) : Iterations α :=
  { logOpp := Trans.log (one - p), oneOverN := one / (nPts : α), n := (maxIter : α) }

/-- the candidate bound computed by `update`, RansacIterations.cpp:51-56 (`eps` = `EPSILON` =
    `numeric_limits<double>::epsilon()`) -/
def Iterations.candidate (eps : α) (it : Iterations α) (nInl nDraw : Nat) : Nat :=
  let pct := (nInl : α) * it.oneOverN                          -- :51 "outliersPercentage"
  let prob := one - Trans.pow pct (nDraw : α)                  -- :52-53
  let prob := stdMax eps prob                                  -- :54
  let prob := stdMin (one - eps) prob                          -- :55
  truncNat (it.logOpp / Trans.log prob)                        -- :56  size_t ← double

/-- `update`, RansacIterations.cpp:47-58: `numberOfIterations_ = std::min(numberOfIterations_, double(k))` -/
def Iterations.update (eps : α) (it : Iterations α) (nInl nDraw : Nat) : Iterations α :=
  { it with n := stdMin it.n ((it.candidate eps nInl nDraw : Nat) : α) }

end Scalars

/-! ## `Ransac::estimateModel` (Ransac.cpp:49-84) over an abstract `RansacModel` -/

/-- the virtual interface `RansacModel` as a state machine (mutation through `this` becomes a returned state) -/
structure ModelOps (S : Type) where
  nPts : S → Nat            -- getNumberOfPoints
  nDraw : S → Nat           -- getNumberOfPointsToDrawModel
  minInl : S → Nat          -- getMinimalNumberOfInliers
  draw : S → S × Bool       -- draw(σ)
  count : S → S × Nat       -- countInliers(σ)
  refine : S → S            -- refine()

/-- `float numberOfInliers = <size_t>` followed by the conversions back to `size_t` (Ransac.cpp:67-71):
    a natural number rounded to 24 significant bits, ties to even (identity below 2^24). -/
def f32round (n : Nat) : Nat :=
  if n < 2 ^ 24 then n else
    let e := n.log2 - 23
    let q := n / 2 ^ e
    let r := n % 2 ^ e
    let half := 2 ^ (e - 1)
    let q' := if half < r ∨ (r = half ∧ q % 2 = 1) then q + 1 else q
    q' * 2 ^ e

structure Run (S α : Type) where
  s : S
  iteration : Nat           -- `size_t iteration`
  best : Nat                -- `size_t bestNumberOfInliers`
  it : Iterations α
  exited : Bool             -- the `while` test was evaluated to false (otherwise: fuel ran out)

section Loop
variable {α : Type} [Sub α] [Mul α] [Div α] [LT α] [DecidableLT α] [NatCast α] [Trans α] [Trunc α]
variable {S : Type}

/-- one evaluation of the body of the `while`, Ransac.cpp:66-74 -/
def body (ops : ModelOps S) (eps : α) (nDraw : Nat) (r : Run S α) : Run S α :=
  let dr := ops.draw r.s                                              -- :66
  if dr.2 then
    let cr := ops.count dr.1                                          -- :67
    let ninl := f32round cr.2                                         --      (float ← size_t)
    if f32round r.best < ninl then                                    -- :69  float > (float)size_t
      { s := cr.1, iteration := r.iteration + 1, best := ninl,        -- :71, :74
        it := r.it.update eps ninl nDraw, exited := false }           -- :70
    else { r with s := cr.1, iteration := r.iteration + 1 }
  else { r with s := dr.1, iteration := r.iteration + 1 }

/-- the `while (iteration < ransacIterations.get())` loop, Ransac.cpp:64-75, on fuel -/
def loop (ops : ModelOps S) (eps : α) (nDraw : Nat) : Nat → Run S α → Run S α
  | 0, r => { r with exited := false }
  | fuel + 1, r =>
    if (r.iteration : α) < r.it.n then loop ops eps nDraw fuel (body ops eps nDraw r)
    else { r with exited := true }

structure Result (S α : Type) where
  s : S
  ret : Bool
  iterations : Nat
  best : Nat
  bound : α
  diverged : Bool

/-- `Ransac::estimateModel`, Ransac.cpp:49-84.  `p` = `FITTING_PROBABILITY_` as converted by the constructor
    call (`float`), `maxIter` = `MAXIMAL_NUMBER_OF_ITERATIONS`. -/
def estimateModel (ops : ModelOps S) (p eps : α) (maxIter : Nat) (s : S) : Result S α :=
  let nPts := ops.nPts s                                              -- :53
  let nDraw := ops.nDraw s                                            -- :54
  if nPts < ops.minInl s then                                         -- :56
    { s := s, ret := false, iterations := 0, best := 0, bound := (maxIter : α), diverged := false }
  else
    let r := loop ops eps nDraw (maxIter + 1)
      { s := s, iteration := 0, best := 0, it := Iterations.init p nPts maxIter, exited := false }
    if r.best ≤ nDraw then                                            -- :78
      { s := r.s, ret := false, iterations := r.iteration, best := r.best, bound := r.it.n, diverged := !r.exited }
    else
      { s := ops.refine r.s, ret := true, iterations := r.iteration, best := r.best, bound := r.it.n,
        diverged := !r.exited }                                       -- :82-83
end Loop

/-! ### A scripted `RansacModel` (the harness has the same subclass) -/

structure Scripted where
  nPts : Nat
  nDraw : Nat
  minInl : Nat
  steps : List (Bool × Nat)   -- per `draw` call: its verdict and what the following `countInliers` returns
  pending : Nat := 0
  draws : Nat := 0
  counts : Nat := 0
  refines : Nat := 0

def scriptedOps : ModelOps Scripted where
  nPts s := s.nPts
  nDraw s := s.nDraw
  minInl s := s.minInl
  draw s := match s.steps with
    | [] => ({ s with draws := s.draws + 1, pending := 0 }, false)        -- script exhausted: every draw fails
    | (d, c) :: rest => ({ s with steps := rest, draws := s.draws + 1, pending := c }, d)
  count s := ({ s with counts := s.counts + 1 }, s.pending)
  refine s := { s with refines := s.refines + 1 }

/-! ## Consensus bookkeeping of `RansacRigidTransformationModel::countInliers` (:255-310 of the .cpp) -/

/-- `Correspondence` without the (unused here) weight -/
structure Corr (α : Type) where
  src : Nat
  tgt : Nat
  d : α                        -- squareDistanceBetweenPoints
  deriving Repr

section Consensus
variable {α : Type}

/-- `std::unique(first, last, pred)`: keeps the first element of every run (each element is compared with the
    last one *kept*) -/
def uniqAux {β : Type} (eq : β → β → Bool) (last : β) : List β → List β
  | [] => []
  | x :: xs => if eq last x then uniqAux eq last xs else x :: uniqAux eq x xs

def uniq {β : Type} (eq : β → β → Bool) : List β → List β
  | [] => []
  | x :: xs => x :: uniqAux eq x xs

/-- `std::unique` applied to a `std::vector` whose returned iterator is *discarded* (countInliers, .cpp:285-288):
    the vector keeps its size; the kept elements have been moved to the front and the slots behind them still
    hold their previous contents (moving this trivially copyable struct is a copy; writes only ever go to
    positions at or before the read position). -/
def uniqueInPlace {β : Type} (eq : β → β → Bool) (l : List β) : List β :=
  let u := uniq eq l
  u ++ l.drop u.length

def eqTgt (a b : Corr α) : Bool := a.tgt == b.tgt          -- equalTargetIndexesPredicate
def eqSrc (a b : Corr α) : Bool := a.src == b.src          -- equalSourceIndexesPredicate

variable [LT α] [DecidableLT α]

/-- `sortByTargetIndexAndDistancePredicate` (Correspondence.hpp) -/
def ltTgt (a b : Corr α) : Bool :=
  if a.tgt < b.tgt then true else if a.tgt = b.tgt ∧ a.d < b.d then true else false
/-- `sortBySourceIndexAndDistancePredicate` (Correspondence.hpp) -/
def ltSrc (a b : Corr α) : Bool :=
  if a.src < b.src then true else if a.src = b.src ∧ a.d < b.d then true else false

/-- `std::sort(.., lt)`: any sorted arrangement; the model takes the stable one (the generators avoid equal keys,
    for which `std::sort` leaves the order unspecified). -/
def sortBy (lt : Corr α → Corr α → Bool) (l : List (Corr α)) : List (Corr α) :=
  l.mergeSort (fun a b => !lt b a)

/-- `loadCorrespondences`, .cpp:131-136: `sortedCorrespondences_` -/
def sortedByTarget (l : List (Corr α)) : List (Corr α) := sortBy ltTgt l

structure Consensus (α : Type) where
  best : List (Corr α)          -- bestInlierCorrespondences_
  bestRmse : α                  -- bestRootMeanSquareError_

/-- `loadCorrespondences`, .cpp:139-140: cleared, RMSE = `numeric_limits<double>::max()` -/
def Consensus.cleared (maxVal : α) : Consensus α := { best := [], bestRmse := maxVal }

variable [Add α] [Mul α] [Div α] [NatCast α] [Trans α]

/-- the inlier list before `std::unique`, .cpp:266-281.  `errs` are the squared errors of the sorted
    correspondences under the current candidate (oracle output), `cast` is the conversion of the threshold to the
    point scalar type (`Scalar threshold = 9 * σ * σ` with `σ` a `double`). -/
def inliers (cast : α → α) (sorted : List (Corr α)) (errs : List α) (σ : α) : List (Corr α) :=
  let threshold := cast ((C06.inlierFactor : α) * σ * σ)                          -- :266
  (sorted.zip errs).filterMap (fun ce =>
    if ce.2 < threshold then some { src := ce.1.src, tgt := ce.1.tgt, d := ce.2 } else none)   -- :274-279

/-- .cpp:290-295 -/
def rmseOf (l : List (Corr α)) : α :=
  let sum := l.foldl (fun acc c => acc + c.d) zero
  Trans.sqrt (sum / (l.length : α))

/-- `countInliers`, .cpp:255-310; returns the new bookkeeping, the returned count (`bestInlierCorrespondences_.size()`),
    and (for observation) the current inlier vector and its RMSE -/
def countInliers (cast : α → α) (minInl : Nat) (sorted : List (Corr α)) (errs : List α) (σ : α)
    (st : Consensus α) : Consensus α × Nat × List (Corr α) × α :=
  let inl := uniqueInPlace eqTgt (inliers cast sorted errs σ)                     -- :262-288
  let rmse := rmseOf inl                                                           -- :290-295
  let st' :=
    if minInl ≤ inl.length ∧ rmse < σ then                                         -- :298-299
      if st.best.length < inl.length ∨ (inl.length = st.best.length ∧ rmse < st.bestRmse) then   -- :301-303
        { best := inl, bestRmse := rmse }                                          -- :305-306
      else st
    else st
  (st', st'.best.length, inl, rmse)                                                -- :309

/-- number of points needed to draw a model, `getNumberOfPointsToDrawModel` -/
def nDrawOf (dim : Nat) : Nat := if dim = 2 then C06.drawPoints2D else C06.drawPoints3D
/-- `getMinimalNumberOfInliers` -/
def minInlOf (dim : Nat) : Nat := C06.minimalInliersFactor * nDrawOf dim

/-! ### The rigid-transformation model as a `RansacModel`, geometry as oracle outputs -/

/-- what one RANSAC iteration sees of the geometry: whether the drawn sample passed `check_`, and the squared
    errors of the (sorted) correspondences under the drawn candidate -/
structure Candidate (α : Type) where
  ok : Bool
  errs : List α

structure Rigid (α : Type) where
  dim : Nat
  nPts : Nat                          -- numberOfSourcePointsInCorrespondences_
  σ : α
  sorted : List (Corr α)
  todo : List (Candidate α)           -- oracle outputs still to come
  current : List α                    -- errors under the candidate drawn last
  cons : Consensus α
  refined : Bool

def rigidOps (cast : α → α) : ModelOps (Rigid α) where
  nPts s := s.nPts
  nDraw s := nDrawOf s.dim
  minInl s := minInlOf s.dim
  draw s := match s.todo with
    | [] => ({ s with current := [] }, false)
    | c :: rest => ({ s with todo := rest, current := c.errs }, c.ok)
  count s :=
    let r := countInliers cast (minInlOf s.dim) s.sorted s.current s.σ s.cons
    ({ s with cons := r.1 }, r.2.1)
  refine s := { s with refined := true }

end Consensus

/-! ## ICP: one-to-one filter (FindRigidTransformationByICP.cpp:160-175) -/

section Icp
variable {α : Type} [LT α] [DecidableLT α]

/-- `std::sort(.., sortBySourceIndexAndDistancePredicate)` then `std::unique(.., equalSourceIndexesPredicate)`;
    the kept range is `[begin, itEnd)` -/
def oneToOne (l : List (Corr α)) : List (Corr α) := uniq eqSrc (sortBy ltSrc l)

/-! ## ICP: outer loop (FindRigidTransformationByICP.cpp:111-232) -/

/-- oracle outputs of one ICP iteration: did `ransac_.estimateModel()` succeed, the consensus RMSE and the
    estimated transformation (flattened) -/
structure IcpStep (α : Type) where
  est : Bool
  rmse : α
  T : List α

structure IcpState (α : Type) where
  n : Nat                       -- loop counter
  bestRmse : α                  -- bestFittingRMSE
  best : List α                 -- bestRigidTransformation
  prev : List α                 -- previousEstimatedTransformation
  broke : Bool                  -- left through `break`

variable [Add α] [Sub α] [NatCast α] [Trans α]

/-- `(A - B).array().abs().sum()` -/
def absDiffSum (a b : List α) : α :=
  (List.zipWith (fun x y => Trans.abs (x - y)) a b).foldl (fun acc v => acc + v) zero

/-- loop body, .cpp:209-228 (everything before it is geometry) -/
def icpIter (eps : α) (s : IcpState α) (st : IcpStep α) : IcpState α :=
  if st.est then                                                                  -- :209
    let delta := absDiffSum st.T s.prev                                           -- :211-213
    let bestRmse := if st.rmse < s.bestRmse then st.rmse else s.bestRmse          -- :216-219
    let best := if st.rmse < s.bestRmse then st.T else s.best
    if delta < eps then                                                           -- :222
      { s with bestRmse := bestRmse, best := best, broke := true }                --      break
    else
      { n := s.n + 1, bestRmse := bestRmse, best := best, prev := st.T, broke := false }   -- :227, ++n
  else { s with n := s.n + 1 }

/-- a step for which `estimateModel` failed (used when the oracle list is shorter than the loop) -/
def failedStep : IcpStep α := { est := false, rmse := zero, T := [] }

/-- `for (; n < maximalNumberOfIterations_; ++n)`, `k` = iterations still allowed -/
def icpRun (eps : α) : Nat → IcpState α → List (IcpStep α) → IcpState α
  | 0, s, _ => s
  | k + 1, s, steps =>
    let st := steps.headD failedStep
    let s' := icpIter eps s st
    if s'.broke then s' else icpRun eps k s' steps.tail

def icpInit (ident : List α) (maxVal : α) : IcpState α :=
  { n := 0, bestRmse := maxVal, best := ident, prev := ident, broke := false }

/-- `find`: final state and the returned flag `n != maximalNumberOfIterations_` (.cpp:231) -/
def icpFind (maxIter : Nat) (eps : α) (ident : List α) (maxVal : α) (steps : List (IcpStep α)) :
    Bool × IcpState α :=
  let s := icpRun eps maxIter (icpInit ident maxVal) steps
  (s.n != maxIter, s)

end Icp

end Romea.Ransac
