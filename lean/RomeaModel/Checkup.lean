/-!
# Check-ups and diagnostic status algebra (C18, reused by C17)

Mirrors
* `include/romea_core_common/diagnostic/Checkup.hpp` (`Checkup<T>`: one diagnostic + one info entry),
* `CheckupEqualTo.hpp`, `CheckupGreaterThan.hpp`, `CheckupLowerThan.hpp`, `src/diagnostics/CheckupReliability.cpp`,
* `src/diagnostics/DiagnosticStatus.cpp` (`worse`), `Diagnostic.cpp` (`worseStatus`, `allOK`),
* `src/diagnostics/DiagnosticReport.cpp` (`operator+=`).

The scalar type is a parameter: the driver runs the definitions at `Float`, the theorems are
stated at `ℝ` (exact values of the doubles).  Strings are abstracted: the message is the
quantity's name followed by one of a fixed set of endings (`Msg`), the info entry is either empty
or the printed value (`Option α`); the C++ harness checks the string side (`name + ending`,
`ostringstream << value`) and reports the class.
-/
namespace Romea.Checkup

/-- `enum class DiagnosticStatus { OK = 0, WARN = 1, ERROR = 2, STALE = 3 }` -/
inductive Status | ok | warn | error | stale
  deriving DecidableEq, Repr, Inhabited

def Status.toNat : Status → Nat
  | .ok => 0 | .warn => 1 | .error => 2 | .stale => 3

def Status.ofNat? : Nat → Option Status
  | 0 => some .ok | 1 => some .warn | 2 => some .error | 3 => some .stale | _ => none

/-- `worse(s1, s2) = s1 >= s2 ? s1 : s2` (comparison of the underlying enum values). -/
def worse (a b : Status) : Status := if a.toNat ≥ b.toNat then a else b

/-- `worseStatus`: the C++ asserts non-emptiness; on the empty list the behaviour is undefined
    (dereferences `begin()`), the model returns `none` there. -/
def worseStatus : List Status → Option Status
  | [] => none
  | s :: ss => some (ss.foldl worse s)

def allOK (l : List Status) : Option Bool := (worseStatus l).map (· == .ok)

/-- Message endings used by the check-ups (`name + ending`), plus the constructor's initial one. -/
inductive Msg | initial | tooLow | tooHigh | isOK | uncertain | high | timeout
  deriving DecidableEq, Repr, Inhabited

def Msg.toString : Msg → String
  | .initial => "initial" | .tooLow => "too_low" | .tooHigh => "too_high" | .isOK => "is_ok"
  | .uncertain => "uncertain" | .high => "high" | .timeout => "timeout"

inductive Kind | equalTo | greaterThan | lowerThan | reliability
  deriving DecidableEq, Repr, Inhabited

section
variable {α : Type} [Add α] [Sub α] [LT α] [DecidableLT α]

/-- The threshold comparisons exactly as written in the four `evaluate` bodies.
    For `reliability`, `t` is the low and `e` the high threshold. -/
def classify (k : Kind) (t e v : α) : Status × Msg :=
  match k with
  | .equalTo =>
      if v < t - e then (.error, .tooLow)
      else if v > t + e then (.error, .tooHigh)
      else (.ok, .isOK)
  | .greaterThan => if v > t - e then (.ok, .isOK) else (.error, .tooLow)
  | .lowerThan => if v < t + e then (.ok, .isOK) else (.error, .tooHigh)
  | .reliability =>
      if v < t then (.error, .tooLow)
      else if v < e then (.warn, .uncertain)
      else (.ok, .high)

/-- `Checkup<T>`: thresholds + the one-diagnostic/one-info report. -/
structure State (α : Type) where
  kind : Kind
  t : α
  e : α
  status : Status
  msg : Msg
  info : Option α          -- `none` = empty string, `some v` = printed value of `v`

/-- Constructors: default diagnostic is `Diagnostic()` = (STALE, ""); info entry "". -/
def init (k : Kind) (t e : α) (s0 : Status := .stale) : State α :=
  { kind := k, t := t, e := e, status := s0, msg := .initial, info := none }

/-- `evaluate(value)`: `setDiagnostic_`, `setValue_`, `return getStatus_()`. -/
def evaluate (s : State α) (v : α) : State α × Status :=
  let (st, m) := classify s.kind s.t s.e v
  ({ s with status := st, msg := m, info := some v }, st)

/-- `timeout()`: STALE, " timeout.", info cleared. (Only `Checkup<T>` has it.) -/
def timeout (s : State α) : State α :=
  { s with status := .stale, msg := .timeout, info := none }

inductive Op (α : Type) | eval (v : α) | timeout

def step (s : State α) : Op α → State α
  | .eval v => (evaluate s v).1
  | .timeout => timeout s

def run (s : State α) (ops : List (Op α)) : State α := ops.foldl step s
end

/-! ### Reports -/

structure Report where
  diags : List (Status × Nat)        -- (status, message id)
  info : List (Nat × Nat)            -- (key id, value id), strictly ascending keys (`std::map`)
  deriving Repr

/-- `std::map::insert(range)`: keys already present keep their value. -/
def insertNew (m : List (Nat × Nat)) (kv : Nat × Nat) : List (Nat × Nat) :=
  match m with
  | [] => [kv]
  | (k, v) :: rest =>
      if kv.1 < k then kv :: (k, v) :: rest
      else if kv.1 = k then (k, v) :: rest
      else (k, v) :: insertNew rest kv

/-- `operator+=(report1, report2)` -/
def append (r1 r2 : Report) : Report :=
  { diags := r1.diags ++ r2.diags, info := r2.info.foldl insertNew r1.info }

end Romea.Checkup
