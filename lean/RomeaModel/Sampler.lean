import RomeaModel.Scalar

/-!
# The RANSAC sampler and its random engine (C06)

Mirrors, line by line,

* `include/romea_core_common/regression/ransac/RansacRandomCorrespondences.hpp:68-74` — the data members
  `scale_`, `weights_`, `cumSumWeights_` (both `std::vector<double>` whatever the point type),
  `std::default_random_engine randomGenerator_`, `std::uniform_real_distribution<double> uniformDistribution_`;
* `src/regression/ransac/RansacRandomCorrespondences.cpp` — constructor (:30-39: default-seeded engine, distribution on
  (0, 1), `scale_ = Zero`), `computeScale` (:42-49), `drawPoints` (:52-86), `resetWeights_` (:89-95, private and never
  called in /repo), `updateWeights_` (:99-123), `computeCumSumWeights_` (:126-143);
* libstdc++ 12 as the C++ above instantiates it:
  - `std::default_random_engine` = `std::minstd_rand0` = `linear_congruential_engine<uint_fast32_t, 16807, 0, 2147483647>`
    (`/usr/include/c++/12/bits/random.h:1607, 1558-1559`): default seed `1u` (`random.h:279`), `seed(s)`
    (`random.tcc:117-126`), `operator()` : `x ← (16807 · x) mod (2^31 − 1)`, returns `x` (`random.h:360-365`),
    `min() = 1`, `max() = 2^31 − 2`;
  - `uniform_real_distribution<double>::operator()` = `__aurng() * (b − a) + a` (`random.h:1873`) where `__aurng()`
    (`random.h:189-195`) is `std::generate_canonical<double, 53>(urng)` (`random.tcc:3354-3386`), including its
    `nextafter(1, 0)` clamp;
  - `std::partial_sum`, `std::transform` + `std::divides`, `std::lower_bound` (`stl_algobase.h:1450-1473`: the
    halving binary search).

Two scalar types: `α` = `double` (weights, cumulative weights, the uniform variate) and `β` = the point scalar
(`float` or `double`; point differences, `scale_`, the `exp`), related by the C++ implicit conversions `Widen.up`
(`Scalar → double`) and `Widen.down` (`double → Scalar`).  Integers (the engine) are exact (`Nat`).  The drivers run
the definitions at `α = Float`, `β = Float` / `Float32`; the theorems (`RomeaProofs/Properties/C06.lean`) at `ℝ` and `RN`.

Points are lists of `SIZE` coefficients (homogeneous points carry their trailing 1).  The order in which Eigen's
`.sum()` adds the 2, 3 or 4 squares depends on the scalar type and size (measured, see `SumOrder`).
-/
namespace Romea.Sampler

/-! ## Scalars -/

/-- C++ implicit conversions `Scalar → double` (`up`) and `double → Scalar` (`down`) -/
class Widen (β : Type) (α : outParam Type) where
  up : β → α
  down : α → β

instance : Widen Float Float := ⟨id, id⟩
instance : Widen Float32 Float := ⟨Float32.toFloat, Float.toFloat32⟩

section Lit
variable {α : Type} [NatCast α]
/-- the literal `0` -/
def zero : α := ((0 : Nat) : α)
/-- the literal `1` -/
def one : α := ((1 : Nat) : α)
end Lit

/-! ## `std::minstd_rand0` -/

/-- multiplier `a` of `minstd_rand0` -/
def lcgA : Nat := 16807
/-- modulus `m = 2^31 − 1` of `minstd_rand0` (increment `c = 0`) -/
def lcgM : Nat := 2147483647
/-- `linear_congruential_engine::min()`: `c == 0 ? 1 : 0` -/
def engineMin : Nat := 1
/-- `linear_congruential_engine::max()`: `m − 1` -/
def engineMax : Nat := lcgM - 1
/-- `default_seed = 1u` -/
def defaultSeed : Nat := 1

/-- `seed(s)` (`random.tcc:117-126`): with `c mod m = 0`, a seed that is `0 mod m` is replaced by 1 -/
def seed (s : Nat) : Nat := if s % lcgM = 0 then 1 else s % lcgM

/-- the state of a default-constructed engine (`RansacRandomCorrespondences.cpp:36`: `randomGenerator_()`) -/
def engineInit : Nat := seed defaultSeed

/-- `operator()`: the new state, which is also the value returned (`__detail::__mod` computes the product exactly) -/
def next (x : Nat) : Nat := (lcgA * x) % lcgM

/-! ## `std::generate_canonical<double, 53>` and `uniform_real_distribution<double>(0, 1)` -/

/-- `__r = max() − min() + 1` (as a `long double`; the value is an integer below 2^31, exact in every type used) -/
def canonR : Nat := engineMax - engineMin + 1
/-- `__log2r = size_t(std::log(__r) / std::log(2.0L))` = ⌊log₂ r⌋ = 30 -/
def canonLog2R : Nat := Nat.log2 canonR
/-- `__m = max(1, (53 + __log2r − 1) / __log2r)` = 2 engine calls per variate -/
def canonCalls : Nat := Nat.max 1 ((53 + canonLog2R - 1) / canonLog2R)

section Canonical
variable {α : Type} [Add α] [Sub α] [Mul α] [Div α] [LE α] [DecidableLE α] [NatCast α]

/-- the `for (__k = __m; __k != 0; --__k)` loop (`random.tcc:3370-3374`): engine state, `__sum`, `__tmp`.
    `__tmp *= __r` is evaluated in `long double` and rounded to `double`; for the two values that occur (`1·r`, `r·r`)
    the `long double` product is exact, so this is the correctly rounded `double` product. -/
def canonLoop : Nat → Nat → α → α → Nat × α × α
  | 0, x, sum, tmp => (x, sum, tmp)
  | k + 1, x, sum, tmp =>
    let x' := next x                                                   -- __urng()
    canonLoop k x' (sum + (((x' - engineMin : Nat)) : α) * tmp)        -- __sum += RealType(__urng() - __urng.min()) * __tmp
      (tmp * ((canonR : Nat) : α))                                     -- __tmp *= __r

/-- `std::nextafter(1.0, 0.0)` = `1 − 2^-53` (also the `#else` branch `1 − epsilon/2`) -/
def predOne : α := one - one / (((2 : Nat) ^ 53 : Nat) : α)

/-- `generate_canonical<double, 53>(urng)` (`random.tcc:3354-3386`): new engine state and the variate -/
def generateCanonical (x : Nat) : Nat × α :=
  let r := canonLoop canonCalls x (zero : α) (one : α)
  let ret := r.2.1 / r.2.2                                             -- __ret = __sum / __tmp
  (r.1, if (one : α) ≤ ret then predOne else ret)                      -- if (__ret >= 1) __ret = nextafter(1, 0)

/-- `uniformDistribution_(randomGenerator_)` with `a = 0.0`, `b = 1.0` (`random.h:1873`) -/
def uniform01 (x : Nat) : Nat × α :=
  let r := generateCanonical (α := α) x
  (r.1, r.2 * ((one : α) - zero) + zero)

end Canonical

/-! ## Cumulative weights and the lower-bound search -/

section Cum
variable {α : Type} [Add α] [Div α]

/-- `std::partial_sum` behind the first element: `acc = acc + *first; *++result = acc` -/
def psFrom (acc : α) : List α → List α
  | [] => []
  | y :: ys => (acc + y) :: psFrom (acc + y) ys

/-- `std::partial_sum(cbegin(weights_), cend(weights_), begin(cumSumWeights_))` -/
def partialSums : List α → List α
  | [] => []
  | x :: xs => x :: psFrom x xs

/-- `computeCumSumWeights_` (:126-143): partial sums, then every entry divided by the last one (`std::bind` copies
    `cumSumWeights_.back()` before `std::transform` runs).  With all weights zero this is `0/0` everywhere. -/
def cumSum (w : List α) : List α :=
  let ps := partialSums w
  match ps.getLast? with
  | none => []
  | some total => ps.map (fun s => s / total)

end Cum

section Search
variable {α : Type} [LT α] [DecidableLT α]

/-- `std::__lower_bound` (`stl_algobase.h:1450-1473`) on `[first, first + len)`: halve, compare `*middle < val` -/
def lowerBoundFrom (cum : List α) (u : α) (first len : Nat) : Nat :=
  if h : len = 0 then first else
    let half := len / 2                                   -- __half = __len >> 1
    let middle := first + half                            -- std::advance(__middle, __half)
    if cum.getD middle u < u then                         -- if (*__middle < __val)   (`middle < size`: default unused)
      lowerBoundFrom cum u (middle + 1) (len - half - 1)
    else
      lowerBoundFrom cum u first half
termination_by len
decreasing_by all_goals omega

/-- `std::distance(data, std::lower_bound(data, data + size, u))` (:74-79) -/
def lowerBound (cum : List α) (u : α) : Nat := lowerBoundFrom cum u 0 cum.length

end Search

/-! ## The sampler object -/

/-- `Correspondence` as the sampler reads it (`squareDistanceBetweenPoints` is never read) -/
structure Corr (α : Type) where
  src : Nat
  tgt : Nat
  weight : α
  deriving Repr

/-- order in which the compiled Eigen kernel adds the (≤ 4) squares of `(…).square().sum()` in `updateWeights_`:
    `left` = `((a0 + a1) + a2) + a3`, `right` = `a0 + (a1 + (a2 + a3))`, `pairs` = `(a0 + a2) + (a1 + a3)` (the
    two-packet reduction for 4 coefficients).  Over the reals they coincide. -/
inductive SumOrder | left | right | pairs
  deriving DecidableEq, Repr

section Object
variable {α β : Type}

structure State (α β : Type) where
  /-- `randomGenerator_` -/
  engine : Nat
  /-- `scale_` -/
  scale : List β
  /-- `weights_` (its length is `numberOfCorrespondences_` after the first draw) -/
  weights : List α
  /-- `cumSumWeights_` -/
  cum : List α

/-- constructor (:30-39); `size` = number of coefficients of the point type -/
def State.init [NatCast β] (size : Nat) : State α β :=
  { engine := engineInit, scale := List.replicate size zero, weights := [], cum := [] }

variable [Add α] [Sub α] [Mul α] [Div α] [LT α] [DecidableLT α] [LE α] [DecidableLE α] [NatCast α] [Trans α]
variable [Add β] [Sub β] [Mul β] [Div β] [Neg β] [NatCast β] [Trans β] [Widen β α]

/-- `std::sqrt(12)`: computed in `double`, converted to the point scalar by Eigen's `operator/` -/
def sqrt12 : β := Widen.down (Trans.sqrt (((12 : Nat)) : α))

/-- `computeScale` (:42-49): `scale_ = 2 * (max − min) / std::sqrt(12)`, coefficient by coefficient -/
def State.computeScale (st : State α β) (lo hi : List β) : State α β :=
  { st with scale := List.zipWith (fun l h => (((2 : Nat) : β) * (h - l)) / (sqrt12 (α := α))) lo hi }

def sumOrdered (o : SumOrder) : List β → β
  | [] => zero
  | [a] => a
  | [a, b] => a + b
  | [a, b, c] => match o with
    | .right => a + (b + c)
    | _ => (a + b) + c
  | [a, b, c, d] => match o with
    | .left => ((a + b) + c) + d
    | .right => a + (b + (c + d))
    | .pairs => (a + c) + (b + d)
  | a :: rest => a + sumOrdered o rest          -- more than 4 coefficients: no such point type

/-- `((point − drawSourcePoint).array() * scale_.array()).square()` as a list (:117-118) -/
def scaledSquares (scale p q : List β) : List β :=
  List.zipWith (fun s d => (d * s) * (d * s)) scale (List.zipWith (fun a b => a - b) p q)

/-- the factor `1 − std::exp(−(…).square().sum())` (:117-118), in the point scalar, widened for `weights_[n] *=` -/
def downWeight (o : SumOrder) (scale p q : List β) : α :=
  Widen.up ((one : β) - Trans.exp (-(sumOrdered o (scaledSquares scale p q))))

/-- `preconditionedSourcePointSet[i]` (unchecked in C++; the generators stay in range) -/
def pointAt (pts : Array (List β)) (i : Nat) : List β := pts.getD i []

/-- `updateWeights_` (:99-123) behind the draw of correspondence `idx`; the trailing `computeCumSumWeights_()` is
    in `drawStep` -/
def updateWeights (o : SumOrder) (scale : List β) (pts : Array (List β)) (corrs : List (Corr α)) (idx : Nat)
    (w : List α) : List α :=
  match corrs[idx]? with
  | none => w                                                          -- out of range: undefined behaviour in C++
  | some drawn =>
    let q := pointAt pts drawn.src                                     -- :106-108
    List.zipWith (fun c wn =>
      if c.tgt = drawn.tgt then zero                                   -- :113-114
      else wn * downWeight o scale (pointAt pts c.src) q)              -- :116-118
      corrs w

/-- one pass of the `for` loop of `drawPoints` (:73-83): draw `u`, search, update the weights -/
def drawStep (o : SumOrder) (pts : Array (List β)) (corrs : List (Corr α)) (st : State α β) : State α β × Nat :=
  let r := uniform01 (α := α) st.engine
  let idx := lowerBound st.cum r.2
  let w := updateWeights o st.scale pts corrs idx st.weights
  ({ st with engine := r.1, weights := w, cum := cumSum w }, idx)

/-- `k` passes of the loop: final state and the drawn indexes in drawing order -/
def drawLoop (o : SumOrder) (pts : Array (List β)) (corrs : List (Corr α)) : Nat → State α β → State α β × List Nat
  | 0, st => (st, [])
  | k + 1, st =>
    let r := drawStep o pts corrs st
    let rest := drawLoop o pts corrs k r.1
    (rest.1, r.2 :: rest.2)

/-- `drawPoints` (:52-86): the weights are reloaded from the correspondences (:62-67) — nothing of the previous call
    survives except the engine state and `scale_` — then `k` indexes are drawn; the returned vector holds
    `correspondences[index]` for each of them. -/
def State.drawPoints (o : SumOrder) (st : State α β) (pts : Array (List β)) (corrs : List (Corr α)) (k : Nat) :
    State α β × List Nat :=
  let w := corrs.map (·.weight)
  drawLoop o pts corrs k { st with weights := w, cum := cumSum w }

/-- `resetWeights_` (:89-95): `weights_.assign(numberOfCorrespondences_, 1.)` + `computeCumSumWeights_()` -/
def State.resetWeights (st : State α β) : State α β :=
  let w := List.replicate st.weights.length (one : α)
  { st with weights := w, cum := cumSum w }

/-! ## Call histories on one object -/

inductive Call (α β : Type) where
  | scale (lo hi : List β)
  | draw (pts : Array (List β)) (corrs : List (Corr α)) (k : Nat)
  | reset

/-- one public call (or `resetWeights_`): new state and what the call returned (drawn indexes; `[]` otherwise) -/
def State.call (o : SumOrder) (st : State α β) : Call α β → State α β × List Nat
  | .scale lo hi => (st.computeScale lo hi, [])
  | .draw pts corrs k => st.drawPoints o pts corrs k
  | .reset => (st.resetWeights, [])

/-- a history of calls: final state and the list of returned index lists -/
def State.run (o : SumOrder) (st : State α β) : List (Call α β) → State α β × List (List Nat)
  | [] => (st, [])
  | c :: cs =>
    let r := st.call o c
    let rest := State.run o r.1 cs
    (rest.1, r.2 :: rest.2)

end Object

end Romea.Sampler
