import RomeaModel.Linearize
/-!
# Sequential specifications and witness data flows of the shared variables (C19) — independent of the generated table

`svObj` (a cell) and `optObj` (a one-place buffer) are the sequential objects the theorems compare with.  The DATA
FLOW of the bodies is a parameter of every theorem, constrained by a sequential contract; `svFlow` / `optFlow` are
hand-written WITNESSES that the contracts are satisfiable on today's event lists (shown in
`RomeaProofs/Properties/C19Witness.lean`):

* `SharedVariable` (fields 0 = mutex_, 1 = value_): `store` writes the words of its argument, `load` returns the
  words it read.
* `SharedOptionalVariable` (fields 0 = mutex_, 1 = value_; word 0 = engaged flag, words 1…n = payload): `store` sets the
  flag and writes the payload, `consume` copies flag and payload, clears the flag (`reset()`), returns the copy if engaged.
-/
namespace Romea.Lin
open Romea.Lockset

section
variable {V : Type} [Inhabited V]

/-! ## SharedVariable  (fields: 0 = mutex_, 1 = value_) -/

inductive SVOp (V : Type)
  | store (v : List V)
  | load

def SVOp.method : SVOp V → String
  | .store _ => "store"
  | .load => "load"

/-- `value_ = value;` (SharedVariable.hpp:83)  /  `return value_;` (:91): the read event of `load` is at position 1 -/
def svFlow (W : Nat) : Flow V (SVOp V) (List V) where
  wr := fun _ j _ a => match a with
    | .store v => v.getD j default
    | .load => default
  ret := fun l a => match a with
    | .store _ => []
    | .load => locVec W 1 l

/-- sequential specification: a cell; `load` returns the value last stored -/
def svObj (W : Nat) : SeqObj (List V) (SVOp V) (List V) where
  step := fun cur op => match op with
    | .store v => (pad W v, some [])
    | .load => (cur, some cur)

end

/-! ## SharedOptionalVariable  (fields: 0 = mutex_, 1 = value_; word 0 = engaged, words 1…n = payload) -/

inductive OptOp
  | store (v : List Nat)
  | consume

def OptOp.method : OptOp → String
  | .store _ => "store"
  | .consume => "consume"

/-- `value_ = value;` (SharedOptionalVariable.hpp:76); `auto value = value_; value_.reset(); return value;` (:84-86):
    in `consume` the copy is the read event at position 1, `reset()` the write event at position 2 -/
def optFlow (n : Nat) : Flow Nat OptOp (Option (List Nat)) where
  wr := fun i j l a => match a with
    | .store v => if j = 0 then 1 else v.getD (j - 1) 0
    | .consume => if j = 0 then 0 else l (i, j)
  ret := fun l a => match a with
    | .store _ => none
    | .consume => if l (1, 0) = 0 then none else some ((List.range n).map fun j => l (1, j + 1))

def optAbs (n : Nat) (σ : Store Nat) : Option (List Nat) :=
  if σ (1, 0) = 0 then none else some ((List.range n).map fun j => σ (1, j + 1))

/-- sequential specification: a one-place buffer; `store` overwrites, `consume` takes -/
def optObj (n : Nat) : SeqObj (Option (List Nat)) OptOp (Option (List Nat)) where
  step := fun pend op => match op with
    | .store v => (some (pad n v), some none)
    | .consume => (none, some pend)

/-- the value a result of `consume` hands to the consumer, if any -/
def consumed : Option (Option (List Nat)) → Option (List Nat)
  | some (some v) => some v
  | _ => none

def OptOp.stored (n : Nat) : OptOp → Option (List Nat)
  | .store v => some (pad n v)
  | .consume => none


end Romea.Lin
