import RomeaModel.Scalar

/-!
# Poses, twists, covariance embedding, pose transformation, uncertainty ellipse (C11; reused by C12)

Mirrors (all paths relative to `/repo`)
* `include/romea_core_common/math/Matrix.hpp:54-82`   `toSe2Covariance`, `toSe3Covariance`
* `src/geometry/Pose3D.cpp:35-64`                      `toPose2D`, `toPosition3D`
* `src/geometry/Twist3D.cpp:33-47`                     `toTwist2D`
* `src/geometry/PoseAndTwist3D.cpp:31-45`              `toPoseAndTwist2D`
* `src/geometry/Pose3D.cpp:67-74,119-121`              `operator*(Affine3d, Pose3D)`: position and orientation
   (the covariance part, lines 75-117 and 122, is modelled in `RomeaModel/Derivatives.lean`, C12)
* `include/romea_core_common/math/EulerAngles.hpp:39-45,83-91`  `between0And2Pi`, `rotation3DToEulerAngles`
* `src/transform/SmartRotation3D.cpp:57-90`            `SmartRotation3D::init`, the part computing `R_`
* `src/geometry/Ellipse.cpp:54-71`, `src/geometry/Pose2D.cpp:35-43`, `src/geometry/Position2D.cpp:61-69`
                                                       `Ellipse(center, covariance, sigma)`, `uncertaintyEllipse`

Vectors and matrices are plain functions `Fin n → α` / `Fin n → Fin m → α` (definitionally Mathlib's
`Matrix`, so the theorems use its lemmas without a translation layer).  Every model function returns
*data* (a structure or a `Tab`), never a bare function: intermediate matrices are tabulated with
`tab` into arrays, so that at run time each entry is computed once; in proofs `tab_get` erases it.

External numerical routines are parameters:
* `rotOf` — `Eigen::Affine3d::rotation()` (`Transform.h`: the rotation factor of the polar decomposition of
  the linear part, computed through a JacobiSVD).  Contract used by the theorems: it returns its
  argument when that is a rotation matrix.  The driver plugs in the identity function.
* `svd` — `Eigen::JacobiSVD<MatrixXd>(C, ComputeThinU)` on the 2×2 covariance.  Contract: see
  `RomeaProofs/Properties/C11.lean` (`IsEig2`).  The driver plugs in `eig2Float` below.
-/
namespace Romea.Pose

abbrev Vec (n : Nat) (α : Type) := Fin n → α
abbrev Mat (n m : Nat) (α : Type) := Fin n → Fin m → α

/-! ### Tabulation (run-time sharing of intermediate results) -/

/-- a matrix stored entry by entry -/
structure Tab (n m : Nat) (α : Type) where
  a : Array (Array α)
  h : a.size = n ∧ ∀ i (hi : i < a.size), (a[i]'hi).size = m

def Tab.get {n m : Nat} {α : Type} (x : Tab n m α) : Mat n m α := fun i j =>
  (x.a[i.1]'(by rw [x.h.1]; exact i.2))[j.1]'(by rw [x.h.2]; exact j.2)

def tab {n m : Nat} {α : Type} (f : Mat n m α) : Tab n m α :=
  ⟨Array.ofFn (fun i : Fin n => Array.ofFn (fun j : Fin m => f i j)), by simp⟩

@[simp] theorem tab_get {n m : Nat} {α : Type} (f : Mat n m α) : (tab f).get = f := by
  funext i j; simp [tab, Tab.get]

/-- a vector stored entry by entry -/
structure VTab (n : Nat) (α : Type) where
  a : Array α
  h : a.size = n

def VTab.get {n : Nat} {α : Type} (x : VTab n α) : Vec n α := fun i => x.a[i.1]'(by rw [x.h]; exact i.2)

def vtab {n : Nat} {α : Type} (f : Vec n α) : VTab n α := ⟨Array.ofFn f, by simp⟩

@[simp] theorem vtab_get {n : Nat} {α : Type} (f : Vec n α) : (vtab f).get = f := by
  funext i; simp [vtab, VTab.get]

/-! ### Small linear algebra, written in Eigen's evaluation order for fixed sizes
(coefficient-based lazy product: `Σ_k a(i,k) b(k,j)` accumulated from `k = 0` upwards) -/

section
variable {α : Type} [Add α] [Mul α]

def mul3 (A B : Mat 3 3 α) : Mat 3 3 α :=
  fun i j => A i 0 * B 0 j + A i 1 * B 1 j + A i 2 * B 2 j

def mulVec3 (A : Mat 3 3 α) (v : Vec 3 α) : Vec 3 α :=
  fun i => A i 0 * v 0 + A i 1 * v 1 + A i 2 * v 2
end

/-! ### Covariance component selection (Matrix.hpp) -/

section
variable {α : Type} [NatCast α]

/-- `toSe2Covariance` (Matrix.hpp:54-66): `Zero()`, then the 2×2 block and the five named entries.
    All nine entries are written; entry `(i,j)` is read from `(sel i, sel j)`, `sel = (0,1,5)`. -/
def toSe2Covariance (c : Mat 6 6 α) : Mat 3 3 α := fun i j =>
  match i, j with
  | 0, 0 => c 0 0 | 0, 1 => c 0 1 | 1, 0 => c 1 0 | 1, 1 => c 1 1   -- block<2,2>(0,0)        :58
  | 0, 2 => c 0 5                                                    -- (0,2) = se3(0,5)       :59
  | 1, 2 => c 1 5                                                    -- (1,2) = se3(1,5)       :60
  | 2, 0 => c 5 0                                                    -- (2,0) = se3(5,0)       :61
  | 2, 1 => c 5 1                                                    -- (2,1) = se3(5,1)       :62
  | 2, 2 => c 5 5                                                    -- (2,2) = se3(5,5)       :63

/-- `toSe3Covariance` (Matrix.hpp:69-82): `Zero()`, then the 2×2 block and the five named entries. -/
def toSe3Covariance (c : Mat 3 3 α) : Mat 6 6 α := fun i j =>
  match i, j with
  | 0, 0 => c 0 0 | 0, 1 => c 0 1 | 1, 0 => c 1 0 | 1, 1 => c 1 1   -- block<2,2>(0,0)        :74
  | 0, 5 => c 0 2                                                    -- (0,5) = se2(0,2)       :75
  | 1, 5 => c 1 2                                                    -- (1,5) = se2(1,2)       :76
  | 5, 0 => c 2 0                                                    -- (5,0) = se2(2,0)       :77
  | 5, 1 => c 2 1                                                    -- (5,1) = se2(2,1)       :78
  | 5, 5 => c 2 2                                                    -- (5,5) = se2(2,2)       :79
  | _, _ => ((0 : Nat) : α)                                          -- Matrix::Zero()         :73
end

/-! ### Poses and twists -/

structure Pose3D (α : Type) where
  position : Vec 3 α
  orientation : Vec 3 α
  covariance : Mat 6 6 α

structure Pose2D (α : Type) where
  yaw : α
  position : Vec 2 α
  covariance : Mat 3 3 α

structure Position3D (α : Type) where
  position : Vec 3 α
  covariance : Mat 3 3 α

structure Position2D (α : Type) where
  position : Vec 2 α
  covariance : Mat 2 2 α

structure Twist3D (α : Type) where
  linearSpeeds : Vec 3 α
  angularSpeeds : Vec 3 α
  covariance : Mat 6 6 α

structure Twist2D (α : Type) where
  angularSpeed : α
  linearSpeeds : Vec 2 α
  covariance : Mat 3 3 α

structure PoseAndTwist3D (α : Type) where
  pose : Pose3D α
  twist : Twist3D α

structure PoseAndTwist2D (α : Type) where
  pose : Pose2D α
  twist : Twist2D α

/-- `v.x(), v.y()` of a 3-vector -/
def xy {α : Type} (v : Vec 3 α) : Vec 2 α := fun i => match i with | 0 => v 0 | 1 => v 1

section
variable {α : Type} [NatCast α]

/-- `toPose2D` (Pose3D.cpp:35-41) -/
def toPose2D (p : Pose3D α) : Pose2D α :=
  { position := xy p.position                       -- :37-38
    yaw := p.orientation 2                          -- :39
    covariance := (tab (toSe2Covariance p.covariance)).get }   -- :40

/-- `toPosition3D` (Pose3D.cpp:44-48): position and `covariance.block<3,3>(0,0)` -/
def toPosition3D (p : Pose3D α) : Position3D α :=
  { position := p.position
    covariance := fun i j => p.covariance ⟨i.1, by omega⟩ ⟨j.1, by omega⟩ }

/-- `toTwist2D` (Twist3D.cpp:40-46) -/
def toTwist2D (t : Twist3D α) : Twist2D α :=
  { linearSpeeds := xy t.linearSpeeds               -- :42-43
    angularSpeed := t.angularSpeeds 2               -- :44
    covariance := (tab (toSe2Covariance t.covariance)).get }   -- :45

/-- `toPoseAndTwist2D` (PoseAndTwist3D.cpp:39-45) -/
def toPoseAndTwist2D (pt : PoseAndTwist3D α) : PoseAndTwist2D α :=
  { pose := toPose2D pt.pose, twist := toTwist2D pt.twist }
end

/-! ### Euler angles of a rotation (EulerAngles.hpp) and `SmartRotation3D::R` -/

section
variable {α : Type} [Add α] [Sub α] [Mul α] [Neg α] [LT α] [DecidableLT α] [NatCast α] [Trans α]

/-- `M_2PI = 2 * M_PI` (EulerAngles.hpp:34) -/
def twoPi : α := ((2 : Nat) : α) * Trans.pi

/-- one reduction step of C's `fmod(x, m)` for `m > 0`: the result keeps the sign of `x` -/
def fmodStep (x m : α) : α :=
  if Trans.abs x < m then x else if x < ((0 : Nat) : α) then x + m else x - m

/-- `std::fmod(x, m)` for `|x| < 3 m` (two steps; each subtraction is exact by Sterbenz' lemma).
    The callers here pass values of `atan2` / `asin`, which lie in `[-π, π]`: no step is taken. -/
def fmod (x m : α) : α := fmodStep (fmodStep x m) m

/-- `between0And2Pi` (EulerAngles.hpp:39-45) -/
def between0And2Pi (v : α) : α :=
  let value := fmod v twoPi
  if value < ((0 : Nat) : α) then value + twoPi else value

/-- `rotation3DToEulerAngles` (EulerAngles.hpp:83-91) -/
def rotation3DToEulerAngles (r : Mat 3 3 α) : Vec 3 α := fun i =>
  match i with
  | 0 => between0And2Pi (Trans.atan2 (r 2 1) (r 2 2))       -- :87
  | 1 => between0And2Pi (-Trans.asin (r 2 0))               -- :88
  | 2 => between0And2Pi (Trans.atan2 (r 1 0) (r 0 0))       -- :89

/-- `Rx_`: identity with the four entries of SmartRotation3D.cpp:72-75 overwritten -/
def rotX (c s : α) : Mat 3 3 α := fun i j =>
  match i, j with
  | 1, 1 => c | 1, 2 => -s | 2, 1 => s | 2, 2 => c
  | 0, 0 => ((1 : Nat) : α)
  | _, _ => ((0 : Nat) : α)

/-- `Ry_`: SmartRotation3D.cpp:78-81 -/
def rotY (c s : α) : Mat 3 3 α := fun i j =>
  match i, j with
  | 0, 0 => c | 0, 2 => s | 2, 0 => -s | 2, 2 => c
  | 1, 1 => ((1 : Nat) : α)
  | _, _ => ((0 : Nat) : α)

/-- `Rz_`: SmartRotation3D.cpp:84-87 -/
def rotZ (c s : α) : Mat 3 3 α := fun i j =>
  match i, j with
  | 0, 0 => c | 0, 1 => -s | 1, 0 => s | 1, 1 => c
  | 2, 2 => ((1 : Nat) : α)
  | _, _ => ((0 : Nat) : α)

/-- `SmartRotation3D(angles).R()`: `R_ = Rz_ * Ry_ * Rx_` (SmartRotation3D.cpp:62-90);
    Eigen evaluates the inner product `Rz_ * Ry_` into a temporary first. -/
def smartR (angles : Vec 3 α) : Tab 3 3 α :=
  let cosx := Trans.cos (angles 0); let sinx := Trans.sin (angles 0)
  let cosy := Trans.cos (angles 1); let siny := Trans.sin (angles 1)
  let cosz := Trans.cos (angles 2); let sinz := Trans.sin (angles 2)
  let rzy := tab (mul3 (rotZ cosz sinz) (rotY cosy siny))
  tab (mul3 rzy.get (rotX cosx sinx))

/-- `operator*(Affine3d, Pose3D)`, position and orientation (Pose3D.cpp:67-74, 119-121).
    `lin`, `trans`: linear part and translation of the affine transform.
    `cov` is left to the caller (C12 models it); C11 is about the mean. -/
def poseMulMean (rotOf : Mat 3 3 α → Mat 3 3 α) (lin : Mat 3 3 α) (trans : Vec 3 α)
    (position orientation : Vec 3 α) : VTab 3 α × VTab 3 α :=
  let sR := smartR orientation                                  -- :69
  let R := tab (rotOf lin)                                      -- :71  affine.rotation()
  let rotation := tab (mul3 R.get sR.get)                       -- :73
  let Rp := vtab (mulVec3 R.get position)
  let pos := vtab (fun i => Rp.get i + trans i)                 -- :120 R * position + T
  let ori := vtab (rotation3DToEulerAngles rotation.get)        -- :121
  (pos, ori)
end

/-! ### Uncertainty ellipse -/

/-- what is read from `JacobiSVD<MatrixXd>(C, ComputeThinU)`: the two singular values and `matrixU()` -/
structure Eig2 (α : Type) where
  s0 : α
  s1 : α
  U : Mat 2 2 α

structure Ellipse (α : Type) where
  center : Vec 2 α
  orientation : α
  major : α
  minor : α

section
variable {α : Type} [Mul α] [Trans α]

/-- `Ellipse(center, covariance, sigmaScale)` (Ellipse.cpp:54-71) -/
def ellipseOfCov (svd : Mat 2 2 α → Eig2 α) (center : Vec 2 α) (c : Mat 2 2 α) (sigmaScale : α) : Ellipse α :=
  let d := svd c                                                  -- :63-65
  { center := center
    orientation := Trans.atan2 (d.U 1 0) (d.U 0 0)                -- :67
    major := Trans.sqrt d.s0 * sigmaScale                         -- :68
    minor := Trans.sqrt d.s1 * sigmaScale }                       -- :69

/-- `uncertaintyEllipse(Position2D, sigma)` (Position2D.cpp:61-69) -/
def uncertaintyEllipsePosition (svd : Mat 2 2 α → Eig2 α) (p : Position2D α) (sigmaScale : α) : Ellipse α :=
  ellipseOfCov svd p.position p.covariance sigmaScale

/-- `uncertaintyEllipse(Pose2D, sigma)` (Pose2D.cpp:35-43): `covariance.block<2,2>(0,0)` -/
def uncertaintyEllipsePose (svd : Mat 2 2 α → Eig2 α) (p : Pose2D α) (sigmaScale : α) : Ellipse α :=
  ellipseOfCov svd p.position (fun i j => p.covariance ⟨i.1, by omega⟩ ⟨j.1, by omega⟩) sigmaScale
end

/-! ### `Float` stand-ins for the oracles (driver only) -/

/-- closed-form eigen-decomposition of a symmetric 2×2 matrix `[[a,b],[b,d]]`, eigenvalues in
    descending order and clamped at 0 (singular values are non-negative), first eigenvector `v`,
    second `(-v₁, v₀)`.  Only `c 0 0`, `c 1 0`, `c 1 1` are read. -/
def eig2Float (c : Mat 2 2 Float) : Eig2 Float :=
  let a := c 0 0; let b := c 1 0; let d := c 1 1
  let t := (a - d) / 2
  let h := Float.sqrt (t * t + b * b)
  let m := (a + d) / 2
  let l0 := m + h
  -- the small eigenvalue through the determinant (less cancellation than `m - h`)
  let l1 := if l0 > 0 then (a * d - b * b) / l0 else 0
  let l1 := if l1 < 0 then 0 else if l1 > l0 then l0 else l1     -- rounding must not break 0 ≤ s₁ ≤ s₀
  let (vx, vy) := if h == 0 then (1, 0) else if t ≥ 0 then (t + h, b) else (b, h - t)
  let n := Float.sqrt (vx * vx + vy * vy)
  let (vx, vy) := if n == 0 then (1, 0) else (vx / n, vy / n)
  { s0 := l0, s1 := l1
    U := fun i j => match i, j with | 0, 0 => vx | 1, 0 => vy | 0, 1 => -vy | 1, 1 => vx }

end Romea.Pose
