import RomeaModel.Linearize
/-!
# Check-up reports in the interleaving semantics (C19) — independent of the generated table

`RepOp` / `repCall`: the three operations of a check-up on the bodies `ofEvents` builds from a class's event lists
(the data flow is a parameter).  `gtFrozen`, `gtFlow`, `gtTriple`, `gtK`: a concrete instance used by the
non-vacuity examples.
-/
namespace Romea.Lin
open Romea.Lockset

/-! ## check-up reports -/

inductive RepOp (X : Type)
  | evaluate (x : X)
  | timeout
  | getReport

def RepOp.method {X : Type} : RepOp X → String
  | .evaluate _ => "evaluate"
  | .timeout => "timeout"
  | .getReport => "getReport"

/-- the evaluation a writer call performs (`none` = `timeout()`) -/
def RepOp.written {X : Type} : RepOp X → Option (Option X)
  | .evaluate x => some (some x)
  | .timeout => some none
  | .getReport => none

section
variable {V X : Type} [Inhabited V]

def repCall (c : Class) (W : Nat) (fl : Flow V (RepOp X) (List V)) (op : RepOp X) : Call V (RepOp X) (List V) :=
  ⟨ofEvents W fl (c.evsOf op.method), op⟩

end

/-! ## a concrete check-up data flow (for the non-vacuity examples): `CheckupGreaterThan<double>`

fields 0 = mutex_, 1 = value_to_compare_with_, 2 = epsilon_, 3 = report_; report words 0 = status, 1 = message,
2 = info value.  Between `acq` and `rel` of `evaluate` (CheckupGreaterThan.hpp:58-68) the events are: the two reads
of the comparison (positions 1, 2); for each of the two branches the four events of `setDiagnostic_`
(Checkup.hpp:107-114: the reference `diagnostic` is bound, `diagnostic.message` is written, the info key is read,
`diagnostic.status` is written — positions 3-6 and 7-10); `setValue_` (position 11); `getStatus_` (position 12).
Status 0 = OK, 2 = ERROR, 3 = STALE; message = 10 + status; value 0 = "" . -/

def gtOK (l : Locals Nat) (x : Nat) : Bool := decide (x + l (2, 0) > l (1, 0))

def gtFlow : Flow Nat (RepOp Nat) (List Nat) where
  wr := fun i j l a => match a with
    | .evaluate x =>
      if i = 4 then (if j = 1 ∧ gtOK l x then 10 else l (i, j))            -- branch OK: message
      else if i = 6 then (if j = 0 ∧ gtOK l x then 0 else l (i, j))        -- branch OK: status
      else if i = 8 then (if j = 1 ∧ ¬ gtOK l x then 12 else l (i, j))     -- branch ERROR: message
      else if i = 10 then (if j = 0 ∧ ¬ gtOK l x then 2 else l (i, j))     -- branch ERROR: status
      else if i = 11 then (if j = 2 then x + 100 else l (i, j))            -- setValue_
      else l (i, j)
    | .timeout =>
      if i = 2 then (if j = 1 then 13 else l (i, j))
      else if i = 4 then (if j = 0 then 3 else l (i, j))
      else if i = 5 then (if j = 2 then 0 else l (i, j))
      else l (i, j)
    | .getReport => l (i, j)
  ret := fun l a => match a with
    | .evaluate _ => [l (12, 0)]
    | .timeout => []
    | .getReport => locVec 3 1 l

/-- the triple one evaluation writes, given the thresholds -/
def gtTriple (thr eps : Nat) : Option Nat → List Nat
  | some x => if x + eps > thr then [0, 10, x + 100] else [2, 12, x + 100]
  | none => [3, 13, 0]

/-- frozen copy of `cls_CheckupGreaterThan` as regenerated on 2026-09-30 (used by the non-vacuity examples only, so
    that a harmless edit of `evaluate` that shifts event positions does not break an EXAMPLE; the theorems themselves
    are stated for every class of the regenerated table) -/
def gtFrozen : Class :=
  { name := "CheckupGreaterThan", mutexes := [0], methods := [
    { name := "evaluate", evs := [.acq 0, .rd 1, .rd 2, .wr 3, .wr 3, .wr 3, .wr 3, .wr 3, .wr 3, .wr 3, .wr 3, .wr 3, .rd 3, .rel 0] },
    { name := "getReport", evs := [.acq 0, .rd 3, .rel 0] },
    { name := "timeout", evs := [.acq 0, .wr 3, .wr 3, .wr 3, .wr 3, .wr 3, .rel 0] }] }

/-- the stable side condition of the example: the thresholds have their configured values -/
def gtK (thr eps : Nat) (σ : Store Nat) : Prop := σ (1, 0) = thr ∧ σ (2, 0) = eps

end Romea.Lin
