import RomeaModel.Linearize
/-!
# Classes that are also read OUTSIDE their mutex through one atomic member (C19, `RateMonitoring`)

`RateMonitoring::update` / `timeout` are critical sections on `mutex_`; `getRate` is a lone atomic load of `rate_`
that takes no lock.  Such a class does not have the shape of `Linearize.lean`'s reduction theorem (`Shape`), but it is
still serialisable under a slightly richer shape, defined here on the SAME interleaving semantics — nothing is added to
`Step` / `step`: an access of an atomic (or internally synchronised, `SharedVariable`) member is ONE micro-step on a
ONE-word field (word 0), which the semantics already executes atomically; a plain member is `W` words, one step each.

* **writer body** (`WShape g a C`): steps that only read CONSTANT addresses (`C`: written by no in-scope method) or are
  local, then `acq g`, then data steps that never write a constant address and write the observable atomic address `a`
  AT MOST ONCE, then `rel g`, then again only constant reads / local steps — in particular NO access after the release
  of anything an in-scope method writes, atomic members included;
* **reader body** (`RShape a C`): constant reads / local steps around exactly ONE read of `a`.

The conclusion (`Serialised`): the state reached by a schedule is explained by the SERIAL execution `serial σ0 prog lin`
of the same calls for some order `lin` (one thread id per call made) that respects every thread's program order, in
which the writer calls appear in guard-acquisition order (`guard_order`) and every reader call is placed at its load —
before the critical section in flight if that has not written `a` yet, after it otherwise.  The theorems are in
`RomeaProofs/Lemmas/C19Atomic.lean` and `RomeaProofs/Properties/C19Rate.lean`.

Second half of this file: the extended event lists of the regenerated table (`XEv`, `Lockset.lean`) as bodies
(`xofEvents`) and the DECIDABLE shape check that is run on them by `decide` on every run (`XClass.rateParams`).
-/
namespace Romea.Lin
open Romea.Lockset

section
variable {V A R : Type} [Inhabited V]

/-- a step that touches no mutex, writes nothing and reads only constant addresses (`ret`, or `rd` of an address in `C`) -/
def Step.isConstRd (C : Addr → Prop) : Step V A R → Prop
  | .ret _ => True
  | .rd ad _ => C ad
  | _ => False

/-- a step allowed inside the critical section: a data step that does not write a constant address -/
def Step.isCS (C : Addr → Prop) : Step V A R → Prop
  | .rd _ _ => True
  | .wr ad _ => ¬ C ad
  | .ret _ => True
  | _ => False

/-- the step writes address `a` -/
def Step.writesTo (a : Addr) : Step V A R → Bool
  | .wr ad _ => ad == a
  | _ => false

/-- number of steps of a body that write address `a` -/
def wrCount (a : Addr) (b : List (Step V A R)) : Nat := b.countP (Step.writesTo a)

/-- **writer**: [constant reads]*, `acq g`, data steps writing no constant and writing `a` at most once, `rel g`,
    [constant reads]* -/
def WShape (g : Nat) (a : Addr) (C : Addr → Prop) (b : List (Step V A R)) : Prop :=
  ∃ pre cs post, b = pre ++ Step.acq g :: (cs ++ Step.rel g :: post) ∧
    (∀ st ∈ pre, st.isConstRd C) ∧ (∀ st ∈ cs, st.isCS C) ∧ wrCount a cs ≤ 1 ∧ (∀ st ∈ post, st.isConstRd C)

/-- **reader**: [constant reads]*, ONE read of the atomic address `a`, [constant reads]* — no lock -/
def RShape (a : Addr) (C : Addr → Prop) (b : List (Step V A R)) : Prop :=
  ∃ pre x post, b = pre ++ Step.rd a x :: post ∧ (∀ st ∈ pre, st.isConstRd C) ∧ (∀ st ∈ post, st.isConstRd C)

def AShape (g : Nat) (a : Addr) (C : Addr → Prop) (b : List (Step V A R)) : Prop :=
  WShape g a C b ∨ RShape a C b

def Step.isAcq (g : Nat) : Step V A R → Bool
  | .acq m => m == g
  | _ => false

/-- the call takes the guard (a writer call) -/
def Call.guarded (g : Nat) (c : Call V A R) : Bool := c.body.any (Step.isAcq g)

/-- the threads of the writer calls of a sequential history, in order -/
def wOrder (g : Nat) (h : List (Nat × Call V A R × Option R)) : List Nat :=
  (h.filter fun e => e.2.1.guarded g).map fun e => e.1

/-- the conclusion of the serialisability theorem: state `s` (reached by some schedule from `init σ0 prog`) is explained
    by the serial execution of the calls in the order `lin` (thread ids, one per call made) -/
structure Serialised (g : Nat) (a : Addr) (σ0 : Store V) (prog : Nat → List (Call V A R)) (s : State V A R)
    (lin : List Nat) : Prop where
  /-- `lin` is a legitimate serial execution: no thread is asked for a call it does not have … -/
  ok : (serial σ0 prog lin).ok = true
  /-- … it respects every thread's program order … -/
  program_order : ∀ t, histCalls (serial σ0 prog lin).hist t ++ (serial σ0 prog lin).todo t = prog t
  res_hist : ∀ t, (serial σ0 prog lin).res t = histRes (serial σ0 prog lin).hist t
  /-- … the writer calls (`update`, `timeout`) appear in it in the order in which they acquired the guard; at most the
      critical section in flight (`pend`) has acquired the guard and is not in `lin` yet … -/
  guard_order : ∃ pend, wOrder g (serial σ0 prog lin).hist ++ pend = acqOrder g s ∧ pend.length ≤ 1 ∧
      (s.locks g = none → pend = [])
  /-- … the return values of the completed calls of every thread are, call by call, those of the serial execution;
      at most one more call of the thread (the one in flight) is in the serial history -/
  returns : ∀ t, (s.thr t).done <+: (serial σ0 prog lin).res t ∧
      ((serial σ0 prog lin).res t).length ≤ (s.thr t).done.length + 1
  /-- a thread that is between two calls has all its calls so far in the serial history -/
  idle : ∀ t, (s.thr t).cur = none → (serial σ0 prog lin).res t = (s.thr t).done ∧
      (serial σ0 prog lin).todo t = (s.thr t).todo ∧ s.locks g ≠ some t
  /-- nobody in a critical section: the store is the serial store -/
  store_free : s.locks g = none → s.store = (serial σ0 prog lin).store
  /-- at EVERY moment the atomic word is the serial one (this is what a lock-free reader sees) -/
  atomic_now : s.store a = (serial σ0 prog lin).store a
  /-- thread `h` in its critical section: letting `h` finish its call alone from the present state gives the serial
      store and result of that call — the call is the last writer of `lin`, or the next one to be appended to it -/
  store_held : ∀ h, s.locks g = some h → ∃ fr, (s.thr h).cur = some fr ∧
      (((serial σ0 prog lin).store = (fr.finish s.store).1 ∧
          (serial σ0 prog lin).res h = (s.thr h).done ++ [(fr.finish s.store).2.2]) ∨
       ((serial σ0 prog (lin ++ [h])).store = (fr.finish s.store).1 ∧
          (serial σ0 prog (lin ++ [h])).res h = (s.thr h).done ++ [(fr.finish s.store).2.2]))

/-! ## Bodies from the extended event lists of the regenerated table -/

/-- extended event at position `i` ↦ micro-steps.  Plain members as in `evSteps` (`W` words, one step per word).
    Atomic / internally synchronised members are ONE word (word 0): `ald f` is one read step; `ast f` is one read step
    followed by one write step of a value computed from everything read so far — a store the code performs only on some
    paths (`rate_.store` inside the `if` of `update`) is the data flow that writes back the word just read; inside the
    critical section nobody else writes in between.  `armw f` is given the same steps (no shape accepts it). -/
def xevSteps (W : Nat) (fl : Flow V A R) (i : Nat) : XEv → List (Step V A R)
  | .acq m => [Step.acq m]
  | .rel m => [Step.rel m]
  | .rd f => rdWords W f i
  | .wr f => rdWords W f i ++ wrWords W f (fl.wr i)
  | .ald f => [Step.rd (f, 0) (i, 0)]
  | .ast f => [Step.rd (f, 0) (i, 0), Step.wr (f, 0) (fl.wr i 0)]
  | .armw f => [Step.rd (f, 0) (i, 0), Step.wr (f, 0) (fl.wr i 0)]
  | .escape f => rdWords W f i

def xofEventsFrom (W : Nat) (fl : Flow V A R) : Nat → List XEv → List (Step V A R)
  | _, [] => [Step.ret fl.ret]
  | i, e :: r => xevSteps W fl i e ++ xofEventsFrom W fl (i + 1) r

/-- body of a method from its extended event list (then the result is computed from everything read) -/
def xofEvents (W : Nat) (fl : Flow V A R) (evs : List XEv) : List (Step V A R) := xofEventsFrom W fl 0 evs

end

/-! ## The decidable shape of an extended event list

`wrt` = the fields some in-scope method writes (plain or atomic), `g` the guard, `fa` the atomic member that is read
outside the guard. -/

/-- allowed outside the critical section: a read of a field NO in-scope method writes -/
def xConst (wrt : List Nat) : XEv → Bool
  | .rd f => !wrt.contains f
  | .ald f => !wrt.contains f
  | _ => false

/-- inside the critical section, `n` = stores to `fa` still allowed: plain reads, plain writes of written fields other
    than `fa`, atomic loads, atomic stores (to `fa`: at most `n`), then `rel g`, then constant reads only -/
def xCS (g fa : Nat) (wrt : List Nat) : Nat → List XEv → Bool
  | _, [] => false
  | _, .rel m :: r => m == g && r.all (xConst wrt)
  | n, .rd _ :: r => xCS g fa wrt n r
  | n, .wr f :: r => f != fa && wrt.contains f && xCS g fa wrt n r
  | n, .ald _ :: r => xCS g fa wrt n r
  | n, .ast f :: r => wrt.contains f && (if f == fa then n != 0 && xCS g fa wrt (n - 1) r else xCS g fa wrt n r)
  | _, _ => false

/-- `update`, `timeout`: [reads of fields no in-scope method writes]*, `acq g`, only `rd | wr | ald | ast` with at most
    ONE store to `fa`, `rel g`, and after the release nothing that touches a field an in-scope method writes -/
def xWriter (g fa : Nat) (wrt : List Nat) : List XEv → Bool
  | [] => false
  | .acq m :: r => m == g && xCS g fa wrt 1 r
  | e :: r => xConst wrt e && xWriter g fa wrt r

/-- `getRate`: exactly one atomic load of `fa` and nothing else -/
def xReader (fa : Nat) : List XEv → Bool
  | [.ald f] => f == fa
  | _ => false

end Romea.Lin

namespace Romea.Lockset
open Romea.Lin

/-- every in-scope method is a writer on guard `g` or a lone load of `fa` -/
def XClass.rateShapedWith (c : XClass) (g fa : Nat) : Bool :=
  c.methods.all fun m => xWriter g fa c.written m.evs || xReader fa m.evs

/-- the (guard, atomic member read outside the guard) under which the class has the shape — first such pair of a
    mutex and a written field; `none` if there is none -/
def XClass.rateParams (c : XClass) : Option (Nat × Nat) :=
  ((c.mutexes.flatMap fun g => c.written.map fun fa => (g, fa)).filter fun p => c.rateShapedWith p.1 p.2).head?

/-- for the failing-input report: the methods without the shape under the class's first mutex and atomic member `fa` -/
def XClass.rateBadMethods (c : XClass) (fa : Nat) : List String :=
  match c.mutexes with
  | [] => c.methods.map (·.name)
  | g :: _ => (c.methods.filter fun m => !(xWriter g fa c.written m.evs || xReader fa m.evs)).map (·.name)

/-- the call of operation `op`: body built from the regenerated extended event list of the method `meth op` -/
def XClass.call {V Op R : Type} (c : XClass) (W : Nat) (fl : Flow V Op R) (meth : Op → String) (op : Op) : Call V Op R :=
  ⟨xofEvents W fl (c.evsOf (meth op)), op⟩

end Romea.Lockset
