import RomeaModel.Pose

/-!
# Analytic derivatives and propagated covariances (C12)

Mirrors (paths relative to `/repo`)
* `src/transform/SmartRotation3D.cpp:24-37, 57-113`  constructor (all per-axis matrices start as `Identity()`),
  `init` (only the rotating 2×2 block of each is overwritten), `dRdAngle{X,Y,Z}_`
* `src/transform/SmartRotation3D.cpp:136-143`         `dRTdAngles`
* `src/geometry/Pose3D.cpp:67-120`                    `operator*(Affine3d, Pose3D)`: the 6×6 Jacobian and `J C Jᵀ`
* `src/regression/leastsquares/LeastSquares.cpp:214-219, 236-244`  `computeEstimateCovariance`, `computeJTJ_`

Besides the code as written, this file defines what the derivatives *should* be (`trueDerivs`,
`jacobianTrue`): the entrywise differentiated matrices.  They are used by the theorems (C12 states how
the code deviates from them) and printed by the driver next to the code's values, where the harness prints
finite differences of the implementation's own maps — so the correspondence check also validates that
these "should be" definitions are the derivatives of what the C++ computes.

External routine: the inverse of `JᵀJ` (`LDLT::solve(Identity)` resp. the SVD pseudo-inverse) is the
parameter `inv` of `lsqCovariance`.
-/
namespace Romea.Deriv
open Romea.Pose

section
variable {α : Type} [Add α] [Sub α] [Mul α] [Div α] [Neg α] [LT α] [DecidableLT α] [NatCast α] [Trans α]

/-! ### SmartRotation3D -/

/-- `dRxdAngleX_`: `Identity()` (SmartRotation3D.cpp:30) with the four entries of lines 93-96 overwritten.
    Entry `(0,0)` keeps the constructor's `1`. -/
def dRotXCode (c s : α) : Mat 3 3 α := fun i j =>
  match i, j with
  | 1, 1 => -s | 1, 2 => -c | 2, 1 => c | 2, 2 => -s
  | 0, 0 => ((1 : Nat) : α)
  | _, _ => ((0 : Nat) : α)

/-- `dRydAngleY_`: `Identity()` (:31) with lines 99-102; entry `(1,1)` keeps the `1`. -/
def dRotYCode (c s : α) : Mat 3 3 α := fun i j =>
  match i, j with
  | 0, 0 => -s | 0, 2 => c | 2, 0 => -c | 2, 2 => -s
  | 1, 1 => ((1 : Nat) : α)
  | _, _ => ((0 : Nat) : α)

/-- `dRzdAngleZ_`: `Identity()` (:32) with lines 105-108; entry `(2,2)` keeps the `1`. -/
def dRotZCode (c s : α) : Mat 3 3 α := fun i j =>
  match i, j with
  | 0, 0 => -s | 0, 1 => -c | 1, 0 => c | 1, 1 => -s
  | 2, 2 => ((1 : Nat) : α)
  | _, _ => ((0 : Nat) : α)

/-- the entrywise derivative of `rotX (cos a) (sin a)` with respect to `a` (zero outside the block) -/
def dRotXTrue (c s : α) : Mat 3 3 α := fun i j =>
  match i, j with
  | 1, 1 => -s | 1, 2 => -c | 2, 1 => c | 2, 2 => -s
  | _, _ => ((0 : Nat) : α)

def dRotYTrue (c s : α) : Mat 3 3 α := fun i j =>
  match i, j with
  | 0, 0 => -s | 0, 2 => c | 2, 0 => -c | 2, 2 => -s
  | _, _ => ((0 : Nat) : α)

def dRotZTrue (c s : α) : Mat 3 3 α := fun i j =>
  match i, j with
  | 0, 0 => -s | 0, 1 => -c | 1, 0 => c | 1, 1 => -s
  | _, _ => ((0 : Nat) : α)

/-- the members of `SmartRotation3D` read by its accessors -/
structure Smart (α : Type) where
  R : Tab 3 3 α
  dRdX : Tab 3 3 α
  dRdY : Tab 3 3 α
  dRdZ : Tab 3 3 α

/-- `SmartRotation3D::init` (SmartRotation3D.cpp:57-113).  The object has no other state that survives a
    second `init`: every entry that `init` does not overwrite still holds the constructor's identity. -/
def smartInit (angles : Vec 3 α) : Smart α :=
  let cosx := Trans.cos (angles 0); let sinx := Trans.sin (angles 0)          -- :62-63
  let cosy := Trans.cos (angles 1); let siny := Trans.sin (angles 1)          -- :65-66
  let cosz := Trans.cos (angles 2); let sinz := Trans.sin (angles 2)          -- :68-69
  let rx := rotX cosx sinx; let ry := rotY cosy siny; let rz := rotZ cosz sinz
  let rzy := tab (mul3 rz ry)
  { R := tab (mul3 rzy.get rx)                                                 -- :90
    dRdX := tab (mul3 rzy.get (dRotXCode cosx sinx))                           -- :110  Rz_ * Ry_ * dRxdAngleX_
    dRdY := tab (mul3 (tab (mul3 rz (dRotYCode cosy siny))).get rx)            -- :111  Rz_ * dRydAngleY_ * Rx_
    dRdZ := tab (mul3 (tab (mul3 (dRotZCode cosz sinz) ry)).get rx) }          -- :112  dRzdAngleZ_ * Ry_ * Rx_

/-- the true partial derivatives of `R = Rz Ry Rx` with respect to roll, pitch, yaw -/
def trueDerivs (angles : Vec 3 α) : Tab 3 3 α × Tab 3 3 α × Tab 3 3 α :=
  let cosx := Trans.cos (angles 0); let sinx := Trans.sin (angles 0)
  let cosy := Trans.cos (angles 1); let siny := Trans.sin (angles 1)
  let cosz := Trans.cos (angles 2); let sinz := Trans.sin (angles 2)
  let rx := rotX cosx sinx; let ry := rotY cosy siny; let rz := rotZ cosz sinz
  let rzy := tab (mul3 rz ry)
  (tab (mul3 rzy.get (dRotXTrue cosx sinx)),
   tab (mul3 (tab (mul3 rz (dRotYTrue cosy siny))).get rx),
   tab (mul3 (tab (mul3 (dRotZTrue cosz sinz) ry)).get rx))

/-- `SmartRotation3D::dRTdAngles` (SmartRotation3D.cpp:136-143): column `k` is `dRdAngle_k * T` -/
def dRTdAngles (s : Smart α) (t : Vec 3 α) : Tab 3 3 α :=
  let c0 := vtab (mulVec3 s.dRdX.get t)                                       -- :139
  let c1 := vtab (mulVec3 s.dRdY.get t)                                       -- :140
  let c2 := vtab (mulVec3 s.dRdZ.get t)                                       -- :141
  tab (fun i j => match j with | 0 => c0.get i | 1 => c1.get i | 2 => c2.get i)

/-! ### The pose covariance of `operator*(Affine3d, Pose3D)` -/

/-- Eigen's 3-term dot product (`redux` unrolled as `e₀ + (e₁ + e₂)`) -/
def dot3 (a b : Vec 3 α) : α := a 0 * b 0 + (a 1 * b 1 + a 2 * b 2)

def zero : α := ((0 : Nat) : α)

/-- the 6×6 Jacobian exactly as written in Pose3D.cpp:75-113.
    `R`: `affine.rotation()`, `rotation = R * smartRotation.R()`, `dX dY dZ`: `smartRotation.dRdAngleAround{X,Y,Z}Axis()` -/
def jacobianCode (R rotation dX dY dZ : Mat 3 3 α) : Tab 6 6 α :=
  let r21 := rotation 2 1                                                      -- :79
  let r22 := rotation 2 2                                                      -- :80
  let a21 := r22 / (r21 * r21 + r22 * r22)                                     -- :81
  let a22 := r21 / (r21 * r21 + r22 * r22)                                     -- :82
  let rollRow (d : Mat 3 3 α) : α :=                                           -- :83-91
    dot3 (fun k => R 2 k) (fun k => a21 * d k 1 - a22 * d k 2)
  let r20 := rotation 2 0                                                      -- :95
  let a20 := ((1 : Nat) : α) / (((1 : Nat) : α) - r20 * r20)                   -- :96
  let pitchRow (d : Mat 3 3 α) : α :=                                          -- :97-99
    dot3 (fun k => R 2 k) (fun k => a20 * d k 0)
  let r10 := R 1 0                                                             -- :103  (the affine's entry)
  let r00 := R 0 0                                                             -- :104
  let a10 := r00 / (r00 * r00 + r10 * r10)                                     -- :105
  let a00 := r10 / (r00 * r00 + r10 * r10)                                     -- :106
  let yawRow (d : Mat 3 3 α) : α :=                                            -- :108-113
    dot3 (fun k => -a00 * rotation 0 k + a10 * rotation 1 k) (fun k => d k 0)
  let j33 := rollRow dX; let j34 := rollRow dY; let j35 := rollRow dZ
  let j43 := pitchRow dX; let j44 := pitchRow dY; let j45 := pitchRow dZ
  let j53 := yawRow dY                                                         -- :108-109  (Y matrix in column 3)
  let j54 := yawRow dX                                                         -- :110-111  (X matrix in column 4)
  let j55 := yawRow dZ                                                         -- :112-113
  tab (fun i j =>
    match i, j with
    | 0, 0 => rotation 0 0 | 0, 1 => rotation 0 1 | 0, 2 => rotation 0 2      -- :76  block<3,3>(0,0) = rotation
    | 1, 0 => rotation 1 0 | 1, 1 => rotation 1 1 | 1, 2 => rotation 1 2
    | 2, 0 => rotation 2 0 | 2, 1 => rotation 2 1 | 2, 2 => rotation 2 2
    | 3, 3 => j33 | 3, 4 => j34 | 3, 5 => j35
    | 4, 3 => j43 | 4, 4 => j44 | 4, 5 => j45
    | 5, 3 => j53 | 5, 4 => j54 | 5, 5 => j55
    | _, _ => zero)                                                            -- :75  Matrix6d::Zero()

/-- the Jacobian of the library's own pose map `(p, angles) ↦ (R p + T, rotation3DToEulerAngles (R · Rz Ry Rx))`
    obtained by differentiating it entry by entry (chain rule through `atan2` and `asin`).
    `M = R · Rz Ry Rx`; `dM k = R · ∂(Rz Ry Rx)/∂angle_k` with the TRUE derivatives.
    Written in the arithmetic form of the proposed repair (`tools/prompts/pose3d_covariance_fix.diff`), so that
    it is also the model of the repaired `operator*`. -/
def jacobianTrue (R M : Mat 3 3 α) (dM : Fin 3 → Mat 3 3 α) : Tab 6 6 α :=
  let r21 := M 2 1; let r22 := M 2 2; let r20 := M 2 0; let r10 := M 1 0; let r00 := M 0 0
  -- roll' = atan2(M21, M22):  (M22 dM21 - M21 dM22) / (M21² + M22²)
  let rollRow (d : Mat 3 3 α) : α := (r22 * d 2 1 - r21 * d 2 2) / (r21 * r21 + r22 * r22)
  -- pitch' = -asin(M20):  -dM20 / sqrt(1 - M20²)
  let pitchRow (d : Mat 3 3 α) : α := -(d 2 0) / Trans.sqrt (((1 : Nat) : α) - r20 * r20)
  -- yaw' = atan2(M10, M00):  (M00 dM10 - M10 dM00) / (M00² + M10²)
  let yawRow (d : Mat 3 3 α) : α := (r00 * d 1 0 - r10 * d 0 0) / (r00 * r00 + r10 * r10)
  let j33 := rollRow (dM 0); let j34 := rollRow (dM 1); let j35 := rollRow (dM 2)
  let j43 := pitchRow (dM 0); let j44 := pitchRow (dM 1); let j45 := pitchRow (dM 2)
  let j53 := yawRow (dM 0); let j54 := yawRow (dM 1); let j55 := yawRow (dM 2)
  tab (fun i j =>
    match i, j with
    | 0, 0 => R 0 0 | 0, 1 => R 0 1 | 0, 2 => R 0 2                          -- d(R p + T)/dp = R
    | 1, 0 => R 1 0 | 1, 1 => R 1 1 | 1, 2 => R 1 2
    | 2, 0 => R 2 0 | 2, 1 => R 2 1 | 2, 2 => R 2 2
    | 3, 3 => j33 | 3, 4 => j34 | 3, 5 => j35
    | 4, 3 => j43 | 4, 4 => j44 | 4, 5 => j45
    | 5, 3 => j53 | 5, 4 => j54 | 5, 5 => j55
    | _, _ => zero)

/-- 6-term sum in Eigen's coefficient order -/
def sum6 (f : Fin 6 → α) : α := f 0 + f 1 + f 2 + f 3 + f 4 + f 5

/-- `J * C * J.transpose()` (Pose3D.cpp:118); the inner product is evaluated into a temporary first -/
def propagate (J C : Mat 6 6 α) : Tab 6 6 α :=
  let jc := tab (fun i j => sum6 (fun k => J i k * C k j))
  tab (fun i j => sum6 (fun k => jc.get i k * J j k))

/-- `operator*(Affine3d, Pose3D)` complete, as written (Pose3D.cpp:67-120):
    position, orientation (as in `Pose.poseMulMean`), covariance `J C Jᵀ` with the Jacobian of lines 75-113 -/
def poseMulCode (rotOf : Mat 3 3 α → Mat 3 3 α) (lin : Mat 3 3 α) (trans : Vec 3 α)
    (position orientation : Vec 3 α) (cov : Mat 6 6 α) : VTab 3 α × VTab 3 α × Tab 6 6 α :=
  let s := smartInit orientation                                              -- :69
  let R := tab (rotOf lin)                                                    -- :71
  let rotation := tab (mul3 R.get s.R.get)                                    -- :73
  let J := jacobianCode R.get rotation.get s.dRdX.get s.dRdY.get s.dRdZ.get   -- :75-113
  let Rp := vtab (mulVec3 R.get position)
  let pos := vtab (fun i => Rp.get i + trans i)                               -- :116
  let ori := vtab (rotation3DToEulerAngles rotation.get)                      -- :117
  (pos, ori, propagate J.get cov)                                             -- :118

/-- the same map with the true Jacobian (what the covariance should be; also the model of the repaired code
    up to the order of floating-point operations) -/
def poseMulTrue (rotOf : Mat 3 3 α → Mat 3 3 α) (lin : Mat 3 3 α) (trans : Vec 3 α)
    (position orientation : Vec 3 α) (cov : Mat 6 6 α) : VTab 3 α × VTab 3 α × Tab 6 6 α × Tab 6 6 α :=
  let s := smartInit orientation
  let (dX, dY, dZ) := trueDerivs orientation
  let R := tab (rotOf lin)
  let M := tab (mul3 R.get s.R.get)
  let dM0 := tab (mul3 R.get dX.get); let dM1 := tab (mul3 R.get dY.get); let dM2 := tab (mul3 R.get dZ.get)
  let J := jacobianTrue R.get M.get (fun k => match k with | 0 => dM0.get | 1 => dM1.get | 2 => dM2.get)
  let Rp := vtab (mulVec3 R.get position)
  let pos := vtab (fun i => Rp.get i + trans i)
  let ori := vtab (rotation3DToEulerAngles M.get)
  (pos, ori, propagate J.get cov, J)
end

/-! ### Least-squares estimate covariance -/

section
variable {α : Type} [Add α] [Mul α] [NatCast α]

/-- `Σ_{k<n} f k`, accumulated from `k = 0` -/
def sumFin (n : Nat) (f : Fin n → α) : α := Fin.foldl n (fun acc k => acc + f k) ((0 : Nat) : α)

/-- `computeJTJ_` (LeastSquares.cpp:236-244): `JtJ(i,j) = J.col(i) · J.col(j)` over the first `dataSize` rows -/
def jtj {m n : Nat} (J : Mat m n α) : Mat n n α := fun i j => sumFin m (fun k => J k i * J k j)

/-- `computeEstimateCovariance` (LeastSquares.cpp:214-219): `Ac_.transpose() * inverseJtJ_ * Ac_ * dataVariance`,
    with `inverseJtJ_` as left behind by the preceding `estimateUsing…` call (`inv` applied to `JᵀJ`). -/
def lsqCovariance {m n : Nat} (inv : Mat n n α → Mat n n α) (J : Mat m n α) (A : Mat n n α) (variance : α) : Tab n n α :=
  let g := tab (jtj J)
  let gi := tab (inv g.get)
  let atg := tab (fun i j => sumFin n (fun k => A k i * gi.get k j))           -- Acᵀ * inverseJtJ
  let atga := tab (fun i j => sumFin n (fun k => atg.get i k * A k j))         -- … * Ac
  tab (fun i j => atga.get i j * variance)                                     -- … * dataVariance
end

end Romea.Deriv
