import RomeaModel.Pose

/-!
# Analytic derivatives and propagated covariances (C12)

Mirrors (paths relative to `/repo`)
* `src/transform/SmartRotation3D.cpp:24-37, 57-113`  constructor (all per-axis matrices start as `Identity()`),
  `init` (only the rotating 2×2 block of each is overwritten), `dRdAngle{X,Y,Z}_`
* `src/transform/SmartRotation3D.cpp:136-143`         `dRTdAngles`
* `src/geometry/Pose3D.cpp:67-124`                    `operator*(Affine3d, Pose3D)`: the 6×6 Jacobian and `J C Jᵀ`
  (as repaired by /repo commit 67bbb47; the Jacobian it replaced is kept as `jacobianBeforeFix` for the negative theorems)
* `src/regression/leastsquares/LeastSquares.cpp:214-219, 236-244`  `computeEstimateCovariance`, `computeJTJ_`

Besides `SmartRotation3D`'s matrices as the code builds them, this file defines what the derivatives of `R`
*should* be (`trueDerivs`: the entrywise differentiated matrices).  They are used by the theorems (C12 states how
the code deviates from them) and printed by the driver next to the code's values, where the harness prints
finite differences of the implementation's own maps — so the correspondence check also validates that
these "should be" definitions, and the pose Jacobian, are the derivatives of what the C++ computes.

External routine: the inverse of `JᵀJ` (`LDLT::solve(Identity)` resp. the SVD pseudo-inverse) is the
parameter `inv` of `lsqCovariance`.
-/
namespace Romea.Deriv
open Romea.Pose

section
variable {α : Type} [Add α] [Sub α] [Mul α] [Div α] [Neg α] [LT α] [DecidableLT α] [NatCast α] [Trans α]

/-! ### SmartRotation3D -/

/-- `dRxdAngleX_`: `Identity()` (SmartRotation3D.cpp:30) with the four entries of lines 93-96 overwritten.
    Entry `(0,0)` keeps the constructor's `1`. -/
def dRotXCode (c s : α) : Mat 3 3 α := fun i j =>
  match i, j with
  | 1, 1 => -s | 1, 2 => -c | 2, 1 => c | 2, 2 => -s
  | 0, 0 => ((1 : Nat) : α)
  | _, _ => ((0 : Nat) : α)

/-- `dRydAngleY_`: `Identity()` (:31) with lines 99-102; entry `(1,1)` keeps the `1`. -/
def dRotYCode (c s : α) : Mat 3 3 α := fun i j =>
  match i, j with
  | 0, 0 => -s | 0, 2 => c | 2, 0 => -c | 2, 2 => -s
  | 1, 1 => ((1 : Nat) : α)
  | _, _ => ((0 : Nat) : α)

/-- `dRzdAngleZ_`: `Identity()` (:32) with lines 105-108; entry `(2,2)` keeps the `1`. -/
def dRotZCode (c s : α) : Mat 3 3 α := fun i j =>
  match i, j with
  | 0, 0 => -s | 0, 1 => -c | 1, 0 => c | 1, 1 => -s
  | 2, 2 => ((1 : Nat) : α)
  | _, _ => ((0 : Nat) : α)

/-- the entrywise derivative of `rotX (cos a) (sin a)` with respect to `a` (zero outside the block) -/
def dRotXTrue (c s : α) : Mat 3 3 α := fun i j =>
  match i, j with
  | 1, 1 => -s | 1, 2 => -c | 2, 1 => c | 2, 2 => -s
  | _, _ => ((0 : Nat) : α)

def dRotYTrue (c s : α) : Mat 3 3 α := fun i j =>
  match i, j with
  | 0, 0 => -s | 0, 2 => c | 2, 0 => -c | 2, 2 => -s
  | _, _ => ((0 : Nat) : α)

def dRotZTrue (c s : α) : Mat 3 3 α := fun i j =>
  match i, j with
  | 0, 0 => -s | 0, 1 => -c | 1, 0 => c | 1, 1 => -s
  | _, _ => ((0 : Nat) : α)

/-- the members of `SmartRotation3D` read by its accessors -/
structure Smart (α : Type) where
  R : Tab 3 3 α
  dRdX : Tab 3 3 α
  dRdY : Tab 3 3 α
  dRdZ : Tab 3 3 α

/-- `SmartRotation3D::init` (SmartRotation3D.cpp:57-113).  The object has no other state that survives a
    second `init`: every entry that `init` does not overwrite still holds the constructor's identity. -/
def smartInit (angles : Vec 3 α) : Smart α :=
  let cosx := Trans.cos (angles 0); let sinx := Trans.sin (angles 0)          -- :62-63
  let cosy := Trans.cos (angles 1); let siny := Trans.sin (angles 1)          -- :65-66
  let cosz := Trans.cos (angles 2); let sinz := Trans.sin (angles 2)          -- :68-69
  let rx := rotX cosx sinx; let ry := rotY cosy siny; let rz := rotZ cosz sinz
  let rzy := tab (mul3 rz ry)
  { R := tab (mul3 rzy.get rx)                                                 -- :90
    dRdX := tab (mul3 rzy.get (dRotXCode cosx sinx))                           -- :110  Rz_ * Ry_ * dRxdAngleX_
    dRdY := tab (mul3 (tab (mul3 rz (dRotYCode cosy siny))).get rx)            -- :111  Rz_ * dRydAngleY_ * Rx_
    dRdZ := tab (mul3 (tab (mul3 (dRotZCode cosz sinz) ry)).get rx) }          -- :112  dRzdAngleZ_ * Ry_ * Rx_

/-- the true partial derivatives of `R = Rz Ry Rx` with respect to roll, pitch, yaw -/
def trueDerivs (angles : Vec 3 α) : Tab 3 3 α × Tab 3 3 α × Tab 3 3 α :=
  let cosx := Trans.cos (angles 0); let sinx := Trans.sin (angles 0)
  let cosy := Trans.cos (angles 1); let siny := Trans.sin (angles 1)
  let cosz := Trans.cos (angles 2); let sinz := Trans.sin (angles 2)
  let rx := rotX cosx sinx; let ry := rotY cosy siny; let rz := rotZ cosz sinz
  let rzy := tab (mul3 rz ry)
  (tab (mul3 rzy.get (dRotXTrue cosx sinx)),
   tab (mul3 (tab (mul3 rz (dRotYTrue cosy siny))).get rx),
   tab (mul3 (tab (mul3 (dRotZTrue cosz sinz) ry)).get rx))

/-- `SmartRotation3D::dRTdAngles` (SmartRotation3D.cpp:136-143): column `k` is `dRdAngle_k * T` -/
def dRTdAngles (s : Smart α) (t : Vec 3 α) : Tab 3 3 α :=
  let c0 := vtab (mulVec3 s.dRdX.get t)                                       -- :139
  let c1 := vtab (mulVec3 s.dRdY.get t)                                       -- :140
  let c2 := vtab (mulVec3 s.dRdZ.get t)                                       -- :141
  tab (fun i j => match j with | 0 => c0.get i | 1 => c1.get i | 2 => c2.get i)

/-! ### The pose covariance of `operator*(Affine3d, Pose3D)` (Pose3D.cpp:67-124, as repaired by /repo 67bbb47) -/

def zero : α := ((0 : Nat) : α)

/-- `dRotation[k] = R * ∂(Rz Ry Rx)/∂angle_k` (Pose3D.cpp:78-97).  The elementary rotations `Rx Ry Rz` and their
    derivatives `dRx dRy dRz` are written out entry by entry in the C++ (lines 86-91): the same values as
    `rotX/rotY/rotZ` and `dRot?True`; the products are evaluated as `R * ((Rz * Ry) * dRx)` etc. -/
def dRotation (R : Mat 3 3 α) (angles : Vec 3 α) : Tab 3 3 α × Tab 3 3 α × Tab 3 3 α :=
  let (dX, dY, dZ) := trueDerivs angles                                       -- :79-91, :95-97 inner products
  (tab (mul3 R dX.get), tab (mul3 R dY.get), tab (mul3 R dZ.get))             -- :94-97

/-- the 6×6 Jacobian of Pose3D.cpp:99-117: `J.block<3,3>(0,0) = R`; for each angle `k` the three rows obtained by
    the chain rule through `atan2(r21, r22)`, `-asin(r20)`, `atan2(r10, r00)` with `r = rotation = R · Rz Ry Rx`
    and `dr = dRotation[k]`. -/
def jacobian (R rotation : Mat 3 3 α) (dRot : Fin 3 → Mat 3 3 α) : Tab 6 6 α :=
  let r21 := rotation 2 1                                                      -- :103
  let r22 := rotation 2 2                                                      -- :104
  let r20 := rotation 2 0                                                      -- :105
  let r10 := rotation 1 0                                                      -- :106
  let r00 := rotation 0 0                                                      -- :107
  let rollRow (dr : Mat 3 3 α) : α := (r22 * dr 2 1 - r21 * dr 2 2) / (r21 * r21 + r22 * r22)            -- :112
  let pitchRow (dr : Mat 3 3 α) : α := -(dr 2 0) / Trans.sqrt (((1 : Nat) : α) - r20 * r20)               -- :114
  let yawRow (dr : Mat 3 3 α) : α := (r00 * dr 1 0 - r10 * dr 0 0) / (r00 * r00 + r10 * r10)              -- :116
  let j33 := rollRow (dRot 0); let j34 := rollRow (dRot 1); let j35 := rollRow (dRot 2)
  let j43 := pitchRow (dRot 0); let j44 := pitchRow (dRot 1); let j45 := pitchRow (dRot 2)
  let j53 := yawRow (dRot 0); let j54 := yawRow (dRot 1); let j55 := yawRow (dRot 2)
  tab (fun i j =>
    match i, j with
    | 0, 0 => R 0 0 | 0, 1 => R 0 1 | 0, 2 => R 0 2                          -- :101  block<3,3>(0,0) = R
    | 1, 0 => R 1 0 | 1, 1 => R 1 1 | 1, 2 => R 1 2
    | 2, 0 => R 2 0 | 2, 1 => R 2 1 | 2, 2 => R 2 2
    | 3, 3 => j33 | 3, 4 => j34 | 3, 5 => j35
    | 4, 3 => j43 | 4, 4 => j44 | 4, 5 => j45
    | 5, 3 => j53 | 5, 4 => j54 | 5, 5 => j55
    | _, _ => zero)                                                            -- :100  Matrix6d::Zero()

/-- 6-term sum in Eigen's coefficient order -/
def sum6 (f : Fin 6 → α) : α := f 0 + f 1 + f 2 + f 3 + f 4 + f 5

/-- `J * C * J.transpose()` (Pose3D.cpp:122); the inner product is evaluated into a temporary first -/
def propagate (J C : Mat 6 6 α) : Tab 6 6 α :=
  let jc := tab (fun i j => sum6 (fun k => J i k * C k j))
  tab (fun i j => sum6 (fun k => jc.get i k * J j k))

/-- `operator*(Affine3d, Pose3D)` complete (Pose3D.cpp:67-124): position, orientation (as in `Pose.poseMulMean`),
    covariance `J C Jᵀ`; the Jacobian is returned as well (the driver prints it next to the harness' finite
    differences of the C++ pose map). -/
def poseMul (rotOf : Mat 3 3 α → Mat 3 3 α) (lin : Mat 3 3 α) (trans : Vec 3 α)
    (position orientation : Vec 3 α) (cov : Mat 6 6 α) : VTab 3 α × VTab 3 α × Tab 6 6 α × Tab 6 6 α :=
  let s := smartInit orientation                                              -- :69
  let R := tab (rotOf lin)                                                    -- :71
  let rotation := tab (mul3 R.get s.R.get)                                    -- :73
  let (d0, d1, d2) := dRotation R.get orientation                             -- :78-97
  let J := jacobian R.get rotation.get (fun k => match k with | 0 => d0.get | 1 => d1.get | 2 => d2.get)   -- :99-117
  let Rp := vtab (mulVec3 R.get position)
  let pos := vtab (fun i => Rp.get i + trans i)                               -- :120
  let ori := vtab (rotation3DToEulerAngles rotation.get)                      -- :121
  (pos, ori, propagate J.get cov, J)                                          -- :122

/-! #### History: the Jacobian before /repo 67bbb47 (kept for the negative theorems of C12 only; not executed) -/

/-- Eigen's 3-term dot product (`redux` unrolled as `e₀ + (e₁ + e₂)`) -/
def dot3 (a b : Vec 3 α) : α := a 0 * b 0 + (a 1 * b 1 + a 2 * b 2)

/-- the 6×6 Jacobian exactly as it was written in Pose3D.cpp:75-113 before the repair.
    `R`: `affine.rotation()`, `rotation = R * smartRotation.R()`, `dX dY dZ`: `smartRotation.dRdAngleAround{X,Y,Z}Axis()` -/
def jacobianBeforeFix (R rotation dX dY dZ : Mat 3 3 α) : Tab 6 6 α :=
  let r21 := rotation 2 1
  let r22 := rotation 2 2
  let a21 := r22 / (r21 * r21 + r22 * r22)
  let a22 := r21 / (r21 * r21 + r22 * r22)
  let rollRow (d : Mat 3 3 α) : α :=
    dot3 (fun k => R 2 k) (fun k => a21 * d k 1 - a22 * d k 2)
  let r20 := rotation 2 0
  let a20 := ((1 : Nat) : α) / (((1 : Nat) : α) - r20 * r20)
  let pitchRow (d : Mat 3 3 α) : α :=
    dot3 (fun k => R 2 k) (fun k => a20 * d k 0)
  let r10 := R 1 0                                                             -- (the affine's entry, not the product's)
  let r00 := R 0 0
  let a10 := r00 / (r00 * r00 + r10 * r10)
  let a00 := r10 / (r00 * r00 + r10 * r10)
  let yawRow (d : Mat 3 3 α) : α :=
    dot3 (fun k => -a00 * rotation 0 k + a10 * rotation 1 k) (fun k => d k 0)
  let j33 := rollRow dX; let j34 := rollRow dY; let j35 := rollRow dZ
  let j43 := pitchRow dX; let j44 := pitchRow dY; let j45 := pitchRow dZ
  let j53 := yawRow dY                                                         -- (Y matrix in column 3)
  let j54 := yawRow dX                                                         -- (X matrix in column 4)
  let j55 := yawRow dZ
  tab (fun i j =>
    match i, j with
    | 0, 0 => rotation 0 0 | 0, 1 => rotation 0 1 | 0, 2 => rotation 0 2      -- block<3,3>(0,0) = rotation
    | 1, 0 => rotation 1 0 | 1, 1 => rotation 1 1 | 1, 2 => rotation 1 2
    | 2, 0 => rotation 2 0 | 2, 1 => rotation 2 1 | 2, 2 => rotation 2 2
    | 3, 3 => j33 | 3, 4 => j34 | 3, 5 => j35
    | 4, 3 => j43 | 4, 4 => j44 | 4, 5 => j45
    | 5, 3 => j53 | 5, 4 => j54 | 5, 5 => j55
    | _, _ => zero)
end

/-! ### Least-squares estimate covariance -/

section
variable {α : Type} [Add α] [Mul α] [NatCast α]

/-- `Σ_{k<n} f k`, accumulated from `k = 0` -/
def sumFin (n : Nat) (f : Fin n → α) : α := Fin.foldl n (fun acc k => acc + f k) ((0 : Nat) : α)

/-- `computeJTJ_` (LeastSquares.cpp:236-244): `JtJ(i,j) = J.col(i) · J.col(j)` over the first `dataSize` rows -/
def jtj {m n : Nat} (J : Mat m n α) : Mat n n α := fun i j => sumFin m (fun k => J k i * J k j)

/-- `computeEstimateCovariance` (LeastSquares.cpp:214-219): `Ac_.transpose() * inverseJtJ_ * Ac_ * dataVariance`,
    with `inverseJtJ_` as left behind by the preceding `estimateUsing…` call (`inv` applied to `JᵀJ`). -/
def lsqCovariance {m n : Nat} (inv : Mat n n α → Mat n n α) (J : Mat m n α) (A : Mat n n α) (variance : α) : Tab n n α :=
  let g := tab (jtj J)
  let gi := tab (inv g.get)
  let atg := tab (fun i j => sumFin n (fun k => A k i * gi.get k j))           -- Acᵀ * inverseJtJ
  let atga := tab (fun i j => sumFin n (fun k => atg.get i k * A k j))         -- … * Ac
  tab (fun i j => atga.get i j * variance)                                     -- … * dataVariance
end

end Romea.Deriv
