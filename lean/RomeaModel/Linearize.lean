import RomeaModel.Lockset
/-!
# Small-step interleaving semantics of method calls on one shared object (C19)

Core Lean, executable.  A *shared store* maps addresses (member field, word of the field) to values; a
*mutex state* maps mutexes to the thread holding them; every thread runs a sequence of method CALLS; a
call executes its BODY, a list of micro-steps

    acq m | rel m | rd a x (local x := store a) | wr a e (store a := e locals arg) | ret e (result := e locals arg)

one micro-step at a time; an arbitrary SCHEDULE (list of thread ids) says which thread moves next.  `acq m`
is not enabled while `m` is held (the scheduled thread then does not move: `std::mutex::lock` blocks), `rel m`
is only enabled for the holder.  Two more micro-steps frame a call: *call* (pop the next call of the thread,
fresh locals) and *return* (append the call's result to the thread's list of results).

A field of the C++ object is several words wide (`W` words, any `W`): copying a `T`, a `std::optional<T>` or a
`DiagnosticReport` is NOT one step but one step per word, so that "half-written" / "status of one evaluation
with the message of another" are expressible states of this model.

`ofEvents` turns a method's event list of the regenerated lock table (`Romea.Generated.C19.table`, see
`Lockset.lean`) into such a body, for an arbitrary data flow (`Flow`): the event structure (where the
lock is taken and dropped, which fields are touched in which order) comes from today's source, the values
written and returned are parameters.

The serial reference machine (`serial`) executes whole calls atomically, popping them from the threads'
queues in a given order of thread ids.  The theorems relating the two are in
`RomeaProofs/Lemmas/C19Lin.lean` and `RomeaProofs/Properties/C19.lean`.
-/
namespace Romea.Lin
open Romea.Lockset

/-- address in the shared store: (member field of the object, word of that field) -/
abbrev Addr := Nat × Nat
/-- name of a call-local variable: (position of the event that filled it, word) -/
abbrev Var := Nat × Nat

abbrev Store (V : Type) := Addr → V
abbrev Locals (V : Type) := Var → V

/-- point update of a function (core Lean has no `Function.update`) -/
def upd {κ β : Type} [DecidableEq κ] (f : κ → β) (a : κ) (b : β) : κ → β :=
  fun x => if x = a then b else f x

/-- micro-steps of a method body. `V` values of store words and locals, `A` argument of a call, `R` result -/
inductive Step (V A R : Type)
  | acq (m : Nat)
  | rel (m : Nat)
  | rd (a : Addr) (x : Var)
  | wr (a : Addr) (e : Locals V → A → V)
  | ret (e : Locals V → A → R)

structure Call (V A R : Type) where
  body : List (Step V A R)
  arg : A

/-- the activation record of the call a thread is executing -/
structure Frame (V A R : Type) where
  pc : List (Step V A R)
  arg : A
  loc : Locals V
  ret : Option R

structure Thread (V A R : Type) where
  cur : Option (Frame V A R)
  todo : List (Call V A R)
  /-- results of the completed calls, in program order (`none` = the call executed no `ret`: a `void` method) -/
  done : List (Option R)

structure State (V A R : Type) where
  store : Store V
  locks : Nat → Option Nat
  thr : Nat → Thread V A R
  /-- ghost: (thread, mutex) of every successful acquisition, in order -/
  log : List (Nat × Nat)

/-- a sequential object: abstract state, operations, results (`none` = `void`) -/
structure SeqObj (S Op R : Type) where
  step : S → Op → S × Option R

/-- the object run on a list of operations: final state and the results, in order -/
def SeqObj.runList {S Op R : Type} (o : SeqObj S Op R) : S → List Op → S × List (Option R)
  | s, [] => (s, [])
  | s, op :: r => ((o.runList (o.step s op).1 r).1, (o.step s op).2 :: (o.runList (o.step s op).1 r).2)

section
variable {V A R : Type} [Inhabited V]

def emptyLoc : Locals V := fun _ => default

def Thread.finished (th : Thread V A R) : Bool := th.cur.isNone && th.todo.isEmpty

/-- thread `t` performs its next micro-step if it is enabled; otherwise the state is unchanged
    (a blocked `acq`, a `rel` by a non-holder, a thread with nothing left to do) -/
def step (s : State V A R) (t : Nat) : State V A R :=
  let th := s.thr t
  match th.cur with
  | none =>
    match th.todo with
    | [] => s
    | c :: r => { s with thr := upd s.thr t { th with cur := some ⟨c.body, c.arg, emptyLoc, none⟩, todo := r } }
  | some fr =>
    match fr.pc with
    | [] => { s with thr := upd s.thr t { th with cur := none, done := th.done ++ [fr.ret] } }
    | .acq m :: pc =>
      if (s.locks m).isNone then
        { s with locks := upd s.locks m (some t), log := s.log ++ [(t, m)],
                 thr := upd s.thr t { th with cur := some { fr with pc := pc } } }
      else s
    | .rel m :: pc =>
      if s.locks m = some t then
        { s with locks := upd s.locks m none, thr := upd s.thr t { th with cur := some { fr with pc := pc } } }
      else s
    | .rd a x :: pc =>
      { s with thr := upd s.thr t { th with cur := some { fr with pc := pc, loc := upd fr.loc x (s.store a) } } }
    | .wr a e :: pc =>
      { s with store := upd s.store a (e fr.loc fr.arg),
               thr := upd s.thr t { th with cur := some { fr with pc := pc } } }
    | .ret e :: pc =>
      { s with thr := upd s.thr t { th with cur := some { fr with pc := pc, ret := some (e fr.loc fr.arg) } } }

/-- run a schedule -/
def run (s : State V A R) (sch : List Nat) : State V A R := sch.foldl step s

/-- initial state: store `σ`, no mutex held, thread `t` has the calls `prog t` to make -/
def init (σ : Store V) (prog : Nat → List (Call V A R)) : State V A R :=
  { store := σ, locks := fun _ => none, thr := fun t => ⟨none, prog t, []⟩, log := [] }

/-- the threads that acquired mutex `g`, in the order in which they did -/
def acqOrder (g : Nat) (s : State V A R) : List Nat :=
  s.log.filterMap fun p => if p.2 = g then some p.1 else none

/-! ## Serial reference machine -/

/-- uninterrupted execution of one micro-step on (store, locals, result); lock steps do nothing -/
def execStep (a : A) (x : Store V × Locals V × Option R) : Step V A R → Store V × Locals V × Option R
  | .acq _ => x
  | .rel _ => x
  | .rd ad v => (x.1, upd x.2.1 v (x.1 ad), x.2.2)
  | .wr ad e => (upd x.1 ad (e x.2.1 a), x.2.1, x.2.2)
  | .ret e => (x.1, x.2.1, some (e x.2.1 a))

def execSteps (a : A) (x : Store V × Locals V × Option R) (b : List (Step V A R)) : Store V × Locals V × Option R :=
  b.foldl (execStep a) x

/-- one whole call executed alone from store `σ`: final store and result -/
def runCall (σ : Store V) (c : Call V A R) : Store V × Option R :=
  let x := execSteps c.arg (σ, emptyLoc, none) c.body
  (x.1, x.2.2)

/-- what finishing the current call alone (nobody else moving), from store `σ`, yields -/
def Frame.finish (σ : Store V) (fr : Frame V A R) : Store V × Locals V × Option R :=
  execSteps fr.arg (σ, fr.loc, fr.ret) fr.pc

structure SerState (V A R : Type) where
  store : Store V
  todo : Nat → List (Call V A R)
  res : Nat → List (Option R)
  /-- the sequential history: (thread, call, result) of every call made, in order -/
  hist : List (Nat × Call V A R × Option R)
  /-- false once a thread with no call left was asked to make one -/
  ok : Bool

/-- thread `t` makes its next call, atomically -/
def serStep (S : SerState V A R) (t : Nat) : SerState V A R :=
  match S.todo t with
  | [] => { S with ok := false }
  | c :: r =>
    let y := runCall S.store c
    { S with store := y.1, todo := upd S.todo t r, res := upd S.res t (S.res t ++ [y.2]),
             hist := S.hist ++ [(t, c, y.2)] }

def serInit (σ : Store V) (prog : Nat → List (Call V A R)) : SerState V A R :=
  { store := σ, todo := prog, res := fun _ => [], hist := [], ok := true }

/-- serial execution: the calls are made one after the other, each running to completion, thread `lin[0]`
    first; within one thread the calls are made in program order by construction -/
def serial (σ : Store V) (prog : Nat → List (Call V A R)) (lin : List Nat) : SerState V A R :=
  lin.foldl serStep (serInit σ prog)

/-- results of thread `t`'s calls in a history, in order -/
def histRes (h : List (Nat × Call V A R × Option R)) (t : Nat) : List (Option R) :=
  (h.filter fun e => e.1 == t).map fun e => e.2.2

/-- thread `t`'s calls in a history, in order -/
def histCalls (h : List (Nat × Call V A R × Option R)) (t : Nat) : List (Call V A R) :=
  (h.filter fun e => e.1 == t).map fun e => e.2.1

/-! ## Shape of a body for which the reduction holds -/

/-- steps allowed inside the critical section: no lock operations -/
def Step.isData : Step V A R → Bool
  | .rd _ _ => true
  | .wr _ _ => true
  | .ret _ => true
  | _ => false

/-- steps that touch neither the store nor a mutex -/
def Step.isLocal : Step V A R → Bool
  | .ret _ => true
  | _ => false

/-- `acq g`, then data steps only, then `rel g`, then local steps only: ONE critical section on the guard
    containing every access of the shared store -/
def Shape (g : Nat) (b : List (Step V A R)) : Prop :=
  ∃ cs post, b = Step.acq g :: (cs ++ Step.rel g :: post) ∧ (∀ st ∈ cs, st.isData = true) ∧ (∀ st ∈ post, st.isLocal = true)

/-- the conclusion of the reduction theorem: state `s` (reached by some schedule from `init σ0 prog`) is
    explained by the serial execution `L` of the calls in the order in which they acquired the guard `g` -/
structure Linearized (g : Nat) (σ0 : Store V) (prog : Nat → List (Call V A R)) (s : State V A R) : Prop where
  /-- the order is a legitimate serial execution: no thread is asked for a call it does not have … -/
  ok : (serial σ0 prog (acqOrder g s)).ok = true
  /-- … and it respects every thread's program order: the calls a thread has made in the serial history,
      followed by those it has not made yet, are its program -/
  program_order : ∀ t, histCalls (serial σ0 prog (acqOrder g s)).hist t ++ (serial σ0 prog (acqOrder g s)).todo t = prog t
  res_hist : ∀ t, (serial σ0 prog (acqOrder g s)).res t = histRes (serial σ0 prog (acqOrder g s)).hist t
  /-- the return values of the completed calls of every thread are, call by call, those of the serial execution;
      at most one more call of the thread (the one in flight, if it has taken the guard) is in the serial history -/
  returns : ∀ t, (s.thr t).done <+: (serial σ0 prog (acqOrder g s)).res t ∧
      ((serial σ0 prog (acqOrder g s)).res t).length ≤ (s.thr t).done.length + 1
  /-- nobody in a critical section: the store is the serial store -/
  store_free : s.locks g = none → s.store = (serial σ0 prog (acqOrder g s)).store
  /-- thread `h` in its critical section: letting `h` finish its call alone from the present state gives exactly
      the serial store and the serial result of that call (the present state is an intermediate state of the
      LAST call of the serial execution) -/
  store_held : ∀ h, s.locks g = some h → ∃ fr, (s.thr h).cur = some fr ∧
      (serial σ0 prog (acqOrder g s)).store = (fr.finish s.store).1 ∧
      (serial σ0 prog (acqOrder g s)).res h = (s.thr h).done ++ [(fr.finish s.store).2.2]
  /-- a thread that is between two calls has all its calls so far in the serial history -/
  idle : ∀ t, (s.thr t).cur = none → (serial σ0 prog (acqOrder g s)).res t = (s.thr t).done ∧
      (serial σ0 prog (acqOrder g s)).todo t = (s.thr t).todo ∧ s.locks g ≠ some t


/-- **Linearizability w.r.t. a sequential object** (Herlihy–Wing, for a state `s` reached by some schedule when
    thread `t` was given the operations `oprog t`): there is ONE sequential history `H` of (thread, operation,
    result) triples that
    * is legal: running the object alone on the operations of `H` gives the results of `H`;
    * respects program order: the operations of thread `t` in `H` are an initial part of `oprog t`;
    * explains every return value: the results of the calls thread `t` has completed are, call by call, those
      of `H` (at most one more operation of `t` — the one in flight — is in `H`);
    * is complete for quiescent threads: a thread between two calls has all its calls so far in `H`. -/
def LinearizableTo {S Op : Type} (o : SeqObj S Op R) (a0 : S) (oprog : Nat → List Op) (s : State V Op R) : Prop :=
  ∃ H : List (Nat × Op × Option R),
    (o.runList a0 (H.map fun e => e.2.1)).2 = H.map (fun e => e.2.2) ∧
    (∀ t, ∃ rest, (H.filter fun e => e.1 == t).map (fun e => e.2.1) ++ rest = oprog t) ∧
    (∀ t, (s.thr t).done <+: (H.filter fun e => e.1 == t).map (fun e => e.2.2) ∧
        ((H.filter fun e => e.1 == t).map fun e => e.2.2).length ≤ (s.thr t).done.length + 1) ∧
    (∀ t, (s.thr t).cur = none →
        (s.thr t).done = (H.filter fun e => e.1 == t).map (fun e => e.2.2) ∧
        (H.filter fun e => e.1 == t).map (fun e => e.2.1) ++ (s.thr t).todo.map (fun c => c.arg) = oprog t)

/-! ## Multi-word values -/

/-- a value of exactly `W` words (missing words are `default`) -/
def pad (W : Nat) (v : List V) : List V := (List.range W).map fun j => v.getD j default
/-- the `W` words of field `f` in the store -/
def vecOf (W f : Nat) (σ : Store V) : List V := (List.range W).map fun j => σ (f, j)
/-- the `W` words copied by the read event at position `i` -/
def locVec (W i : Nat) (l : Locals V) : List V := (List.range W).map fun j => l (i, j)
/-- a store whose field `f` holds `v` -/
def storeWith (f : Nat) (v : List V) : Store V := fun ad => if ad.1 = f then v.getD ad.2 default else default

/-! ## Bodies from the regenerated lock table -/

/-- the data flow the event lists do not carry: the value written to word `j` by the write event at position
    `i` (as a function of everything the call has read so far and of its argument) and the value returned -/
structure Flow (V A R : Type) where
  wr : Nat → Nat → Locals V → A → V
  ret : Locals V → A → R

/-- read the `W` words of field `f`, one step per word, into the locals `(i, 0) … (i, W-1)` -/
def rdWords (W f i : Nat) : List (Step V A R) := (List.range W).map fun j => Step.rd (f, j) (i, j)
/-- write the `W` words of field `f`, one step per word -/
def wrWords (W f : Nat) (e : Nat → Locals V → A → V) : List (Step V A R) :=
  (List.range W).map fun j => Step.wr (f, j) (e j)

/-- event at position `i` ↦ micro-steps. `rd f`: word-by-word copy into locals. `wr f` ("write or unclassified
    use", e.g. `+=`, `push_back`, a non-const member call): word-by-word read, then word-by-word write of values
    computed from everything read so far — a write the code does not perform on some path is the data flow that
    writes back the word just read. `atomic f`: the same (NOT atomic in this model; `evShape` rejects it).
    `escape f` (a reference to `f` is returned): the caller's word-by-word copy, at that position (after the
    release). -/
def evSteps (W : Nat) (fl : Flow V A R) (i : Nat) : Ev → List (Step V A R)
  | .acq m => [Step.acq m]
  | .rel m => [Step.rel m]
  | .rd f => rdWords W f i
  | .wr f => rdWords W f i ++ wrWords W f (fl.wr i)
  | .atomic f => rdWords W f i ++ wrWords W f (fl.wr i)
  | .escape f => rdWords W f i

def ofEventsFrom (W : Nat) (fl : Flow V A R) : Nat → List Ev → List (Step V A R)
  | _, [] => [Step.ret fl.ret]
  | i, e :: r => evSteps W fl i e ++ ofEventsFrom W fl (i + 1) r

/-- body of a method from its event list: the events in order, then the result is computed from everything
    read (locals are private to the call, so where this happens does not matter) -/
def ofEvents (W : Nat) (fl : Flow V A R) (evs : List Ev) : List (Step V A R) := ofEventsFrom W fl 0 evs

end

/-- decidable shape of an event list: `acq g`, plain reads / writes, `rel g`, nothing else -/
def evShapeCS (g : Nat) : List Ev → Bool
  | [.rel m] => m == g
  | .rd _ :: r => evShapeCS g r
  | .wr _ :: r => evShapeCS g r
  | _ => false

def evShape (g : Nat) : List Ev → Bool
  | .acq m :: r => m == g && evShapeCS g r
  | _ => false

end Romea.Lin

namespace Romea.Lockset
open Romea.Lin

/-- every in-scope method of the class is one critical section on one of the class's mutexes -/
def Class.linShaped (c : Class) : Bool :=
  c.mutexes.any fun g => c.methods.all fun m => evShape g m.evs

/-- the guard under which the class is `linShaped` (first such mutex) -/
def Class.guard (c : Class) : Nat :=
  ((c.mutexes.filter fun g => c.methods.all fun m => evShape g m.evs).head?).getD 0

/-- event list of a method by name (empty if absent) -/
def Class.evsOf (c : Class) (name : String) : List Ev :=
  ((c.methods.filter fun m => m.name == name).head?.map (·.evs)).getD []


/-- the call of operation `op` on the class: body built from the regenerated event list of the method `meth op`,
    field width `W`, data flow `fl`; the operation itself travels as the argument -/
def Class.call {V Op R : Type} (c : Class) (W : Nat) (fl : Flow V Op R) (meth : Op → String) (op : Op) : Call V Op R :=
  ⟨ofEvents W fl (c.evsOf (meth op)), op⟩

end Romea.Lockset
