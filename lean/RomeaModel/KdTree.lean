/-!
# kd-tree nearest-neighbour index (C08)

Mirrors the vendored nanoflann 1.1.9 index
`include/romea_core_common/pointset/kdtree/nanoflann.hpp` (cited below as `nf:<line>`) exactly as
`src/pointset/KdTree.cpp` uses it through
`include/romea_core_common/pointset/kdtree/NanoFlannAdaptor.hpp`:

* `Index = KDTreeSingleIndexAdaptor<L2_Adaptor<Scalar, Adaptor>, Adaptor, POINT_SIZE, size_t>`
  (NanoFlannAdaptor.hpp:43): the compile-time dimension `DIM` is `POINT_SIZE` (2, 3 for cartesian
  points, 3, 4 for homogeneous points whose last coordinate is 1); the run-time `dimensionality`
  argument (`CARTESIAN_DIM`) is overridden by `if (DIM>0) dim=DIM` (nf:839).
* leaf size: `leafMaxSize = 10` (NanoFlannAdaptor.hpp:50, `KdTree.cpp:31` passes no value).
* `kdtree_get_bbox` returns `false` (NanoFlannAdaptor.hpp:97): nanoflann computes the box itself.
* queries: `KNNResultSet` with capacity 1 (`findNearestNeighbor`) or `k` (`findNearestNeighbors`),
  `SearchParams(10)`: `eps = 0`, so `epsError = 1` (nf:910).

The data set is the accessor `P idx component` (`dataset_get`, nf:978), the query the accessor
`q component` (`vec[component]`).  Mutation through references/pointers becomes returned values;
`vind` (the permuted index array) is threaded through the build.  Loops whose exit depends on data
(`planeSplit`, the recursion of `divideTree`) run on fuel and report exhaustion.

The scalar is a parameter: the driver runs the definitions at `Float` / `Float32`
(`Scalar = double / float`), the theorems (`RomeaProofs/Properties/C08.lean`) are over linearly
ordered commutative rings for the search — only `+ - * < ≤` and the literals 0, 1 occur there —
and over linearly ordered fields for the build, which also uses `/ 2`, `-1` and the literal
`0.00001`.
-/
namespace Romea.KdTree

/-- `struct Node` (nf:775-788): a leaf holds the half-open range `[left, right)` of positions in
    `vind`; an inner node the split dimension and the two split values. -/
inductive Tree (α : Type)
  | leaf (l r : Nat)
  | node (feat : Nat) (lo hi : α) (left right : Tree α)
  deriving Repr, Inhabited

/-- `leafMaxSize` default of `NanoFlannAdaptor`'s constructor (NanoFlannAdaptor.hpp:50). -/
def leafMaxSize : Nat := 10

/-- The built index: `vind`, `root_node`, `root_bbox` (one `(low, high)` per dimension). -/
structure Index (α : Type) where
  vind : Array Nat
  root : Tree α
  bbox : List (α × α)

/-- `dists[idx] = v` on the fixed-size `distance_vector_t` (a function of the dimension). -/
def upd {α : Type} (f : Nat → α) (i : Nat) (v : α) : Nat → α := fun j => if j = i then v else f j

/-! ## Result set (`KNNResultSet`, nf:75-135) -/

/-- `KNNResultSet`: `items` lists `(dists[i], indices[i])` for `i = count-1, …, 0`, i.e. the
    WORST entry first (the C++ loops scan from the back).  While `count < capacity` the slot
    `dists[capacity-1]` still holds the sentinel written by `init` (nf:94): no store of `addPoint`
    reaches index `capacity-1` before the set is full (stores go to `i ≤ count`). -/
structure ResultSet (α : Type) where
  capacity : Nat
  items : List (α × Nat)
  deriving Repr

/-- `KNNResultSet(capacity)` + `init` (nf:84-95): `count = 0`, sentinel in the last slot. -/
def ResultSet.init {α : Type} (capacity : Nat) : ResultSet α := ⟨capacity, []⟩

section search
variable {α : Type} [Add α] [Sub α] [Mul α] [LT α] [LE α] [DecidableLT α] [DecidableLE α] [NatCast α]

/-- `worstDist()` = `dists[capacity-1]` (nf:131): the last (worst) entry once full, else the
    sentinel `maxVal = numeric_limits<DistanceType>::max()`. -/
def ResultSet.worstDist (maxVal : α) (rs : ResultSet α) : α :=
  if rs.items.length = rs.capacity then
    match rs.items with
    | (d, _) :: _ => d
    | [] => maxVal
  else maxVal

/-- The loop of `addPoint` (nf:111-127) on the worst-first list: entries with `dists[i-1] > dist`
    (strict) move one slot back, the new entry is stored in front of the first entry that is not
    greater — an equal distance queues behind the earlier one. -/
def insertBack (dist : α) (index : Nat) : List (α × Nat) → List (α × Nat)
  | [] => [(dist, index)]
  | (d, i) :: rest =>
      if d > dist then (d, i) :: insertBack dist index rest
      else (dist, index) :: (d, i) :: rest

/-- `addPoint(dist, index)` (nf:108-129).  Stores are guarded by `i < capacity`: when the set is
    full the entry that would move to slot `capacity` is lost (the previous worst, or the new
    entry itself when it is not better than the worst); `count` saturates at `capacity`. -/
def ResultSet.addPoint (rs : ResultSet α) (dist : α) (index : Nat) : ResultSet α :=
  let items := insertBack dist index rs.items
  { rs with items := if items.length > rs.capacity then items.drop 1 else items }

/-- `L2_Adaptor::operator()(a, b_idx, size)` (nf:319-344) up to component `d`:
    `result = 0; result += diff*diff` component by component.  (For `size = 4` the C++ adds the
    group `((d0²+d1²)+d2²)+d3²` to `result = 0`; `0 + x` is exact, so it is this same left-nested
    sum; `worst_dist` keeps its default `-1`, the early exit is never taken.) -/
def sqDistTo (q : Nat → α) (P : Nat → Nat → α) (b : Nat) : Nat → α
  | 0 => ((0 : Nat) : α)
  | d + 1 =>
      let diff := q d - P b d
      sqDistTo q P b d + diff * diff

/-- `distance(vec, index, DIM)` -/
def sqDist (dim : Nat) (q : Nat → α) (P : Nat → Nat → α) (b : Nat) : α := sqDistTo q P b dim

/-- The leaf loop of `searchLevel` (nf:1212-1219): `worst_dist` was read ONCE before the loop
    (stale while the loop adds points); a point is offered to `addPoint` iff `dist < worst_dist`. -/
def leafLoop (dim : Nat) (P : Nat → Nat → α) (vind : Array Nat) (q : Nat → α) (worstDist : α) :
    List Nat → ResultSet α → ResultSet α
  | [], rs => rs
  | i :: rest, rs =>
      let index := vind[i]!
      let dist := sqDist dim q P index
      leafLoop dim P vind q worstDist rest (if dist < worstDist then rs.addPoint dist index else rs)

/-- `epsError = 1 + searchParams.eps` with `eps = 0` (nf:910, `SearchParams(10)`). -/
def epsError : α := ((1 : Nat) : α)

/-- `searchLevel` (nf:1206-1253).  `dists` is modified before the descent into the far child and
    restored afterwards (nf:1248, 1252): passing the modified copy down is the same thing. -/
def searchLevel (maxVal : α) (dim : Nat) (P : Nat → Nat → α) (vind : Array Nat) (q : Nat → α) :
    Tree α → α → (Nat → α) → ResultSet α → ResultSet α
  | .leaf l r, _, _, rs =>
      leafLoop dim P vind q (rs.worstDist maxVal) (List.range' l (r - l)) rs
  | .node feat lo hi left right, mindistsq, dists, rs =>
      let val := q feat
      let diff1 := val - lo
      let diff2 := val - hi
      if diff1 + diff2 < ((0 : Nat) : α) then
        -- bestChild = child1, otherChild = child2, cut_dist = accum_dist(val, divhigh)
        let cutDist := (val - hi) * (val - hi)
        let rs := searchLevel maxVal dim P vind q left mindistsq dists rs
        let dst := dists feat
        let mindistsq := mindistsq + cutDist - dst
        if mindistsq * epsError ≤ rs.worstDist maxVal then
          searchLevel maxVal dim P vind q right mindistsq (upd dists feat cutDist) rs
        else rs
      else
        -- bestChild = child2, otherChild = child1, cut_dist = accum_dist(val, divlow)
        let cutDist := (val - lo) * (val - lo)
        let rs := searchLevel maxVal dim P vind q right mindistsq dists rs
        let dst := dists feat
        let mindistsq := mindistsq + cutDist - dst
        if mindistsq * epsError ≤ rs.worstDist maxVal then
          searchLevel maxVal dim P vind q left mindistsq (upd dists feat cutDist) rs
        else rs

/-- `computeInitialDistances` (nf:1182-1199), dimension `i` onwards: squared distance of the query
    to the root bounding box, per dimension in `dists` and summed in `distsq`. -/
def computeInitialDistances (q : Nat → α) : List (α × α) → Nat → α × (Nat → α) → α × (Nat → α)
  | [], _, acc => acc
  | (low, high) :: rest, i, (distsq, dists) =>
      let acc1 : α × (Nat → α) :=
        if q i < low then
          let d := (q i - low) * (q i - low)
          (distsq + d, upd dists i d)
        else (distsq, dists)
      let acc2 : α × (Nat → α) :=
        if q i > high then
          let d := (q i - high) * (q i - high)
          (acc1.1 + d, upd acc1.2 i d)
        else acc1
      computeInitialDistances q rest (i + 1) acc2

/-- `findNeighbors` (nf:903-917): `dists.assign(DIM, 0)`, initial distances, `searchLevel` from the root. -/
def findNeighbors (maxVal : α) (dim : Nat) (P : Nat → Nat → α) (ix : Index α) (q : Nat → α)
    (rs : ResultSet α) : ResultSet α :=
  let zero : α := ((0 : Nat) : α)
  let init := computeInitialDistances q ix.bbox 0 (zero, fun _ => zero)
  searchLevel maxVal dim P ix.vind q ix.root init.1 init.2 rs

/-- `KdTree::findNearestNeighbors` (KdTree.cpp:48-58): the `k` output slots in ascending order as
    `(squared distance, index)`; `findNearestNeighbor` (KdTree.cpp:37-45) is the case `k = 1`.
    (Slots beyond `count` are not written by the C++; the property's domain is `k ≤ n`.) -/
def knn (maxVal : α) (dim : Nat) (P : Nat → Nat → α) (ix : Index α) (q : Nat → α) (k : Nat) :
    List (α × Nat) :=
  (findNeighbors maxVal dim P ix q (ResultSet.init k)).items.reverse

end search

/-! ## Build (`buildIndex`, nf:860-868) -/

section build
variable {α : Type} [Add α] [Sub α] [Mul α] [Div α] [Neg α] [LT α] [LE α] [DecidableLT α]
  [DecidableLE α] [NatCast α] [OfScientific α]

def zeroPair : α × α := (((0 : Nat) : α), ((0 : Nat) : α))

def getLow (bbox : List (α × α)) (i : Nat) : α := (bbox.getD i zeroPair).1
def getHigh (bbox : List (α × α)) (i : Nat) : α := (bbox.getD i zeroPair).2

def setLow : List (α × α) → Nat → α → List (α × α)
  | [], _, _ => []
  | (_, h) :: r, 0, v => (v, h) :: r
  | x :: r, i + 1, v => x :: setLow r i v

def setHigh : List (α × α) → Nat → α → List (α × α)
  | [], _, _ => []
  | (l, _) :: r, 0, v => (l, v) :: r
  | x :: r, i + 1, v => x :: setHigh r i v

/-- `computeBoundingBox` (nf:1008-1030) for `N ≥ 1` points. -/
def computeBoundingBox (dim : Nat) (P : Nat → Nat → α) (N : Nat) : List (α × α) :=
  let bbox0 := (List.range dim).map (fun i => (P 0 i, P 0 i))
  (List.range' 1 (N - 1)).foldl (fun bbox k =>
    bbox.zipIdx.map (fun ((lo, hi), i) =>
      let v := P k i
      ((if v < lo then v else lo), (if v > hi then v else hi)))) bbox0

/-- `computeMinMax(ind, count, element)` (nf:1091-1100), `ind = &vind[off]`. -/
def computeMinMax (P : Nat → Nat → α) (vind : Array Nat) (off count element : Nat) : α × α :=
  let v0 := P vind[off]! element
  (List.range' 1 (count - 1)).foldl (fun (mm : α × α) i =>
    let val := P vind[off + i]! element
    ((if val < mm.1 then val else mm.1), (if val > mm.2 then val else mm.2))) (v0, v0)

/-- `while (left<=right && pred(ind[left])) ++left;` (nf:1159 / 1172) -/
def scanLeft (pred : Nat → Bool) : Nat → Nat → Nat → Nat
  | 0, left, _ => left
  | fuel + 1, left, right =>
      if left ≤ right ∧ pred left then scanLeft pred fuel (left + 1) right else left

/-- `while (right && left<=right && pred(ind[right])) --right;` (nf:1160 / 1173) -/
def scanRight (pred : Nat → Bool) : Nat → Nat → Nat → Nat
  | 0, _, right => right
  | fuel + 1, left, right =>
      if right ≠ 0 ∧ left ≤ right ∧ pred right then scanRight pred fuel left (right - 1) else right

/-- One `for (;;)` loop of `planeSplit` (nf:1158-1165 with `<` / `>=`, nf:1171-1178 with `<=` / `>`):
    returns the permuted `vind`, the final `left` and whether the loop ended within the fuel. -/
def planeLoop (P : Nat → Nat → α) (off cutfeat : Nat) (predL predR : α → Bool) :
    Nat → Array Nat → Nat → Nat → Array Nat × Nat × Bool
  | 0, vind, left, _ => (vind, left, false)
  | fuel + 1, vind, left, right =>
      let count := vind.size
      let left := scanLeft (fun i => predL (P vind[off + i]! cutfeat)) (count + 1) left right
      let right := scanRight (fun i => predR (P vind[off + i]! cutfeat)) (count + 1) left right
      if left > right ∨ right = 0 then (vind, left, true)
      else planeLoop P off cutfeat predL predR fuel (vind.swapIfInBounds (off + left) (off + right)) (left + 1) (right - 1)

/-- `planeSplit(ind, count, cutfeat, cutval, lim1, lim2)` (nf:1153-1180) -/
def planeSplit (P : Nat → Nat → α) (vind : Array Nat) (off count cutfeat : Nat) (cutval : α) :
    Array Nat × Nat × Nat × Bool :=
  let (vind, left, ok1) :=
    planeLoop P off cutfeat (fun v => v < cutval) (fun v => v ≥ cutval) (count + 1) vind 0 (count - 1)
  let lim1 := left
  let (vind, left, ok2) :=
    planeLoop P off cutfeat (fun v => v ≤ cutval) (fun v => v > cutval) (count + 1) vind left (count - 1)
  (vind, lim1, left, ok1 && ok2)

/-- `EPS = static_cast<DistanceType>(0.00001)` (nf:1104) -/
def splitEps : α := (OfScientific.ofScientific 1 true 5 : α)

/-- The `cutfeat` selection loop of `middleSplit_` (nf:1112-1125).  NOTE the quirk mirrored from
    the source: the spread is computed on the CURRENT `cutfeat`, not on the candidate dimension `i`
    (`computeMinMax(ind, count, cutfeat, …)`). -/
def selectCutfeat (P : Nat → Nat → α) (vind : Array Nat) (off count : Nat) (bbox : List (α × α))
    (maxSpan : α) : List Nat → Nat × α → Nat × α
  | [], acc => acc
  | i :: rest, (cutfeat, maxSpread) =>
      let span := getHigh bbox i - getLow bbox i
      if span > (((1 : Nat) : α) - splitEps) * maxSpan then
        let mm := computeMinMax P vind off count cutfeat
        let spread := mm.2 - mm.1
        if spread > maxSpread then selectCutfeat P vind off count bbox maxSpan rest (i, spread)
        else selectCutfeat P vind off count bbox maxSpan rest (cutfeat, maxSpread)
      else selectCutfeat P vind off count bbox maxSpan rest (cutfeat, maxSpread)

/-- `middleSplit_(ind, count, index, cutfeat, cutval, bbox)` (nf:1102-1141):
    returns `(vind, index, cutfeat, cutval, loops ended)`. -/
def middleSplit (dim : Nat) (P : Nat → Nat → α) (vind : Array Nat) (off count : Nat)
    (bbox : List (α × α)) : Array Nat × Nat × Nat × α × Bool :=
  let maxSpan := (List.range' 1 (dim - 1)).foldl (fun (m : α) i =>
    let span := getHigh bbox i - getLow bbox i
    if span > m then span else m) (getHigh bbox 0 - getLow bbox 0)
  let (cutfeat, _) := selectCutfeat P vind off count bbox maxSpan (List.range dim) (0, -((1 : Nat) : α))
  let splitVal := (getLow bbox cutfeat + getHigh bbox cutfeat) / ((2 : Nat) : α)
  let mm := computeMinMax P vind off count cutfeat
  let cutval := if splitVal < mm.1 then mm.1 else if splitVal > mm.2 then mm.2 else splitVal
  let (vind, lim1, lim2, ok) := planeSplit P vind off count cutfeat cutval
  let index := if lim1 > count / 2 then lim1 else if lim2 < count / 2 then lim2 else count / 2
  (vind, index, cutfeat, cutval, ok)

/-- bounding box of the leaf points `vind[left … right)` (nf:1051-1060) -/
def leafBox (dim : Nat) (P : Nat → Nat → α) (vind : Array Nat) (left right : Nat) : List (α × α) :=
  let bbox0 := (List.range dim).map (fun i => (P vind[left]! i, P vind[left]! i))
  (List.range' (left + 1) (right - (left + 1))).foldl (fun bbox k =>
    bbox.zipIdx.map (fun ((lo, hi), i) =>
      let v := P vind[k]! i
      ((if lo > v then v else lo), (if hi < v then v else hi)))) bbox0

/-- `divideTree(left, right, bbox)` (nf:1040-1088); `bbox` is an in/out parameter of the C++.
    Returns `(vind, node, bbox, ok)`; `ok = false` iff the fuel ran out (the C++ recursion would
    not terminate: a split index of `0` or `count`) or a `planeSplit` loop did not end. -/
def divideTree (leafMax dim : Nat) (P : Nat → Nat → α) :
    Nat → Array Nat → Nat → Nat → List (α × α) → Array Nat × Tree α × List (α × α) × Bool
  | 0, vind, left, right, bbox => (vind, .leaf left right, bbox, false)
  | fuel + 1, vind, left, right, bbox =>
      if right - left ≤ leafMax then
        (vind, .leaf left right, leafBox dim P vind left right, true)
      else
        let (vind, idx, cutfeat, cutval, ok0) := middleSplit dim P vind left (right - left) bbox
        let leftBox := setHigh bbox cutfeat cutval
        let (vind, child1, leftBox, ok1) := divideTree leafMax dim P fuel vind left (left + idx) leftBox
        let rightBox := setLow bbox cutfeat cutval
        let (vind, child2, rightBox, ok2) := divideTree leafMax dim P fuel vind (left + idx) right rightBox
        let divlow := getHigh leftBox cutfeat
        let divhigh := getLow rightBox cutfeat
        -- std::min(a, b) = (b < a) ? b : a ; std::max(a, b) = (a < b) ? b : a
        let bbox := List.zipWith (fun (l : α × α) (r : α × α) =>
          ((if r.1 < l.1 then r.1 else l.1), (if l.2 < r.2 then r.2 else l.2))) leftBox rightBox
        (vind, .node cutfeat divlow divhigh child1 child2, bbox, ok0 && ok1 && ok2)

/-- `init_vind` + `buildIndex` (nf:860-868, 969-975) for `n ≥ 1` points. -/
def buildIndex (leafMax dim : Nat) (P : Nat → Nat → α) (n : Nat) : Index α × Bool :=
  let vind := Array.range n
  let bbox := computeBoundingBox dim P n
  let (vind, root, bbox, ok) := divideTree leafMax dim P (n + 1) vind 0 n bbox
  ({ vind := vind, root := root, bbox := bbox }, ok)

end build

end Romea.KdTree
