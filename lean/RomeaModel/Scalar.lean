/-!
# Scalar interface of the numerical model

Model functions are written once, polymorphic in the scalar type, using the *standard* operator
classes (`Add`, `Sub`, `Mul`, `Div`, `Neg`, `LT`, `LE`, `NatCast`, `OfScientific`, decidability of
`<`/`≤`) plus the class `Trans` below for libm functions.  Instances:

* `Float` / `Float32` (here): execution in the drivers.  `Float.sin` etc. call the same libm as the
  C++ (`std::sin(double)` / `sinf`), so results normally agree bit for bit.
* `ℝ` and `RN := Option ℝ` (in `RomeaProofs/RealInst.lean`, `RomeaProofs/RN.lean`): theorems.

Write literals as `((2 : Nat) : α)` (needs `NatCast α`) or `(OfScientific.ofScientific 5 true 1 : α)`
(= 0.5; needs `OfScientific α`): both are available for `Float`, `Float32`, `ℝ` and `RN`.
-/
namespace Romea

/-- libm-style functions (and `abs`/`floor`/`ceil`, which return the scalar type as in C). -/
class Trans (α : Type) where
  sqrt : α → α
  sin : α → α
  cos : α → α
  tan : α → α
  atan : α → α
  asin : α → α
  acos : α → α
  exp : α → α
  log : α → α
  abs : α → α
  floor : α → α
  ceil : α → α
  atan2 : α → α → α      -- atan2 y x
  pow : α → α → α
  pi : α                 -- M_PI

/-- C++ floating → integer conversion (`static_cast<long long>` / `size_t`): truncation toward zero.
    Out-of-range and NaN conversions are undefined behaviour in C++; the `Float` instance saturates. -/
class Trunc (α : Type) where
  trunc : α → Int

instance : NatCast Float := ⟨Float.ofNat⟩
instance : NatCast Float32 := ⟨Float32.ofNat⟩
instance : IntCast Float := ⟨Float.ofInt⟩
instance : IntCast Float32 := ⟨Float32.ofInt⟩

instance : Trans Float where
  sqrt := Float.sqrt
  sin := Float.sin
  cos := Float.cos
  tan := Float.tan
  atan := Float.atan
  asin := Float.asin
  acos := Float.acos
  exp := Float.exp
  log := Float.log
  abs := Float.abs
  floor := Float.floor
  ceil := Float.ceil
  atan2 := Float.atan2
  pow := Float.pow
  pi := Float.ofBits 0x400921FB54442D18      -- M_PI

instance : Trans Float32 where
  sqrt := Float32.sqrt
  sin := Float32.sin
  cos := Float32.cos
  tan := Float32.tan
  atan := Float32.atan
  asin := Float32.asin
  acos := Float32.acos
  exp := Float32.exp
  log := Float32.log
  abs := Float32.abs
  floor := Float32.floor
  ceil := Float32.ceil
  atan2 := Float32.atan2
  pow := Float32.pow
  pi := Float32.ofBits 0x40490FDB            -- (float)M_PI

instance : Trunc Float := ⟨fun x => x.toInt64.toInt⟩
instance : Trunc Float32 := ⟨fun x => x.toInt64.toInt⟩

/-- `std::numeric_limits<T>::max()`, `lowest()`, `min()` (smallest positive normal), `epsilon()` -/
class Limits (α : Type) where
  maxVal : α
  lowest : α
  minPos : α
  eps : α

instance : Limits Float where
  maxVal := Float.ofBits 0x7FEFFFFFFFFFFFFF
  lowest := Float.ofBits 0xFFEFFFFFFFFFFFFF
  minPos := Float.ofBits 0x0010000000000000
  eps := Float.ofBits 0x3CB0000000000000

instance : Limits Float32 where
  maxVal := Float32.ofBits 0x7F7FFFFF
  lowest := Float32.ofBits 0xFF7FFFFF
  minPos := Float32.ofBits 0x00800000
  eps := Float32.ofBits 0x34000000

end Romea
