import RomeaModel.Scalar
/-!
# Polar and spherical coordinate maps (C10)

Mirrors (line numbers of /repo at HEAD)
* `include/romea_core_common/coordinates/PolarCoordinates.hpp`: `PolarTransform` (l.60-131), `toPolar` (l.134-140),
  the homogeneous overload (named `toHomogeneous`, l.142-148), `toCartesian` / `toHomogeneous` (l.151-165);
* `include/romea_core_common/coordinates/SphericalCoordinates.hpp`: `SphericalTransform` (l.52-160),
  `toSpherical` (l.162-184), `toCartesian` / `toHomogeneous` (l.187-205).

`point.norm()` is Eigen's `sqrt(squaredNorm())`, the sum taken left to right.
-/
namespace Romea.Coordinates

section
variable {α : Type} [Add α] [Mul α] [Div α] [Trans α]

/-- `PolarCoordinates<Scalar>` -/
structure Polar (α : Type) where
  range : α
  azimut : α
  deriving Repr

/-- `SphericalCoordinates<Scalar>` -/
structure Spherical (α : Type) where
  range : α
  azimut : α
  elevation : α
  deriving Repr

/-- `PolarTransform::range(x, y)` (l.81-84) and `point.norm()` (l.87-96): `sqrt(x*x + y*y)` -/
def polarRange (x y : α) : α := Trans.sqrt (x * x + y * y)

/-- `PolarTransform::azimut` (l.62-78): `atan2(y, x)` -/
def polarAzimut (x y : α) : α := Trans.atan2 y x

/-- `toPolar` (l.134-148) -/
def toPolar (x y : α) : Polar α := ⟨polarRange x y, polarAzimut x y⟩

/-- `toCartesian(PolarCoordinates)` (l.151-165): `(range * cos(azimut), range * sin(azimut))` -/
def polarToCartesian (p : Polar α) : α × α := (p.range * Trans.cos p.azimut, p.range * Trans.sin p.azimut)

/-- `SphericalTransform::range` (l.54-72): `sqrt(x*x + y*y + z*z)` -/
def sphericalRange (x y z : α) : α := Trans.sqrt (x * x + y * y + z * z)

/-- `SphericalTransform::elevation(z, range)` (l.94-98): `acos(z / range)` -/
def sphericalElevation (z range : α) : α := Trans.acos (z / range)

/-- `toSpherical` (l.162-184): `range = norm; (range, atan2(y, x), acos(z / range))` -/
def toSpherical (x y z : α) : Spherical α :=
  let range := sphericalRange x y z
  ⟨range, Trans.atan2 y x, sphericalElevation z range⟩

/-- `toCartesian(SphericalCoordinates)` (l.187-205), `SphericalTransform::x/y/z` (l.125-159):
    `(range * cos(az) * sin(el), range * sin(az) * sin(el), range * cos(el))` -/
def sphericalToCartesian (s : Spherical α) : α × α × α :=
  (s.range * Trans.cos s.azimut * Trans.sin s.elevation,
   s.range * Trans.sin s.azimut * Trans.sin s.elevation,
   s.range * Trans.cos s.elevation)

end
end Romea.Coordinates
