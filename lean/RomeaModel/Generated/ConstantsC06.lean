/-!
# Literal thresholds of C06, scraped from /repo by `tools/props/c06.py:regen` on every run.
GENERATED FILE - do not edit by hand.  Decimal literals are kept as mantissa / decimal exponent
(`m * 10^-e`) so that the same constant can be read at `Float`, `Float32` and `ℝ`.
-/
namespace Romea.Generated.C06

/-- `ICP_MAXIMAL_NUMBER_OF_ITERATIONS` (src/transform/estimation/FindRigidTransformationByICP.cpp) -/
def icpMaxIterations : Nat := 10
/-- `ICP_TRANSFORMATION_EPSILON` = mantissa * 10^-exponent -/
def icpEpsilonMantissa : Nat := 1
def icpEpsilonExponent : Nat := 3
/-- `threshold = 9 * modelDeviationError * modelDeviationError` (RansacRigidTransformationModel.cpp) -/
def inlierFactor : Nat := 9
/-- `getNumberOfPointsToDrawModel`: 3 when CARTESIAN_DIM == 2, else 4 -/
def drawPoints2D : Nat := 3
def drawPoints3D : Nat := 4
/-- `getMinimalNumberOfInliers` = factor * getNumberOfPointsToDrawModel() -/
def minimalInliersFactor : Nat := 2
/-- `FITTING_PROBABILITY_ = 0.99f` (src/regression/ransac/Ransac.cpp), a `float` literal -/
def fittingProbabilityMantissa : Nat := 99
def fittingProbabilityExponent : Nat := 2
def fittingProbabilityIsFloat : Bool := true
/-- `MAXIMAL_NUMBER_OF_ITERATIONS` (src/regression/ransac/Ransac.cpp) -/
def ransacMaxIterations : Nat := 1000

end Romea.Generated.C06
