import RomeaModel.Registration

/-!
# Long-lived objects in front of the SVD estimator (C04): `PreconditionedPointSet` as a state machine

`RomeaModel/Registration.lean` models `find(PreconditionedPointSet, PreconditionedPointSet, …)` for sets that were
built by the constructor `PreconditionedPointSet(points, scale)` immediately before the call.  The library itself does
something else: `RansacRigidTransformationModel::loadPointSets` (RansacRigidTransformationModel.cpp:102-103) keeps two
`PreconditionedPointSet` MEMBERS alive and refills them with `compute(points, scale)` for every new scan, and
`allocate_()` exists to support exactly this reuse.  This file models the object with its two data members and its
`compute` overloads, line by line:

* `src/pointset/algorithms/PreconditionedPointSet.cpp:27-32`   default constructor (`points_()`, `Identity()`)
* `:128-137`  `allocate_(n)`: `reserve` (unobservable) then `points_.resize(n)` — truncates, or appends
  value-initialised points (`fill`: indeterminate for the Cartesian types, `(0,…,0,1)` for the homogeneous ones)
* `:78-97`    `compute(points, scale)`: `allocate_`, then the loop `points_[n] = points[n] * scale` over
  `n < points.size()`, then `preconditioningMatrix_ = Identity; block(0,0,d,d) *= scale`
* `:102-125`  `compute(points, scale, translation)`: `allocate_`, the loop `points_[n] = scaleArr * points[n] +
  translationArr` (`scaleArr = (1·s,…,1·s,1)`, `translationArr = (t,0)`), then the matrix with the translation column
  (the overload taking a `PointSetPreconditioner` forwards to this one, `:68-73`)
* `:141-153`  `get()`, `getPreconditioningMatrix()`

and `FindRigidTransformationBySVD::find` on two such objects (FindRigidTransformationBySVD.cpp:37-45, 61-68), which reads
`get()` of both and entry `(0,0)` of the TARGET's matrix.  `FindRigidTransformationBySVD` itself has no data members
(FindRigidTransformationBySVD.hpp:37-82): an estimator object that is reused across calls is the same pure function.

The history theorems (`RomeaProofs/Properties/C04.lean`, section 7) show that the state after ANY list of computes is
the state a fresh object would have after the last one — for every scalar type, hence also at `Float`.
-/
namespace Romea.Registration

/-- the two data members of `PreconditionedPointSet<PointType>` (hpp:79-80) -/
structure PPS (d p : Nat) (α : Type) where
  points : Array (Tab p α)           -- points_
  mat : Tab2 (d + 1) (d + 1) α       -- preconditioningMatrix_

section
variable {α : Type} [Add α] [Mul α] [NatCast α]

/-- `TransformationMatrix::Identity()` -/
def identityTab (n : Nat) : Tab2 n n α := Tab2.ofFn (fun i j => if i.1 = j.1 then one else zero)

/-- default constructor (cpp:27-32) -/
def PPS.init (d p : Nat) : PPS d p α := ⟨#[], identityTab (d + 1)⟩

/-- `allocate_(n)` (cpp:128-137): `points_.resize(n)` keeps the first `min n size` points and appends
    value-initialised ones; `reserve` changes only the capacity. -/
def allocate (p : Nat) (fill : Tab p α) (pts : Array (Tab p α)) (n : Nat) : Array (Tab p α) :=
  if n ≤ pts.size then pts.extract 0 n else pts ++ Array.replicate (n - pts.size) fill

/-- the loop `for (n = 0; n < numberOfPoints; ++n) points_[n] = f(points[n])` (cpp:89-92, 115-118) on the
    allocated buffer (a write past the end of the buffer would be undefined behaviour in the C++; it cannot
    happen behind `allocate_`, see `size_allocate`) -/
def overwrite (p : Nat) (f : Tab p α → Tab p α) (input buf : Array (Tab p α)) : Array (Tab p α) :=
  (List.range input.size).foldl (fun b n => b.setIfInBounds n (f (getPt p input n))) buf

/-- `points[n].array() * preconditioningScale` (cpp:91) -/
def scalePoint (p : Nat) (scale : α) (v : Tab p α) : Tab p α := Tab.ofFn (fun i => v.get i * scale)

/-- `Identity(); block(0,0,d,d) *= scale` (cpp:95-96, 121-122) -/
def scaleMat (d : Nat) (scale : α) : Tab2 (d + 1) (d + 1) α :=
  Tab2.ofFn (fun i j =>
    if i.1 < d ∧ j.1 < d then ((identityTab (d + 1) : Tab2 (d + 1) (d + 1) α).get i).get j * scale
    else ((identityTab (d + 1) : Tab2 (d + 1) (d + 1) α).get i).get j)

/-- `compute(points, scale)` (cpp:78-97) -/
def PPS.compute {d p : Nat} (fill : Tab p α) (st : PPS d p α) (input : Array (Tab p α)) (scale : α) : PPS d p α :=
  { points := overwrite p (scalePoint p scale) input (allocate p fill st.points input.size)
    mat := scaleMat d scale }

/-- `scale * points[n].array() + translation` with `scale = (1·s,…,1·s,1)`, `translation = (t,0)` (cpp:111-118) -/
def affinePoint (d p : Nat) (scale : α) (tr : Tab d α) (v : Tab p α) : Tab p α :=
  Tab.ofFn (fun i =>
    (if i.1 < d then one * scale else one) * v.get i + (if h : i.1 < d then tr.get ⟨i.1, h⟩ else zero))

/-- `Identity(); block(0,0,d,d) *= scale; block(0,d,d,1) = translation` (cpp:121-123) -/
def affineMat (d : Nat) (scale : α) (tr : Tab d α) : Tab2 (d + 1) (d + 1) α :=
  Tab2.ofFn (fun i j =>
    if h : i.1 < d ∧ j.1 = d then tr.get ⟨i.1, h.1⟩ else ((scaleMat d scale : Tab2 (d + 1) (d + 1) α).get i).get j)

/-- `compute(points, scale, translation)` (cpp:102-125) -/
def PPS.computeT {d p : Nat} (fill : Tab p α) (st : PPS d p α) (input : Array (Tab p α)) (scale : α) (tr : Tab d α) :
    PPS d p α :=
  { points := overwrite p (affinePoint d p scale tr) input (allocate p fill st.points input.size)
    mat := affineMat d scale tr }

/-- one call of a `compute` overload on an object -/
inductive ComputeOp (d p : Nat) (α : Type) where
  | scale (input : Array (Tab p α)) (s : α)
  | scaleTrans (input : Array (Tab p α)) (s : α) (tr : Tab d α)

def PPS.apply {d p : Nat} (fill : Tab p α) (st : PPS d p α) : ComputeOp d p α → PPS d p α
  | .scale input s => st.compute fill input s
  | .scaleTrans input s tr => st.computeT fill input s tr

/-- a history of computes on one object -/
def PPS.run {d p : Nat} (fill : Tab p α) (st : PPS d p α) (ops : List (ComputeOp d p α)) : PPS d p α :=
  ops.foldl (PPS.apply fill) st

/-- `getPreconditioningMatrix()(0, 0)` -/
def PPS.m00 {d p : Nat} (st : PPS d p α) : α := (st.mat.get 0).get 0

end

section
variable {α : Type} [Add α] [Sub α] [Mul α] [Div α] [Neg α] [LT α] [DecidableLT α] [NatCast α]

/-- `H.block(0, d, d, 1) /= m` -/
def unscaleBy (d : Nat) (H : Tab2 (d + 1) (d + 1) α) (m : α) : Tab2 (d + 1) (d + 1) α :=
  Tab2.ofFn (fun i j => if i.1 < d ∧ j.1 = d then (H.get i).get j / m else (H.get i).get j)

/-- `find(sourcePoints, targetPoints, correspondences)` on two objects (FindRigidTransformationBySVD.cpp:37-45) -/
def findObj (d p : Nat) (hdp : d ≤ p) (hp : p ≤ d + 1) (svd : Mat d d α → SVD d α)
    (S T : PPS d p α) (corr : List (Nat × Nat)) : Tab2 (d + 1) (d + 1) α :=
  unscaleBy d (estimate d p hdp hp svd S.points T.points corr) T.m00

/-- `find(sourcePoints, targetPoints)` on two objects (FindRigidTransformationBySVD.cpp:61-68) -/
def findObjAll (d p : Nat) (hdp : d ≤ p) (hp : p ≤ d + 1) (svd : Mat d d α → SVD d α)
    (S T : PPS d p α) : Tab2 (d + 1) (d + 1) α :=
  unscaleBy d (estimateAll d p hdp hp svd S.points T.points) T.m00

end
end Romea.Registration
