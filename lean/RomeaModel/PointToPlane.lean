import RomeaModel.LeastSquares

/-!
# `FindRigidTransformationByLeastSquares<PointType>` (C05) — point-to-plane least squares

Mirrors `src/transform/estimation/FindRigidTransformationByLeastSquares.cpp` (and the scale-only
`PreconditionedPointSet::compute` of `src/pointset/algorithms/PreconditionedPointSet.cpp:79-98` that feeds it).

* A point / normal is an array of `size` scalars: `dim` Cartesian components, plus the homogeneous one for the
  homogeneous point types (`size = dim + 1`).  `dim ∈ {2, 3}`; anything that is not 2 takes the 3D branch, as
  `if (CARTESIAN_DIM == 2) … else …` does.
* The estimator object owns a `LeastSquares<Scalar>` (C07's model) which persists between calls: data size,
  buffers and the configured preconditioner are state.
* Row `k` of the problem is `[n, s × n]` (2D: `[nx, ny, sx·ny − sy·nx]`), its right-hand side is
  `(t − s)·n` — Eigen's `dot` runs over ALL `size` components, the homogeneous one included.
* The solution is scattered into `identity + skew(ω)` and the translation column.
* `estimate_` exists twice in the C++ (index-based correspondences / aligned arrays, each with a 2D and a 3D branch
  that repeat the same formulas); the model shares the row formulas and keeps the two loops apart.
-/
namespace Romea.PointToPlane
open Romea.LeastSquares

abbrev Pt (α : Type) := Array α

/-- `FindRigidTransformationByLeastSquares<PointType>`: its only member -/
structure Estimator (α : Type) where
  ls : State α

/-- what the estimator needs of a `PreconditionedPointSet`: the points and entry (0,0) of its matrix -/
structure Preconditioned (α : Type) where
  points : Array (Pt α)
  m00 : α

section
variable {α : Type} [NatCast α] [Add α] [Sub α] [Mul α] [Div α] [Neg α] [LT α] [DecidableLT α]

/-- number of estimated parameters: 3 in 2D, 6 otherwise (cpp:33-38) -/
def estSize (dim : Nat) : Nat := if dim = 2 then 3 else 6

/-- constructor (cpp:30-39): default-constructed solver, then `setEstimateSize` (no rows are allocated yet, so the
    reshaped design matrix is empty whatever the unspecified contents) -/
def init (dim : Nat) : Estimator α := ⟨setEstimateSize State.default (estSize dim) fun _ _ => zero⟩

/-- `PreconditionedPointSet::compute(points, scale)` (PreconditionedPointSet.cpp:79-98): EVERY component of every
    point — the homogeneous one included — is multiplied by the scale; matrix(0,0) = 1·scale -/
def precondition (pts : Array (Pt α)) (scale : α) : Preconditioned α :=
  { points := pts.map fun p => p.map fun v => v * scale, m00 := one * scale }

/-- `setPreconditioner(source, target)` (cpp:43-67): `Ac = Identity; Ac.block(0,0,DIM,DIM) /= scale` with
    `scale = target.matrix(0,0)`; `setPreconditionner(Ac)` zeroes the offset -/
def setPreconditioner (dim : Nat) (e : Estimator α) (target : Preconditioned α) : Estimator α :=
  let scale := target.m00
  let n := estSize dim
  let Ac : Mat α := Mat.tab n n fun i j =>
    if i < dim ∧ j < dim then (if i = j then one else zero) / scale else (if i = j then one else zero)
  ⟨LeastSquares.setPreconditioner e.ls Ac (Vec.tab e.ls.est fun _ => zero)⟩

/-- row of the design matrix for source point `s` and target normal `n` (cpp:93-95 / 113-118, 165-167 / 185-190) -/
def rowOf (dim : Nat) (s n : Pt α) : Vec α :=
  if dim = 2 then
    #[Vec.get n 0, Vec.get n 1, Vec.get s 0 * Vec.get n 1 - Vec.get s 1 * Vec.get n 0]
  else
    #[Vec.get n 0, Vec.get n 1, Vec.get n 2,
      Vec.get s 1 * Vec.get n 2 - Vec.get s 2 * Vec.get n 1,
      Vec.get s 2 * Vec.get n 0 - Vec.get s 0 * Vec.get n 2,
      Vec.get s 0 * Vec.get n 1 - Vec.get s 1 * Vec.get n 0]

/-- right-hand side `(targetPoint - sourcePoint).dot(targetPointNormal)` over all `size` components -/
def rhsOf (size : Nat) (s t n : Pt α) : α := sumTo size fun c => (Vec.get t c - Vec.get s c) * Vec.get n c

/-- the solution scattered into the `(dim+1)×(dim+1)` matrix (cpp:100-105 / 122-133) -/
def scatter (dim : Nat) (x : Vec α) : Mat α :=
  if dim = 2 then
    #[#[one, -(Vec.get x 2), Vec.get x 0],
      #[Vec.get x 2, one, Vec.get x 1],
      #[zero, zero, one]]
  else
    #[#[one, -(Vec.get x 5), Vec.get x 4, Vec.get x 0],
      #[Vec.get x 5, one, -(Vec.get x 3), Vec.get x 1],
      #[-(Vec.get x 4), Vec.get x 3, one, Vec.get x 2],
      #[zero, zero, zero, one]]

/-- the loop `for n < numberOfPoints: J(n,·) = …; Y(n) = …` -/
def fillRows (ls : State α) (n : Nat) (row : Nat → Vec α) (rhs : Nat → α) : State α :=
  (List.range n).foldl (fun ls k => writeRow ls k (row k) (rhs k)) ls

/-- `estimate_` with index-based correspondences (cpp:72-138): `corr[k] = (sourcePointIndex, targetPointIndex)`;
    the normal is taken at the TARGET index -/
def estimateIndexed (env : Env α) (dim size : Nat) (e : Estimator α) (src tgt nrm : Array (Pt α))
    (corr : Array (Nat × Nat)) (junkJ : Nat → Nat → α) (junkY : Nat → α) : Estimator α × Mat α :=
  let n := corr.size
  let ls0 := (setDataSize e.ls n junkJ junkY).1
  let sp := fun k => src.getD (corr.getD k (0, 0)).1 #[]
  let tp := fun k => tgt.getD (corr.getD k (0, 0)).2 #[]
  let np := fun k => nrm.getD (corr.getD k (0, 0)).2 #[]
  let ls1 := fillRows ls0 n (fun k => rowOf dim (sp k) (np k)) (fun k => rhsOf size (sp k) (tp k) (np k))
  let r := estimateSVD env ls1
  (⟨r.1⟩, scatter dim r.2)

/-- `estimate_` on aligned arrays (cpp:143-209): point `k` of the source goes with point and normal `k` of the target -/
def estimateAligned (env : Env α) (dim size : Nat) (e : Estimator α) (src tgt nrm : Array (Pt α))
    (junkJ : Nat → Nat → α) (junkY : Nat → α) : Estimator α × Mat α :=
  let n := src.size
  let ls0 := (setDataSize e.ls n junkJ junkY).1
  let sp := fun k => src.getD k #[]
  let tp := fun k => tgt.getD k #[]
  let np := fun k => nrm.getD k #[]
  let ls1 := fillRows ls0 n (fun k => rowOf dim (sp k) (np k)) (fun k => rhsOf size (sp k) (tp k) (np k))
  let r := estimateSVD env ls1
  (⟨r.1⟩, scatter dim r.2)

/-! the four `find` overloads (cpp:213-273) -/

def findIndexed (env : Env α) (dim size : Nat) (e : Estimator α) (src tgt nrm : Array (Pt α)) (corr : Array (Nat × Nat))
    (jJ : Nat → Nat → α) (jY : Nat → α) : Estimator α × Mat α :=
  estimateIndexed env dim size e src tgt nrm corr jJ jY

def findIndexedPre (env : Env α) (dim size : Nat) (e : Estimator α) (src tgt : Preconditioned α) (nrm : Array (Pt α))
    (corr : Array (Nat × Nat)) (jJ : Nat → Nat → α) (jY : Nat → α) : Estimator α × Mat α :=
  findIndexed env dim size e src.points tgt.points nrm corr jJ jY

def findAligned (env : Env α) (dim size : Nat) (e : Estimator α) (src tgt nrm : Array (Pt α))
    (jJ : Nat → Nat → α) (jY : Nat → α) : Estimator α × Mat α :=
  estimateAligned env dim size e src tgt nrm jJ jY

def findAlignedPre (env : Env α) (dim size : Nat) (e : Estimator α) (src tgt : Preconditioned α) (nrm : Array (Pt α))
    (jJ : Nat → Nat → α) (jY : Nat → α) : Estimator α × Mat α :=
  findAligned env dim size e src.points tgt.points nrm jJ jY

end
end Romea.PointToPlane
