/-!
# `LeastSquares<RealType>` as a state machine (C07, reused by C05)

Mirrors `src/regression/leastsquares/LeastSquares.cpp` and
`include/romea_core_common/regression/leastsquares/LeastSquares.hpp` of `/repo`.

* The object is a record of its members; every method is a function returning the new record (and the
  returned value).  The scratch members `JtJ_` / `JtY_` are completely overwritten by every estimate before they
  are read and are never read anywhere else, so they are local values here.
* `J_`, `Y_`, `W_` are grow-only buffers: `setDataSize` reallocates only when the requested size exceeds
  `Y_.rows()`.  Eigen's `resize` discards the contents on reallocation; what is in the new buffer is
  *unspecified*.  The operation therefore carries the new contents as an argument (`junkJ`, `junkY`): every
  theorem quantifies over them, the driver fills them with NaN.  (`W_` is set to 1 by the code.)
* The callers write the problem through `getJ()`, `getY()`, `getW()`; `writeRow i r y` is
  `J(i,c) = r[c]` for `c < estimateSize_`, `Y(i) = y`, `setW i w` is `W(i) = w`.  In C++ an index outside the
  buffer (`i ≥ Y_.rows()`) is undefined behaviour; the model ignores such writes and reads 0 there, and drivers,
  generators and theorems stay away from them (`bad-op` on both sides).
* `setEstimateSize` (since the repair 186525a) also reshapes the design matrix: `J_.resize(Y_.rows(), estimateSize_)`.
  Eigen reallocates — contents unspecified, carried as `junkJ` like for `setDataSize` — exactly when the number of
  coefficients changes; when it stays the same the allocation is kept and only the shape changes (column-major
  reinterpretation).  In every object whose three buffers have the same number of rows (all real objects) "same
  number of coefficients" means "same number of columns or no rows", and the reinterpretation is the identity.
* Eigen's `JacobiSVD` and `LDLT::solve(Identity)` are parameters (`Env`), with contracts stated in
  `RomeaProofs/Properties/C07.lean`; `RomeaModel/LeastSquaresOracles.lean` has Lean implementations for execution.

The scalar type is a parameter (driver: `Float`, `Float32`; theorems: `ℝ`).  Core Lean only.
-/
namespace Romea.LeastSquares

abbrev Vec (α : Type) := Array α
/-- row-major: an array of rows -/
abbrev Mat (α : Type) := Array (Array α)

section
variable {α : Type} [NatCast α]

@[inline] def zero : α := ((0 : Nat) : α)
@[inline] def one : α := ((1 : Nat) : α)

/-- read with the model's out-of-range convention (0); C++ has undefined behaviour there -/
def Vec.get (v : Vec α) (i : Nat) : α := v.getD i zero
def Mat.get (A : Mat α) (i j : Nat) : α := (A.getD i #[]).getD j zero

def Vec.tab (n : Nat) (f : Nat → α) : Vec α := Array.ofFn (n := n) fun i => f i.val
def Mat.tab (r c : Nat) (f : Nat → Nat → α) : Mat α :=
  Array.ofFn (n := r) fun i => Array.ofFn (n := c) fun j => f i.val j.val

def Mat.rows (A : Mat α) : Nat := A.size
/-- `cols()` of a dynamic matrix stored as rows (0 when there is no row) -/
def Mat.cols (A : Mat α) : Nat := (A.getD 0 #[]).size

def identity (n : Nat) : Mat α := Mat.tab n n fun i j => if i = j then one else zero
end

section
variable {α : Type} [NatCast α] [Add α] [Mul α]

/-- `Σ_{k<n} f k`, accumulated upwards from 0 -/
def sumTo : Nat → (Nat → α) → α
  | 0, _ => zero
  | n + 1, f => sumTo n f + f n

/-- `A * B` for `A : r×m`, `B : m×c` -/
def matMul (r m c : Nat) (A B : Mat α) : Mat α :=
  Mat.tab r c fun i j => sumTo m fun k => A.get i k * B.get k j

def matVec (r c : Nat) (A : Mat α) (v : Vec α) : Vec α :=
  Vec.tab r fun i => sumTo c fun k => A.get i k * v.get k

def transpose (r c : Nat) (A : Mat α) : Mat α := Mat.tab c r fun i j => A.get j i
end

/-- result of `Eigen::JacobiSVD<Matrix>(A, ComputeThinU | ComputeThinV)` on a square matrix -/
structure SVD (α : Type) where
  U : Mat α
  S : Vec α
  V : Mat α

/-- what the solver takes from its environment -/
structure Env (α : Type) where
  /-- `std::numeric_limits<RealType>::epsilon()` -/
  eps : α
  /-- `JacobiSVD` of an `e×e` matrix -/
  svd : Nat → Mat α → SVD α
  /-- `A.ldlt().solve(Matrix::Identity(e, e))` -/
  ldltInv : Nat → Mat α → Mat α

/-- the members of `LeastSquares<RealType>` (LeastSquares.hpp:72-84) -/
structure State (α : Type) where
  dataSize : Nat
  est : Nat
  Ac : Mat α
  Bc : Vec α
  J : Mat α          -- `J_`: `J.size` rows (= `Y_.rows()` once allocated by `setDataSize`), `Mat.cols J` columns
  Y : Vec α
  W : Vec α
  inv : Mat α        -- `inverseJtJ_`

section
variable {α : Type} [NatCast α] [Add α] [Mul α] [Div α] [LT α] [DecidableLT α]

/-- `LeastSquares()` (LeastSquares.cpp:34-46) -/
def State.default : State α :=
  { dataSize := 0, est := 0, Ac := #[], Bc := #[], J := #[], Y := #[], W := #[], inv := #[] }

/-- `LeastSquares(estimateSize)` (cpp:50-62) -/
def State.ofEst (e : Nat) : State α :=
  { dataSize := 0, est := e, Ac := identity e, Bc := Vec.tab e fun _ => zero, J := #[], Y := #[], W := #[],
    inv := Mat.tab e e fun _ _ => zero }

/-- `LeastSquares(estimateSize, dataSize)` (cpp:66-78) -/
def State.ofEstData (e n : Nat) : State α :=
  { dataSize := n, est := e, Ac := identity e, Bc := Vec.tab e fun _ => zero,
    J := Mat.tab n e fun _ _ => zero, Y := Vec.tab n fun _ => zero, W := Vec.tab n fun _ => one,
    inv := Mat.tab e e fun _ _ => zero }

/-- `setEstimateSize` (cpp:128-141): `J_.resize(Y_.rows(), estimateSize)`, then the preconditioner and
    `inverseJtJ_` are reset; `Y_`, `W_` and `dataSize_` are not touched.
    `resize` keeps the allocation iff the number of coefficients is unchanged (then coefficient `i + j·rows` of the
    column-major storage is reread under the new shape), otherwise the contents are unspecified (`junkJ`). -/
def setEstimateSize (s : State α) (e : Nat) (junkJ : Nat → Nat → α) : State α :=
  let rows := s.Y.size
  let J' : Mat α :=
    if rows * e = s.J.size * Mat.cols s.J then
      Mat.tab rows e fun i j => let k := i + j * rows; s.J.get (k % s.J.size) (k / s.J.size)
    else Mat.tab rows e junkJ
  { s with est := e, J := J', Ac := identity e, Bc := Vec.tab e fun _ => zero, inv := Mat.tab e e fun _ _ => zero }

/-- `setDataSize` (cpp:144-159): grow-only; returns whether the buffers were reallocated.
    `junkJ`, `junkY` = the unspecified contents of the reallocated `J_`, `Y_`. -/
def setDataSize (s : State α) (n : Nat) (junkJ : Nat → Nat → α) (junkY : Nat → α) : State α × Bool :=
  if s.Y.size < n then
    ({ s with dataSize := n, J := Mat.tab n s.est junkJ, Y := Vec.tab n junkY, W := Vec.tab n fun _ => one }, true)
  else
    ({ s with dataSize := n }, false)

/-- what the callers do through `getJ()` / `getY()`: `J(i,c) = r[c]` for `c < estimateSize_`, `Y(i) = y` -/
def writeRow (s : State α) (i : Nat) (r : Vec α) (y : α) : State α :=
  let old := s.J.getD i #[]
  { s with J := s.J.setIfInBounds i (Vec.tab old.size fun c => if c < s.est then Vec.get r c else Vec.get old c),
           Y := s.Y.setIfInBounds i y }

/-- `getW()(i) = w` -/
def setW (s : State α) (i : Nat) (w : α) : State α := { s with W := s.W.setIfInBounds i w }

/-- `setPreconditionner(Ac, Bc)` (cpp:163-170); the one-argument overload passes `Vector::Zero(estimateSize_)` -/
def setPreconditioner (s : State α) (A : Mat α) (b : Vec α) : State α := { s with Ac := A, Bc := b }

/-- `weightJAndY_` (cpp:224-232): IN PLACE — the first `dataSize_` entries of `Y_` and of the first
    `estimateSize_` columns of `J_` are multiplied by the weights and stay multiplied afterwards. -/
def weightJAndY (s : State α) : State α :=
  { s with
    Y := s.Y.mapIdx fun k y => if k < s.dataSize then y * s.W.get k else y,
    J := s.J.mapIdx fun k row =>
      if k < s.dataSize then row.mapIdx fun c v => if c < s.est then v * s.W.get k else v else row }

/-- `computeJTJ_` (cpp:236-245): upper triangle computed from the first `dataSize_` rows, mirrored -/
def computeJtJ (s : State α) : Mat α :=
  Mat.tab s.est s.est fun i j =>
    if i ≤ j then sumTo s.dataSize fun k => s.J.get k i * s.J.get k j
    else sumTo s.dataSize fun k => s.J.get k j * s.J.get k i

/-- `computeJTY_` (cpp:249-255) -/
def computeJtY (s : State α) : Vec α :=
  Vec.tab s.est fun i => sumTo s.dataSize fun k => s.J.get k i * s.Y.get k

/-- `Ac_ * inverseJtJ_ * JtY_ + Bc_` -/
def applyPreconditioner (s : State α) (inv : Mat α) (b : Vec α) : Vec α :=
  let x := matVec s.est s.est (matMul s.est s.est s.est s.Ac inv) b
  Vec.tab s.est fun i => x.get i + s.Bc.get i

/-- `estimateUsingCholeskyDecomposition` (cpp:182-188) -/
def estimateCholesky (env : Env α) (s : State α) : State α × Vec α :=
  let A := computeJtJ s
  let b := computeJtY s
  let inv := env.ldltInv s.est A
  ({ s with inv := inv }, applyPreconditioner s inv b)

/-- the "pseudo-inverse" of cpp:198-206 exactly as written: a singular value is inverted iff it is
    `> epsilon` (absolute), otherwise it is LEFT AS IT IS (not zeroed); then `V * D * Uᵀ` -/
def pinvCut (eps : α) (e : Nat) (d : SVD α) : Mat α :=
  let D : Mat α := Mat.tab e e fun i j =>
    if i = j then (if d.S.get i > eps then one / d.S.get i else d.S.get i) else zero
  matMul e e e (matMul e e e d.V D) (transpose e e d.U)

/-- `estimateUsingSVD` (cpp:192-209) -/
def estimateSVD (env : Env α) (s : State α) : State α × Vec α :=
  let A := computeJtJ s
  let b := computeJtY s
  let inv := pinvCut env.eps s.est (env.svd s.est A)
  ({ s with inv := inv }, applyPreconditioner s inv b)

/-- `weightedEstimate` (cpp:213-217) -/
def weightedEstimate (env : Env α) (s : State α) : State α × Vec α :=
  estimateCholesky env (weightJAndY s)

/-- `computeEstimateCovariance` (cpp:221-226): `Ac_ᵀ * inverseJtJ_ * Ac_ * dataVariance` -/
def covariance (s : State α) (var : α) : Mat α :=
  let e := s.est
  let P := matMul e e e (matMul e e e (transpose e e s.Ac) s.inv) s.Ac
  Mat.tab e e fun i j => P.get i j * var

/-! ### The object as `step` -/

inductive Op (α : Type)
  | setEstimateSize (e : Nat) (junkJ : Nat → Nat → α)
  | setDataSize (n : Nat) (junkJ : Nat → Nat → α) (junkY : Nat → α)
  | writeRow (i : Nat) (r : Vec α) (y : α)
  | setW (i : Nat) (w : α)
  | setPre (A : Mat α) (b : Vec α)
  | estimateSVD
  | estimateCholesky
  | weightedEstimate
  | covariance (var : α)

inductive Out (α : Type)
  | unit
  | grew (b : Bool)
  | vec (v : Vec α)
  | mat (m : Mat α)

def step (env : Env α) (s : State α) : Op α → State α × Out α
  | .setEstimateSize e jJ => (setEstimateSize s e jJ, .unit)
  | .setDataSize n jJ jY => let r := setDataSize s n jJ jY; (r.1, .grew r.2)
  | .writeRow i r y => (writeRow s i r y, .unit)
  | .setW i w => (setW s i w, .unit)
  | .setPre A b => (setPreconditioner s A b, .unit)
  | .estimateSVD => let r := estimateSVD env s; (r.1, .vec r.2)
  | .estimateCholesky => let r := estimateCholesky env s; (r.1, .vec r.2)
  | .weightedEstimate => let r := weightedEstimate env s; (r.1, .vec r.2)
  | .covariance v => (s, .mat (covariance s v))

/-- state after a sequence of operations -/
def run (env : Env α) (s : State α) (ops : List (Op α)) : State α := ops.foldl (fun s o => (step env s o).1) s

end
end Romea.LeastSquares
