/-!
# Line protocol shared by all model drivers

One operation per line on stdin, one canonical line on stdout.  A line starting with `#case`
resets the driver state (cases are independent, so the harness can restart behind a crash).
Floating-point numbers travel as IEEE-754 bit patterns in decimal (`d<bits>` binary64,
`s<bits>` binary32) so that nothing is lost to decimal printing; NaNs print as `nan`.
-/
namespace Romea.Proto

def tokens (line : String) : List String :=
  (line.trimAscii.toString.splitOn " ").filter (· ≠ "")

def parseInt? (s : String) : Option Int := s.toInt?
def parseNat? (s : String) : Option Nat := s.toNat?

/-- `d<decimal bits>` → binary64 -/
def parseF64? (s : String) : Option Float :=
  if s.startsWith "d" then (s.drop 1).toString.toNat? |>.map (fun n => Float.ofBits n.toUInt64) else none

/-- `s<decimal bits>` → binary32 -/
def parseF32? (s : String) : Option Float32 :=
  if s.startsWith "s" then (s.drop 1).toString.toNat? |>.map (fun n => Float32.ofBits n.toUInt32) else none

def fmtF64 (x : Float) : String :=
  if x.isNaN then "nan" else "d" ++ toString x.toBits.toNat

def fmtF32 (x : Float32) : String :=
  if x.isNaN then "nan" else "s" ++ toString x.toBits.toNat

def fmtBool (b : Bool) : String := if b then "1" else "0"

def parseAll? {α β} (f : β → Option α) (l : List β) : Option (List α) := l.mapM f

def unwords (l : List String) : String := " ".intercalate l

/-- Generic driver loop: `reset` gives the state at the start of every case,
    `step` consumes one tokenised line. Unknown or malformed lines must yield `bad-op`. -/
partial def loop {σ : Type} (h : IO.FS.Stream) (out : IO.FS.Stream) (reset : σ)
    (step : σ → List String → σ × String) (st : σ) : IO Unit := do
  let line ← h.getLine
  if line.isEmpty then return ()
  let toks := tokens line
  match toks with
  | [] => loop h out reset step st
  | t :: _ =>
    if t.startsWith "#" then
      out.putStrLn "#"
      loop h out reset step reset
    else
      let (st', o) := step st toks
      out.putStrLn o
      loop h out reset step st'

def run {σ : Type} (reset : σ) (step : σ → List String → σ × String) : IO Unit := do
  let i ← IO.getStdin
  let o ← IO.getStdout
  loop i o reset step reset
  o.flush

end Romea.Proto
