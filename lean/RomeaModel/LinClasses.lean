import RomeaModel.Linearize
import RomeaModel.LinObjects
import RomeaModel.LinReport
import RomeaModel.Generated.LockTable
/-!
# The witness calls on the regenerated table (C19)

`svCall` / `optCall`: the calls of `SharedVariable` / `SharedOptionalVariable` with bodies built from the event lists
regenerated from today's source (`Romea.Generated.C19`) and the hand-written data flows of `LinObjects.lean`.
-/
namespace Romea.Lin
open Romea.Lockset Romea.Generated.C19

section
variable {V : Type} [Inhabited V]
def svCall (W : Nat) (op : SVOp V) : Call V (SVOp V) (List V) :=
  ⟨ofEvents W (svFlow W) (cls_SharedVariable.evsOf op.method), op⟩

end

def optCall (n : Nat) (op : OptOp) : Call Nat OptOp (Option (List Nat)) :=
  ⟨ofEvents (n + 1) (optFlow n) (cls_SharedOptionalVariable.evsOf op.method), op⟩

end Romea.Lin
