import RomeaModel.Scalar

/-!
# Surface normals and curvature (C09)

Mirrors `src/pointset/algorithms/NormalAndCurvatureEstimation.cpp` (as of the commit "fix: normal orientation
ignores the homogeneous coordinate"):

* `planeEstimation_` (:60-105): k nearest neighbours of the point (the point itself included, it is in the tree),
  two-pass covariance of the neighbours, `SelfAdjointEigenSolver` on its cartesian block;
* `flipNormalTowardOriginCoordinate` (:27-37): the normal's homogeneous coordinate is zeroed, the normal is
  negated when `normal.head<DIM>() · (point.head<DIM>() / point.norm()) > 0` (`point.norm()` is the norm of the
  *whole* point vector, i.e. it includes the homogeneous 1);
* the six `compute` overloads (:107-262): normal = first column of the eigenvectors (smallest eigenvalue),
  curvature = `λ0 / Σλ`, reliability = `|λ1/λ0|` (2D) resp. `|min(λ1,λ2)/λ0|` (3D).

External routines are PARAMETERS: `knn` (the kd-tree query; contract = C08's statement: the indices of the k nearest
points) and `eig` (Eigen's `SelfAdjointEigenSolver`; contract `IsEigSym` in the proofs: ascending eigenvalues,
orthonormal eigenvectors, `C V = V Λ`).  The cartesian dimension is `m + 2` (2 or 3).
-/
namespace Romea.Normals

abbrev Vec (d : Nat) (α : Type) := Fin d → α
abbrev Mat (d : Nat) (α : Type) := Fin d → Fin d → α

section
variable {α : Type} [Add α] [Sub α] [Mul α] [Div α] [Neg α] [LT α] [DecidableLT α] [NatCast α] [Trans α]

def zero : α := ((0 : Nat) : α)
def one : α := ((1 : Nat) : α)

/-- `acc = 0; for x in l: acc += x` -/
def lsum (l : List α) : α := l.foldl (fun a x => a + x) zero

def sumFin {n : Nat} (f : Fin n → α) : α := lsum ((List.finRange n).map f)

def dot {d : Nat} (u v : Vec d α) : α := sumFin fun i => u i * v i

/-- `std::min(a, b)` -/
def stdMin (a b : α) : α := if b < a then b else a

/-- `mean = Σ points[idx[i]]; mean /= Scalar(k)` (:89-93) -/
def mean {d : Nat} (nb : List (Vec d α)) : Vec d α :=
  fun i => lsum (nb.map fun p => p i) / (nb.length : α)

/-- `covariance += (p - mean)(p - mean)ᵀ; covariance /= Scalar(k)` (:95-100) for a given mean vector -/
def covWith {d : Nat} (nb : List (Vec d α)) (m : Vec d α) : Mat d α :=
  fun a b => lsum (nb.map fun p => (p a - m a) * (p b - m b)) / (nb.length : α)

/-- the two-pass covariance of the neighbours; only its cartesian block is used (:102) -/
def cov {d : Nat} (nb : List (Vec d α)) : Mat d α := covWith nb (mean nb)

/-- `cov nb`, evaluated once into arrays (a definition returning a function would be re-evaluated at every
    application); `covTab nb = cov nb` is proved in the property file -/
def covTab {d : Nat} (nb : List (Vec d α)) : Mat d α :=
  let mArr : Array α := Array.ofFn (mean nb)
  let cArr : Array (Array α) := Array.ofFn fun a => Array.ofFn (covWith nb (fun i => mArr[i.val]'(by simp [mArr])) a)
  fun a b => (cArr[a.val]'(by simp [cArr]))[b.val]'(by simp [cArr])

/-- result of the symmetric eigen-decomposition: `vals` ascending, `vecs i j` = component `i` of eigenvector `j` -/
structure EigSym (d : Nat) (α : Type) where
  vals : Vec d α
  vecs : Mat d α

/-- what the six overloads can report for one point -/
structure Out (d : Nat) (α : Type) where
  normal : Vec d α
  w : α                   -- homogeneous coordinate of the normal (homogeneous point types only): ±0
  curvature : α
  reliability : α
  flipped : Bool

variable {m : Nat}

/-- `point.norm()`: over the whole stored vector, i.e. including the homogeneous coordinate 1 -/
def pointNorm (hom : Bool) (p : Vec (m + 2) α) : α :=
  Trans.sqrt (if hom then dot p p + one else dot p p)

/-- the orientation test of `flipNormalTowardOriginCoordinate` (:34) -/
def flipTest (hom : Bool) (p n : Vec (m + 2) α) : Bool :=
  let nrm := pointNorm hom p
  decide (zero < dot n (fun i => p i / nrm))

/-- `|λ1/λ0|` in 2D, `|min(λ1, λ2)/λ0|` in 3D (:183-239), written for any dimension ≥ 2 -/
def reliabilityOf (vals : Vec (m + 2) α) : α :=
  let rest := (List.finRange m).map fun j => vals ⟨j.val + 2, by omega⟩
  Trans.abs (rest.foldl stdMin (vals 1) / vals 0)

/-- one point: `planeEstimation_` + the per-point part of `compute` -/
def estimate (hom : Bool) (eig : Mat (m + 2) α → EigSym (m + 2) α) (nb : List (Vec (m + 2) α))
    (p : Vec (m + 2) α) : Out (m + 2) α :=
  let e := eig (covTab nb)                                           -- :102-104
  let n0 : Vec (m + 2) α := fun i => e.vecs i 0                      -- :131 first column
  let flip := flipTest hom p n0                                      -- :34
  { normal := if flip then (fun i => -(n0 i)) else n0,               -- :35
    w := if flip then -zero else zero,                               -- :33, :35
    curvature := e.vals 0 / sumFin e.vals,                           -- :163 / :257
    reliability := reliabilityOf e.vals,                             -- :260
    flipped := flip }

/-- the whole cloud; `knn i` = indices returned by the kd-tree for point `i` (in its order) -/
def computeAll (hom : Bool) (eig : Mat (m + 2) α → EigSym (m + 2) α) (knn : Nat → List Nat)
    (pts : Array (Vec (m + 2) α)) : List (Out (m + 2) α) :=
  (List.range pts.size).map fun i =>
    let p := pts.getD i (fun _ => zero)
    estimate hom eig ((knn i).map fun j => pts.getD j (fun _ => zero)) p

/-! ## Objects that outlive a call: the estimator and the caller-owned kd-tree

`compute(points, pointsKdTree, ...)` (:120, :154, :243) takes a kd-tree owned by the caller, and one
`NormalAndCurvatureEstimation` object serves any number of calls.  What survives a call:

* in the estimator (hpp:100-106): `numberOfNeighborPoints_` (fixed by the constructor), `neighborIndexes_` (`k` entries,
  value-initialised to 0, :52), `neighborSquareDistances_` (written by the query, never read), `eigenSolver_`,
  `eigenValues_`, `eigenVectors_` (zero, :55-56);
* in the `KdTree` (KdTree.hpp:61-63): the nanoflann index built by the constructor (a function of the point set, C08) and
  `singleNNResult_`, which only `findNearestNeighbor` (the single-neighbour query, not used here) touches;
  `findNearestNeighbors` (KdTree.cpp:49-58) builds its result set on the stack with the `numberOfNeighbors` of THIS call,
  so a query is a function of (point set, k, query point): the parameter `knn`.

`planeEstimation_` hands `neighborIndexes_` to the query, which overwrites the first `count` entries (`count` = number
of neighbours found, nanoflann `KNNResultSet::addPoint`) and leaves the others as they were; the loops (:89, :96) then
read entries `0 .. k-1`.  `overwrite` / `planeEstimation` keep exactly that, so that "the result does not depend on
what earlier calls left behind" is a theorem (`RomeaProofs/Properties/C09.lean`, `planeEstimation_eig`,
`computeS_eq_computeAll`, `history`) with the hypothesis it really needs: the query returns `k` indices. -/

/-- the per-point report of the `compute` overloads from the decomposition held in `eigenValues_`/`eigenVectors_` -/
def report (hom : Bool) (e : EigSym (m + 2) α) (p : Vec (m + 2) α) : Out (m + 2) α :=
  let n0 : Vec (m + 2) α := fun i => e.vecs i 0                      -- :131 first column
  let flip := flipTest hom p n0                                      -- :34
  { normal := if flip then (fun i => -(n0 i)) else n0,               -- :35
    w := if flip then -zero else zero,                               -- :33, :35
    curvature := e.vals 0 / sumFin e.vals,                           -- :163 / :257
    reliability := reliabilityOf e.vals,                             -- :260
    flipped := flip }

/-- the members of a `NormalAndCurvatureEstimation` object that survive a call -/
structure Estimator (d : Nat) (α : Type) where
  k : Nat                  -- numberOfNeighborPoints_
  idx : List Nat           -- neighborIndexes_
  eig : EigSym d α         -- eigenValues_, eigenVectors_

/-- the constructor (:47-58) -/
def Estimator.new {d : Nat} (k : Nat) : Estimator d α :=
  { k := k, idx := List.replicate k 0, eig := { vals := fun _ => zero, vecs := fun _ _ => zero } }

/-- the k-NN result set writes the `res.length` neighbours it found over the front of the caller's buffer -/
def overwrite (res buf : List Nat) : List Nat := res ++ buf.drop res.length

/-- `planeEstimation_` (:60-105) as a transition of the estimator object; `knn i` = what the tree's query finds -/
def planeEstimation (eig : Mat (m + 2) α → EigSym (m + 2) α) (knn : Nat → List Nat)
    (pts : Array (Vec (m + 2) α)) (e : Estimator (m + 2) α) (i : Nat) : Estimator (m + 2) α :=
  let idx := overwrite (knn i) e.idx                                                   -- :68-72
  let nb := (idx.take e.k).map fun j => pts.getD j (fun _ => zero)                      -- :89, :96 read entries 0..k-1
  { e with idx := idx, eig := eig (covTab nb) }                                        -- :102-104

/-- one `compute(points, tree, ...)` call (:120-133 and the two other tree overloads) on an estimator object:
    the object after the call and the per-point reports -/
def computeS (hom : Bool) (eig : Mat (m + 2) α → EigSym (m + 2) α) (knn : Nat → List Nat)
    (pts : Array (Vec (m + 2) α)) (e : Estimator (m + 2) α) : Estimator (m + 2) α × Array (Out (m + 2) α) :=
  (List.range pts.size).foldl (fun acc i =>
    let e' := planeEstimation eig knn pts acc.1 i
    (e', acc.2.push (report hom e'.eig (pts.getD i (fun _ => zero))))) (e, #[])

/-- the objects a caller keeps between calls: a point set with the kd-tree built on it (the tree is a function of the
    point set: it is represented by the point set, and queried through `knn pts k`), and an estimator -/
structure Session (d : Nat) (α : Type) where
  cloud : Option (Array (Vec d α)) := none
  est : Option (Estimator d α) := none

/-- what a caller can do: build a tree on a new point set, construct an estimator with `k` neighbours, run the estimator
    through the tree (the overloads without a tree argument build their own tree on the same points: the same `knn pts`) -/
inductive Op (d : Nat) (α : Type)
  | setCloud (pts : Array (Vec d α))
  | setEst (k : Nat)
  | use

/-- one operation; `use` answers only inside the asserted precondition `0 < k < points.size()` (:127) -/
def Session.step (hom : Bool) (eig : Mat (m + 2) α → EigSym (m + 2) α)
    (knn : Array (Vec (m + 2) α) → Nat → Nat → List Nat) (s : Session (m + 2) α) :
    Op (m + 2) α → Session (m + 2) α × Option (Array (Out (m + 2) α))
  | .setCloud pts => ({ s with cloud := some pts }, none)
  | .setEst k => ({ s with est := some (Estimator.new k) }, none)
  | .use =>
    match s.cloud, s.est with
    | some pts, some e =>
      if 0 < e.k ∧ e.k < pts.size then
        let r := computeS hom eig (knn pts e.k) pts e
        ({ s with est := some r.1 }, some r.2)
      else (s, none)
    | _, _ => (s, none)

/-- the six overloads differ in what they report (and in whether the kd-tree is built by the call) -/
inductive Overload | normals | normalsTree | curv | curvTree | rel | relTree
  deriving DecidableEq, Repr

def Overload.hasCurvature : Overload → Bool
  | .normals | .normalsTree => false
  | _ => true

def Overload.hasReliability : Overload → Bool
  | .rel | .relTree => true
  | _ => false

end
end Romea.Normals
