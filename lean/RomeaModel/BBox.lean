import RomeaModel.Scalar

/-!
# Bounding volumes, intervals and point-set extents (C20)

Mirrors
* `include/romea_core_common/math/Interval.hpp` (`Interval<Scalar, DIM>`: `width`, `center`, `include`, `inside`;
  the `DIM = 1` specialisation uses `std::min`/`std::max`, the general one Eigen's array `min`/`max`: same function),
* `src/containers/boundingbox/AxisAlignedBoundingBox.cpp` (interval constructor, `toInterval`, `isInside`),
* `src/containers/boundingbox/OrientedBoundingBox.cpp` (`isInside`, `toAxisAlignedBoundingBox`),
* `src/pointset/algorithms/PointSetPreconditioner.cpp` (`compute`),
* `include/romea_core_common/containers/Eigen/EigenContainers.hpp` (`min`, `max`, `mean`).

A vector of `n` coordinates is a function `Fin n → α`; a matrix is `Fin n → Fin n → α` (`R i j` = row `i`, column
`j`), i.e. definitionally Mathlib's `Matrix`.  Everything in the C++ is componentwise; loops over points are folds
per component (the C++ loops over points and treats all components in the body: the same arithmetic per component, in
the same order).  Sums are written in the order the compiled code adds (`Sum3`).
-/
namespace Romea.BBox

abbrev Vec (n : Nat) (α : Type) := Fin n → α
abbrev Mat (n : Nat) (α : Type) := Fin n → Fin n → α

/-- `(… ).all()` / `.prod()` of a boolean coefficient-wise expression -/
def allFin (n : Nat) (P : Fin n → Bool) : Bool := (List.finRange n).all P

section
variable {α : Type} [Add α] [Sub α] [Mul α] [Div α] [Neg α] [LT α] [LE α] [DecidableLT α] [DecidableLE α]
  [NatCast α] [Trans α]

/-- `std::min(a, b)` = Eigen `numext::mini(a, b)`: `b < a ? b : a` -/
def minS (a b : α) : α := if b < a then b else a
/-- `std::max(a, b)` = Eigen `numext::maxi(a, b)`: `a < b ? b : a` -/
def maxS (a b : α) : α := if a < b then b else a

/-- the literal `2.` (converted to `Scalar` by Eigen) -/
@[inline] def two : α := ((2 : Nat) : α)
@[inline] def zero : α := ((0 : Nat) : α)
@[inline] def one : α := ((1 : Nat) : α)

/-! ### Interval (Interval.hpp) -/

structure Interval (n : Nat) (α : Type) where
  lower : Vec n α
  upper : Vec n α

/-- `width()` (hpp:66-69): `upper_ - lower_` -/
def Interval.width {n} (I : Interval n α) : Vec n α := fun i => I.upper i - I.lower i
/-- `center()` (hpp:71-74): `(upper_ + lower_) / 2.` -/
def Interval.center {n} (I : Interval n α) : Vec n α := fun i => (I.upper i + I.lower i) / two
/-- `include(interval)` (hpp:76-80, 186-190): componentwise `min` of the lower, `max` of the upper bounds -/
def Interval.include {n} (I J : Interval n α) : Interval n α :=
  { lower := fun i => minS (I.lower i) (J.lower i), upper := fun i => maxS (I.upper i) (J.upper i) }
/-- `inside(val)` (hpp:82-85, 192-195): `(val >= lower_).all() && (val <= upper_).all()` -/
def Interval.inside {n} (I : Interval n α) (v : Vec n α) : Bool :=
  allFin n (fun i => decide (v i ≥ I.lower i)) && allFin n (fun i => decide (v i ≤ I.upper i))

/-! ### AxisAlignedBoundingBox -/

structure AABB (n : Nat) (α : Type) where
  center : Vec n α        -- centerPosition_
  half : Vec n α          -- halfWidthExtents_

/-- interval constructor (AxisAlignedBoundingBox.cpp:33-38): `center()`, `width() / 2.` -/
def AABB.ofInterval {n} (I : Interval n α) : AABB n α :=
  { center := I.center, half := fun i => I.width i / two }
/-- `toInterval()` (cpp:52-56): `{center - half, center + half}` -/
def AABB.toInterval {n} (b : AABB n α) : Interval n α :=
  { lower := fun i => b.center i - b.half i, upper := fun i => b.center i + b.half i }
/-- `isInside(point)` (cpp:95-99): `((point - center).array().abs() <= half.array()).all()` -/
def AABB.isInside {n} (b : AABB n α) (p : Vec n α) : Bool :=
  allFin n (fun i => decide (Trans.abs (p i - b.center i) ≤ b.half i))

/-! ### OrientedBoundingBox -/

/-- order in which the terms of a (≤ 4 term) inner product are added by the compiled Eigen kernel:
    `left` = `((a0 + a1) + a2) + …`, `right` = `a0 + (a1 + (a2 + …))`.  Which one the compiler picks depends on the
    scalar type and size (observed: `right` for `float`·3, `left` otherwise); over the reals they coincide. -/
inductive Sum3 | left | right
  deriving DecidableEq, Repr

def sumList (o : Sum3) : List α → α
  | [] => zero
  | x :: xs =>
    match o with
    | .left => xs.foldl (· + ·) x
    | .right => match xs with
      | [] => x
      | y :: ys => x + sumList o (y :: ys)

structure OBB (n : Nat) (α : Type) where
  aabb : AABB n α         -- aabb_ (centre and half extents, in the box frame)
  rot : Mat n α           -- rotation_

/-- `rotation_.transpose() * (point - center)` (OrientedBoundingBox.cpp:71): coordinates in the box frame -/
def OBB.toLocal {n} (o : Sum3) (b : OBB n α) (p : Vec n α) : Vec n α :=
  fun i => sumList o ((List.finRange n).map (fun j => b.rot j i * (p j - b.aabb.center j)))

/-- `isInside(point)` (cpp:66-73): `((Rᵀ (p - c)).array().abs() <= half.array()).prod()` -/
def OBB.isInside {n} (o : Sum3) (b : OBB n α) (p : Vec n α) : Bool :=
  allFin n (fun i => decide (Trans.abs (b.toLocal o p i) ≤ b.aabb.half i))

/-- `toAxisAlignedBoundingBox()` (cpp:76-88): extents start at zero and accumulate
    `(rotation_.col(n) * half(n)).array().abs()` for `n = 0 … DIM-1`; same centre -/
def OBB.toAABB {n} (b : OBB n α) : AABB n α :=
  { center := b.aabb.center,
    half := fun i => (List.finRange n).foldl (fun acc k => acc + Trans.abs (b.rot i k * b.aabb.half k)) zero }

/-! ### PointSetPreconditioner::compute (PointSetPreconditioner.cpp:46-66) -/

/-- `maxCoeff()` of a non-empty vector -/
def maxCoeff {n} (v : Vec n α) : α :=
  match (List.finRange n).map v with
  | [] => zero
  | x :: xs => xs.foldl maxS x

structure Precond (sz cart : Nat) (α : Type) where
  scale : α
  translation : Vec cart α
  mean : Vec sz α
  min : Vec sz α
  max : Vec sz α

/-- `compute(points)`.  `sz` = `POINT_SIZE` (homogeneous points carry their trailing `1`), `cart` = `CARTESIAN_DIM`.
    `initMin` / `initMax` are the constants the running extrema start from (cpp:49-50). -/
def Precond.computeWith {sz cart : Nat} (hc : cart ≤ sz) (initMin initMax : α) (pts : List (Vec sz α)) :
    Precond sz cart α :=
  let mn : Vec sz α := fun i => pts.foldl (fun m p => minS m (p i)) initMin        -- cpp:53
  let mx : Vec sz α := fun i => pts.foldl (fun m p => maxS m (p i)) initMax        -- cpp:54
  let sum : Vec sz α := fun i => pts.foldl (fun s p => s + p i) zero                -- cpp:48,55
  let mean : Vec sz α := fun i => sum i / ((pts.length : Nat) : α)                  -- cpp:57  (`/= int(size)`)
  let scale : α := one / maxCoeff (fun i => mx i - mn i)                            -- cpp:61
  { scale := scale,
    translation := fun i => (-(mean ⟨i.val, Nat.lt_of_lt_of_le i.isLt hc⟩)) * scale, -- cpp:62
    mean := mean, min := mn, max := mx }

/-- the code as it is: minimum from `numeric_limits::max()`, maximum from `numeric_limits::lowest()` -/
def Precond.compute [Limits α] {sz cart : Nat} (hc : cart ≤ sz) (pts : List (Vec sz α)) : Precond sz cart α :=
  Precond.computeWith hc Limits.maxVal Limits.lowest pts

/-! ### min / max / mean of Eigen containers (EigenContainers.hpp:34-75) -/

/-- `min(points)`: starts from `Constant(numeric_limits::max())` -/
def contMinWith {n} (init : α) (pts : List (Vec n α)) : Vec n α := fun i => pts.foldl (fun m p => minS m (p i)) init
/-- `max(points)`: starts from `Constant(-numeric_limits::max())` -/
def contMaxWith {n} (init : α) (pts : List (Vec n α)) : Vec n α := fun i => pts.foldl (fun m p => maxS m (p i)) init
def contMin [Limits α] {n} (pts : List (Vec n α)) : Vec n α := contMinWith Limits.maxVal pts
def contMax [Limits α] {n} (pts : List (Vec n α)) : Vec n α := contMaxWith (-(Limits.maxVal : α)) pts
/-- `mean(points)`: sum from `Zero()`, then `/= points.size()` -/
def contMean {n} (pts : List (Vec n α)) : Vec n α :=
  fun i => pts.foldl (fun s p => s + p i) zero / ((pts.length : Nat) : α)

end
end Romea.BBox
