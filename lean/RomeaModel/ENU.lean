import RomeaModel.Geodesy

/-!
# Local tangent (ENU) frame converter (C02)

Mirrors `src/geodesy/ENUConverter.cpp` at `/repo` HEAD as a state machine over the four data members
(`ecefConverter_` is the constant default `ECEFConverter(EarthEllipsoid::GRS80)`; here the ellipsoid is
a parameter `E` of every operation, the driver passes `Geodesy.grs80`).

`Eigen::Affine3d` is a 4×4 matrix whose last row stays `0 0 0 1`; the model keeps the 3×3 linear part
`R` and the translation `T`.  The two Eigen operations the converter uses are modelled as Eigen 3.4
computes them for fixed size 3 (`/usr/include/eigen3/Eigen/src`):
* `Transform * Vector3d` (`Geometry/Transform.h:1405-1413`): the 4×4 matrix times `(v,1)`, evaluated
  column by column: `((m_i0 v0 + m_i1 v1) + m_i2 v2) + t_i·1`;
* `Transform::inverse()` for `Affine` (`Geometry/Transform.h:1223-1250`): the linear part is inverted
  by cofactors (`LU/InverseImpl.h`, "Size 3 implementation": `det = Σ cof_k0·m_k0`, `invdet = 1/det`,
  entries `cofactor·invdet`), the translation is `(-Linv) * t`.  It is NOT taken to be a transpose.
  Association of the 3-term sums as observed bit for bit on the `-O3` SSE2 build: rows 0 and 1 of
  `(-Linv) * t` are evaluated as one packet, left to right; row 2 (and the determinant) by Eigen's scalar
  reduction `a0 + (a1 + a2)`.  The theorems do not depend on the association.
-/
namespace Romea.ENU
open Romea.Geodesy

/-- 3×3 matrix, entries `m<row><col>` -/
structure Mat3 (α : Type) where
  m00 : α
  m01 : α
  m02 : α
  m10 : α
  m11 : α
  m12 : α
  m20 : α
  m21 : α
  m22 : α

/-- the data members of `ENUConverter` (ENUConverter.hpp:69-73) -/
structure State (α : Type) where
  anchored : Bool          -- isAnchored_
  anchor : Geo α           -- wgs84Anchor_
  R : Mat3 α               -- enu2ecef_.linear()
  T : Vec3 α               -- enu2ecef_.translation()

section
variable {α : Type} [Add α] [Sub α] [Mul α] [Div α] [Neg α] [LT α] [DecidableLT α] [NatCast α]
  [OfScientific α] [Trans α]

@[reducible] def zero : α := ((0 : Nat) : α)

def Mat3.identity : Mat3 α := ⟨one, zero, zero, zero, one, zero, zero, zero, one⟩
def Vec3.origin : Vec3 α := ⟨zero, zero, zero⟩

/-- `ENUConverter::ENUConverter()` — ENUConverter.cpp:29-35: value-initialised anchor (all zero),
    `Affine3d::Identity()`, not anchored -/
def init : State α :=
  { anchored := false, anchor := ⟨zero, zero, zero⟩, R := Mat3.identity, T := Vec3.origin }

/-- the rotation written by `setAnchor` — ENUConverter.cpp:66-73; columns: east, north, up -/
def frameR (lat lon : α) : Mat3 α :=
  { m00 := -Trans.sin lon,                  m10 := Trans.cos lon,                   m20 := zero          -- :69
    m01 := -Trans.sin lat * Trans.cos lon,  m11 := -Trans.sin lat * Trans.sin lon,  m21 := Trans.cos lat -- :70-71
    m02 := Trans.cos lat * Trans.cos lon,   m12 := Trans.cos lat * Trans.sin lon,   m22 := Trans.sin lat -- :72-73
  }

/-- `ENUConverter::setAnchor` — ENUConverter.cpp:57-76 -/
def setAnchor (E : Ellipsoid α) (_s : State α) (g : Geo α) : State α :=
  { anchored := true, anchor := g, R := frameR g.lat g.lon, T := toECEF E g }

/-- `ENUConverter::reset` — ENUConverter.cpp:137-141: the stored anchor is NOT cleared -/
def reset (s : State α) : State α :=
  { s with R := Mat3.identity, T := Vec3.origin, anchored := false }

/-- `Transform * Vector3d` (see header) -/
def applyAffine (R : Mat3 α) (T : Vec3 α) (v : Vec3 α) : Vec3 α :=
  { x := R.m00 * v.x + R.m01 * v.y + R.m02 * v.z + T.x * one
    y := R.m10 * v.x + R.m11 * v.y + R.m12 * v.z + T.y * one
    z := R.m20 * v.x + R.m21 * v.y + R.m22 * v.z + T.z * one }

/-- Eigen's 3×3 inverse by cofactors -/
def inverse3 (m : Mat3 α) : Mat3 α :=
  let c00 := m.m11 * m.m22 - m.m12 * m.m21
  let c10 := m.m21 * m.m02 - m.m22 * m.m01
  let c20 := m.m01 * m.m12 - m.m02 * m.m11
  let det := c00 * m.m00 + (c10 * m.m10 + c20 * m.m20)
  let invdet := one / det
  { m00 := c00 * invdet, m01 := c10 * invdet, m02 := c20 * invdet
    m10 := (m.m12 * m.m20 - m.m10 * m.m22) * invdet
    m11 := (m.m22 * m.m00 - m.m20 * m.m02) * invdet
    m12 := (m.m02 * m.m10 - m.m00 * m.m12) * invdet
    m20 := (m.m10 * m.m21 - m.m11 * m.m20) * invdet
    m21 := (m.m20 * m.m01 - m.m21 * m.m00) * invdet
    m22 := (m.m00 * m.m11 - m.m01 * m.m10) * invdet }

/-- `Transform::inverse()` for an affine transform: `(Linv, (-Linv) * t)` -/
def inverseAffine (R : Mat3 α) (T : Vec3 α) : Mat3 α × Vec3 α :=
  let L := inverse3 R
  (L, { x := -L.m00 * T.x + -L.m01 * T.y + -L.m02 * T.z
        y := -L.m10 * T.x + -L.m11 * T.y + -L.m12 * T.z
        z := -L.m20 * T.x + (-L.m21 * T.y + -L.m22 * T.z) })

/-- `ENUConverter::toECEF(Vector3d)` — ENUConverter.cpp:79-84 (`assert(isAnchored_)` compiled out) -/
def toECEFv (s : State α) (v : Vec3 α) : Vec3 α := applyAffine s.R s.T v

/-- `ENUConverter::toENU(Vector3d)` — ENUConverter.cpp:107-112 -/
def toENUv (s : State α) (v : Vec3 α) : Vec3 α :=
  let (L, t) := inverseAffine s.R s.T
  applyAffine L t v

/-- `ENUConverter::toENU(GeodeticCoordinates)` — ENUConverter.cpp:115-122 (anchors itself if needed) -/
def toENUgeo (E : Ellipsoid α) (s : State α) (g : Geo α) : State α × Vec3 α :=
  let s' := if s.anchored then s else setAnchor E s g
  (s', toENUv s' (toECEF E g))

/-- `ENUConverter::toENU(WGS84Coordinates)` — ENUConverter.cpp:125-128: altitude of the stored anchor -/
def toENUwgs (E : Ellipsoid α) (s : State α) (lat lon : α) : State α × Vec3 α :=
  toENUgeo E s ⟨lat, lon, s.anchor.alt⟩

/-- `ENUConverter::toWGS84(Vector3d)` — ENUConverter.cpp:95-98 -/
def toWGS84v (fuel : Nat) (E : Ellipsoid α) (s : State α) (v : Vec3 α) : Option (Geo α) :=
  toWGS84 fuel E (toECEFv s v)

/-! ### the converter as a state machine over op sequences -/

inductive Op (α : Type)
  | setAnchor (g : Geo α)
  | reset
  | toENUecef (v : Vec3 α)
  | toENUgeo (g : Geo α)
  | toENUwgs (lat lon : α)
  | toECEF (v : Vec3 α)
  | toWGS84 (v : Vec3 α)

/-- what an operation returns -/
inductive Out (α : Type)
  | unit
  | vec (v : Vec3 α)
  | geo (g : Option (Geo α))       -- `none`: the latitude loop of `toWGS84` did not exit

def step (fuel : Nat) (E : Ellipsoid α) (s : State α) : Op α → State α × Out α
  | .setAnchor g => (setAnchor E s g, .unit)
  | .reset => (reset s, .unit)
  | .toENUecef v => (s, .vec (toENUv s v))
  | .toENUgeo g => let r := toENUgeo E s g; (r.1, .vec r.2)
  | .toENUwgs lat lon => let r := toENUwgs E s lat lon; (r.1, .vec r.2)
  | .toECEF v => (s, .vec (toECEFv s v))
  | .toWGS84 v => (s, .geo (toWGS84v fuel E s v))

/-- the state after a sequence of calls on one object -/
def run (fuel : Nat) (E : Ellipsoid α) (s : State α) (ops : List (Op α)) : State α :=
  ops.foldl (fun s o => (step fuel E s o).1) s

end
end Romea.ENU
