import RomeaModel.Scalar
/-!
# Angles, rotations, quaternions (C10; reused by C11/C12)

Mirrors (line numbers of /repo at HEAD)
* `include/romea_core_common/math/EulerAngles.hpp`
  - `between0And2Pi` (l.36-43), `betweenMinusPiAndPi` (l.46-61): `std::fmod` based, computed in `double`
    whatever the template scalar is, result converted back to the scalar,
  - `rotation2DToEulerAngle` (l.64-72), `eulerAngleToRotation2D` (l.75-80),
  - `rotation3DToEulerAngles` (l.83-91), `quaternionToEulerAngles` (l.94-98),
  - `eulerAnglesToQuaternion` (l.101-107), `eulerAnglesToRotation3D` (l.110-114);
* Eigen 3.4 `Geometry/Quaternion.h`: quaternion from an angle-axis (l.561-569), quaternion product (generic l.487-498,
  SSE specialisations `arch/Geometry_SIMD.h` l.19-47 (float) and l.97-139 (double)), `toRotationMatrix` (l.592-624),
  `normalized` (l.132, `Core/Dot.h` l.124-134);
* `src/transform/SmartRotation3D.cpp` constructor (l.25-37) and the `R_` part of `init` (l.58-89) — the derivative
  members belong to C12;
* `include/romea_core_common/math/Transformation.hpp` `rigid_transformation3` (l.30-46), linear part and translation.

Everything is polymorphic in the scalar `α`; the `double` in which the normalisers compute is a second type `δ`
reached through `DoubleConv` (identity for `Float`, `ℝ`; widening / rounding for `Float32`).
Matrices are plain records of their coefficients (row, column), vectors are records too.
-/
namespace Romea.Rotation

/-- C++ implicit conversions `Scalar → double` (`up`) and `double → Scalar` (`down`). -/
class DoubleConv (α : Type) (δ : outParam Type) where
  up : α → δ
  down : δ → α

instance : DoubleConv Float Float := ⟨id, id⟩
instance : DoubleConv Float32 Float := ⟨Float32.toFloat, Float.toFloat32⟩

structure Vec3 (α : Type) where
  x : α
  y : α
  z : α
  deriving Repr

structure Mat2 (α : Type) where
  m00 : α
  m01 : α
  m10 : α
  m11 : α
  deriving Repr

structure Mat3 (α : Type) where
  m00 : α
  m01 : α
  m02 : α
  m10 : α
  m11 : α
  m12 : α
  m20 : α
  m21 : α
  m22 : α
  deriving Repr

/-- `Eigen::Quaternion` (constructor order `w, x, y, z`). -/
structure Quat (α : Type) where
  w : α
  x : α
  y : α
  z : α
  deriving Repr

/-- which `quat_product` specialisation Eigen selects: the generic one, or the SSE ones for `float` / `double`
    (the three differ only in the association of the sums). -/
inductive QArch | generic | sseFloat | sseDouble
  deriving DecidableEq, Repr

/-! ## `fmod` and the normalisers (computed in `double` = `δ`) -/
section Normalisers
variable {δ : Type} [Add δ] [Sub δ] [Mul δ] [Neg δ] [LT δ] [DecidableLT δ] [NatCast δ] [Trans δ]

/-- `fmod(x, y)` for `0 ≤ x`, `0 < y`: subtract `y` while `x ≥ y` (written `¬ x < y`), at most `fuel` times.
    On `y ≤ x < 2y` the subtraction is exact in binary floating point (Sterbenz), so with `x < (fuel+1)·y`
    — here `fuel = 2`, `x < 4π = 2y` — this is C's exact `fmod`. -/
def fmodAbs : Nat → δ → δ → δ
  | 0, x, _ => x
  | n + 1, x, y => if x < y then x else fmodAbs n (x - y) y

/-- C `fmod(x, y)`, `y > 0`: the result carries the sign of `x`. -/
def fmod (x y : δ) : δ :=
  if x < ((0 : Nat) : δ) then -(fmodAbs 2 (-x) y) else fmodAbs 2 x y

/-- `M_2PI = 2 * M_PI` (EulerAngles.hpp l.32) -/
def m2pi : δ := ((2 : Nat) : δ) * Trans.pi
/-- `M_4PI = 4 * M_PI` (l.33) -/
def m4pi : δ := ((4 : Nat) : δ) * Trans.pi

variable {α : Type} [DoubleConv α δ]

/-- the `assert(val > -M_4PI && val < M_4PI)` of both normalisers (compiled out under NDEBUG) -/
def normaliserPre (val : α) : Bool :=
  decide (-(m4pi : δ) < DoubleConv.up val) && decide (DoubleConv.up val < (m4pi : δ))

/-- `between0And2Pi` (l.36-43):
    `double value = std::fmod(val, M_2PI); return value < 0 ? value + M_2PI : value;` -/
def between0And2Pi (val : α) : α :=
  let value : δ := fmod (DoubleConv.up val) m2pi
  DoubleConv.down (if value < ((0 : Nat) : δ) then value + m2pi else value)

/-- `betweenMinusPiAndPi` (l.46-61) -/
def betweenMinusPiAndPi (val : α) : α :=
  let value : δ := fmod (DoubleConv.up val) m2pi
  DoubleConv.down
    (if value < -(Trans.pi : δ) then value + m2pi
     else if (Trans.pi : δ) < value then value - m2pi
     else value)

end Normalisers

/-! ## 2D and 3D conversions (computed in the template scalar `α`) -/
section Conversions
variable {α δ : Type} [Add α] [Sub α] [Mul α] [Div α] [Neg α] [LT α] [DecidableLT α] [NatCast α] [OfScientific α] [Trans α]
variable [Add δ] [Sub δ] [Mul δ] [Neg δ] [LT δ] [DecidableLT δ] [NatCast δ] [Trans δ] [DoubleConv α δ]

/-- `rotation2DToEulerAngle` (l.64-72) -/
def rotation2DToEulerAngle (r : Mat2 α) : α :=
  between0And2Pi (Trans.atan2 (r.m10 - r.m01) (r.m00 + r.m11))

/-- `eulerAngleToRotation2D` (l.75-80) -/
def eulerAngleToRotation2D (a : α) : Mat2 α :=
  { m00 := Trans.cos a, m01 := -Trans.sin a, m10 := Trans.sin a, m11 := Trans.cos a }

/-- `rotation3DToEulerAngles` (l.83-91): roll, pitch, yaw, each passed through `between0And2Pi` -/
def rotation3DToEulerAngles (r : Mat3 α) : Vec3 α :=
  { x := between0And2Pi (Trans.atan2 r.m21 r.m22)
    y := between0And2Pi (-Trans.asin r.m20)
    z := between0And2Pi (Trans.atan2 r.m10 r.m00) }

/-- `Quaternion(AngleAxis(angle, axis))` (Quaternion.h l.561-569):
    `ha = 0.5*angle; w = cos(ha); vec = sin(ha) * axis` -/
def quatOfAngleAxis (angle : α) (axis : Vec3 α) : Quat α :=
  let ha := (OfScientific.ofScientific 5 true 1 : α) * angle
  let s := Trans.sin ha
  { w := Trans.cos ha, x := s * axis.x, y := s * axis.y, z := s * axis.z }

def unitX : Vec3 α := ⟨((1 : Nat) : α), ((0 : Nat) : α), ((0 : Nat) : α)⟩
def unitY : Vec3 α := ⟨((0 : Nat) : α), ((1 : Nat) : α), ((0 : Nat) : α)⟩
def unitZ : Vec3 α := ⟨((0 : Nat) : α), ((0 : Nat) : α), ((1 : Nat) : α)⟩

/-- quaternion product `a * b`, in the three association orders Eigen uses. -/
def qmul (arch : QArch) (a b : Quat α) : Quat α :=
  match arch with
  | .generic =>     -- Quaternion.h l.492-495
    { w := a.w * b.w - a.x * b.x - a.y * b.y - a.z * b.z
      x := a.w * b.x + a.x * b.w + a.y * b.z - a.z * b.y
      y := a.w * b.y + a.y * b.w + a.z * b.x - a.x * b.z
      z := a.w * b.z + a.z * b.w + a.x * b.y - a.y * b.x }
  | .sseFloat =>    -- Geometry_SIMD.h l.38-44: (a*b.wwww - a.zxyx*b.yzxx) + (±)(a.yzxz*b.zxyz + a.wwwy*b.xyzy)
    { x := (a.x * b.w - a.z * b.y) + (a.y * b.z + a.w * b.x)
      y := (a.y * b.w - a.x * b.z) + (a.z * b.x + a.w * b.y)
      z := (a.z * b.w - a.y * b.x) + (a.x * b.y + a.w * b.z)
      w := (a.w * b.w - a.x * b.x) + -(a.z * b.z + a.y * b.y) }
  | .sseDouble =>   -- Geometry_SIMD.h l.123-135
    { x := (a.w * b.x + a.y * b.z) - (a.z * b.y - a.x * b.w)
      y := (a.w * b.y + a.y * b.w) + (a.z * b.x - a.x * b.z)
      z := (a.w * b.z - a.y * b.x) + (a.z * b.w + a.x * b.y)
      w := (a.w * b.w - a.y * b.y) - (a.z * b.z + a.x * b.x) }

/-- `eulerAnglesToQuaternion` (l.101-107): `AngleAxis(yaw, Z) * AngleAxis(pitch, Y) * AngleAxis(roll, X)`,
    i.e. `(Quaternion(aaZ) * Quaternion(aaY)) * Quaternion(aaX)` (AngleAxis.h l.104-113). -/
def eulerAnglesToQuaternion (arch : QArch) (e : Vec3 α) : Quat α :=
  qmul arch (qmul arch (quatOfAngleAxis e.z unitZ) (quatOfAngleAxis e.y unitY)) (quatOfAngleAxis e.x unitX)

/-- `QuaternionBase::toRotationMatrix` (Quaternion.h l.592-624); assumes a unit quaternion, does not normalise. -/
def toRotationMatrix (q : Quat α) : Mat3 α :=
  let two := ((2 : Nat) : α)
  let one := ((1 : Nat) : α)
  let tx := two * q.x
  let ty := two * q.y
  let tz := two * q.z
  let twx := tx * q.w
  let twy := ty * q.w
  let twz := tz * q.w
  let txx := tx * q.x
  let txy := ty * q.x
  let txz := tz * q.x
  let tyy := ty * q.y
  let tyz := tz * q.y
  let tzz := tz * q.z
  { m00 := one - (tyy + tzz), m01 := txy - twz, m02 := txz + twy
    m10 := txy + twz, m11 := one - (txx + tzz), m12 := tyz - twx
    m20 := txz - twy, m21 := tyz + twx, m22 := one - (txx + tyy) }

/-- `eulerAnglesToRotation3D` (l.110-114): `Matrix3(eulerAnglesToQuaternion(angles))` -/
def eulerAnglesToRotation3D (arch : QArch) (e : Vec3 α) : Mat3 α :=
  toRotationMatrix (eulerAnglesToQuaternion arch e)

/-- `Quaternion::normalized()` = `coeffs().normalized()` (Dot.h l.124-134):
    `z = squaredNorm(); if (z > 0) return n / sqrt(z); else return n;`
    The 4-coefficient reduction is vectorised: `(x² + z²) + (y² + w²)`. -/
def qnormalized (q : Quat α) : Quat α :=
  let z := (q.x * q.x + q.z * q.z) + (q.y * q.y + q.w * q.w)
  if ((0 : Nat) : α) < z then
    let n := Trans.sqrt z
    { w := q.w / n, x := q.x / n, y := q.y / n, z := q.z / n }
  else q

/-- `quaternionToEulerAngles` (l.94-98) -/
def quaternionToEulerAngles (q : Quat α) : Vec3 α :=
  rotation3DToEulerAngles (toRotationMatrix (qnormalized q))

/-! ### `SmartRotation3D` (rotation part) -/

def Mat3.identity : Mat3 α :=
  let o := ((1 : Nat) : α)
  let z := ((0 : Nat) : α)
  ⟨o, z, z, z, o, z, z, z, o⟩

/-- Eigen fixed-size 3×3 product: each coefficient is `(a0*b0 + a1*b1) + a2*b2`. -/
def Mat3.mul (a b : Mat3 α) : Mat3 α :=
  { m00 := a.m00 * b.m00 + a.m01 * b.m10 + a.m02 * b.m20
    m01 := a.m00 * b.m01 + a.m01 * b.m11 + a.m02 * b.m21
    m02 := a.m00 * b.m02 + a.m01 * b.m12 + a.m02 * b.m22
    m10 := a.m10 * b.m00 + a.m11 * b.m10 + a.m12 * b.m20
    m11 := a.m10 * b.m01 + a.m11 * b.m11 + a.m12 * b.m21
    m12 := a.m10 * b.m02 + a.m11 * b.m12 + a.m12 * b.m22
    m20 := a.m20 * b.m00 + a.m21 * b.m10 + a.m22 * b.m20
    m21 := a.m20 * b.m01 + a.m21 * b.m11 + a.m22 * b.m21
    m22 := a.m20 * b.m02 + a.m21 * b.m12 + a.m22 * b.m22 }

/-- Eigen `Matrix3 * Vector3` as evaluated inside `Transform::translate`: the three products of a row are summed in
    an order that depends on the vectorisation (observed on the -O3 SSE2 build: `float` `p0 + (p1 + p2)` on every
    row; `double` `(p0 + p1) + p2` on rows 0-1 and `p0 + (p1 + p2)` on row 2). -/
def Mat3.mulVec (arch : QArch) (a : Mat3 α) (v : Vec3 α) : Vec3 α :=
  let l (p0 p1 p2 : α) : α := (p0 + p1) + p2
  let r (p0 p1 p2 : α) : α := p0 + (p1 + p2)
  match arch with
  | .generic =>
    { x := l (a.m00 * v.x) (a.m01 * v.y) (a.m02 * v.z)
      y := l (a.m10 * v.x) (a.m11 * v.y) (a.m12 * v.z)
      z := l (a.m20 * v.x) (a.m21 * v.y) (a.m22 * v.z) }
  | .sseFloat =>
    { x := r (a.m00 * v.x) (a.m01 * v.y) (a.m02 * v.z)
      y := r (a.m10 * v.x) (a.m11 * v.y) (a.m12 * v.z)
      z := r (a.m20 * v.x) (a.m21 * v.y) (a.m22 * v.z) }
  | .sseDouble =>
    { x := l (a.m00 * v.x) (a.m01 * v.y) (a.m02 * v.z)
      y := l (a.m10 * v.x) (a.m11 * v.y) (a.m12 * v.z)
      z := r (a.m20 * v.x) (a.m21 * v.y) (a.m22 * v.z) }

/-- the members of `SmartRotation3D` that determine `R()` -/
structure Smart (α : Type) where
  rx : Mat3 α
  ry : Mat3 α
  rz : Mat3 α
  r : Mat3 α

/-- default constructor (SmartRotation3D.cpp l.25-37): all four are the identity -/
def Smart.new : Smart α := ⟨Mat3.identity, Mat3.identity, Mat3.identity, Mat3.identity⟩

/-- `init` (l.58-89): only four coefficients of each elementary matrix are assigned, the others keep whatever
    the object held; `R_ = Rz_ * Ry_ * Rx_` = `(Rz_ * Ry_) * Rx_`. -/
def Smart.init (s : Smart α) (ax ay az : α) : Smart α :=
  let cosx := Trans.cos ax
  let sinx := Trans.sin ax
  let cosy := Trans.cos ay
  let siny := Trans.sin ay
  let cosz := Trans.cos az
  let sinz := Trans.sin az
  let rx := { s.rx with m11 := cosx, m12 := -sinx, m21 := sinx, m22 := cosx }
  let ry := { s.ry with m00 := cosy, m02 := siny, m20 := -siny, m22 := cosy }
  let rz := { s.rz with m00 := cosz, m01 := -sinz, m10 := sinz, m11 := cosz }
  { rx := rx, ry := ry, rz := rz, r := Mat3.mul (Mat3.mul rz ry) rx }

/-- `SmartRotation3D(ax, ay, az)` (l.40-47) -/
def Smart.ofAngles (ax ay az : α) : Smart α := Smart.init Smart.new ax ay az

/-! ### `rigid_transformation3` (Transformation.hpp l.30-46) -/

/-- `AngleAxis::toRotationMatrix` (AngleAxis.h l.218-243) -/
def angleAxisToMatrix (angle : α) (axis : Vec3 α) : Mat3 α :=
  let s := Trans.sin angle
  let c := Trans.cos angle
  let one := ((1 : Nat) : α)
  let cx := (one - c) * axis.x
  let cy := (one - c) * axis.y
  let cz := (one - c) * axis.z
  let sx := s * axis.x
  let sy := s * axis.y
  let sz := s * axis.z
  let t01 := cx * axis.y
  let t02 := cx * axis.z
  let t12 := cy * axis.z
  { m00 := cx * axis.x + c, m01 := t01 - sz, m02 := t02 + sy
    m10 := t01 + sz, m11 := cy * axis.y + c, m12 := t12 - sx
    m20 := t02 - sy, m21 := t12 + sx, m22 := cz * axis.z + c }

/-- `Identity.rotate(aaX).rotate(aaY).rotate(aaZ).translate(t)`: linear part `((I·Rx)·Ry)·Rz`, translation
    column `0 + linear * t` (Transform.h `rotate` l.938-942: `linearExt() *= R`; `translate` l.894-899:
    `translationExt() += linearExt() * other`). -/
def rigidTransformation3 (arch : QArch) (t : Vec3 α) (angles : Vec3 α) : Mat3 α × Vec3 α :=
  let l0 : Mat3 α := Mat3.identity
  let l1 := Mat3.mul l0 (angleAxisToMatrix angles.x unitX)
  let l2 := Mat3.mul l1 (angleAxisToMatrix angles.y unitY)
  let l3 := Mat3.mul l2 (angleAxisToMatrix angles.z unitZ)
  let lt := Mat3.mulVec arch l3 t
  let z := ((0 : Nat) : α)
  (l3, ⟨z + lt.x, z + lt.y, z + lt.z⟩)

end Conversions

end Romea.Rotation
