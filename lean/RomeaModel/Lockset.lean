/-!
# Lock discipline of the concurrent classes (C19)

The *model* of the code for C19 is the table `Romea.Generated.C19.table`, regenerated from the clang AST
of /repo on every run by `tools/gen_locktable.py`: for each in-scope public method of each anchored
class, the ordered list of lock / field-access events of its body.  This file defines the event
language and the (decidable) discipline check that is run on the regenerated table; the theorems that
give the check its meaning (discipline ⇒ no data race, critical sections do not interleave) are in
`RomeaProofs/Properties/C19.lean`.
-/
namespace Romea.Lockset

/-- mutexes and fields are numbered per class (names are in the generated file's comments) -/
inductive Ev
  | acq (m : Nat)      -- lock_guard / unique_lock constructed on member mutex m
  | rel (m : Nat)      -- end of the guard's scope
  | rd (f : Nat)       -- read of member f through `this`
  | wr (f : Nat)       -- write (or unclassified use) of member f
  | atomic (f : Nat)   -- access of a std::atomic / SharedVariable member (internally synchronised)
  | escape (f : Nat)   -- a reference/pointer to member f is returned: the caller reads f after the release
  deriving DecidableEq, Repr

structure Method where
  name : String
  evs : List Ev
  deriving Repr

structure Class where
  name : String
  mutexes : List Nat
  methods : List Method
  deriving Repr

/-- field accessed by a plain (non-atomic) access event -/
def Ev.field? : Ev → Option Nat
  | .rd f => some f
  | .wr f => some f
  | _ => none

def Ev.writes : Ev → Option Nat
  | .wr f => some f
  | _ => none

/-- fields written by some in-scope method (fields only written by constructors cannot be part of a
    conflicting pair and are exempt from the discipline) -/
def Class.written (c : Class) : List Nat :=
  c.methods.flatMap (fun m => m.evs.filterMap Ev.writes)

/-- Scan a method summary with the list of mutexes currently held by the executing thread.
    Returns `none` if the summary breaks the discipline w.r.t. the guard mutex `g`:
    * a written field is read or written while `g` is not held,
    * a reference to a written field escapes,
    * a mutex is re-acquired while held, or released while not held;
    otherwise the list of mutexes held at the end. -/
def scan (g : Nat) (written : List Nat) : List Nat → List Ev → Option (List Nat)
  | held, [] => some held
  | held, .acq m :: r => if m ∈ held then none else scan g written (m :: held) r
  | held, .rel m :: r => if m ∈ held then scan g written (held.erase m) r else none
  | held, .rd f :: r => if f ∈ written ∧ g ∉ held then none else scan g written held r
  | held, .wr f :: r => if f ∈ written ∧ g ∉ held then none else scan g written held r
  | held, .atomic _ :: r => scan g written held r
  | held, .escape f :: r => if f ∈ written then none else scan g written held r

/-- a method obeys the discipline for guard `g`: starting and ending with no mutex held -/
def Method.ok (g : Nat) (written : List Nat) (m : Method) : Bool :=
  scan g written [] m.evs == some []

/-- some mutex of the class guards every written field in every in-scope method
    (a class none of whose in-scope methods writes a plain field needs no mutex) -/
def Class.disciplined (c : Class) : Bool :=
  (c.mutexes.any fun g => c.methods.all (Method.ok g c.written)) ||
  (c.written.isEmpty && c.methods.all (Method.ok 0 []))

def tableDisciplined (t : List Class) : Bool := t.all Class.disciplined

/-- names of the classes that break the discipline (for the failing-input report) -/
def offenders (t : List Class) : List String :=
  (t.filter fun c => !c.disciplined).map (·.name)

/-- for one class: the methods that break the discipline under its best guard -/
def Class.badMethods (c : Class) : List String :=
  match c.mutexes with
  | [] => (c.methods.filter fun m => !Method.ok 0 c.written m).map (·.name)
  | g :: _ => (c.methods.filter fun m => !Method.ok g c.written m).map (·.name)

/-! ## Extended event language (atomic members split by kind of access)

`tools/gen_locktable.py` also emits, for every class that has events on `std::atomic` / `SharedVariable` members, the
same method summaries with `atomic f` refined into `ald f` (ONE atomic load: `.load()`, a conversion operator), `ast f`
(ONE atomic store: `.store(v)`, `operator=`) and `armw f` (anything else).  `XClass.erase` forgets the refinement; the
property file checks (by `decide`, on every run) that the erased extended entry IS the entry of the base table.  The
shape that makes such a class serialisable although it is read outside its mutex is defined on these lists in
`RomeaModel/LinAtomic.lean`. -/

inductive XEv
  | acq (m : Nat)
  | rel (m : Nat)
  | rd (f : Nat)
  | wr (f : Nat)
  | ald (f : Nat)      -- one atomic load of member f
  | ast (f : Nat)      -- one atomic store to member f
  | armw (f : Nat)     -- any other use of an atomic member (exchange, fetch_add, ++, bound to a reference, unrecognised)
  | escape (f : Nat)
  deriving DecidableEq, Repr

structure XMethod where
  name : String
  evs : List XEv
  deriving Repr

structure XClass where
  name : String
  mutexes : List Nat
  methods : List XMethod
  deriving Repr

def XEv.erase : XEv → Ev
  | .acq m => .acq m
  | .rel m => .rel m
  | .rd f => .rd f
  | .wr f => .wr f
  | .ald f => .atomic f
  | .ast f => .atomic f
  | .armw f => .atomic f
  | .escape f => .escape f

/-- the entry of the base table an extended entry refines (compared field by field: `Class` has no `DecidableEq`) -/
def XClass.erasesTo (x : XClass) (c : Class) : Bool :=
  x.name == c.name && x.mutexes == c.mutexes &&
  (x.methods.map fun m => (m.name, m.evs.map XEv.erase)) == (c.methods.map fun m => (m.name, m.evs))

/-- fields some in-scope method writes: plain writes, atomic stores, other atomic uses -/
def XEv.writes : XEv → Option Nat
  | .wr f => some f
  | .ast f => some f
  | .armw f => some f
  | _ => none

def XClass.written (c : XClass) : List Nat :=
  c.methods.flatMap (fun m => m.evs.filterMap XEv.writes)

/-- event list of a method by name (empty if absent) -/
def XClass.evsOf (c : XClass) (name : String) : List XEv :=
  ((c.methods.filter fun m => m.name == name).head?.map (·.evs)).getD []

end Romea.Lockset
