import RomeaModel.Scalar

/-!
# Grid index mapping (C13)

Mirrors `src/containers/grid/GridIndexMapping.cpp` (`GridIndexMapping<Scalar, DIM>`).  Everything
the class does is componentwise, so the model is written for ONE axis (`Axis`); the `DIM`-dimensional
object is the list of its axes (`Grid`).

* origin (`flooredMinimalPositionAlongAxes_`) `= r * (floor (lower / r) - 0.5)`        (cpp:45-46)
* number of cells `= size_t (ceil (upper / r) - floor (lower / r) + 1)`                (cpp:48-49)
* centre table `centre[n] = origin + (n + 0.5) * r`, `n < numberOfCells`               (cpp:52-63)
* index `= size_t ((p - origin) / r)`  (C++ floating → `size_t` conversion = truncation) (cpp:94-98)
* centre of a cell = table look-up                                                     (cpp:101-111)
* symmetric constructor `(maximalRange, r)` delegates to the interval `[-maximalRange, maximalRange]`
                                                                                       (cpp:68-75)

The floating → `size_t` conversions are modelled by `Trunc.trunc : α → Int` (truncation toward zero);
a negative or out-of-range argument is undefined behaviour in C++ and lies outside the domain of every
theorem (`lower ≤ upper`, `0 < r`, point inside the extent).  The model is self-contained on purpose.
-/
namespace Romea.GridMap

section
variable {α : Type} [Add α] [Sub α] [Mul α] [Div α] [Neg α] [NatCast α] [OfScientific α] [Trans α] [Trunc α]

/-- the literal `0.5` / `Scalar(0.5)` -/
@[inline] def half : α := OfScientific.ofScientific 5 true 1

/-- `flooredMinimalPositionAlongAxes_[dim]` (cpp:45-46): `r * (floor(lower / r) - 0.5)` -/
def originOf (lower r : α) : α := r * (Trans.floor (lower / r) - half)

/-- the floating value that is cast to `size_t` (cpp:48-49): `ceil(upper / r) - floor(lower / r) + 1` -/
def numCellsF (lower upper r : α) : α :=
  Trans.ceil (upper / r) - Trans.floor (lower / r) + ((1 : Nat) : α)

/-- `numberOfCellsAlongAxes_[dim]`: `.cast<size_t>()` of `numCellsF` -/
def numCellsOf (lower upper r : α) : Int := Trunc.trunc (numCellsF lower upper r)

/-- value stored in the centre table at position `n` (cpp:60-61): `origin + (n + Scalar(0.5)) * r` -/
def centreAt (origin r : α) (n : Nat) : α := origin + ((n : α) + half) * r

/-- One axis of a `GridIndexMapping`. -/
structure Axis (α : Type) where
  res : α                 -- cellResolution_
  origin : α              -- flooredMinimalPositionAlongAxes_[dim]
  n : Int                 -- numberOfCellsAlongAxes_[dim]
  centres : Array α       -- cellCentersPositionAlongAxes_[dim]

/-- interval constructor, one axis (cpp:38-65) -/
def Axis.ofInterval (lower upper r : α) : Axis α :=
  let origin := originOf lower r
  let n := numCellsOf lower upper r
  { res := r, origin := origin, n := n,
    centres := (Array.range n.toNat).map (centreAt origin r) }

/-- symmetric maximal-range constructor, one axis (cpp:68-75):
    `IntervalType(PointType::Constant(-maximalRange), PointType::Constant(maximalRange))` -/
def Axis.ofRange (maximalRange r : α) : Axis α := Axis.ofInterval (-maximalRange) maximalRange r

/-- `computeCellIndexes`, one axis (cpp:94-98): `size_t ((p - origin) / r)` -/
def Axis.index (a : Axis α) (p : α) : Int := Trunc.trunc ((p - a.origin) / a.res)

/-- `computeCellCenterPosition`, one axis (cpp:101-111): table look-up
    (`none`: index outside the table, where the C++ reads out of bounds). -/
def Axis.centre (a : Axis α) (k : Nat) : Option α := a.centres[k]?

/-- the `DIM`-dimensional mapping = one `Axis` per dimension -/
abbrev Grid (α : Type) := List (Axis α)

def Grid.ofInterval (lower upper : List α) (r : α) : Grid α :=
  (lower.zip upper).map (fun lu => Axis.ofInterval lu.1 lu.2 r)

def Grid.ofRange (dim : Nat) (maximalRange r : α) : Grid α :=
  (List.replicate dim ()).map (fun _ => Axis.ofRange maximalRange r)

/-- `getNumberOfCellsAlongAxes` -/
def Grid.numCells (g : Grid α) : List Int := g.map (·.n)

/-- `computeCellIndexes` -/
def Grid.indexes (g : Grid α) (p : List α) : List Int := (g.zip p).map (fun ap => ap.1.index ap.2)

/-- `computeCellCenterPosition` (`none` if some index is outside its table) -/
def Grid.centre (g : Grid α) (k : List Nat) : Option (List α) := (g.zip k).mapM (fun ak => ak.1.centre ak.2)

end
end Romea.GridMap
