import RomeaModel.Scalar

/-!
# Rigid registration from correspondences by SVD (C04)

Mirrors, line by line,
* `src/transform/estimation/FindRigidTransformationBySVD.cpp` (`estimate_` with and without a
  correspondence list, the four `find` overloads),
* `src/pointset/algorithms/PreconditionedPointSet.cpp:76-97` (`compute(points, scale)`, the only
  constructor the library itself uses in front of this estimator),
* `include/romea_core_common/containers/Eigen/EigenContainers.hpp:68-80` (`mean`).

`d` is `CARTESIAN_DIM`, `p` is `POINT_SIZE` (`d` for Cartesian points, `d + 1` for homogeneous ones);
the code is written once for both through the `POINT_SIZE` block arithmetic and so is the model.

Data layout: a fixed-size Eigen vector is a `Tab n α` (an array with its length), a matrix a `Tab2 n m α`
(rows of rows); `Tab.ofFn` tabulates a function, `Tab.get` reads an entry, `(Tab.ofFn f).get i = f i`.
(Every value that is computed once in the C++ is a `Tab` here, never a bare function, so that the compiled
driver computes it once as well.)  `Tab2.toFn` is the `Fin n → Fin m → α` view, definitionally a Mathlib `Matrix`.

`Eigen::JacobiSVD` is a PARAMETER (`svd`); the theorems quantify over every oracle satisfying the
contract `IsSVD` (RomeaProofs/Lemmas/C04Svd.lean), the driver plugs `RegistrationOracle.jacobiSVD`.
`determinant()` of the dynamically sized `u`, `v` is computed by Eigen through a partially pivoted LU;
the model uses the Laplace expansion (the same real number; only its sign is used).
-/
namespace Romea.Registration

abbrev Vec (n : Nat) (α : Type) := Fin n → α
abbrev Mat (n m : Nat) (α : Type) := Fin n → Fin m → α

/-- a fixed-size vector stored as an array -/
structure Tab (n : Nat) (α : Type) where
  arr : Array α
  size_eq : arr.size = n

def Tab.ofFn {α : Type} {n : Nat} (f : Fin n → α) : Tab n α := ⟨Array.ofFn f, Array.size_ofFn⟩

def Tab.get {α : Type} {n : Nat} (t : Tab n α) (i : Fin n) : α := t.arr[i.1]'(by rw [t.size_eq]; exact i.2)

abbrev Tab2 (n m : Nat) (α : Type) := Tab n (Tab m α)

def Tab2.ofFn {α : Type} {n m : Nat} (f : Fin n → Fin m → α) : Tab2 n m α := Tab.ofFn (fun i => Tab.ofFn (f i))

/-- the matrix view -/
def Tab2.toFn {α : Type} {n m : Nat} (t : Tab2 n m α) : Mat n m α := fun i j => (t.get i).get j

/-- result of the singular value decomposition oracle (`matrixU`, `singularValues`, `matrixV`) -/
structure SVD (d : Nat) (α : Type) where
  U : Mat d d α
  S : Vec d α
  V : Mat d d α

section
variable {α : Type} [Add α] [Sub α] [Mul α] [Div α] [Neg α] [LT α] [DecidableLT α] [NatCast α]

@[inline] def zero : α := ((0 : Nat) : α)
@[inline] def one : α := ((1 : Nat) : α)

/-- `Σ_{i<n} f i`, accumulated from the left starting at 0 -/
def sumFin (n : Nat) (f : Fin n → α) : α := Fin.foldl n (fun acc i => acc + f i) zero

/-- `points[index]`; out-of-range indices are undefined behaviour in the C++ (the drivers reject them) -/
def getPt (p : Nat) (pts : Array (Tab p α)) (i : Nat) : Tab p α := pts.getD i (Tab.ofFn (fun _ => zero))

/-- `mean += points[index]` over a list of indices, from `PointType::Zero()` (cpp:91-98) -/
def sumPts (p : Nat) (pts : Array (Tab p α)) (idx : List Nat) : Tab p α :=
  idx.foldl (fun acc k => Tab.ofFn (fun i => acc.get i + (getPt p pts k).get i)) (Tab.ofFn (fun _ => zero))

/-- `mean /= Scalar(N)` (cpp:99-100; `mean()` of EigenContainers.hpp:74-79 is the same computation) -/
def meanOf (p : Nat) (pts : Array (Tab p α)) (idx : List Nat) : Tab p α :=
  let s := sumPts p pts idx
  let n : α := ((idx.length : Nat) : α)
  Tab.ofFn (fun i => s.get i / n)

/-- `cov += (src[i] - sourceMean) * (tgt[j] - targetMean)^T`, the full POINT_SIZE² matrix (cpp:103-111) -/
def crossCov (p : Nat) (src tgt : Array (Tab p α)) (sm tm : Tab p α) (corr : List (Nat × Nat)) : Tab2 p p α :=
  corr.foldl (fun acc c =>
    let s : Tab p α := Tab.ofFn (fun i => (getPt p src c.1).get i - sm.get i)
    let t : Tab p α := Tab.ofFn (fun j => (getPt p tgt c.2).get j - tm.get j)
    Tab2.ofFn (fun i j => (acc.get i).get j + s.get i * t.get j)) (Tab2.ofFn (fun _ _ => zero))

/-- index map of `Fin.succAbove` (skip column `j`) -/
def skip {n : Nat} (j : Fin (n + 1)) (b : Fin n) : Fin (n + 1) :=
  if b.1 < j.1 then ⟨b.1, Nat.lt_succ_of_lt b.2⟩ else ⟨b.1 + 1, Nat.succ_lt_succ b.2⟩

/-- determinant by Laplace expansion along the first row -/
def det : (d : Nat) → Mat d d α → α
  | 0, _ => one
  | d + 1, m => sumFin (d + 1) (fun j =>
      let c := m 0 j * det d (fun a b => m a.succ (skip j b))
      if j.1 % 2 = 0 then c else -c)

/-- cpp:113-127: SVD of the block, determinant correction, `v * u^T` -/
def rotationOf (d : Nat) (svd : Mat d d α → SVD d α) (C : Mat d d α) : Tab2 d d α :=
  let r := svd C
  let u : Tab2 d d α := Tab2.ofFn r.U
  let v : Tab2 d d α := Tab2.ofFn r.V
  -- if (u.determinant() * v.determinant() < 0) v.col(CARTESIAN_DIM - 1) *= -1;      (cpp:121-123)
  let v' : Tab2 d d α :=
    if det d u.toFn * det d v.toFn < zero then
      Tab2.ofFn (fun i j => if j.1 + 1 = d then (v.get i).get j * (-one) else (v.get i).get j)
    else v
  -- v * u.transpose()                                                                (cpp:127)
  Tab2.ofFn (fun i j => sumFin d (fun k => (v'.get i).get k * (u.get j).get k))

/-- cpp:126-130: `H = Identity; H.block(0,0,d,d) = R; H.block(0,d,p,1) += targetMean - H.block(0,0,p,p) * sourceMean` -/
def assemble (d p : Nat) (hp : p ≤ d + 1) (R : Tab2 d d α) (sm tm : Tab p α) : Tab2 (d + 1) (d + 1) α :=
  let H0 : Tab2 (d + 1) (d + 1) α := Tab2.ofFn (fun i j =>
    if h : i.1 < d ∧ j.1 < d then (R.get ⟨i.1, h.1⟩).get ⟨j.1, h.2⟩ else if i.1 = j.1 then one else zero)
  let col : Tab p α := Tab.ofFn (fun i =>
    tm.get i - sumFin p (fun j => (H0.get (Fin.castLE hp i)).get (Fin.castLE hp j) * sm.get j))
  Tab2.ofFn (fun i j => if h : j.1 = d ∧ i.1 < p then (H0.get i).get j + col.get ⟨i.1, h.2⟩ else (H0.get i).get j)

/-- `estimate_(sourcePoints, targetPoints, correspondences)` (cpp:84-131) -/
def estimate (d p : Nat) (hdp : d ≤ p) (hp : p ≤ d + 1) (svd : Mat d d α → SVD d α)
    (src tgt : Array (Tab p α)) (corr : List (Nat × Nat)) : Tab2 (d + 1) (d + 1) α :=
  let sm := meanOf p src (corr.map (·.1))
  let tm := meanOf p tgt (corr.map (·.2))
  let cov := crossCov p src tgt sm tm corr
  -- cov.block(0, 0, CARTESIAN_DIM, CARTESIAN_DIM)
  let R := rotationOf d svd (fun i j => (cov.get (Fin.castLE hdp i)).get (Fin.castLE hdp j))
  assemble d p hp R sm tm

/-- `estimate_(sourcePoints, targetPoints)` (cpp:136-175): `mean()` of each set (each divided by its own
    size), the covariance over `n < sourcePoints.size()` with `targetPoints[n]`; the C++ asserts equal sizes. -/
def estimateAll (d p : Nat) (hdp : d ≤ p) (hp : p ≤ d + 1) (svd : Mat d d α → SVD d α)
    (src tgt : Array (Tab p α)) : Tab2 (d + 1) (d + 1) α :=
  let sm := meanOf p src (List.range src.size)
  let tm := meanOf p tgt (List.range tgt.size)
  let cov := crossCov p src tgt sm tm ((List.range src.size).map (fun n => (n, n)))
  let R := rotationOf d svd (fun i j => (cov.get (Fin.castLE hdp i)).get (Fin.castLE hdp j))
  assemble d p hp R sm tm

/-- `PreconditionedPointSet::compute(points, scale)` (PreconditionedPointSet.cpp:90-92): EVERY coefficient
    of the point, the homogeneous one included, is multiplied by the scale. -/
def precondition (p : Nat) (scale : α) (pts : Array (Tab p α)) : Array (Tab p α) :=
  pts.map (fun v => Tab.ofFn (fun i => v.get i * scale))

/-- `getPreconditioningMatrix()(0,0)`: `Identity().block(0,0,d,d) *= scale` (PreconditionedPointSet.cpp:95-96) -/
def precondM00 (scale : α) : α := one * scale

/-- `H.block(0, CARTESIAN_DIM, CARTESIAN_DIM, 1) /= targetPoints.getPreconditioningMatrix()(0,0)` (cpp:43, 66) -/
def unscale (d : Nat) (H : Tab2 (d + 1) (d + 1) α) (sT : α) : Tab2 (d + 1) (d + 1) α :=
  let m := precondM00 sT
  Tab2.ofFn (fun i j => if i.1 < d ∧ j.1 = d then (H.get i).get j / m else (H.get i).get j)

/-- `find(PreconditionedPointSet, PreconditionedPointSet, correspondences)` (cpp:37-45) for sets built with
    `PreconditionedPointSet(points, scale)` -/
def findPre (d p : Nat) (hdp : d ≤ p) (hp : p ≤ d + 1) (svd : Mat d d α → SVD d α)
    (src tgt : Array (Tab p α)) (corr : List (Nat × Nat)) (sS sT : α) : Tab2 (d + 1) (d + 1) α :=
  unscale d (estimate d p hdp hp svd (precondition p sS src) (precondition p sT tgt) corr) sT

/-- `find(PreconditionedPointSet, PreconditionedPointSet)` (cpp:61-68) -/
def findPreAll (d p : Nat) (hdp : d ≤ p) (hp : p ≤ d + 1) (svd : Mat d d α → SVD d α)
    (src tgt : Array (Tab p α)) (sS sT : α) : Tab2 (d + 1) (d + 1) α :=
  unscale d (estimateAll d p hdp hp svd (precondition p sS src) (precondition p sT tgt)) sT

end
end Romea.Registration
