import RomeaModel.Scalar
import RomeaModel.LeastSquares

/-!
# Executable stand-ins for Eigen's `JacobiSVD` and `LDLT::solve(Identity)` (drivers only)

The solver model (`RomeaModel/LeastSquares.lean`) takes both routines as parameters; the theorems quantify over
every routine satisfying the contracts of `RomeaProofs/Properties/C07.lean`.  For the correspondence check the
drivers plug in the implementations below.  They are NOT models of Eigen's algorithms: results that pass through
them are compared within a tolerance, never bitwise.

* `jacobiSvd`: the matrices handed over are the symmetric normal matrices `JᵀJ`; a cyclic Jacobi eigenvalue
  iteration gives `A = Q Λ Qᵀ`, returned as the SVD `U = Q·sign(Λ)`, `S = |Λ|`, `V = Q` (the order of the singular
  values is irrelevant to `V·D·Uᵀ`).
* `ldltInverse`: `L D Lᵀ` without pivoting, then one forward/backward substitution per column of the identity.
-/
namespace Romea.LeastSquares
open Romea

section
variable {α : Type} [NatCast α] [Add α] [Sub α] [Mul α] [Div α] [Neg α] [LT α] [DecidableLT α] [Trans α] [Inhabited α]

private def at2 (A : Array (Array α)) (i j : Nat) : α := (A.getD i #[]).getD j zero
private def set2 (A : Array (Array α)) (i j : Nat) (v : α) : Array (Array α) :=
  A.setIfInBounds i ((A.getD i #[]).setIfInBounds j v)

/-- cyclic Jacobi eigenvalue iteration on a symmetric `n×n` matrix; returns `(eigenvalues, Q)` with the
    eigenvectors in the columns of `Q` -/
def jacobiEig (n : Nat) (A0 : Mat α) (sweeps : Nat := 30) : Vec α × Mat α := Id.run do
  let mut A : Mat α := Mat.tab n n fun i j => A0.get i j
  let mut Q : Mat α := identity n
  let two : α := ((2 : Nat) : α)
  for _ in [0:sweeps] do
    let mut rotated := false
    for p in [0:n] do
      for q in [p+1:n] do
        let apq := at2 A p q
        if Trans.abs apq > zero then
          let app := at2 A p p
          let aqq := at2 A q q
          -- skip rotations that can no longer change the diagonal
          if Trans.abs app + Trans.abs apq > Trans.abs app ∨ Trans.abs aqq + Trans.abs apq > Trans.abs aqq then
            rotated := true
            let theta := (aqq - app) / (two * apq)
            let t := if theta < zero then -(one / (Trans.abs theta + Trans.sqrt (theta * theta + one)))
                     else one / (Trans.abs theta + Trans.sqrt (theta * theta + one))
            let c := one / Trans.sqrt (t * t + one)
            let s := t * c
            -- A ← Gᵀ A G, G = rotation in the (p,q) plane
            for k in [0:n] do
              let akp := at2 A k p
              let akq := at2 A k q
              A := set2 A k p (c * akp - s * akq)
              A := set2 A k q (s * akp + c * akq)
            for k in [0:n] do
              let apk := at2 A p k
              let aqk := at2 A q k
              A := set2 A p k (c * apk - s * aqk)
              A := set2 A q k (s * apk + c * aqk)
            for k in [0:n] do
              let qkp := at2 Q k p
              let qkq := at2 Q k q
              Q := set2 Q k p (c * qkp - s * qkq)
              Q := set2 Q k q (s * qkp + c * qkq)
          else
            A := set2 (set2 A p q zero) q p zero
    if !rotated then break
  return (Vec.tab n fun i => at2 A i i, Q)

/-- stand-in for `JacobiSVD` on a symmetric matrix -/
def jacobiSvd (n : Nat) (A : Mat α) : SVD α :=
  let (lam, Q) := jacobiEig n A
  { U := Mat.tab n n fun i j => if lam.get j < zero then -(Q.get i j) else Q.get i j,
    S := Vec.tab n fun i => Trans.abs (lam.get i),
    V := Q }

/-- stand-in for `A.ldlt().solve(Identity)`, `A` symmetric positive definite -/
def ldltInverse (n : Nat) (A : Mat α) : Mat α := Id.run do
  -- factorisation: L unit lower triangular, D diagonal
  let mut L : Mat α := identity n
  let mut D : Vec α := Vec.tab n fun _ => zero
  for j in [0:n] do
    let mut d := A.get j j
    for k in [0:j] do
      d := d - at2 L j k * at2 L j k * D.get k
    D := D.setIfInBounds j d
    for i in [j+1:n] do
      let mut v := A.get i j
      for k in [0:j] do
        v := v - at2 L i k * at2 L j k * D.get k
      L := set2 L i j (v / d)
  -- solve L D Lᵀ X = I column by column; X stored by columns first
  let mut X : Mat α := Mat.tab n n fun _ _ => zero
  for c in [0:n] do
    let mut z : Vec α := Vec.tab n fun i => if i = c then one else zero
    for i in [0:n] do
      let mut v := z.get i
      for k in [0:i] do
        v := v - at2 L i k * z.get k
      z := z.setIfInBounds i v
    for i in [0:n] do
      z := z.setIfInBounds i (z.get i / D.get i)
    for ii in [0:n] do
      let i := n - 1 - ii
      let mut v := z.get i
      for k in [i+1:n] do
        v := v - at2 L k i * z.get k
      z := z.setIfInBounds i v
    for i in [0:n] do
      X := set2 X i c (z.get i)
  return X

/-- the environment used by the drivers -/
def execEnv [Limits α] : Env α := { eps := Limits.eps, svd := jacobiSvd, ldltInv := ldltInverse }

end
end Romea.LeastSquares
