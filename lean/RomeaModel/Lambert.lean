import RomeaModel.Scalar

/-!
# Lambert conformal conic projection (C03)

Mirrors, line by line,
* `src/geodesy/EarthEllipsoid.cpp:32-38`   (`EarthEllipsoid::EarthEllipsoid`: `e2`, `e`),
* `src/geodesy/LambertConverter.cpp:71-119` (`toLambert`, `toWGS84`, `computeIsometricLatitude`, `computeLatitude`),
* `src/geodesy/LambertConverter.cpp:123-169` (`computeGrandeNormal`, the two `computeProjectionParameters`).

The scalar type is a parameter: the driver runs these definitions at `Float` (binary64, same libm as the
C++), the theorems are stated at `RN` (reals with an absorbing NaN) and `ℝ`.

Conventions
* operations are written in the order (and with the association) of the C++ expression;
* `std::pow(x, 2)` is written `x * x` (`pow` with the integer exponent 2 is defined for negative bases and
  gcc -O3 compiles it to a multiplication; `Trans.pow` at `RN` is only defined for positive bases);
* the endless loop `for (;;)` of `computeLatitude` becomes recursion on a fuel argument; `none` = the exit
  test was never met (the C++ does not return; driver token `diverged`, harness token `hang`).
-/
namespace Romea.Lambert

section
variable {α : Type} [Add α] [Sub α] [Mul α] [Div α] [Neg α] [LT α] [DecidableLT α] [NatCast α]
  [OfScientific α] [Trans α]

/-- `EarthEllipsoid` (include/romea_core_common/geodesy/EarthEllipsoid.hpp:33-44) -/
structure Ellipsoid (α : Type) where
  a : α
  b : α
  e2 : α
  e : α

/-- `EarthEllipsoid::EarthEllipsoid(double A, double B)` (EarthEllipsoid.cpp:32-38):
    `e2((a * a - b * b) / (a * a)), e(std::sqrt(e2))` -/
def Ellipsoid.make (A B : α) : Ellipsoid α :=
  let e2 := (A * A - B * B) / (A * A)
  { a := A, b := B, e2 := e2, e := Trans.sqrt e2 }

/-- `LambertConverter::SecantProjectionParameters` (LambertConverter.hpp:37-45) -/
structure Secant (α : Type) where
  lon0 : α
  lat0 : α
  lat1 : α
  lat2 : α
  x0 : α
  y0 : α

/-- `LambertConverter::TangentProjectionParameters` (LambertConverter.hpp:47-54) -/
structure Tangent (α : Type) where
  lat0 : α
  lon0 : α
  k0 : α
  x0 : α
  y0 : α

/-- `LambertConverter::ProjectionParameters` (LambertConverter.hpp:56-63) -/
structure Params (α : Type) where
  lon0 : α
  n : α
  c : α
  xs : α
  ys : α

/-- the private members of `LambertConverter` (LambertConverter.hpp:113-118) -/
structure Conv (α : Type) where
  lon0 : α
  n : α
  c : α
  xs : α
  ys : α
  e : α

/-- constructor chain LambertConverter.cpp:34-69: `(parameters, ellipsoid.e)` -/
def Conv.ofParams (p : Params α) (e : α) : Conv α :=
  { lon0 := p.lon0, n := p.n, c := p.c, xs := p.xs, ys := p.ys, e := e }

/-- the literal `2` -/
@[inline] def two : α := ((2 : Nat) : α)
/-- the literal `1` -/
@[inline] def one : α := ((1 : Nat) : α)

/-- `EPSILON = 1e-12` (LambertConverter.cpp:25) -/
@[inline] def epsilon : α := OfScientific.ofScientific 1 true 12

/-- the literal `0.000000001` of LambertConverter.cpp:148 -/
@[inline] def poleTol : α := OfScientific.ofScientific 1 true 9

/-- `computeIsometricLatitude` (LambertConverter.cpp:91-98):
    `log(tan(M_PI/4 + latitude/2) * pow((1 - e sin(latitude)) / (1 + e sin(latitude)), e/2))` -/
def isoLat (lat e : α) : α :=
  Trans.log
    (Trans.tan ((Trans.pi / ((4 : Nat) : α)) + (lat / two)) *
      Trans.pow ((one - e * Trans.sin lat) / (one + e * Trans.sin lat)) (e / two))

/-- one pass of the loop body of `computeLatitude` (LambertConverter.cpp:108-111):
    `alpha = pow((1 + e sin(lat)) / (1 - e sin(lat)), e/2.)`, `lat = 2 atan(alpha exp(L)) - M_PI_2` -/
def latStep (iso e lat : α) : α :=
  let alpha := Trans.pow ((one + e * Trans.sin lat) / (one - e * Trans.sin lat)) (e / two)
  two * Trans.atan (alpha * Trans.exp iso) - Trans.pi / two

/-- the `for (;;)` loop of `computeLatitude` (LambertConverter.cpp:107-116) with fuel:
    `some` = the exit test `|latitude - previous_latitude| < EPSILON` was met, `none` = never within the fuel -/
def latLoop (iso e : α) : Nat → α → Option α
  | 0, _ => none
  | fuel + 1, previous =>
    let latitude := latStep iso e previous
    if Trans.abs (latitude - previous) < epsilon then some latitude else latLoop iso e fuel latitude

/-- the initial value of `computeLatitude` (LambertConverter.cpp:106): `2 atan(exp(L)) - M_PI_2` -/
def latInit (iso : α) : α := two * Trans.atan (Trans.exp iso) - Trans.pi / two

/-- `computeLatitude` (LambertConverter.cpp:101-119) -/
def latFromIso (fuel : Nat) (iso e : α) : Option α := latLoop iso e fuel (latInit iso)

/-- `computeGrandeNormal` (LambertConverter.cpp:123-129): `a / sqrt(1 - pow(e sin(lat), 2))` -/
def grandeNormale (lat a e : α) : α :=
  a / Trans.sqrt (one - (e * Trans.sin lat) * (e * Trans.sin lat))

/-- `computeProjectionParameters(SecantProjectionParameters, EarthEllipsoid)` (LambertConverter.cpp:133-153) -/
def paramsSecant (p : Secant α) (E : Ellipsoid α) : Params α :=
  let N1 := grandeNormale p.lat1 E.a E.e
  let N2 := grandeNormale p.lat2 E.a E.e
  let isolat0 := isoLat p.lat0 E.e
  let isolat1 := isoLat p.lat1 E.e
  let isolat2 := isoLat p.lat2 E.e
  let coslat1 := Trans.cos p.lat1
  let coslat2 := Trans.cos p.lat2
  let n := Trans.log ((N2 * coslat2) / (N1 * coslat1)) / (isolat1 - isolat2)
  let c := N1 * coslat1 / n * Trans.exp (n * isolat1)
  let ys := if poleTol < Trans.abs (p.lat0 - Trans.pi / two) then p.y0 + c * Trans.exp ((-n) * isolat0) else p.y0
  { lon0 := p.lon0, n := n, c := c, xs := p.x0, ys := ys }

/-- `computeProjectionParameters(TangentProjectionParameters, EarthEllipsoid)` (LambertConverter.cpp:156-169) -/
def paramsTangent (p : Tangent α) (E : Ellipsoid α) : Params α :=
  let N := grandeNormale p.lat0 E.a E.e
  let cotlat := Trans.cos p.lat0 / Trans.sin p.lat0
  let isolat := isoLat p.lat0 E.e
  let n := Trans.sin p.lat0
  let C := p.k0 * N * cotlat * Trans.exp (n * isolat)
  let YS := p.y0 + p.k0 * N * cotlat
  { lon0 := p.lon0, n := n, c := C, xs := p.x0, ys := YS }

/-- `toLambert` (LambertConverter.cpp:72-81) -/
def toLambert (cv : Conv α) (lat lon : α) : α × α :=
  let isolat := isoLat lat cv.e
  (cv.xs + cv.c * Trans.exp ((-cv.n) * isolat) * Trans.sin (cv.n * (lon - cv.lon0)),
   cv.ys - cv.c * Trans.exp ((-cv.n) * isolat) * Trans.cos (cv.n * (lon - cv.lon0)))

/-- the argument handed to `computeLatitude` by `toWGS84` (LambertConverter.cpp:86-88):
    `-log(rho / |c|) / n` with `rho = sqrt(pow(x - xs, 2) + pow(y - ys, 2))` -/
def invIsoLat (cv : Conv α) (x y : α) : α :=
  let rho := Trans.sqrt ((x - cv.xs) * (x - cv.xs) + (y - cv.ys) * (y - cv.ys))
  (-Trans.log (rho / Trans.abs cv.c)) / cv.n

/-- the longitude returned by `toWGS84` (LambertConverter.cpp:87-88):
    `longitude0 + atan((x - xs) / (ys - y)) / n` -/
def invLon (cv : Conv α) (x y : α) : α :=
  let theta := Trans.atan ((x - cv.xs) / (cv.ys - y))
  cv.lon0 + theta / cv.n

/-- `toWGS84` (LambertConverter.cpp:84-89): `(latitude, longitude)`, `none` when the latitude loop never exits -/
def toWGS84 (fuel : Nat) (cv : Conv α) (x y : α) : Option (α × α) :=
  match latFromIso fuel (invIsoLat cv x y) cv.e with
  | some lat => some (lat, invLon cv x y)
  | none => none

end
end Romea.Lambert
