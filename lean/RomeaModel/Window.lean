/-!
# Sliding-window statistics and ring buffer (C16)

Mirrors `src/monitoring/OnlineAverage.cpp`, `src/monitoring/OnlineVariance.cpp` and
`include/romea_core_common/containers/Eigen/RingOfEigenVector.hpp`.

The integer state (`long long` samples and sums, `size_t` indexes) is modelled over `Int`/`Nat`;
`Fits` predicates state what the C++ fixed-width variables can hold, and the no-overflow theorem
shows they are met on the property's domain, where unbounded and 64-bit arithmetic coincide.
The `double → long long` glue (`static_cast<long long>(value * multiplier_)`) and the final
floating-point divisions are executed by the driver at `Float`.
-/
namespace Romea.Window

/-! ### OnlineAverage / OnlineVariance -/

/-- Members of `OnlineAverage` + `OnlineVariance` (the variance ones stay unused for an average). -/
structure Stat where
  W : Nat               -- windowSize_
  m : Int               -- multiplier_   (C++ `int`)
  m2 : Int              -- squaredMultiplier_ (C++ `long long`)
  idx : Nat             -- index_
  data : List Int       -- data_
  sq : List Int         -- squaredData_
  sum : Int             -- sumOfData_
  sumsq : Int           -- sumOfSquaredData_
  deriving Repr

/-- constructor: `index_(0)`, empty data, zero sums; `squaredMultiplier_ = (long long) m * m` -/
def Stat.init (W : Nat) (m : Int) : Stat :=
  { W := W, m := m, m2 := m * m, idx := 0, data := [], sq := [], sum := 0, sumsq := 0 }

/-- `update(value)` after the conversion `q = static_cast<long long>(value * multiplier_)`
    (OnlineVariance::update; OnlineAverage::update is the same without the squared members). -/
def Stat.update (s : Stat) (q : Int) : Stat :=
  let q2 := q * q
  let sum := s.sum + q
  let sumsq := s.sumsq + q2
  let s' :=
    if s.data.length ≠ s.W then
      { s with data := s.data ++ [q], sq := s.sq ++ [q2], sum := sum, sumsq := sumsq }
    else
      { s with sum := sum - s.data.getD s.idx 0, sumsq := sumsq - s.sq.getD s.idx 0,
               data := s.data.set s.idx q, sq := s.sq.set s.idx q2 }
  { s' with idx := (s.idx + 1) % s.W }

/-- `reset()`: index, data and sums restart (the averages become NaN: computed by the driver). -/
def Stat.reset (s : Stat) : Stat :=
  { s with idx := 0, data := [], sq := [], sum := 0, sumsq := 0 }

/-- `isAvailable()` -/
def Stat.available (s : Stat) : Bool := s.data.length == s.W

inductive Op | upd (q : Int) | reset
  deriving Repr

def Stat.step (s : Stat) : Op → Stat
  | .upd q => s.update q
  | .reset => s.reset

def Stat.run (s : Stat) (ops : List Op) : Stat := ops.foldl Stat.step s

/-- samples fed since the last reset, oldest first -/
def sinceReset (ops : List Op) : List Int :=
  ops.foldl (fun acc op => match op with | .upd q => acc ++ [q] | .reset => []) []

/-- what a C++ `long long` / `int` can hold -/
def Fits64 (x : Int) : Prop := -(2 ^ 63) ≤ x ∧ x < 2 ^ 63
def Fits32 (x : Int) : Prop := -(2 ^ 31) ≤ x ∧ x < 2 ^ 31

/-! ### RingOfEigenVector -/

/-- `ringIndex_` is a `size_t`: kept as a natural number below 2^64; the constructor and `clear()`
    store `-1`, i.e. `2^64 - 1`. -/
structure RingBuf (T : Type) where
  cap : Nat              -- ringSize_
  idx : Nat              -- ringIndex_  (value of the size_t)
  buf : List T           -- ring_

def two64 : Nat := 2 ^ 64

def RingBuf.init {T} (cap : Nat) : RingBuf T := { cap := cap, idx := two64 - 1, buf := [] }

/-- `append`: `ringIndex_ = (ringIndex_ + 1) % ringSize_` in 64-bit unsigned arithmetic, then
    overwrite or push_back. -/
def RingBuf.append {T} (r : RingBuf T) (v : T) : RingBuf T :=
  let idx := ((r.idx + 1) % two64) % r.cap
  if r.buf.length = r.cap then { r with idx := idx, buf := r.buf.set idx v }
  else { r with idx := idx, buf := r.buf ++ [v] }

/-- `clear()` -/
def RingBuf.clear {T} (r : RingBuf T) : RingBuf T := { r with idx := two64 - 1, buf := [] }

def RingBuf.size {T} (r : RingBuf T) : Nat := r.buf.length

/-- `operator[](n)`: `ring_[(ringIndex_ + ring_.size() - n) % ring_.size()]`, unsigned 64-bit.
    (`n ≤ ringIndex_ + size` on every use the property allows, so the subtraction does not wrap;
    the model reproduces the wrap anyway.) -/
def RingBuf.slot {T} (r : RingBuf T) (n : Nat) : Nat :=
  (((r.idx + r.buf.length) % two64 + two64 - n % two64) % two64) % r.buf.length

def RingBuf.get? {T} (r : RingBuf T) (n : Nat) : Option T := r.buf[r.slot n]?

inductive ROp (T : Type) | app (v : T) | clear

def RingBuf.step {T} (r : RingBuf T) : ROp T → RingBuf T
  | .app v => r.append v
  | .clear => r.clear

def RingBuf.run {T} (r : RingBuf T) (ops : List (ROp T)) : RingBuf T := ops.foldl RingBuf.step r

/-- items appended since the last clear, oldest first -/
def sinceClear {T} (ops : List (ROp T)) : List T :=
  ops.foldl (fun acc op => match op with | .app v => acc ++ [v] | .clear => []) []

end Romea.Window
