import RomeaModel.Scalar
import RomeaModel.Generated.GeodesyConstants

/-!
# ECEF ↔ geodetic conversion (C01; reused by C02)

Mirrors, at `/repo` HEAD (after `fix: ECEFConverter::toWGS84 computes the longitude with atan2`):
* `src/geodesy/EarthEllipsoid.cpp:27-37` (`GRS80`, constructor: `e2 = (a*a - b*b)/(a*a)`, `e = sqrt(e2)`),
* `src/geodesy/ECEFConverter.cpp:37-50` (`toECEF`), `:53-85` (`toWGS84`), `:22` (`EPSILON = 1e-11`),
* `src/geodesy/GeodeticCoordinates.cpp:26-39` (`makeGeodeticCoordinates`: two asserts, compiled out in
  the baseline `-DNDEBUG` build, then a plain copy — the model is the identity there).

Every expression is written in the association order of the C++ (`a * b * c = (a * b) * c`,
`x*x + y*y + z*z = (x*x + y*y) + z*z`), so that the `Float` instance reproduces the doubles.
The scalar is a parameter: `Float` in the driver, `RN` / `ℝ` in the theorems.
The literal thresholds (`EPSILON`, the GRS80 axes) come from `Generated/GeodesyConstants.lean`, which
`tools/props/c01.py:regen` rewrites from the C++ source on every run (DESIGN.md 2.5).

The `while (delta > EPSILON)` loop is structural recursion on a fuel argument; `none` means the exit
test was not met within the fuel (the driver prints `diverged`; the C++ would still be spinning).
A NaN `delta` makes `delta > EPSILON` false, i.e. the loop exits — in C++, at `Float` and at `RN` alike.
-/
namespace Romea.Geodesy

/-- `EarthEllipsoid`: the four public data members. -/
structure Ellipsoid (α : Type) where
  a : α
  b : α
  e2 : α
  e : α

/-- `GeodeticCoordinates` (latitude, longitude from `WGS84Coordinates`, plus altitude). -/
structure Geo (α : Type) where
  lat : α
  lon : α
  alt : α

/-- `Eigen::Vector3d` -/
structure Vec3 (α : Type) where
  x : α
  y : α
  z : α

section
variable {α : Type} [Add α] [Sub α] [Mul α] [Div α] [LT α] [DecidableLT α] [NatCast α] [OfScientific α]
  [Trans α]

/-- the literal `1.0` -/
@[reducible] def one : α := ((1 : Nat) : α)

/-- `EarthEllipsoid::EarthEllipsoid(double A, double B)` — EarthEllipsoid.cpp:30-36 -/
def Ellipsoid.make (A B : α) : Ellipsoid α :=
  let e2 := (A * A - B * B) / (A * A)
  { a := A, b := B, e2 := e2, e := Trans.sqrt e2 }

/-- `EarthEllipsoid::GRS80(6378137.0, 6356752.314)` — EarthEllipsoid.cpp:27.
    The two decimal literals are regenerated from the source on every check run (`Generated/GeodesyConstants.lean`). -/
def grs80 : Ellipsoid α :=
  Ellipsoid.make (OfScientific.ofScientific Generated.grs80AMantissa true Generated.grs80AExponent)
    (OfScientific.ofScientific Generated.grs80BMantissa true Generated.grs80BExponent)

/-- `EPSILON = 1e-11` — ECEFConverter.cpp:22 (literal regenerated from the source on every check run) -/
def epsilon : α := OfScientific.ofScientific Generated.epsilonMantissa true Generated.epsilonExponent

/-- prime-vertical radius `N = a / sqrt(1.0 - e2 * sin(lat) * sin(lat))` — ECEFConverter.cpp:44 -/
def primeVertical (E : Ellipsoid α) (lat : α) : α :=
  E.a / Trans.sqrt (one - E.e2 * Trans.sin lat * Trans.sin lat)

/-- `ECEFConverter::toECEF` — ECEFConverter.cpp:37-50 -/
def toECEF (E : Ellipsoid α) (g : Geo α) : Vec3 α :=
  let N := primeVertical E g.lat
  { x := (N + g.alt) * Trans.cos g.lat * Trans.cos g.lon        -- :45
    y := (N + g.alt) * Trans.cos g.lat * Trans.sin g.lon        -- :46
    z := (N * (one - E.e2) + g.alt) * Trans.sin g.lat }         -- :47

/-- `norm = sqrt(X*X + Y*Y)` — ECEFConverter.cpp:60 -/
def normXY (X Y : α) : α := Trans.sqrt (X * X + Y * Y)

/-- `longitude = atan2(Y, X)` — ECEFConverter.cpp:61 -/
def lonOf (X Y : α) : α := Trans.atan2 Y X

/-- initial latitude — ECEFConverter.cpp:64-65 -/
def lat0 (E : Ellipsoid α) (X Y Z norm : α) : α :=
  Trans.atan (Z / (norm * (one - (E.a * E.e2 / Trans.sqrt (X * X + Y * Y + Z * Z)))))

/-- one pass of the loop body: `eLatitude` as a function of `latitude` — ECEFConverter.cpp:69-74 -/
def latStep (E : Ellipsoid α) (norm Z lat : α) : α :=
  let s2 := Trans.sin lat * Trans.sin lat
  Trans.atan ((Z / norm) /
    (one - (E.a * E.e2 * Trans.cos lat / (norm * Trans.sqrt (one - E.e2 * s2)))))

/-- the loop `delta = 1.0; while (delta > EPSILON) { … }` — ECEFConverter.cpp:67-78.
    The first pass always runs (`1.0 > 1e-11`); afterwards a pass runs iff the previous
    `delta = fabs(eLatitude - latitude)` exceeded `EPSILON`. `none`: fuel exhausted. -/
def latLoop (E : Ellipsoid α) (norm Z : α) : Nat → α → Option α
  | 0, _ => none
  | fuel + 1, lat =>
    let eLat := latStep E norm Z lat
    let delta := Trans.abs (eLat - lat)
    if epsilon < delta then latLoop E norm Z fuel eLat else some eLat

/-- altitude — ECEFConverter.cpp:81-82 -/
def altOf (E : Ellipsoid α) (norm lat : α) : α :=
  let s2 := Trans.sin lat * Trans.sin lat
  norm / Trans.cos lat - E.a / Trans.sqrt (one - E.e2 * s2)

/-- `ECEFConverter::toWGS84` — ECEFConverter.cpp:53-85 (`none` = the loop did not exit within `fuel`). -/
def toWGS84 (fuel : Nat) (E : Ellipsoid α) (p : Vec3 α) : Option (Geo α) :=
  let norm := normXY p.x p.y
  let lon := lonOf p.x p.y
  match latLoop E norm p.z fuel (lat0 E p.x p.y p.z norm) with
  | none => none
  | some lat => some { lat := lat, lon := lon, alt := altOf E norm lat }

end
end Romea.Geodesy
