import RomeaModel.Generated.StaticsC07
/-!
# Hidden-state pin for C07

The model of C07 is a function of call arguments and of the members of the objects it describes. `Generated/StaticsC07.lean` is
regenerated from /repo on every check run and lists the function-local `static` / `thread_local` declarations of the anchored
files; this theorem pins that list to what was reviewed when the model was written (each entry below is either a constant
table or state the model accounts for). A new one — a cache shared by all objects of a class, a memo that survives its
object, a shared workspace — breaks this obligation even where no sampled input shows a difference. Hand-maintained:
after reviewing an intended change of the list, regenerate with `python3 tools/hidden_state.py --write-pins`.
-/
namespace Romea.Hidden.C07

theorem hidden_state_as_recorded : Romea.Generated.C07.hiddenState = [] := by rfl

/-- The names (not only the types) of what every translated function reads, carries through its loops and returns are those
    the bridge theorems were written against: a function that now reads or writes ANOTHER member of the same type keeps its Lean
    type, and a positional application in a bridge would keep checking. -/
theorem signatures_as_recorded : Romea.Generated.C07.signatures = [
    "LeastSquares.LeastSquares_default_d () result: Ac__cols', Ac__m', Ac__rows', Bc__m', Bc__rows', J__cols', J__m', J__rows', JtJ__cols', JtJ__m', JtJ__rows', JtY__m', JtY__rows', W__m', W__rows', Y__m', Y__rows', dataSize_', estimateSize_', inverseJtJ__cols', inverseJtJ__m', inverseJtJ__rows'",
    "LeastSquares.LeastSquares_est_d (estimateSize) result: Ac__cols', Ac__m', Ac__rows', Bc__m', Bc__rows', J__cols', J__m', J__rows', JtJ__cols', JtJ__m', JtJ__rows', JtY__m', JtY__rows', W__m', W__rows', Y__m', Y__rows', dataSize_', estimateSize_', inverseJtJ__cols', inverseJtJ__m', inverseJtJ__rows'",
    "LeastSquares.LeastSquares_estData_d (dataSize estimateSize) result: Ac__cols', Ac__m', Ac__rows', Bc__m', Bc__rows', J__cols', J__m', J__rows', JtJ__cols', JtJ__m', JtJ__rows', JtY__m', JtY__rows', W__m', W__rows', Y__m', Y__rows', dataSize_', estimateSize_', inverseJtJ__cols', inverseJtJ__m', inverseJtJ__rows'",
    "LeastSquares.setDataSize_d (J__cols J__m J__rows W__m W__rows Y__m Y__rows dataSize estimateSize_ resize_J_ resize_W_ resize_Y_) result: ret, J__cols', J__m', J__rows', W__m', W__rows', Y__m', Y__rows', dataSize_'",
    "LeastSquares.setEstimateSize_d (J__cols J__m J__rows Y__m Y__rows estimateSize resize_J_) result: Ac__cols', Ac__m', Ac__rows', Bc__m', Bc__rows', J__cols', J__m', J__rows', JtJ__cols', JtJ__m', JtJ__rows', JtY__m', JtY__rows', estimateSize_', inverseJtJ__cols', inverseJtJ__m', inverseJtJ__rows'",
    "LeastSquares.setPreconditionner_Ab_d (Ac_cols Ac_m Ac_rows Bc_m Bc_rows) result: Ac__cols', Ac__m', Ac__rows', Bc__m', Bc__rows'",
    "LeastSquares.setPreconditionner_A_d (Ac_cols Ac_m Ac_rows estimateSize_) result: Ac__cols', Ac__m', Ac__rows', Bc__m', Bc__rows'",
    "dynSumN ()",
    "dynSum (n f)",
    "dynSet2 (M i j x)",
    "LeastSquares.computeJTJ__d.loop2 (J__cols J__m J__rows dataSize_ estimateSize_ i) carried: JtJ__m, j",
    "LeastSquares.computeJTJ__d.loop1 (J__cols J__m J__rows dataSize_ estimateSize_) carried: JtJ__m, i",
    "LeastSquares.computeJTJ__d (J__cols J__m J__rows JtJ__m dataSize_ estimateSize_) result: JtJ__m' (none = a partial operation failed: index outside a vector)",
    "dynSet1 (v i x)",
    "LeastSquares.computeJTY__d.loop1 (J__cols J__m J__rows Y__m Y__rows dataSize_ estimateSize_) carried: JtY__m, i",
    "LeastSquares.computeJTY__d (J__cols J__m J__rows JtY__m Y__m Y__rows dataSize_ estimateSize_) result: JtY__m' (none = a partial operation failed: index outside a vector)",
    "LeastSquares.weightJAndY__d.loop1 (W__m W__rows dataSize_ estimateSize_) carried: J__m, i",
    "LeastSquares.weightJAndY__d (J__m W__m W__rows Y__m dataSize_ estimateSize_) result: J__m', Y__m' (none = a partial operation failed: index outside a vector)",
    "LeastSquares.estimateUsingSVD_d.loop1 (estimateSize_) carried: inverseJtJ__m, n",
    "LeastSquares.estimateUsingSVD_d (Ac__cols Ac__m Ac__rows Bc__m Bc__rows J__cols J__m J__rows JacobiSVD_matrixU JacobiSVD_matrixV JacobiSVD_singularValues JtJ__cols JtJ__m JtJ__rows JtY__m JtY__rows Y__m Y__rows dataSize_ estimateSize_) result: ret_m, ret_rows, JtJ__m', JtY__m', inverseJtJ__cols', inverseJtJ__m', inverseJtJ__rows' (none = a partial operation failed: index outside a vector)",
    "LeastSquares.estimateUsingCholeskyDecomposition_d (Ac__cols Ac__m Ac__rows Bc__m Bc__rows J__cols J__m J__rows JtJ__cols JtJ__m JtJ__rows JtY__m JtY__rows Y__m Y__rows dataSize_ estimateSize_ ldlt_solve) result: ret_m, ret_rows, JtJ__m', JtY__m', inverseJtJ__cols', inverseJtJ__m', inverseJtJ__rows' (none = a partial operation failed: index outside a vector)",
    "LeastSquares.weightedEstimate_d (Ac__cols Ac__m Ac__rows Bc__m Bc__rows J__cols J__m J__rows JtJ__cols JtJ__m JtJ__rows JtY__m JtY__rows W__m W__rows Y__m Y__rows dataSize_ estimateSize_ ldlt_solve) result: ret_m, ret_rows, J__m', JtJ__m', JtY__m', Y__m', inverseJtJ__cols', inverseJtJ__m', inverseJtJ__rows' (none = a partial operation failed: index outside a vector)",
    "LeastSquares.computeEstimateCovariance_d (Ac__cols Ac__m Ac__rows dataVariance inverseJtJ__cols inverseJtJ__m inverseJtJ__rows) result: ret_cols, ret_m, ret_rows",
    "LeastSquares.LeastSquares_default_f () result: Ac__cols', Ac__m', Ac__rows', Bc__m', Bc__rows', J__cols', J__m', J__rows', JtJ__cols', JtJ__m', JtJ__rows', JtY__m', JtY__rows', W__m', W__rows', Y__m', Y__rows', dataSize_', estimateSize_', inverseJtJ__cols', inverseJtJ__m', inverseJtJ__rows'",
    "LeastSquares.LeastSquares_est_f (estimateSize) result: Ac__cols', Ac__m', Ac__rows', Bc__m', Bc__rows', J__cols', J__m', J__rows', JtJ__cols', JtJ__m', JtJ__rows', JtY__m', JtY__rows', W__m', W__rows', Y__m', Y__rows', dataSize_', estimateSize_', inverseJtJ__cols', inverseJtJ__m', inverseJtJ__rows'",
    "LeastSquares.LeastSquares_estData_f (dataSize estimateSize) result: Ac__cols', Ac__m', Ac__rows', Bc__m', Bc__rows', J__cols', J__m', J__rows', JtJ__cols', JtJ__m', JtJ__rows', JtY__m', JtY__rows', W__m', W__rows', Y__m', Y__rows', dataSize_', estimateSize_', inverseJtJ__cols', inverseJtJ__m', inverseJtJ__rows'",
    "LeastSquares.setDataSize_f (J__cols J__m J__rows W__m W__rows Y__m Y__rows dataSize estimateSize_ resize_J_ resize_W_ resize_Y_) result: ret, J__cols', J__m', J__rows', W__m', W__rows', Y__m', Y__rows', dataSize_'",
    "LeastSquares.setEstimateSize_f (J__cols J__m J__rows Y__m Y__rows estimateSize resize_J_) result: Ac__cols', Ac__m', Ac__rows', Bc__m', Bc__rows', J__cols', J__m', J__rows', JtJ__cols', JtJ__m', JtJ__rows', JtY__m', JtY__rows', estimateSize_', inverseJtJ__cols', inverseJtJ__m', inverseJtJ__rows'",
    "LeastSquares.setPreconditionner_Ab_f (Ac_cols Ac_m Ac_rows Bc_m Bc_rows) result: Ac__cols', Ac__m', Ac__rows', Bc__m', Bc__rows'",
    "LeastSquares.setPreconditionner_A_f (Ac_cols Ac_m Ac_rows estimateSize_) result: Ac__cols', Ac__m', Ac__rows', Bc__m', Bc__rows'",
    "LeastSquares.computeJTJ__f.loop2 (J__cols J__m J__rows dataSize_ estimateSize_ i) carried: JtJ__m, j",
    "LeastSquares.computeJTJ__f.loop1 (J__cols J__m J__rows dataSize_ estimateSize_) carried: JtJ__m, i",
    "LeastSquares.computeJTJ__f (J__cols J__m J__rows JtJ__m dataSize_ estimateSize_) result: JtJ__m' (none = a partial operation failed: index outside a vector)",
    "LeastSquares.computeJTY__f.loop1 (J__cols J__m J__rows Y__m Y__rows dataSize_ estimateSize_) carried: JtY__m, i",
    "LeastSquares.computeJTY__f (J__cols J__m J__rows JtY__m Y__m Y__rows dataSize_ estimateSize_) result: JtY__m' (none = a partial operation failed: index outside a vector)",
    "LeastSquares.weightJAndY__f.loop1 (W__m W__rows dataSize_ estimateSize_) carried: J__m, i",
    "LeastSquares.weightJAndY__f (J__m W__m W__rows Y__m dataSize_ estimateSize_) result: J__m', Y__m' (none = a partial operation failed: index outside a vector)",
    "LeastSquares.estimateUsingSVD_f.loop1 (estimateSize_) carried: inverseJtJ__m, n",
    "LeastSquares.estimateUsingSVD_f (Ac__cols Ac__m Ac__rows Bc__m Bc__rows J__cols J__m J__rows JacobiSVD_matrixU JacobiSVD_matrixV JacobiSVD_singularValues JtJ__cols JtJ__m JtJ__rows JtY__m JtY__rows Y__m Y__rows dataSize_ estimateSize_) result: ret_m, ret_rows, JtJ__m', JtY__m', inverseJtJ__cols', inverseJtJ__m', inverseJtJ__rows' (none = a partial operation failed: index outside a vector)",
    "LeastSquares.estimateUsingCholeskyDecomposition_f (Ac__cols Ac__m Ac__rows Bc__m Bc__rows J__cols J__m J__rows JtJ__cols JtJ__m JtJ__rows JtY__m JtY__rows Y__m Y__rows dataSize_ estimateSize_ ldlt_solve) result: ret_m, ret_rows, JtJ__m', JtY__m', inverseJtJ__cols', inverseJtJ__m', inverseJtJ__rows' (none = a partial operation failed: index outside a vector)",
    "LeastSquares.weightedEstimate_f (Ac__cols Ac__m Ac__rows Bc__m Bc__rows J__cols J__m J__rows JtJ__cols JtJ__m JtJ__rows JtY__m JtY__rows W__m W__rows Y__m Y__rows dataSize_ estimateSize_ ldlt_solve) result: ret_m, ret_rows, J__m', JtJ__m', JtY__m', Y__m', inverseJtJ__cols', inverseJtJ__m', inverseJtJ__rows' (none = a partial operation failed: index outside a vector)",
    "LeastSquares.computeEstimateCovariance_f (Ac__cols Ac__m Ac__rows dataVariance inverseJtJ__cols inverseJtJ__m inverseJtJ__rows) result: ret_cols, ret_m, ret_rows"] := by rfl

end Romea.Hidden.C07
