import RomeaModel.Generated.StaticsC20
/-!
# Hidden-state pin for C20

The model of C20 is a function of call arguments and of the members of the objects it describes. `Generated/StaticsC20.lean` is
regenerated from /repo on every check run and lists the function-local `static` / `thread_local` declarations of the anchored
files; this theorem pins that list to what was reviewed when the model was written (each entry below is either a constant
table or state the model accounts for). A new one — a cache shared by all objects of a class, a memo that survives its
object, a shared workspace — breaks this obligation even where no sampled input shows a difference. Hand-maintained:
after reviewing an intended change of the list, regenerate with `python3 tools/hidden_state.py --write-pins`.
-/
namespace Romea.Hidden.C20

theorem hidden_state_as_recorded : Romea.Generated.C20.hiddenState = [] := by rfl

/-- The names (not only the types) of what every translated function reads, carries through its loops and returns are those
    the bridge theorems were written against: a function that now reads or writes ANOTHER member of the same type keeps its Lean
    type, and a positional application in a bridge would keep checking. -/
theorem signatures_as_recorded : Romea.Generated.C20.signatures = [
    "Interval.include_d2 (interval_lower__0 interval_lower__1 interval_upper__0 interval_upper__1 lower__0 lower__1 upper__0 upper__1) result: lower__0', lower__1', upper__0', upper__1'",
    "Interval.inside_d2 (lower__0 lower__1 upper__0 upper__1 val_0 val_1) result: ret",
    "Interval.center (lower__0 lower__1 upper__0 upper__1) result: ret_0, ret_1",
    "Interval.width (lower__0 lower__1 upper__0 upper__1) result: ret_0, ret_1",
    "AxisAlignedBoundingBox.AxisAlignedBoundingBox_interval_d2 (extremities_lower__0 extremities_lower__1 extremities_upper__0 extremities_upper__1) result: centerPosition__0', centerPosition__1', halfWidthExtents__0', halfWidthExtents__1'",
    "Interval.Interval (lower_0 lower_1 upper_0 upper_1) result: lower__0', lower__1', upper__0', upper__1'",
    "AxisAlignedBoundingBox.toInterval_d2 (centerPosition__0 centerPosition__1 halfWidthExtents__0 halfWidthExtents__1) result: ret_lower__0, ret_lower__1, ret_upper__0, ret_upper__1",
    "AxisAlignedBoundingBox.isInside_d2 (centerPosition__0 centerPosition__1 halfWidthExtents__0 halfWidthExtents__1 point_0 point_1) result: ret",
    "OrientedBoundingBox.isInside_d2 (aabb__centerPosition__0 aabb__centerPosition__1 aabb__halfWidthExtents__0 aabb__halfWidthExtents__1 point_0 point_1 rotation__0_0 rotation__0_1 rotation__1_0 rotation__1_1) result: ret",
    "AxisAlignedBoundingBox.AxisAlignedBoundingBox (centerPosition_0 centerPosition_1 halfWidthExtents_0 halfWidthExtents_1) result: centerPosition__0', centerPosition__1', halfWidthExtents__0', halfWidthExtents__1'",
    "OrientedBoundingBox.toAxisAlignedBoundingBox_d2 (aabb__centerPosition__0 aabb__centerPosition__1 aabb__halfWidthExtents__0 aabb__halfWidthExtents__1 rotation__0_0 rotation__0_1 rotation__1_0 rotation__1_1) result: ret_centerPosition__0, ret_centerPosition__1, ret_halfWidthExtents__0, ret_halfWidthExtents__1",
    "Interval.include_d3 (interval_lower__0 interval_lower__1 interval_lower__2 interval_upper__0 interval_upper__1 interval_upper__2 lower__0 lower__1 lower__2 upper__0 upper__1 upper__2) result: lower__0', lower__1', lower__2', upper__0', upper__1', upper__2'",
    "Interval.inside_d3 (lower__0 lower__1 lower__2 upper__0 upper__1 upper__2 val_0 val_1 val_2) result: ret",
    "Interval.center_2 (lower__0 lower__1 lower__2 upper__0 upper__1 upper__2) result: ret_0, ret_1, ret_2",
    "Interval.width_2 (lower__0 lower__1 lower__2 upper__0 upper__1 upper__2) result: ret_0, ret_1, ret_2",
    "AxisAlignedBoundingBox.AxisAlignedBoundingBox_interval_d3 (extremities_lower__0 extremities_lower__1 extremities_lower__2 extremities_upper__0 extremities_upper__1 extremities_upper__2) result: centerPosition__0', centerPosition__1', centerPosition__2', halfWidthExtents__0', halfWidthExtents__1', halfWidthExtents__2'",
    "Interval.Interval_2 (lower_0 lower_1 lower_2 upper_0 upper_1 upper_2) result: lower__0', lower__1', lower__2', upper__0', upper__1', upper__2'",
    "AxisAlignedBoundingBox.toInterval_d3 (centerPosition__0 centerPosition__1 centerPosition__2 halfWidthExtents__0 halfWidthExtents__1 halfWidthExtents__2) result: ret_lower__0, ret_lower__1, ret_lower__2, ret_upper__0, ret_upper__1, ret_upper__2",
    "AxisAlignedBoundingBox.isInside_d3 (centerPosition__0 centerPosition__1 centerPosition__2 halfWidthExtents__0 halfWidthExtents__1 halfWidthExtents__2 point_0 point_1 point_2) result: ret",
    "OrientedBoundingBox.isInside_d3 (aabb__centerPosition__0 aabb__centerPosition__1 aabb__centerPosition__2 aabb__halfWidthExtents__0 aabb__halfWidthExtents__1 aabb__halfWidthExtents__2 point_0 point_1 point_2 rotation__0_0 rotation__0_1 rotation__0_2 rotation__1_0 rotation__1_1 rotation__1_2 rotation__2_0 rotation__2_1 rotation__2_2) result: ret",
    "AxisAlignedBoundingBox.AxisAlignedBoundingBox_2 (centerPosition_0 centerPosition_1 centerPosition_2 halfWidthExtents_0 halfWidthExtents_1 halfWidthExtents_2) result: centerPosition__0', centerPosition__1', centerPosition__2', halfWidthExtents__0', halfWidthExtents__1', halfWidthExtents__2'",
    "OrientedBoundingBox.toAxisAlignedBoundingBox_d3 (aabb__centerPosition__0 aabb__centerPosition__1 aabb__centerPosition__2 aabb__halfWidthExtents__0 aabb__halfWidthExtents__1 aabb__halfWidthExtents__2 rotation__0_0 rotation__0_1 rotation__0_2 rotation__1_0 rotation__1_1 rotation__1_2 rotation__2_0 rotation__2_1 rotation__2_2) result: ret_centerPosition__0, ret_centerPosition__1, ret_centerPosition__2, ret_halfWidthExtents__0, ret_halfWidthExtents__1, ret_halfWidthExtents__2",
    "Interval.include_f2 (interval_lower__0 interval_lower__1 interval_upper__0 interval_upper__1 lower__0 lower__1 upper__0 upper__1) result: lower__0', lower__1', upper__0', upper__1'",
    "Interval.inside_f2 (lower__0 lower__1 upper__0 upper__1 val_0 val_1) result: ret",
    "Interval.center_f32 (lower__0 lower__1 upper__0 upper__1) result: ret_0, ret_1",
    "Interval.width_f32 (lower__0 lower__1 upper__0 upper__1) result: ret_0, ret_1",
    "AxisAlignedBoundingBox.AxisAlignedBoundingBox_interval_f2 (extremities_lower__0 extremities_lower__1 extremities_upper__0 extremities_upper__1) result: centerPosition__0', centerPosition__1', halfWidthExtents__0', halfWidthExtents__1'",
    "Interval.Interval_f32 (lower_0 lower_1 upper_0 upper_1) result: lower__0', lower__1', upper__0', upper__1'",
    "AxisAlignedBoundingBox.toInterval_f2 (centerPosition__0 centerPosition__1 halfWidthExtents__0 halfWidthExtents__1) result: ret_lower__0, ret_lower__1, ret_upper__0, ret_upper__1",
    "AxisAlignedBoundingBox.isInside_f2 (centerPosition__0 centerPosition__1 halfWidthExtents__0 halfWidthExtents__1 point_0 point_1) result: ret",
    "OrientedBoundingBox.isInside_f2 (aabb__centerPosition__0 aabb__centerPosition__1 aabb__halfWidthExtents__0 aabb__halfWidthExtents__1 point_0 point_1 rotation__0_0 rotation__0_1 rotation__1_0 rotation__1_1) result: ret",
    "AxisAlignedBoundingBox.AxisAlignedBoundingBox_f32 (centerPosition_0 centerPosition_1 halfWidthExtents_0 halfWidthExtents_1) result: centerPosition__0', centerPosition__1', halfWidthExtents__0', halfWidthExtents__1'",
    "OrientedBoundingBox.toAxisAlignedBoundingBox_f2 (aabb__centerPosition__0 aabb__centerPosition__1 aabb__halfWidthExtents__0 aabb__halfWidthExtents__1 rotation__0_0 rotation__0_1 rotation__1_0 rotation__1_1) result: ret_centerPosition__0, ret_centerPosition__1, ret_halfWidthExtents__0, ret_halfWidthExtents__1",
    "Interval.include_f3 (interval_lower__0 interval_lower__1 interval_lower__2 interval_upper__0 interval_upper__1 interval_upper__2 lower__0 lower__1 lower__2 upper__0 upper__1 upper__2) result: lower__0', lower__1', lower__2', upper__0', upper__1', upper__2'",
    "Interval.inside_f3 (lower__0 lower__1 lower__2 upper__0 upper__1 upper__2 val_0 val_1 val_2) result: ret",
    "Interval.center_f32_2 (lower__0 lower__1 lower__2 upper__0 upper__1 upper__2) result: ret_0, ret_1, ret_2",
    "Interval.width_f32_2 (lower__0 lower__1 lower__2 upper__0 upper__1 upper__2) result: ret_0, ret_1, ret_2",
    "AxisAlignedBoundingBox.AxisAlignedBoundingBox_interval_f3 (extremities_lower__0 extremities_lower__1 extremities_lower__2 extremities_upper__0 extremities_upper__1 extremities_upper__2) result: centerPosition__0', centerPosition__1', centerPosition__2', halfWidthExtents__0', halfWidthExtents__1', halfWidthExtents__2'",
    "Interval.Interval_f32_2 (lower_0 lower_1 lower_2 upper_0 upper_1 upper_2) result: lower__0', lower__1', lower__2', upper__0', upper__1', upper__2'",
    "AxisAlignedBoundingBox.toInterval_f3 (centerPosition__0 centerPosition__1 centerPosition__2 halfWidthExtents__0 halfWidthExtents__1 halfWidthExtents__2) result: ret_lower__0, ret_lower__1, ret_lower__2, ret_upper__0, ret_upper__1, ret_upper__2",
    "AxisAlignedBoundingBox.isInside_f3 (centerPosition__0 centerPosition__1 centerPosition__2 halfWidthExtents__0 halfWidthExtents__1 halfWidthExtents__2 point_0 point_1 point_2) result: ret",
    "OrientedBoundingBox.isInside_f3 (aabb__centerPosition__0 aabb__centerPosition__1 aabb__centerPosition__2 aabb__halfWidthExtents__0 aabb__halfWidthExtents__1 aabb__halfWidthExtents__2 point_0 point_1 point_2 rotation__0_0 rotation__0_1 rotation__0_2 rotation__1_0 rotation__1_1 rotation__1_2 rotation__2_0 rotation__2_1 rotation__2_2) result: ret",
    "AxisAlignedBoundingBox.AxisAlignedBoundingBox_f32_2 (centerPosition_0 centerPosition_1 centerPosition_2 halfWidthExtents_0 halfWidthExtents_1 halfWidthExtents_2) result: centerPosition__0', centerPosition__1', centerPosition__2', halfWidthExtents__0', halfWidthExtents__1', halfWidthExtents__2'",
    "OrientedBoundingBox.toAxisAlignedBoundingBox_f3 (aabb__centerPosition__0 aabb__centerPosition__1 aabb__centerPosition__2 aabb__halfWidthExtents__0 aabb__halfWidthExtents__1 aabb__halfWidthExtents__2 rotation__0_0 rotation__0_1 rotation__0_2 rotation__1_0 rotation__1_1 rotation__1_2 rotation__2_0 rotation__2_1 rotation__2_2) result: ret_centerPosition__0, ret_centerPosition__1, ret_centerPosition__2, ret_halfWidthExtents__0, ret_halfWidthExtents__1, ret_halfWidthExtents__2",
    "Interval.lower (lower_) result: ret",
    "Interval.upper (upper_) result: ret",
    "Interval.include_d1 (interval_lower_ interval_upper_ lower_ upper_) result: lower_', upper_'",
    "Interval.inside_d1 (lower_ upper_ val) result: ret",
    "vecGet? (v i)",
    "PointSetPreconditioner.compute_2d.loop1 (N points) carried: n, pointSetMax__0, pointSetMax__1, pointSetMean__0, pointSetMean__1, pointSetMin__0, pointSetMin__1",
    "PointSetPreconditioner.compute_2d (points) result: pointSetMax__0', pointSetMax__1', pointSetMean__0', pointSetMean__1', pointSetMin__0', pointSetMin__1', scale_', translation__0', translation__1' (none = a partial operation failed: index outside a vector)",
    "PointSetPreconditioner.compute_3d.loop1 (N points) carried: n, pointSetMax__0, pointSetMax__1, pointSetMax__2, pointSetMean__0, pointSetMean__1, pointSetMean__2, pointSetMin__0, pointSetMin__1, pointSetMin__2",
    "PointSetPreconditioner.compute_3d (points) result: pointSetMax__0', pointSetMax__1', pointSetMax__2', pointSetMean__0', pointSetMean__1', pointSetMean__2', pointSetMin__0', pointSetMin__1', pointSetMin__2', scale_', translation__0', translation__1', translation__2' (none = a partial operation failed: index outside a vector)",
    "PointSetPreconditioner.compute_2f.loop1 (N points) carried: n, pointSetMax__0, pointSetMax__1, pointSetMean__0, pointSetMean__1, pointSetMin__0, pointSetMin__1",
    "PointSetPreconditioner.compute_2f (points) result: pointSetMax__0', pointSetMax__1', pointSetMean__0', pointSetMean__1', pointSetMin__0', pointSetMin__1', scale_', translation__0', translation__1' (none = a partial operation failed: index outside a vector)",
    "PointSetPreconditioner.compute_3f.loop1 (N points) carried: n, pointSetMax__0, pointSetMax__1, pointSetMax__2, pointSetMean__0, pointSetMean__1, pointSetMean__2, pointSetMin__0, pointSetMin__1, pointSetMin__2",
    "PointSetPreconditioner.compute_3f (points) result: pointSetMax__0', pointSetMax__1', pointSetMax__2', pointSetMean__0', pointSetMean__1', pointSetMean__2', pointSetMin__0', pointSetMin__1', pointSetMin__2', scale_', translation__0', translation__1', translation__2' (none = a partial operation failed: index outside a vector)",
    "PointSetPreconditioner.compute_h2d.loop1 (N points) carried: n, pointSetMax__0, pointSetMax__1, pointSetMax__2, pointSetMean__0, pointSetMean__1, pointSetMean__2, pointSetMin__0, pointSetMin__1, pointSetMin__2",
    "PointSetPreconditioner.compute_h2d (points) result: pointSetMax__0', pointSetMax__1', pointSetMax__2', pointSetMean__0', pointSetMean__1', pointSetMean__2', pointSetMin__0', pointSetMin__1', pointSetMin__2', scale_', translation__0', translation__1' (none = a partial operation failed: index outside a vector)",
    "PointSetPreconditioner.compute_h3d.loop1 (N points) carried: n, pointSetMax__0, pointSetMax__1, pointSetMax__2, pointSetMax__3, pointSetMean__0, pointSetMean__1, pointSetMean__2, pointSetMean__3, pointSetMin__0, pointSetMin__1, pointSetMin__2, pointSetMin__3",
    "PointSetPreconditioner.compute_h3d (points) result: pointSetMax__0', pointSetMax__1', pointSetMax__2', pointSetMax__3', pointSetMean__0', pointSetMean__1', pointSetMean__2', pointSetMean__3', pointSetMin__0', pointSetMin__1', pointSetMin__2', pointSetMin__3', scale_', translation__0', translation__1', translation__2' (none = a partial operation failed: index outside a vector)",
    "PointSetPreconditioner.compute_h2f.loop1 (N points) carried: n, pointSetMax__0, pointSetMax__1, pointSetMax__2, pointSetMean__0, pointSetMean__1, pointSetMean__2, pointSetMin__0, pointSetMin__1, pointSetMin__2",
    "PointSetPreconditioner.compute_h2f (points) result: pointSetMax__0', pointSetMax__1', pointSetMax__2', pointSetMean__0', pointSetMean__1', pointSetMean__2', pointSetMin__0', pointSetMin__1', pointSetMin__2', scale_', translation__0', translation__1' (none = a partial operation failed: index outside a vector)",
    "PointSetPreconditioner.compute_h3f.loop1 (N points) carried: n, pointSetMax__0, pointSetMax__1, pointSetMax__2, pointSetMax__3, pointSetMean__0, pointSetMean__1, pointSetMean__2, pointSetMean__3, pointSetMin__0, pointSetMin__1, pointSetMin__2, pointSetMin__3",
    "PointSetPreconditioner.compute_h3f (points) result: pointSetMax__0', pointSetMax__1', pointSetMax__2', pointSetMax__3', pointSetMean__0', pointSetMean__1', pointSetMean__2', pointSetMean__3', pointSetMin__0', pointSetMin__1', pointSetMin__2', pointSetMin__3', scale_', translation__0', translation__1', translation__2' (none = a partial operation failed: index outside a vector)",
    "min_a2d.loop1 () carried: minimalCoordinates_0, minimalCoordinates_1",
    "min_a2d (points) result: ret_0, ret_1",
    "max_a2d.loop1 () carried: maximalCoordinates_0, maximalCoordinates_1",
    "max_a2d (points) result: ret_0, ret_1",
    "mean_v2d.loop1 () carried: meanCoordinates_0, meanCoordinates_1",
    "mean_v2d (points) result: ret_0, ret_1",
    "min_a3d.loop1 () carried: minimalCoordinates_0, minimalCoordinates_1, minimalCoordinates_2",
    "min_a3d (points) result: ret_0, ret_1, ret_2",
    "max_a3d.loop1 () carried: maximalCoordinates_0, maximalCoordinates_1, maximalCoordinates_2",
    "max_a3d (points) result: ret_0, ret_1, ret_2",
    "mean_v3d.loop1 () carried: meanCoordinates_0, meanCoordinates_1, meanCoordinates_2",
    "mean_v3d (points) result: ret_0, ret_1, ret_2",
    "min_a3f.loop1 () carried: minimalCoordinates_0, minimalCoordinates_1, minimalCoordinates_2",
    "min_a3f (points) result: ret_0, ret_1, ret_2",
    "max_a3f.loop1 () carried: maximalCoordinates_0, maximalCoordinates_1, maximalCoordinates_2",
    "max_a3f (points) result: ret_0, ret_1, ret_2",
    "mean_v3f.loop1 () carried: meanCoordinates_0, meanCoordinates_1, meanCoordinates_2",
    "mean_v3f (points) result: ret_0, ret_1, ret_2"] := by rfl

end Romea.Hidden.C20
