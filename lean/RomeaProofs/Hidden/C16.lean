import RomeaModel.Generated.StaticsC16
/-!
# Hidden-state pin for C16

The model of C16 is a function of call arguments and of the members of the objects it describes. `Generated/StaticsC16.lean` is
regenerated from /repo on every check run and lists the function-local `static` / `thread_local` declarations of the anchored
files; this theorem pins that list to what was reviewed when the model was written (each entry below is either a constant
table or state the model accounts for). A new one — a cache shared by all objects of a class, a memo that survives its
object, a shared workspace — breaks this obligation even where no sampled input shows a difference. Hand-maintained:
after reviewing an intended change of the list, regenerate with `python3 tools/hidden_state.py --write-pins`.
-/
namespace Romea.Hidden.C16

theorem hidden_state_as_recorded : Romea.Generated.C16.hiddenState = [] := by rfl

/-- The names (not only the types) of what every translated function reads, carries through its loops and returns are those
    the bridge theorems were written against: a function that now reads or writes ANOTHER member of the same type keeps its Lean
    type, and a positional application in a bridge would keep checking. -/
theorem signatures_as_recorded : Romea.Generated.C16.signatures = [
    "OnlineAverage.OnlineAverage (averagePrecision windowSize) result: average_', data_', index_', multiplier_', sumOfData_', windowSize_'",
    "OnlineAverage.update (data_ index_ multiplier_ sumOfData_ value windowSize_) result: average_', data_', index_', sumOfData_'",
    "OnlineAverage.reset () result: average_', data_', index_', sumOfData_'",
    "OnlineAverage.isAvailable (data_ windowSize_) result: ret",
    "OnlineAverage.getAverage (average_) result: ret",
    "OnlineVariance.OnlineVariance (averagePrecision windowSize) result: average_', data_', index_', multiplier_', squaredData_', squaredMultiplier_', sumOfData_', sumOfSquaredData_', variance_', windowSizeMinusOne_', windowSize_'",
    "OnlineVariance.update (data_ index_ multiplier_ squaredData_ squaredMultiplier_ sumOfData_ sumOfSquaredData_ value windowSizeMinusOne_ windowSize_) result: average_', data_', index_', squaredData_', sumOfData_', sumOfSquaredData_', variance_'",
    "OnlineVariance.reset () result: average_', data_', index_', squaredData_', sumOfData_', sumOfSquaredData_', variance_'",
    "OnlineVariance.getVariance (variance_) result: ret",
    "RingOfEigenVector.RingOfEigenVector (ringSize) result: ringIndex_', ringSize_', ring_'",
    "RingOfEigenVector.append (position ringIndex_ ringSize_ ring_) result: ringIndex_', ring_'",
    "RingOfEigenVector.clear () result: ringIndex_', ring_'",
    "RingOfEigenVector.size (ring_) result: ret",
    "RingOfEigenVector.operator_index (n ringIndex_ ring_) result: ret",
    "OnlineAverage.OnlineAverage_1 (averagePrecision) result: average_', data_', index_', multiplier_', sumOfData_', windowSize_'",
    "OnlineAverage.OnlineAverage_copy (onlineAverage_average_ onlineAverage_data_ onlineAverage_index_ onlineAverage_multiplier_ onlineAverage_sumOfData_ onlineAverage_windowSize_) result: average_', data_', index_', multiplier_', sumOfData_', windowSize_'",
    "OnlineAverage.setWindowSize (data_ windowSize) result: windowSize_'",
    "OnlineAverage.getWindowSize (windowSize_) result: ret",
    "OnlineVariance.OnlineVariance_1 (averagePrecision) result: average_', data_', index_', multiplier_', squaredData_', squaredMultiplier_', sumOfData_', sumOfSquaredData_', variance_', windowSizeMinusOne_', windowSize_'",
    "OnlineVariance.OnlineVariance_copy (onlineVariance_average_ onlineVariance_data_ onlineVariance_index_ onlineVariance_multiplier_ onlineVariance_squaredData_ onlineVariance_squaredMultiplier_ onlineVariance_sumOfData_ onlineVariance_sumOfSquaredData_ onlineVariance_variance_ onlineVariance_windowSizeMinusOne_ onlineVariance_windowSize_) result: average_', data_', index_', multiplier_', squaredData_', squaredMultiplier_', sumOfData_', sumOfSquaredData_', variance_', windowSizeMinusOne_', windowSize_'",
    "OnlineVariance.setWindowSize (data_ squaredData_ windowSize) result: windowSizeMinusOne_', windowSize_'"] := by rfl

end Romea.Hidden.C16
