import RomeaModel.Generated.StaticsC16
/-!
# Hidden-state pin for C16

The model of C16 is a function of call arguments and of the members of the objects it describes. `Generated/StaticsC16.lean` is
regenerated from /repo on every check run and lists the function-local `static` / `thread_local` declarations of the anchored
files; this theorem pins that list to what was reviewed when the model was written (each entry below is either a constant
table or state the model accounts for). A new one — a cache shared by all objects of a class, a memo that survives its
object, a shared workspace — breaks this obligation even where no sampled input shows a difference. Hand-maintained:
after reviewing an intended change of the list, regenerate with `python3 tools/hidden_state.py --write-pins`.
-/
namespace Romea.Hidden.C16

theorem hidden_state_as_recorded : Romea.Generated.C16.hiddenState = [] := by rfl

end Romea.Hidden.C16
