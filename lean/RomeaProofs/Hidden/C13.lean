import RomeaModel.Generated.StaticsC13
/-!
# Hidden-state pin for C13

The model of C13 is a function of call arguments and of the members of the objects it describes. `Generated/StaticsC13.lean` is
regenerated from /repo on every check run and lists the function-local `static` / `thread_local` declarations of the anchored
files; this theorem pins that list to what was reviewed when the model was written (each entry below is either a constant
table or state the model accounts for). A new one — a cache shared by all objects of a class, a memo that survives its
object, a shared workspace — breaks this obligation even where no sampled input shows a difference. Hand-maintained:
after reviewing an intended change of the list, regenerate with `python3 tools/hidden_state.py --write-pins`.
-/
namespace Romea.Hidden.C13

theorem hidden_state_as_recorded : Romea.Generated.C13.hiddenState = [] := by rfl

/-- The names (not only the types) of what every translated function reads, carries through its loops and returns are those
    the bridge theorems were written against: a function that now reads or writes ANOTHER member of the same type keeps its Lean
    type, and a positional application in a bridge would keep checking. -/
theorem signatures_as_recorded : Romea.Generated.C13.signatures = [
    "vecResize (v n z)",
    "vecSet? (v i x)",
    "GridIndexMapping.GridIndexMapping_interval_d2.loop1 (cellResolution_ flooredMinimalPositionAlongAxes__0 numberOfCellsAlongAxes__0) carried: cellCentersPositionAlongAxes__0, n",
    "GridIndexMapping.GridIndexMapping_interval_d2.loop2 (cellResolution_ flooredMinimalPositionAlongAxes__1 numberOfCellsAlongAxes__1) carried: cellCentersPositionAlongAxes__1, n",
    "GridIndexMapping.GridIndexMapping_interval_d2 (cellResolution extrimities_lower__0 extrimities_lower__1 extrimities_upper__0 extrimities_upper__1) result: cellCentersPositionAlongAxes__0', cellCentersPositionAlongAxes__1', cellResolution_', flooredMinimalPositionAlongAxes__0', flooredMinimalPositionAlongAxes__1', numberOfCellsAlongAxes__0', numberOfCellsAlongAxes__1' (none = a partial operation failed: index outside a vector)",
    "Interval.Interval (lower_0 lower_1 upper_0 upper_1) result: lower__0', lower__1', upper__0', upper__1'",
    "GridIndexMapping.GridIndexMapping_range_d2 (cellResolution maximalRange) result: cellCentersPositionAlongAxes__0', cellCentersPositionAlongAxes__1', cellResolution_', flooredMinimalPositionAlongAxes__0', flooredMinimalPositionAlongAxes__1', numberOfCellsAlongAxes__0', numberOfCellsAlongAxes__1' (none = a partial operation failed: index outside a vector)",
    "GridIndexMapping.computeCellIndexes_d2 (cellResolution_ flooredMinimalPositionAlongAxes__0 flooredMinimalPositionAlongAxes__1 point_0 point_1) result: ret_0, ret_1",
    "vecGet? (v i)",
    "GridIndexMapping.computeCellCenterPosition_d2 (cellCentersPositionAlongAxes__0 cellCentersPositionAlongAxes__1 cellIndexes_0 cellIndexes_1) result: ret_0, ret_1 (none = a partial operation failed: index outside a vector)",
    "GridIndexMapping.GridIndexMapping_interval_d3.loop1 (cellResolution_ flooredMinimalPositionAlongAxes__0 numberOfCellsAlongAxes__0) carried: cellCentersPositionAlongAxes__0, n",
    "GridIndexMapping.GridIndexMapping_interval_d3.loop2 (cellResolution_ flooredMinimalPositionAlongAxes__1 numberOfCellsAlongAxes__1) carried: cellCentersPositionAlongAxes__1, n",
    "GridIndexMapping.GridIndexMapping_interval_d3.loop3 (cellResolution_ flooredMinimalPositionAlongAxes__2 numberOfCellsAlongAxes__2) carried: cellCentersPositionAlongAxes__2, n",
    "GridIndexMapping.GridIndexMapping_interval_d3 (cellResolution extrimities_lower__0 extrimities_lower__1 extrimities_lower__2 extrimities_upper__0 extrimities_upper__1 extrimities_upper__2) result: cellCentersPositionAlongAxes__0', cellCentersPositionAlongAxes__1', cellCentersPositionAlongAxes__2', cellResolution_', flooredMinimalPositionAlongAxes__0', flooredMinimalPositionAlongAxes__1', flooredMinimalPositionAlongAxes__2', numberOfCellsAlongAxes__0', numberOfCellsAlongAxes__1', numberOfCellsAlongAxes__2' (none = a partial operation failed: index outside a vector)",
    "Interval.Interval_2 (lower_0 lower_1 lower_2 upper_0 upper_1 upper_2) result: lower__0', lower__1', lower__2', upper__0', upper__1', upper__2'",
    "GridIndexMapping.GridIndexMapping_range_d3 (cellResolution maximalRange) result: cellCentersPositionAlongAxes__0', cellCentersPositionAlongAxes__1', cellCentersPositionAlongAxes__2', cellResolution_', flooredMinimalPositionAlongAxes__0', flooredMinimalPositionAlongAxes__1', flooredMinimalPositionAlongAxes__2', numberOfCellsAlongAxes__0', numberOfCellsAlongAxes__1', numberOfCellsAlongAxes__2' (none = a partial operation failed: index outside a vector)",
    "GridIndexMapping.computeCellIndexes_d3 (cellResolution_ flooredMinimalPositionAlongAxes__0 flooredMinimalPositionAlongAxes__1 flooredMinimalPositionAlongAxes__2 point_0 point_1 point_2) result: ret_0, ret_1, ret_2",
    "GridIndexMapping.computeCellCenterPosition_d3 (cellCentersPositionAlongAxes__0 cellCentersPositionAlongAxes__1 cellCentersPositionAlongAxes__2 cellIndexes_0 cellIndexes_1 cellIndexes_2) result: ret_0, ret_1, ret_2 (none = a partial operation failed: index outside a vector)",
    "GridIndexMapping.GridIndexMapping_interval_f2.loop1 (cellResolution_ flooredMinimalPositionAlongAxes__0 numberOfCellsAlongAxes__0) carried: cellCentersPositionAlongAxes__0, n",
    "GridIndexMapping.GridIndexMapping_interval_f2.loop2 (cellResolution_ flooredMinimalPositionAlongAxes__1 numberOfCellsAlongAxes__1) carried: cellCentersPositionAlongAxes__1, n",
    "GridIndexMapping.GridIndexMapping_interval_f2 (cellResolution extrimities_lower__0 extrimities_lower__1 extrimities_upper__0 extrimities_upper__1) result: cellCentersPositionAlongAxes__0', cellCentersPositionAlongAxes__1', cellResolution_', flooredMinimalPositionAlongAxes__0', flooredMinimalPositionAlongAxes__1', numberOfCellsAlongAxes__0', numberOfCellsAlongAxes__1' (none = a partial operation failed: index outside a vector)",
    "Interval.Interval_f32 (lower_0 lower_1 upper_0 upper_1) result: lower__0', lower__1', upper__0', upper__1'",
    "GridIndexMapping.GridIndexMapping_range_f2 (cellResolution maximalRange) result: cellCentersPositionAlongAxes__0', cellCentersPositionAlongAxes__1', cellResolution_', flooredMinimalPositionAlongAxes__0', flooredMinimalPositionAlongAxes__1', numberOfCellsAlongAxes__0', numberOfCellsAlongAxes__1' (none = a partial operation failed: index outside a vector)",
    "GridIndexMapping.computeCellIndexes_f2 (cellResolution_ flooredMinimalPositionAlongAxes__0 flooredMinimalPositionAlongAxes__1 point_0 point_1) result: ret_0, ret_1",
    "GridIndexMapping.computeCellCenterPosition_f2 (cellCentersPositionAlongAxes__0 cellCentersPositionAlongAxes__1 cellIndexes_0 cellIndexes_1) result: ret_0, ret_1 (none = a partial operation failed: index outside a vector)",
    "GridIndexMapping.GridIndexMapping_interval_f3.loop1 (cellResolution_ flooredMinimalPositionAlongAxes__0 numberOfCellsAlongAxes__0) carried: cellCentersPositionAlongAxes__0, n",
    "GridIndexMapping.GridIndexMapping_interval_f3.loop2 (cellResolution_ flooredMinimalPositionAlongAxes__1 numberOfCellsAlongAxes__1) carried: cellCentersPositionAlongAxes__1, n",
    "GridIndexMapping.GridIndexMapping_interval_f3.loop3 (cellResolution_ flooredMinimalPositionAlongAxes__2 numberOfCellsAlongAxes__2) carried: cellCentersPositionAlongAxes__2, n",
    "GridIndexMapping.GridIndexMapping_interval_f3 (cellResolution extrimities_lower__0 extrimities_lower__1 extrimities_lower__2 extrimities_upper__0 extrimities_upper__1 extrimities_upper__2) result: cellCentersPositionAlongAxes__0', cellCentersPositionAlongAxes__1', cellCentersPositionAlongAxes__2', cellResolution_', flooredMinimalPositionAlongAxes__0', flooredMinimalPositionAlongAxes__1', flooredMinimalPositionAlongAxes__2', numberOfCellsAlongAxes__0', numberOfCellsAlongAxes__1', numberOfCellsAlongAxes__2' (none = a partial operation failed: index outside a vector)",
    "Interval.Interval_f32_2 (lower_0 lower_1 lower_2 upper_0 upper_1 upper_2) result: lower__0', lower__1', lower__2', upper__0', upper__1', upper__2'",
    "GridIndexMapping.GridIndexMapping_range_f3 (cellResolution maximalRange) result: cellCentersPositionAlongAxes__0', cellCentersPositionAlongAxes__1', cellCentersPositionAlongAxes__2', cellResolution_', flooredMinimalPositionAlongAxes__0', flooredMinimalPositionAlongAxes__1', flooredMinimalPositionAlongAxes__2', numberOfCellsAlongAxes__0', numberOfCellsAlongAxes__1', numberOfCellsAlongAxes__2' (none = a partial operation failed: index outside a vector)",
    "GridIndexMapping.computeCellIndexes_f3 (cellResolution_ flooredMinimalPositionAlongAxes__0 flooredMinimalPositionAlongAxes__1 flooredMinimalPositionAlongAxes__2 point_0 point_1 point_2) result: ret_0, ret_1, ret_2",
    "GridIndexMapping.computeCellCenterPosition_f3 (cellCentersPositionAlongAxes__0 cellCentersPositionAlongAxes__1 cellCentersPositionAlongAxes__2 cellIndexes_0 cellIndexes_1 cellIndexes_2) result: ret_0, ret_1, ret_2 (none = a partial operation failed: index outside a vector)"] := by rfl

end Romea.Hidden.C13
