import RomeaModel.Generated.StaticsC02
/-!
# Hidden-state pin for C02

The model of C02 is a function of call arguments and of the members of the objects it describes. `Generated/StaticsC02.lean` is
regenerated from /repo on every check run and lists the function-local `static` / `thread_local` declarations of the anchored
files; this theorem pins that list to what was reviewed when the model was written (each entry below is either a constant
table or state the model accounts for). A new one — a cache shared by all objects of a class, a memo that survives its
object, a shared workspace — breaks this obligation even where no sampled input shows a difference. Hand-maintained:
after reviewing an intended change of the list, regenerate with `python3 tools/hidden_state.py --write-pins`.
-/
namespace Romea.Hidden.C02

theorem hidden_state_as_recorded : Romea.Generated.C02.hiddenState = [] := by rfl

/-- The names (not only the types) of what every translated function reads, carries through its loops and returns are those
    the bridge theorems were written against: a function that now reads or writes ANOTHER member of the same type keeps its Lean
    type, and a positional application in a bridge would keep checking. -/
theorem signatures_as_recorded : Romea.Generated.C02.signatures = [
    "ENUConverter.ENUConverter () result: enu2ecef__0_0', enu2ecef__0_1', enu2ecef__0_2', enu2ecef__0_3', enu2ecef__1_0', enu2ecef__1_1', enu2ecef__1_2', enu2ecef__1_3', enu2ecef__2_0', enu2ecef__2_1', enu2ecef__2_2', enu2ecef__2_3', enu2ecef__3_0', enu2ecef__3_1', enu2ecef__3_2', enu2ecef__3_3', isAnchored_', wgs84Anchor__altitude', wgs84Anchor__latitude', wgs84Anchor__longitude'",
    "ECEFConverter.toECEF (ellipsoid__a ellipsoid__e2 geodeticCoordinates_altitude geodeticCoordinates_latitude geodeticCoordinates_longitude) result: ret_0, ret_1, ret_2",
    "ENUConverter.setAnchor (anchor_altitude anchor_latitude anchor_longitude ecefConverter__ellipsoid__a ecefConverter__ellipsoid__e2) result: enu2ecef__0_0', enu2ecef__0_1', enu2ecef__0_2', enu2ecef__0_3', enu2ecef__1_0', enu2ecef__1_1', enu2ecef__1_2', enu2ecef__1_3', enu2ecef__2_0', enu2ecef__2_1', enu2ecef__2_2', enu2ecef__2_3', isAnchored_', wgs84Anchor__altitude', wgs84Anchor__latitude', wgs84Anchor__longitude'",
    "ENUConverter.reset () result: enu2ecef__0_0', enu2ecef__0_1', enu2ecef__0_2', enu2ecef__0_3', enu2ecef__1_0', enu2ecef__1_1', enu2ecef__1_2', enu2ecef__1_3', enu2ecef__2_0', enu2ecef__2_1', enu2ecef__2_2', enu2ecef__2_3', enu2ecef__3_0', enu2ecef__3_1', enu2ecef__3_2', enu2ecef__3_3', isAnchored_'",
    "ENUConverter.isAnchored (isAnchored_) result: ret",
    "ENUConverter.toECEF_v (enu2ecef__0_0 enu2ecef__0_1 enu2ecef__0_2 enu2ecef__0_3 enu2ecef__1_0 enu2ecef__1_1 enu2ecef__1_2 enu2ecef__1_3 enu2ecef__2_0 enu2ecef__2_1 enu2ecef__2_2 enu2ecef__2_3 enuPosition_0 enuPosition_1 enuPosition_2) result: ret_0, ret_1, ret_2",
    "ENUConverter.toECEF_xyz (enu2ecef__0_0 enu2ecef__0_1 enu2ecef__0_2 enu2ecef__0_3 enu2ecef__1_0 enu2ecef__1_1 enu2ecef__1_2 enu2ecef__1_3 enu2ecef__2_0 enu2ecef__2_1 enu2ecef__2_2 enu2ecef__2_3 xNorth yEast zDown) result: ret_0, ret_1, ret_2",
    "EPSILON (OfScientific.ofScientific 1 true 11)",
    "makeGeodeticCoordinates (altitude latitude longitude) result: ret_altitude, ret_latitude, ret_longitude",
    "ECEFConverter.toWGS84.loop1 (Z ellipsoid__a ellipsoid__e2 norm) carried: delta, latitude",
    "ECEFConverter.toWGS84 (fuel ecefPosition_0 ecefPosition_1 ecefPosition_2 ellipsoid__a ellipsoid__e2) result: ret_altitude, ret_latitude, ret_longitude (none = fuel exhausted)",
    "ENUConverter.toWGS84_v (fuel ecefConverter__ellipsoid__a ecefConverter__ellipsoid__e2 enu2ecef__0_0 enu2ecef__0_1 enu2ecef__0_2 enu2ecef__0_3 enu2ecef__1_0 enu2ecef__1_1 enu2ecef__1_2 enu2ecef__1_3 enu2ecef__2_0 enu2ecef__2_1 enu2ecef__2_2 enu2ecef__2_3 enuPosition_0 enuPosition_1 enuPosition_2) result: ret_altitude, ret_latitude, ret_longitude (none = fuel exhausted)",
    "ENUConverter.toWGS84_xyz (fuel ecefConverter__ellipsoid__a ecefConverter__ellipsoid__e2 enu2ecef__0_0 enu2ecef__0_1 enu2ecef__0_2 enu2ecef__0_3 enu2ecef__1_0 enu2ecef__1_1 enu2ecef__1_2 enu2ecef__1_3 enu2ecef__2_0 enu2ecef__2_1 enu2ecef__2_2 enu2ecef__2_3 xNorth yEast zDown) result: ret_altitude, ret_latitude, ret_longitude (none = fuel exhausted)",
    "ENUConverter.toENU_v (ecefCoordinates_0 ecefCoordinates_1 ecefCoordinates_2 enu2ecef__0_0 enu2ecef__0_1 enu2ecef__0_2 enu2ecef__0_3 enu2ecef__1_0 enu2ecef__1_1 enu2ecef__1_2 enu2ecef__1_3 enu2ecef__2_0 enu2ecef__2_1 enu2ecef__2_2 enu2ecef__2_3) result: ret_0, ret_1, ret_2",
    "ENUConverter.toENU_geo (ecefConverter__ellipsoid__a ecefConverter__ellipsoid__e2 enu2ecef__0_0 enu2ecef__0_1 enu2ecef__0_2 enu2ecef__0_3 enu2ecef__1_0 enu2ecef__1_1 enu2ecef__1_2 enu2ecef__1_3 enu2ecef__2_0 enu2ecef__2_1 enu2ecef__2_2 enu2ecef__2_3 geodeticCoordinates_altitude geodeticCoordinates_latitude geodeticCoordinates_longitude isAnchored_ wgs84Anchor__altitude wgs84Anchor__latitude wgs84Anchor__longitude) result: ret_0, ret_1, ret_2, enu2ecef__0_0', enu2ecef__0_1', enu2ecef__0_2', enu2ecef__0_3', enu2ecef__1_0', enu2ecef__1_1', enu2ecef__1_2', enu2ecef__1_3', enu2ecef__2_0', enu2ecef__2_1', enu2ecef__2_2', enu2ecef__2_3', isAnchored_', wgs84Anchor__altitude', wgs84Anchor__latitude', wgs84Anchor__longitude'",
    "makeGeodeticCoordinates_2 (altitude wgs84Coordinates_latitude wgs84Coordinates_longitude) result: ret_altitude, ret_latitude, ret_longitude",
    "ENUConverter.toENU_wgs (ecefConverter__ellipsoid__a ecefConverter__ellipsoid__e2 enu2ecef__0_0 enu2ecef__0_1 enu2ecef__0_2 enu2ecef__0_3 enu2ecef__1_0 enu2ecef__1_1 enu2ecef__1_2 enu2ecef__1_3 enu2ecef__2_0 enu2ecef__2_1 enu2ecef__2_2 enu2ecef__2_3 isAnchored_ wgs84Anchor__altitude wgs84Anchor__latitude wgs84Anchor__longitude wgs84Coordinates_latitude wgs84Coordinates_longitude) result: ret_0, ret_1, ret_2, enu2ecef__0_0', enu2ecef__0_1', enu2ecef__0_2', enu2ecef__0_3', enu2ecef__1_0', enu2ecef__1_1', enu2ecef__1_2', enu2ecef__1_3', enu2ecef__2_0', enu2ecef__2_1', enu2ecef__2_2', enu2ecef__2_3', isAnchored_', wgs84Anchor__altitude', wgs84Anchor__latitude', wgs84Anchor__longitude'"] := by rfl

end Romea.Hidden.C02
