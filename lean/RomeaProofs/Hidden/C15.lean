import RomeaModel.Generated.StaticsC15
/-!
# Hidden-state pin for C15

The model of C15 is a function of call arguments and of the members of the objects it describes. `Generated/StaticsC15.lean` is
regenerated from /repo on every check run and lists the function-local `static` / `thread_local` declarations of the anchored
files; this theorem pins that list to what was reviewed when the model was written (each entry below is either a constant
table or state the model accounts for). A new one — a cache shared by all objects of a class, a memo that survives its
object, a shared workspace — breaks this obligation even where no sampled input shows a difference. Hand-maintained:
after reviewing an intended change of the list, regenerate with `python3 tools/hidden_state.py --write-pins`.
-/
namespace Romea.Hidden.C15

theorem hidden_state_as_recorded : Romea.Generated.C15.hiddenState = [] := by rfl

/-- The names (not only the types) of what every translated function reads, carries through its loops and returns are those
    the bridge theorems were written against: a function that now reads or writes ANOTHER member of the same type keeps its Lean
    type, and a positional application in a bridge would keep checking. -/
theorem signatures_as_recorded : Romea.Generated.C15.signatures = [
    "Grid.init_2 (buffer_ numberOfCellsAlongAxes_0 numberOfCellsAlongAxes_1) result: buffer_', indexCoefficients__0', indexCoefficients__1', numberOfCellsAlongAxes__0', numberOfCellsAlongAxes__1'",
    "Grid.init_3 (buffer_ numberOfCellsAlongAxes_0 numberOfCellsAlongAxes_1 numberOfCellsAlongAxes_2) result: buffer_', indexCoefficients__0', indexCoefficients__1', indexCoefficients__2', numberOfCellsAlongAxes__0', numberOfCellsAlongAxes__1', numberOfCellsAlongAxes__2'",
    "WrappableGrid.wrapCellIndexes__2 (cellIndexes_0 cellIndexes_1 indexOffsetsAlongAxes__0 indexOffsetsAlongAxes__1 numberOfCellsAlongAxes__0 numberOfCellsAlongAxes__1) result: ret_0, ret_1",
    "WrappableGrid.wrapCellIndexes__3 (cellIndexes_0 cellIndexes_1 cellIndexes_2 indexOffsetsAlongAxes__0 indexOffsetsAlongAxes__1 indexOffsetsAlongAxes__2 numberOfCellsAlongAxes__0 numberOfCellsAlongAxes__1 numberOfCellsAlongAxes__2) result: ret_0, ret_1, ret_2",
    "WrappableGrid.computeCellLinearIndex__2 (cellIndexes_0 cellIndexes_1 indexCoefficients__0 indexCoefficients__1 indexOffsetsAlongAxes__0 indexOffsetsAlongAxes__1 numberOfCellsAlongAxes__0 numberOfCellsAlongAxes__1) result: ret",
    "WrappableGrid.computeCellLinearIndex__3 (cellIndexes_0 cellIndexes_1 cellIndexes_2 indexCoefficients__0 indexCoefficients__1 indexCoefficients__2 indexOffsetsAlongAxes__0 indexOffsetsAlongAxes__1 indexOffsetsAlongAxes__2 numberOfCellsAlongAxes__0 numberOfCellsAlongAxes__1 numberOfCellsAlongAxes__2) result: ret",
    "WrappableGrid.translate_2.loop1 (emptyValue firstSlab indexCoefficients__0 indexCoefficients__1 indexOffsetsAlongAxes__0 indexOffsetsAlongAxes__1 lastSlab numberOfCellsAlongAxes__0 numberOfCellsAlongAxes__1) carried: buffer_, cellIndexes_0, cellIndexes_1, done",
    "WrappableGrid.translate_2.loop2 (emptyValue firstSlab indexCoefficients__0 indexCoefficients__1 indexOffsetsAlongAxes__0 indexOffsetsAlongAxes__1 lastSlab numberOfCellsAlongAxes__0 numberOfCellsAlongAxes__1) carried: buffer_, cellIndexes_0, cellIndexes_1, done",
    "WrappableGrid.translate_2.loop3 (emptyValue firstSlab indexCoefficients__0 indexCoefficients__1 indexOffsetsAlongAxes__0 indexOffsetsAlongAxes__1 lastSlab numberOfCellsAlongAxes__0 numberOfCellsAlongAxes__1) carried: buffer_, cellIndexes_0, cellIndexes_1, done",
    "WrappableGrid.translate_2 (fuel buffer_ emptyValue indexCoefficients__0 indexCoefficients__1 indexOffset_0 indexOffset_1 indexOffsetsAlongAxes__0 indexOffsetsAlongAxes__1 numberOfCellsAlongAxes__0 numberOfCellsAlongAxes__1) result: buffer_', indexOffsetsAlongAxes__0', indexOffsetsAlongAxes__1' (none = fuel exhausted)",
    "WrappableGrid.translate_3.loop1 (emptyValue firstSlab indexCoefficients__0 indexCoefficients__1 indexCoefficients__2 indexOffsetsAlongAxes__0 indexOffsetsAlongAxes__1 indexOffsetsAlongAxes__2 lastSlab numberOfCellsAlongAxes__0 numberOfCellsAlongAxes__1 numberOfCellsAlongAxes__2) carried: buffer_, cellIndexes_0, cellIndexes_1, cellIndexes_2, done",
    "WrappableGrid.translate_3.loop2 (emptyValue firstSlab indexCoefficients__0 indexCoefficients__1 indexCoefficients__2 indexOffsetsAlongAxes__0 indexOffsetsAlongAxes__1 indexOffsetsAlongAxes__2 lastSlab numberOfCellsAlongAxes__0 numberOfCellsAlongAxes__1 numberOfCellsAlongAxes__2) carried: buffer_, cellIndexes_0, cellIndexes_1, cellIndexes_2, done",
    "WrappableGrid.translate_3.loop3 (emptyValue firstSlab indexCoefficients__0 indexCoefficients__1 indexCoefficients__2 indexOffsetsAlongAxes__0 indexOffsetsAlongAxes__1 indexOffsetsAlongAxes__2 lastSlab numberOfCellsAlongAxes__0 numberOfCellsAlongAxes__1 numberOfCellsAlongAxes__2) carried: buffer_, cellIndexes_0, cellIndexes_1, cellIndexes_2, done",
    "WrappableGrid.translate_3.loop4 (emptyValue firstSlab indexCoefficients__0 indexCoefficients__1 indexCoefficients__2 indexOffsetsAlongAxes__0 indexOffsetsAlongAxes__1 indexOffsetsAlongAxes__2 lastSlab numberOfCellsAlongAxes__0 numberOfCellsAlongAxes__1 numberOfCellsAlongAxes__2) carried: buffer_, cellIndexes_0, cellIndexes_1, cellIndexes_2, done",
    "WrappableGrid.translate_3.loop5 (emptyValue firstSlab indexCoefficients__0 indexCoefficients__1 indexCoefficients__2 indexOffsetsAlongAxes__0 indexOffsetsAlongAxes__1 indexOffsetsAlongAxes__2 lastSlab numberOfCellsAlongAxes__0 numberOfCellsAlongAxes__1 numberOfCellsAlongAxes__2) carried: buffer_, cellIndexes_0, cellIndexes_1, cellIndexes_2, done",
    "WrappableGrid.translate_3.loop6 (emptyValue firstSlab indexCoefficients__0 indexCoefficients__1 indexCoefficients__2 indexOffsetsAlongAxes__0 indexOffsetsAlongAxes__1 indexOffsetsAlongAxes__2 lastSlab numberOfCellsAlongAxes__0 numberOfCellsAlongAxes__1 numberOfCellsAlongAxes__2) carried: buffer_, cellIndexes_0, cellIndexes_1, cellIndexes_2, done",
    "WrappableGrid.translate_3.loop7 (emptyValue firstSlab indexCoefficients__0 indexCoefficients__1 indexCoefficients__2 indexOffsetsAlongAxes__0 indexOffsetsAlongAxes__1 indexOffsetsAlongAxes__2 lastSlab numberOfCellsAlongAxes__0 numberOfCellsAlongAxes__1 numberOfCellsAlongAxes__2) carried: buffer_, cellIndexes_0, cellIndexes_1, cellIndexes_2, done",
    "WrappableGrid.translate_3 (fuel buffer_ emptyValue indexCoefficients__0 indexCoefficients__1 indexCoefficients__2 indexOffset_0 indexOffset_1 indexOffset_2 indexOffsetsAlongAxes__0 indexOffsetsAlongAxes__1 indexOffsetsAlongAxes__2 numberOfCellsAlongAxes__0 numberOfCellsAlongAxes__1 numberOfCellsAlongAxes__2) result: buffer_', indexOffsetsAlongAxes__0', indexOffsetsAlongAxes__1', indexOffsetsAlongAxes__2' (none = fuel exhausted)",
    "WrappableGrid.operator_call_const_2 (buffer_ cellIndexes_0 cellIndexes_1 indexCoefficients__0 indexCoefficients__1 indexOffsetsAlongAxes__0 indexOffsetsAlongAxes__1 numberOfCellsAlongAxes__0 numberOfCellsAlongAxes__1) result: ret",
    "WrappableGrid.operator_call_const_3 (buffer_ cellIndexes_0 cellIndexes_1 cellIndexes_2 indexCoefficients__0 indexCoefficients__1 indexCoefficients__2 indexOffsetsAlongAxes__0 indexOffsetsAlongAxes__1 indexOffsetsAlongAxes__2 numberOfCellsAlongAxes__0 numberOfCellsAlongAxes__1 numberOfCellsAlongAxes__2) result: ret",
    "WrappableGrid.operator_call_ref_2 (cellIndexes_0 cellIndexes_1 indexCoefficients__0 indexCoefficients__1 indexOffsetsAlongAxes__0 indexOffsetsAlongAxes__1 numberOfCellsAlongAxes__0 numberOfCellsAlongAxes__1) result: ret = the LOCATION returned by reference (index into buffer_)",
    "WrappableGrid.operator_call_ref_3 (cellIndexes_0 cellIndexes_1 cellIndexes_2 indexCoefficients__0 indexCoefficients__1 indexCoefficients__2 indexOffsetsAlongAxes__0 indexOffsetsAlongAxes__1 indexOffsetsAlongAxes__2 numberOfCellsAlongAxes__0 numberOfCellsAlongAxes__1 numberOfCellsAlongAxes__2) result: ret = the LOCATION returned by reference (index into buffer_)",
    "Grid.setValue_2 (buffer_ value) result: buffer_'",
    "Grid.setValue_3 (buffer_ value) result: buffer_'"] := by rfl

end Romea.Hidden.C15
