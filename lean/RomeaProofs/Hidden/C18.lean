import RomeaModel.Generated.StaticsC18
/-!
# Hidden-state pin for C18

The model of C18 is a function of call arguments and of the members of the objects it describes. `Generated/StaticsC18.lean` is
regenerated from /repo on every check run and lists the function-local `static` / `thread_local` declarations of the anchored
files; this theorem pins that list to what was reviewed when the model was written (each entry below is either a constant
table or state the model accounts for). A new one — a cache shared by all objects of a class, a memo that survives its
object, a shared workspace — breaks this obligation even where no sampled input shows a difference. Hand-maintained:
after reviewing an intended change of the list, regenerate with `python3 tools/hidden_state.py --write-pins`.
-/
namespace Romea.Hidden.C18

theorem hidden_state_as_recorded : Romea.Generated.C18.hiddenState = [] := by rfl

/-- The names (not only the types) of what every translated function reads, carries through its loops and returns are those
    the bridge theorems were written against: a function that now reads or writes ANOTHER member of the same type keeps its Lean
    type, and a positional application in a bridge would keep checking. -/
theorem signatures_as_recorded : Romea.Generated.C18.signatures = [
    "worse (status1 status2) result: ret",
    "Checkup.setDiagnostic_ (messageEnd report__info_begin_first status) result: report__diagnostics_front_message', report__diagnostics_front_status'",
    "Checkup.setValue_ (toStringInfoValue value) result: report__info_begin_second'",
    "Checkup.getStatus_ (report__diagnostics_front_status) result: ret",
    "CheckupEqualTo.evaluate (epsilon_ report__info_begin_first toStringInfoValue value value_to_compare_with_) result: ret, report__diagnostics_front_message', report__diagnostics_front_status', report__info_begin_second'",
    "CheckupGreaterThan.evaluate (epsilon_ report__info_begin_first toStringInfoValue value value_to_compare_with_) result: ret, report__diagnostics_front_message', report__diagnostics_front_status', report__info_begin_second'",
    "CheckupLowerThan.evaluate (epsilon_ report__info_begin_first toStringInfoValue value value_to_compare_with_) result: ret, report__diagnostics_front_message', report__diagnostics_front_status', report__info_begin_second'",
    "CheckupReliability.setDiagnostic_ (messageEnd report__info_begin_first status) result: report__diagnostics_front_message', report__diagnostics_front_status'",
    "CheckupReliability.setRelabilityValue_ (reliability toStringInfoValue) result: report__info_begin_second'",
    "CheckupReliability.evaluate (high_reliability_theshold_ low_reliability_theshold_ reliability report__info_begin_first toStringInfoValue) result: ret, report__diagnostics_front_message', report__diagnostics_front_status', report__info_begin_second'",
    "Checkup.timeout (report__info_begin_first) result: report__diagnostics_front_message', report__diagnostics_front_status', report__info_begin_second'",
    "worseStatus.loop1 (diagnostics) carried: it, status",
    "worseStatus (fuel diagnostics) result: ret (none = fuel exhausted)",
    "allOK (fuel diagnostics) result: ret (none = fuel exhausted)",
    "mapInsertNew ()",
    "operator_addAssign (report1_diagnostics report1_info report2_diagnostics report2_info) result: report1_diagnostics', report1_info'"] := by rfl

end Romea.Hidden.C18
