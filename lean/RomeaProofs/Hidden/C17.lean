import RomeaModel.Generated.StaticsC17
/-!
# Hidden-state pin for C17

The model of C17 is a function of call arguments and of the members of the objects it describes. `Generated/StaticsC17.lean` is
regenerated from /repo on every check run and lists the function-local `static` / `thread_local` declarations of the anchored
files; this theorem pins that list to what was reviewed when the model was written (each entry below is either a constant
table or state the model accounts for). A new one — a cache shared by all objects of a class, a memo that survives its
object, a shared workspace — breaks this obligation even where no sampled input shows a difference. Hand-maintained:
after reviewing an intended change of the list, regenerate with `python3 tools/hidden_state.py --write-pins`.
-/
namespace Romea.Hidden.C17

theorem hidden_state_as_recorded : Romea.Generated.C17.hiddenState = [] := by rfl

/-- The names (not only the types) of what every translated function reads, carries through its loops and returns are those
    the bridge theorems were written against: a function that now reads or writes ANOTHER member of the same type keeps its Lean
    type, and a positional application in a bridge would keep checking. -/
theorem signatures_as_recorded : Romea.Generated.C17.signatures = [
    "MINIMAL_WINDOW_SIZE ()",
    "MAXIMAL_WINDOW_SIZE ()",
    "RateMonitoring.initialize (expectedRate) result: windowSize_'",
    "SharedVariable.SharedVariable (value) result: value_'",
    "RateMonitoring.RateMonitoring () result: lastDuration__value_', lastPeriod_', periodsSum_', periods_', rate_', windowSize_'",
    "SharedVariable.load (value_) result: ret",
    "durationToNanoSecond (duration) result: ret",
    "SharedVariable.store (value) result: value_'",
    "RateMonitoring.update (duration lastDuration__value_ periodsSum_ periods_ rate__p windowSize_) result: ret, lastDuration__value_', lastPeriod_', periodsSum_', periods_', rate_'",
    "durationToSecond (duration) result: ret",
    "RateMonitoring.timeout (duration lastDuration__value_ periods_ rate__p) result: ret, rate_'",
    "RateMonitoring.getRate (rate_) result: ret",
    "Checkup.setDiagnostic_ (messageEnd report__info_begin_first status) result: report__diagnostics_front_message', report__diagnostics_front_status'",
    "Checkup.setValue_ (toStringInfoValue value) result: report__info_begin_second'",
    "Checkup.getStatus_ (report__diagnostics_front_status) result: ret",
    "CheckupEqualTo.evaluate (epsilon_ report__info_begin_first toStringInfoValue value value_to_compare_with_) result: ret, report__diagnostics_front_message', report__diagnostics_front_status', report__info_begin_second'",
    "CheckupRate.evaluate_eq (checkup__epsilon_ checkup__report__info_begin_first checkup__value_to_compare_with_ rateMonitoring__lastDuration__value_ rateMonitoring__periodsSum_ rateMonitoring__periods_ rateMonitoring__rate_ rateMonitoring__windowSize_ stamp toStringInfoValue) result: ret, checkup__report__diagnostics_front_message', checkup__report__diagnostics_front_status', checkup__report__info_begin_second', rateMonitoring__lastDuration__value_', rateMonitoring__lastPeriod_', rateMonitoring__periodsSum_', rateMonitoring__periods_', rateMonitoring__rate_'",
    "CheckupGreaterThan.evaluate (epsilon_ report__info_begin_first toStringInfoValue value value_to_compare_with_) result: ret, report__diagnostics_front_message', report__diagnostics_front_status', report__info_begin_second'",
    "CheckupRate.evaluate_gt (checkup__epsilon_ checkup__report__info_begin_first checkup__value_to_compare_with_ rateMonitoring__lastDuration__value_ rateMonitoring__periodsSum_ rateMonitoring__periods_ rateMonitoring__rate_ rateMonitoring__windowSize_ stamp toStringInfoValue) result: ret, checkup__report__diagnostics_front_message', checkup__report__diagnostics_front_status', checkup__report__info_begin_second', rateMonitoring__lastDuration__value_', rateMonitoring__lastPeriod_', rateMonitoring__periodsSum_', rateMonitoring__periods_', rateMonitoring__rate_'",
    "Checkup.timeout (report__info_begin_first) result: report__diagnostics_front_message', report__diagnostics_front_status', report__info_begin_second'",
    "CheckupRate.heartBeatCallback_eq (checkup__report__diagnostics_front_message checkup__report__diagnostics_front_status checkup__report__info_begin_first checkup__report__info_begin_second rateMonitoring__lastDuration__value_ rateMonitoring__periods_ rateMonitoring__rate_ stamp) result: ret, checkup__report__diagnostics_front_message', checkup__report__diagnostics_front_status', checkup__report__info_begin_second', rateMonitoring__rate_'",
    "CheckupRate.heartBeatCallback_gt (checkup__report__diagnostics_front_message checkup__report__diagnostics_front_status checkup__report__info_begin_first checkup__report__info_begin_second rateMonitoring__lastDuration__value_ rateMonitoring__periods_ rateMonitoring__rate_ stamp) result: ret, checkup__report__diagnostics_front_message', checkup__report__diagnostics_front_status', checkup__report__info_begin_second', rateMonitoring__rate_'",
    "RateMonitoring.RateMonitoring_rate (expectedRate) result: lastDuration__value_', lastPeriod_', periodsSum_', periods_', rate_', windowSize_'"] := by rfl

end Romea.Hidden.C17
