import RomeaModel.Generated.StaticsC01
/-!
# Hidden-state pin for C01

The model of C01 is a function of call arguments and of the members of the objects it describes. `Generated/StaticsC01.lean` is
regenerated from /repo on every check run and lists the function-local `static` / `thread_local` declarations of the anchored
files; this theorem pins that list to what was reviewed when the model was written (each entry below is either a constant
table or state the model accounts for). A new one — a cache shared by all objects of a class, a memo that survives its
object, a shared workspace — breaks this obligation even where no sampled input shows a difference. Hand-maintained:
after reviewing an intended change of the list, regenerate with `python3 tools/hidden_state.py --write-pins`.
-/
namespace Romea.Hidden.C01

theorem hidden_state_as_recorded : Romea.Generated.C01.hiddenState = [] := by rfl

/-- The names (not only the types) of what every translated function reads, carries through its loops and returns are those
    the bridge theorems were written against: a function that now reads or writes ANOTHER member of the same type keeps its Lean
    type, and a positional application in a bridge would keep checking. -/
theorem signatures_as_recorded : Romea.Generated.C01.signatures = [
    "EarthEllipsoid.EarthEllipsoid (A B) result: a', b', e', e2'",
    "ECEFConverter.toECEF (ellipsoid__a ellipsoid__e2 geodeticCoordinates_altitude geodeticCoordinates_latitude geodeticCoordinates_longitude) result: ret_0, ret_1, ret_2",
    "EPSILON (OfScientific.ofScientific 1 true 11)",
    "makeGeodeticCoordinates (altitude latitude longitude) result: ret_altitude, ret_latitude, ret_longitude",
    "ECEFConverter.toWGS84.loop1 (Z ellipsoid__a ellipsoid__e2 norm) carried: delta, latitude",
    "ECEFConverter.toWGS84 (fuel ecefPosition_0 ecefPosition_1 ecefPosition_2 ellipsoid__a ellipsoid__e2) result: ret_altitude, ret_latitude, ret_longitude (none = fuel exhausted)"] := by rfl

end Romea.Hidden.C01
