import RomeaModel.Generated.StaticsC03
/-!
# Hidden-state pin for C03

The model of C03 is a function of call arguments and of the members of the objects it describes. `Generated/StaticsC03.lean` is
regenerated from /repo on every check run and lists the function-local `static` / `thread_local` declarations of the anchored
files; this theorem pins that list to what was reviewed when the model was written (each entry below is either a constant
table or state the model accounts for). A new one — a cache shared by all objects of a class, a memo that survives its
object, a shared workspace — breaks this obligation even where no sampled input shows a difference. Hand-maintained:
after reviewing an intended change of the list, regenerate with `python3 tools/hidden_state.py --write-pins`.
-/
namespace Romea.Hidden.C03

theorem hidden_state_as_recorded : Romea.Generated.C03.hiddenState = [] := by rfl

/-- The names (not only the types) of what every translated function reads, carries through its loops and returns are those
    the bridge theorems were written against: a function that now reads or writes ANOTHER member of the same type keeps its Lean
    type, and a positional application in a bridge would keep checking. -/
theorem signatures_as_recorded : Romea.Generated.C03.signatures = [
    "EarthEllipsoid.EarthEllipsoid (A B) result: a', b', e', e2'",
    "LambertConverter.computeIsometricLatitude (e latitude) result: ret",
    "EPSILON (OfScientific.ofScientific 1 true 12)",
    "LambertConverter.computeLatitude.loop1 (e isometricLatitude) carried: latitude",
    "LambertConverter.computeLatitude (fuel e isometricLatitude) result: ret (none = fuel exhausted)",
    "LambertConverter.computeGrandeNormal (a e latitude) result: ret",
    "LambertConverter.computeProjectionParameters_secant (ellipsoid_a ellipsoid_e parameters_latitude0 parameters_latitude1 parameters_latitude2 parameters_longitude0 parameters_x0 parameters_y0) result: ret_c, ret_longitude0, ret_n, ret_xs, ret_ys",
    "LambertConverter.computeProjectionParameters_tangent (ellipsoid_a ellipsoid_e parameters_k0 parameters_latitude0 parameters_longitude0 parameters_x0 parameters_y0) result: ret_c, ret_longitude0, ret_n, ret_xs, ret_ys",
    "LambertConverter.toLambert (c_ e_ longitude0_ n_ wgs84Coordinates_latitude wgs84Coordinates_longitude xs_ ys_) result: ret_0, ret_1",
    "LambertConverter.toWGS84 (fuel c_ e_ longitude0_ n_ position_0 position_1 xs_ ys_) result: ret_latitude, ret_longitude (none = fuel exhausted)"] := by rfl

end Romea.Hidden.C03
