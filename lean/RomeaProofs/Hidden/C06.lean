import RomeaModel.Generated.StaticsC06
/-!
# Hidden-state pin for C06

The model of C06 is a function of call arguments and of the members of the objects it describes. `Generated/StaticsC06.lean` is
regenerated from /repo on every check run and lists the function-local `static` / `thread_local` declarations of the anchored
files; this theorem pins that list to what was reviewed when the model was written (each entry below is either a constant
table or state the model accounts for). A new one — a cache shared by all objects of a class, a memo that survives its
object, a shared workspace — breaks this obligation even where no sampled input shows a difference. Hand-maintained:
after reviewing an intended change of the list, regenerate with `python3 tools/hidden_state.py --write-pins`.
-/
namespace Romea.Hidden.C06

theorem hidden_state_as_recorded : Romea.Generated.C06.hiddenState = [
    "src/transform/estimation/RansacRigidTransformationModel.cpp: RansacRigidTransformationModel<PointType>::getMinimalNumberOfInliers: static size_t minimalNumberOfInliers = 2 * getNumberOfPointsToDrawModel()"] := by rfl

/-- The names (not only the types) of what every translated function reads, carries through its loops and returns are those
    the bridge theorems were written against: a function that now reads or writes ANOTHER member of the same type keeps its Lean
    type, and a positional application in a bridge would keep checking. -/
theorem signatures_as_recorded : Romea.Generated.C06.signatures = [
    "RansacIterations.RansacIterations (fittingProbability maximalNumberOfIterations numberOfPoints) result: logOfFittingOppositeProbability_', numberOfIterations_', oneOverNumberOfPoints_'",
    "EPSILON (Limits.eps)",
    "RansacIterations.update (logOfFittingOppositeProbability_ numberOfInliers numberOfIterations_ numberOfPointsToDrawModel oneOverNumberOfPoints_) result: numberOfIterations_'",
    "RansacIterations.get (numberOfIterations_) result: ret",
    "MAXIMAL_NUMBER_OF_ITERATIONS ()",
    "Ransac.estimateModel.loop1 (countInliers draw modelErrorDeviation_ numberOfPointsToDrawModel ransacIterations_logOfFittingOppositeProbability_ ransacIterations_oneOverNumberOfPoints_) carried: bestNumberOfInliers, iteration, ransacIterations_numberOfIterations_, ransacModel_",
    "Ransac.estimateModel (fuel countInliers draw fittingProbability_ getMinimalNumberOfInliers getNumberOfPoints getNumberOfPointsToDrawModel modelErrorDeviation_ ransacModel_ refine) result: ret, ransacModel_' (none = fuel exhausted)"] := by rfl

end Romea.Hidden.C06
