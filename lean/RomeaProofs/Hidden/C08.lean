import RomeaModel.Generated.StaticsC08
/-!
# Hidden-state pin for C08

The model of C08 is a function of call arguments and of the members of the objects it describes. `Generated/StaticsC08.lean` is
regenerated from /repo on every check run and lists the function-local `static` / `thread_local` declarations of the anchored
files; this theorem pins that list to what was reviewed when the model was written (each entry below is either a constant
table or state the model accounts for). A new one — a cache shared by all objects of a class, a memo that survives its
object, a shared workspace — breaks this obligation even where no sampled input shows a difference. Hand-maintained:
after reviewing an intended change of the list, regenerate with `python3 tools/hidden_state.py --write-pins`.
-/
namespace Romea.Hidden.C08

theorem hidden_state_as_recorded : Romea.Generated.C08.hiddenState = [] := by rfl

/-- The names (not only the types) of what every translated function reads, carries through its loops and returns are those
    the bridge theorems were written against: a function that now reads or writes ANOTHER member of the same type keeps its Lean
    type, and a positional application in a bridge would keep checking. -/
theorem signatures_as_recorded : Romea.Generated.C08.signatures = [
    "KNNResultSet.KNNResultSet (capacity_) result: capacity', count', dists', indices'",
    "KNNResultSet.init (capacity dists_ indices_) result: count', dists', indices'",
    "KNNResultSet.size (count) result: ret",
    "KNNResultSet.full (capacity count) result: ret",
    "KNNResultSet.addPoint.loop1 (capacity dist) carried: dists, i, indices",
    "KNNResultSet.addPoint (fuel capacity count dist dists index indices) result: count', dists', indices' (none = fuel exhausted)",
    "KNNResultSet.worstDist (capacity dists) result: ret",
    "nanoflann.L2_Adaptor.accum_dist (a b) result: ret",
    "nanoflann.L2_Adaptor.operator_call.loop1 (a b_idx kdtree_get_pt lastgroup worst_dist) carried: a_off, d, result, ret_set_1, ret_val_1",
    "nanoflann.L2_Adaptor.operator_call.loop2 (a b_idx kdtree_get_pt last) carried: a_off, d, result",
    "nanoflann.L2_Adaptor.operator_call (fuel a b_idx kdtree_get_pt size worst_dist) result: ret (none = fuel exhausted)"] := by rfl

end Romea.Hidden.C08
