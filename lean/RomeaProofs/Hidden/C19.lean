import RomeaModel.Generated.StaticsC19
/-!
# Hidden-state pin for C19

The model of C19 is a function of call arguments and of the members of the objects it describes. `Generated/StaticsC19.lean` is
regenerated from /repo on every check run and lists the function-local `static` / `thread_local` declarations of the anchored
files; this theorem pins that list to what was reviewed when the model was written (each entry below is either a constant
table or state the model accounts for). A new one — a cache shared by all objects of a class, a memo that survives its
object, a shared workspace — breaks this obligation even where no sampled input shows a difference. Hand-maintained:
after reviewing an intended change of the list, regenerate with `python3 tools/hidden_state.py --write-pins`.
-/
namespace Romea.Hidden.C19

theorem hidden_state_as_recorded : Romea.Generated.C19.hiddenState = [] := by rfl

/-- The names (not only the types) of what every translated function reads, carries through its loops and returns are those
    the bridge theorems were written against: a function that now reads or writes ANOTHER member of the same type keeps its Lean
    type, and a positional application in a bridge would keep checking. -/
theorem signatures_as_recorded : Romea.Generated.C19.signatures = [] := by rfl

end Romea.Hidden.C19
