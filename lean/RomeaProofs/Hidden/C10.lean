import RomeaModel.Generated.StaticsC10
/-!
# Hidden-state pin for C10

The model of C10 is a function of call arguments and of the members of the objects it describes. `Generated/StaticsC10.lean` is
regenerated from /repo on every check run and lists the function-local `static` / `thread_local` declarations of the anchored
files; this theorem pins that list to what was reviewed when the model was written (each entry below is either a constant
table or state the model accounts for). A new one — a cache shared by all objects of a class, a memo that survives its
object, a shared workspace — breaks this obligation even where no sampled input shows a difference. Hand-maintained:
after reviewing an intended change of the list, regenerate with `python3 tools/hidden_state.py --write-pins`.
-/
namespace Romea.Hidden.C10

theorem hidden_state_as_recorded : Romea.Generated.C10.hiddenState = [] := by rfl

/-- The names (not only the types) of what every translated function reads, carries through its loops and returns are those
    the bridge theorems were written against: a function that now reads or writes ANOTHER member of the same type keeps its Lean
    type, and a positional application in a bridge would keep checking. -/
theorem signatures_as_recorded : Romea.Generated.C10.signatures = [
    "M_2PI (2 Trans.pi)",
    "between0And2Pi_f32 (val) result: ret",
    "between0And2Pi (val) result: ret",
    "betweenMinusPiAndPi_f32 (val) result: ret",
    "betweenMinusPiAndPi (val) result: ret",
    "rotation2DToEulerAngle_f32 (rotation_0_0 rotation_0_1 rotation_1_0 rotation_1_1) result: ret",
    "rotation2DToEulerAngle (rotation_0_0 rotation_0_1 rotation_1_0 rotation_1_1) result: ret",
    "rotation3DToEulerAngles_f32 (inRotation_0_0 inRotation_1_0 inRotation_2_0 inRotation_2_1 inRotation_2_2) result: ret_0, ret_1, ret_2",
    "rotation3DToEulerAngles (inRotation_0_0 inRotation_1_0 inRotation_2_0 inRotation_2_1 inRotation_2_2) result: ret_0, ret_1, ret_2",
    "SmartRotation3D.init_R (Rx__0_0 Rx__0_1 Rx__0_2 Rx__1_0 Rx__2_0 Ry__0_1 Ry__1_0 Ry__1_1 Ry__1_2 Ry__2_1 Rz__0_2 Rz__1_2 Rz__2_0 Rz__2_1 Rz__2_2 angleAroundXAxis angleAroundYAxis angleAroundZAxis) result: R__0_0', R__0_1', R__0_2', R__1_0', R__1_1', R__1_2', R__2_0', R__2_1', R__2_2'",
    "PolarCoordinates.PolarCoordinates (azimut range) result: azimut_', range_'",
    "PolarTransform.azimut (point_0 point_1) result: ret",
    "PolarTransform.range (point_0 point_1) result: ret",
    "toPolar (point_0 point_1) result: ret_azimut_, ret_range_",
    "PolarTransform.x_2 (azimut range) result: ret",
    "PolarCoordinates.getAzimut (azimut_) result: ret",
    "PolarCoordinates.getRange (range_) result: ret",
    "PolarTransform.x (point_azimut_ point_range_) result: ret",
    "PolarTransform.y_2 (azimut range) result: ret",
    "PolarTransform.y (point_azimut_ point_range_) result: ret",
    "toCartesian (point_azimut_ point_range_) result: ret_0, ret_1",
    "SphericalTransform.range (point_0 point_1 point_2) result: ret",
    "SphericalCoordinates.SphericalCoordinates (azimut elevation range) result: azimut_', elevation_', range_'",
    "SphericalTransform.azimut (point_0 point_1) result: ret",
    "SphericalTransform.elevation (range z) result: ret",
    "toSpherical (point_0 point_1 point_2) result: ret_azimut_, ret_elevation_, ret_range_",
    "SphericalTransform.x_2 (azimut elevation range) result: ret",
    "SphericalCoordinates.getElevation (elevation_) result: ret",
    "SphericalTransform.x (point_azimut_ point_elevation_ point_range_) result: ret",
    "SphericalTransform.y_2 (azimut elevation range) result: ret",
    "SphericalTransform.y (point_azimut_ point_elevation_ point_range_) result: ret",
    "SphericalTransform.z_2 (elevation range) result: ret",
    "SphericalTransform.z (point_elevation_ point_range_) result: ret",
    "toCartesian_spherical (point_azimut_ point_elevation_ point_range_) result: ret_0, ret_1, ret_2",
    "PolarCoordinates.PolarCoordinates_f32 (azimut range) result: azimut_', range_'",
    "PolarTransform.azimut_f32 (point_0 point_1) result: ret",
    "PolarTransform.range_f32 (point_0 point_1) result: ret",
    "toPolar_f32 (point_0 point_1) result: ret_azimut_, ret_range_",
    "PolarTransform.x_f32_2 (azimut range) result: ret",
    "PolarCoordinates.getAzimut_f32 (azimut_) result: ret",
    "PolarCoordinates.getRange_f32 (range_) result: ret",
    "PolarTransform.x_f32 (point_azimut_ point_range_) result: ret",
    "PolarTransform.y_f32_2 (azimut range) result: ret",
    "PolarTransform.y_f32 (point_azimut_ point_range_) result: ret",
    "toCartesian_f32 (point_azimut_ point_range_) result: ret_0, ret_1",
    "SphericalTransform.range_f32 (point_0 point_1 point_2) result: ret",
    "SphericalCoordinates.SphericalCoordinates_f32 (azimut elevation range) result: azimut_', elevation_', range_'",
    "SphericalTransform.azimut_f32 (point_0 point_1) result: ret",
    "SphericalTransform.elevation_f32 (range z) result: ret",
    "toSpherical_f32 (point_0 point_1 point_2) result: ret_azimut_, ret_elevation_, ret_range_",
    "SphericalTransform.x_f32_2 (azimut elevation range) result: ret",
    "SphericalCoordinates.getElevation_f32 (elevation_) result: ret",
    "SphericalTransform.x_f32 (point_azimut_ point_elevation_ point_range_) result: ret",
    "SphericalTransform.y_f32_2 (azimut elevation range) result: ret",
    "SphericalTransform.y_f32 (point_azimut_ point_elevation_ point_range_) result: ret",
    "SphericalTransform.z_f32_2 (elevation range) result: ret",
    "SphericalTransform.z_f32 (point_elevation_ point_range_) result: ret",
    "toCartesian_spherical_f32 (point_azimut_ point_elevation_ point_range_) result: ret_0, ret_1, ret_2"] := by rfl

end Romea.Hidden.C10
