import RomeaProofs.Bridge.C10
import RomeaProofs.Properties.C10

/-!
# Bridge C10, part 2: headline theorems of `Properties/C10.lean` restated about the functions translated from today's source
(`Romea.Src.C10.*`, regenerated from `/repo` on every run), at the scalar type `ℝ` (where `Scalar ↔ double` conversions are the identity).
-/
namespace Romea.Bridge.C10
open Romea Romea.Rotation Romea.Coordinates Romea.C10

/-- the `double` instantiations at ℝ, unconditionally -/
theorem between0And2Pi_real (x : ℝ) : Src.C10.between0And2Pi x = between0And2Pi x :=
  between0And2Pi_f64_bridge (fun _ => rfl) (fun _ => rfl) x

theorem betweenMinusPiAndPi_real (x : ℝ) : Src.C10.betweenMinusPiAndPi x = betweenMinusPiAndPi x :=
  betweenMinusPiAndPi_f64_bridge (fun _ => rfl) (fun _ => rfl) x

/-- `C10.normaliser_0_2pi` about the translated `between0And2Pi<double>` and `<float>` (at ℝ both scalar types are ℝ) -/
theorem src_normaliser_0_2pi (x : ℝ) (h : -(4 * Real.pi) < x ∧ x < 4 * Real.pi) :
    CongrMod2Pi (Src.C10.between0And2Pi x) x ∧ 0 ≤ Src.C10.between0And2Pi x ∧ Src.C10.between0And2Pi x < 2 * Real.pi ∧
    Src.C10.between0And2Pi_f32 (δ := ℝ) x = Src.C10.between0And2Pi x := by
  rw [between0And2Pi_real, between0And2Pi_f32_bridge]
  exact ⟨(normaliser_0_2pi x h).1, (normaliser_0_2pi x h).2.1, (normaliser_0_2pi x h).2.2, rfl⟩

/-- `C10.normaliser_minus_pi_pi` about the translated `betweenMinusPiAndPi<double>` -/
theorem src_normaliser_minus_pi_pi (x : ℝ) (h : -(4 * Real.pi) < x ∧ x < 4 * Real.pi) :
    CongrMod2Pi (Src.C10.betweenMinusPiAndPi x) x ∧ -Real.pi ≤ Src.C10.betweenMinusPiAndPi x ∧
    Src.C10.betweenMinusPiAndPi x ≤ Real.pi := by
  rw [betweenMinusPiAndPi_real]
  exact normaliser_minus_pi_pi x h

/-- `C10.polar_cartesian_roundtrip` about the translated `toPolar` / `toCartesian`: Cartesian → polar → Cartesian is the identity -/
theorem src_polar_cartesian_roundtrip (x y : ℝ) :
    Src.C10.toCartesian (Src.C10.toPolar x y).1 (Src.C10.toPolar x y).2 = (x, y) := by
  rw [toPolar_bridge]
  exact (polarToCartesian_bridge (toPolar x y)).trans (polar_cartesian_roundtrip x y)

/-- `C10.spherical_cartesian_roundtrip` about the translated `toSpherical` / `toCartesian` -/
theorem src_spherical_cartesian_roundtrip (x y z : ℝ) (h : ¬ (x = 0 ∧ y = 0 ∧ z = 0)) :
    Src.C10.toCartesian_spherical (Src.C10.toSpherical x y z).1 (Src.C10.toSpherical x y z).2.1 (Src.C10.toSpherical x y z).2.2
      = (x, y, z) := by
  rw [toSpherical_bridge]
  exact (sphericalToCartesian_bridge (toSpherical x y z)).trans (spherical_cartesian_roundtrip x y z h).2.2

/-- `C10.proper_smart` about the translated `SmartRotation3D::init`: from a state satisfying the invariant, the nine entries of `R_`
    computed by the translated code are those of a proper rotation matrix -/
theorem src_proper_smart (s : Smart ℝ) (h : SmartInv s) (ax ay az : ℝ) :
    ∃ m : Mat3 ℝ, IsProperRotation m ∧
      Src.C10.SmartRotation3D.init_R s.rx.m00 s.rx.m01 s.rx.m02 s.rx.m10 s.rx.m20 s.ry.m01 s.ry.m10 s.ry.m11 s.ry.m12 s.ry.m21
          s.rz.m02 s.rz.m12 s.rz.m20 s.rz.m21 s.rz.m22 ax ay az
        = (m.m00, m.m01, m.m02, m.m10, m.m11, m.m12, m.m20, m.m21, m.m22) :=
  ⟨(Smart.init s ax ay az).r, proper_smart s h ax ay az, smart_init_R_bridge s ax ay az⟩

end Romea.Bridge.C10
