import RomeaProofs.Bridge.C09
import RomeaProofs.Properties.C09

/-!
# Bridge C09, part 2: statements of `Properties/C09.lean` restated about the functions translated from today's source

`Romea.Src.C09.*` (regenerated from `/repo` on every run) at ℝ, where the three algebraic identities of `Bridge/C09.lean` (`0 + x = x`,
`x * (-1) = -x`, `1 * 1 = 1`) are theorems:

* `src_faces_sensor_*`: **faces_sensor** about the translated `flipNormalTowardOriginCoordinate`: whatever direction `n` it is given
  (in the code: the first eigenvector copied into `normals[n]`), the vector it leaves satisfies `n' · p ≤ 0` — for every point other than
  the origin (cartesian types), for every point (homogeneous types: the norm includes the 1);
* `src_flip_keeps_length_*`: the orientation step changes no length (`unit` survives it), and the homogeneous coordinate it leaves is 0;
* `src_reliability_*`: the reported reliability is `|min(λ₁, λ₂) / λ₀|` resp. `|λ₁ / λ₀|`, non-negative.
The per-point curvature formula `λ₀ / Σλ` and the copy of the first eigenvector are inline in the `compute` loops: see `Bridge/C09Compute.lean`
(the loops as translated, `planeEstimation_` an oracle) and `Bridge/C09ComputeCor.lean` (the property about the returned vectors).
-/
set_option linter.unusedSectionVars false
set_option linter.unusedVariables false

namespace Romea.Bridge.C09
open Romea Romea.Normals Romea.C09

theorem h0R : ∀ x : ℝ, (zero : ℝ) + x = x := by intro x; simp [zero]
theorem hnegR : ∀ x : ℝ, x * (-((1 : Nat) : ℝ)) = -x := by intro x; simp
theorem h11R : ((1 : Nat) : ℝ) * ((1 : Nat) : ℝ) = ((1 : Nat) : ℝ) := by simp

/-- an eigen-solver oracle whose first eigenvector is the given direction `n` -/
def eigOf {m : Nat} (n : Vec (m + 2) ℝ) : Mat (m + 2) ℝ → EigSym (m + 2) ℝ := fun _ => ⟨fun _ => 0, fun i _ => n i⟩

theorem estimate_normal_eigOf {m : Nat} (hom : Bool) (p n : Vec (m + 2) ℝ) (i : Fin (m + 2)) :
    (estimate hom (eigOf n) [] p).normal i = flipped hom p n i := by
  unfold estimate flipped eigOf
  simp only []
  split <;> rfl

/-- `faces_sensor` in coordinates, for the model's `flipped` -/
theorem flipped_faces_sensor3 (hom : Bool) (p n : Vec 3 ℝ) (hp : hom = true ∨ p ≠ 0) :
    flipped (m := 1) hom p n 0 * p 0 + flipped (m := 1) hom p n 1 * p 1 + flipped (m := 1) hom p n 2 * p 2 ≤ 0 := by
  have h := faces_sensor (m := 1) hom (eigOf n) [] p hp
  rw [dot3 h0R] at h
  simpa only [estimate_normal_eigOf] using h

theorem flipped_faces_sensor2 (hom : Bool) (p n : Vec 2 ℝ) (hp : hom = true ∨ p ≠ 0) :
    flipped (m := 0) hom p n 0 * p 0 + flipped (m := 0) hom p n 1 * p 1 ≤ 0 := by
  have h := faces_sensor (m := 0) hom (eigOf n) [] p hp
  rw [dot2 h0R] at h
  simpa only [estimate_normal_eigOf] using h

/-- **faces_sensor** about the translated `flipNormalTowardOriginCoordinate<Eigen::Vector3d>` -/
theorem src_faces_sensor_v3d (p n : Vec 3 ℝ) (hp : p ≠ 0) :
    let r := Src.C09.flipNormalTowardOriginCoordinate_v3d (n 0) (n 1) (n 2) (p 0) (p 1) (p 2)
    r.1 * p 0 + r.2.1 * p 1 + r.2.2 * p 2 ≤ 0 := by
  intro r
  have hr : r = _ := flip_v3d_bridge h0R hnegR p n
  rw [hr]
  exact flipped_faces_sensor3 false p n (Or.inr hp)

theorem src_faces_sensor_v3f (p n : Vec 3 ℝ) (hp : p ≠ 0) :
    let r := Src.C09.flipNormalTowardOriginCoordinate_v3f (n 0) (n 1) (n 2) (p 0) (p 1) (p 2)
    r.1 * p 0 + r.2.1 * p 1 + r.2.2 * p 2 ≤ 0 := by
  intro r
  have hr : r = _ := flip_v3f_bridge h0R hnegR p n
  rw [hr]
  exact flipped_faces_sensor3 false p n (Or.inr hp)

theorem src_faces_sensor_v2d (p n : Vec 2 ℝ) (hp : p ≠ 0) :
    let r := Src.C09.flipNormalTowardOriginCoordinate_v2d (n 0) (n 1) (p 0) (p 1)
    r.1 * p 0 + r.2 * p 1 ≤ 0 := by
  intro r
  have hr : r = _ := flip_v2d_bridge h0R hnegR p n
  rw [hr]
  exact flipped_faces_sensor2 false p n (Or.inr hp)

theorem src_faces_sensor_v2f (p n : Vec 2 ℝ) (hp : p ≠ 0) :
    let r := Src.C09.flipNormalTowardOriginCoordinate_v2f (n 0) (n 1) (p 0) (p 1)
    r.1 * p 0 + r.2 * p 1 ≤ 0 := by
  intro r
  have hr : r = _ := flip_v2f_bridge h0R hnegR p n
  rw [hr]
  exact flipped_faces_sensor2 false p n (Or.inr hp)

/-- **faces_sensor** about the translated `flipNormalTowardOriginCoordinate<HomogeneousCoordinates3d>`: every point (stored with
    homogeneous coordinate 1), and the homogeneous coordinate left in the normal is 0 -/
theorem src_faces_sensor_h3d (p n : Vec 3 ℝ) :
    let r := Src.C09.flipNormalTowardOriginCoordinate_h3d (n 0) (n 1) (n 2) (p 0) (p 1) (p 2) ((1 : Nat) : ℝ)
    r.1 * p 0 + r.2.1 * p 1 + r.2.2.1 * p 2 ≤ 0 ∧ r.2.2.2 = 0 := by
  intro r
  have hr : r = _ := flip_h3d_bridge h0R hnegR h11R p n
  rw [hr]
  refine ⟨flipped_faces_sensor3 true p n (Or.inl rfl), ?_⟩
  simp only [flippedW, zero]
  split <;> simp

theorem src_faces_sensor_h3f (p n : Vec 3 ℝ) :
    let r := Src.C09.flipNormalTowardOriginCoordinate_h3f (n 0) (n 1) (n 2) (p 0) (p 1) (p 2) ((1 : Nat) : ℝ)
    r.1 * p 0 + r.2.1 * p 1 + r.2.2.1 * p 2 ≤ 0 ∧ r.2.2.2 = 0 := by
  intro r
  have hr : r = _ := flip_h3f_bridge h0R hnegR h11R p n
  rw [hr]
  refine ⟨flipped_faces_sensor3 true p n (Or.inl rfl), ?_⟩
  simp only [flippedW, zero]
  split <;> simp

theorem src_faces_sensor_h2d (p n : Vec 2 ℝ) :
    let r := Src.C09.flipNormalTowardOriginCoordinate_h2d (n 0) (n 1) (p 0) (p 1) ((1 : Nat) : ℝ)
    r.1 * p 0 + r.2.1 * p 1 ≤ 0 ∧ r.2.2 = 0 := by
  intro r
  have hr : r = _ := flip_h2d_bridge h0R hnegR h11R p n
  rw [hr]
  refine ⟨flipped_faces_sensor2 true p n (Or.inl rfl), ?_⟩
  simp only [flippedW, zero]
  split <;> simp

theorem src_faces_sensor_h2f (p n : Vec 2 ℝ) :
    let r := Src.C09.flipNormalTowardOriginCoordinate_h2f (n 0) (n 1) (p 0) (p 1) ((1 : Nat) : ℝ)
    r.1 * p 0 + r.2.1 * p 1 ≤ 0 ∧ r.2.2 = 0 := by
  intro r
  have hr : r = _ := flip_h2f_bridge h0R hnegR h11R p n
  rw [hr]
  refine ⟨flipped_faces_sensor2 true p n (Or.inl rfl), ?_⟩
  simp only [flippedW, zero]
  split <;> simp

/-- the orientation step as translated changes no length: `unit` (|normal| = 1) survives it -/
theorem src_flip_keeps_length_v3d (p n : Vec 3 ℝ) :
    let r := Src.C09.flipNormalTowardOriginCoordinate_v3d (n 0) (n 1) (n 2) (p 0) (p 1) (p 2)
    r.1 * r.1 + r.2.1 * r.2.1 + r.2.2 * r.2.2 = n 0 * n 0 + n 1 * n 1 + n 2 * n 2 := by
  intro r
  have hr : r = _ := flip_v3d_bridge h0R hnegR p n
  rw [hr]
  simp only [flipped]
  split <;> ring

theorem src_flip_keeps_length_h3d (p n : Vec 3 ℝ) :
    let r := Src.C09.flipNormalTowardOriginCoordinate_h3d (n 0) (n 1) (n 2) (p 0) (p 1) (p 2) ((1 : Nat) : ℝ)
    r.1 * r.1 + r.2.1 * r.2.1 + r.2.2.1 * r.2.2.1 = n 0 * n 0 + n 1 * n 1 + n 2 * n 2 := by
  intro r
  have hr : r = _ := flip_h3d_bridge h0R hnegR h11R p n
  rw [hr]
  simp only [flipped]
  split <;> ring

/-- the translated reliability is a non-negative number, `|min(λ₁, λ₂) / λ₀|` -/
theorem src_reliability_v3d (v : Vec 3 ℝ) :
    Src.C09.NormalAndCurvatureEstimation.computeNormalReliability_v3d (v 0) (v 1) (v 2) = |min (v 1) (v 2) / v 0| ∧
    0 ≤ Src.C09.NormalAndCurvatureEstimation.computeNormalReliability_v3d (v 0) (v 1) (v 2) := by
  have h : Src.C09.NormalAndCurvatureEstimation.computeNormalReliability_v3d (v 0) (v 1) (v 2) = |min (v 1) (v 2) / v 0| := by
    unfold Src.C09.NormalAndCurvatureEstimation.computeNormalReliability_v3d
    show |_| = _
    congr 2
    rcases lt_or_ge (v 2) (v 1) with h | h
    · rw [if_pos h, min_eq_right (le_of_lt h)]
    · rw [if_neg (not_lt.mpr h), min_eq_left h]
  exact ⟨h, h ▸ abs_nonneg _⟩

theorem src_reliability_v2d (v : Vec 2 ℝ) :
    Src.C09.NormalAndCurvatureEstimation.computeNormalReliability_v2d (v 0) (v 1) = |v 1 / v 0| := rfl

end Romea.Bridge.C09
