import RomeaModel.Rate
import RomeaModel.Generated.SrcC17

/-!
# Bridge C17: `RateMonitoring` AS TRANSLATED FROM TODAY'S SOURCE = the model (`RomeaModel/Rate.lean`)

`RomeaModel/Generated/SrcC17.lean` is regenerated on every check run from `src/monitoring/RateMonitoring.cpp` (incl. the
anonymous-namespace constants `MINIMAL_WINDOW_SIZE`, `MAXIMAL_WINDOW_SIZE`, the helpers `durationToNanoSecond` / `durationToSecond` of
`time/Time.hpp` and `SharedVariable<Duration>::load/store`). Encoding: `size_t` / `long long` are `Int`; a
`std::chrono::duration<long long, std::nano>` is its `count()` (an `Int`, nanoseconds; `a - b` of two durations of the same type is
the difference of the counts, `Duration::zero()` is 0); `std::queue<long long>` is a `List Int` with the front at the head (`push` =
append at the end, `front()` = `getD 0 0`, `pop()` = `drop 1`, `size()`, `empty()`); `std::atomic<double>` is its value (`load` /
`store` = read / write — a SEQUENTIAL reading; the concurrency is C19's subject); the `lock_guard`s are skipped; the `assert` is
compiled out (`-DNDEBUG`, as in the baseline build).

The model keeps the rate symbolically (`none` = the stored `0.`, `some s` = `1e9 / (s / double(W))`); `rateVal` is that reading,
generic in the scalar type (the driver's `rateVal` at `Float`). `update` is bridged for every scalar type with no hypothesis;
`timeout` compares `count / 1e9 > 0.5` in `double` where the model compares nanoseconds: bridged under the hypothesis `TimeoutCmp`
that the two comparisons agree (true over ℝ: `Bridge/C17Cor.lean`; at `double` true for |count| < 2^53 — an assumption of the plugin,
not proved). `initialize`: `size_t` is translated to `Int`, the model works over `Nat` on the already truncated `2 * expectedRate`,
hence the hypothesis that the truncation is non-negative (a negative value is undefined behaviour of the C++ conversion).
Core Lean only.
-/
set_option linter.unusedSectionVars false

namespace Romea.Bridge.C17
open Romea Romea.Rate

/-- the constants as written in the source = the model's (regex-scraped) constants -/
theorem constants_bridge :
    Src.C17.MINIMAL_WINDOW_SIZE = (Generated.C17.minWindow : Int) ∧ Src.C17.MAXIMAL_WINDOW_SIZE = (Generated.C17.maxWindow : Int) := by
  constructor <;> rfl

/-- `initialize(expectedRate)`: `windowSize_ = min(max(size_t(2 * expectedRate), MINIMAL), MAXIMAL)` = `windowOf` -/
theorem initialize_bridge {α : Type} [Mul α] [NatCast α] [Trunc α] (expectedRate : α) (n : Nat)
    (h : Trunc.trunc (((2 : Nat) : α) * expectedRate) = (n : Int)) :
    Src.C17.RateMonitoring.initialize expectedRate = ((windowOf n : Nat) : Int) := by
  unfold Src.C17.RateMonitoring.initialize windowOf
  rw [h, constants_bridge.1, constants_bridge.2]
  simp only [Nat.min_def, Nat.max_def]
  split <;> split <;> split <;> split <;> omega

section
variable {α : Type} [Div α] [LT α] [DecidableLT α] [NatCast α] [IntCast α] [OfScientific α]

/-- the `double` the symbolic rate of the model stands for: the stored `0.`, or `1000000000. / (periodsSum_ / double(windowSize_))` -/
def rateVal (W : Nat) : Option Int → α
  | none => ((0 : Nat) : α)
  | some s => ((1000000000 : Nat) : α) / (((s : Int) : α) / ((((W : Nat) : Int) : Int) : α))

/-- `RateMonitoring()`: (lastDuration_, lastPeriod_, periodsSum_, periods_, rate_, windowSize_) -/
theorem ctor_bridge :
    (Src.C17.RateMonitoring.RateMonitoring : Int × Int × Int × List Int × α × Int)
      = ((Mon.init 0).last, 0, (Mon.init 0).sum, (Mon.init 0).q, rateVal (Mon.init 0).W (Mon.init 0).rate, (((Mon.init 0).W : Nat) : Int)) := rfl

/-- `update(stamp)`: (returned rate, lastDuration_, lastPeriod_, periodsSum_, periods_, rate_) = the model's `Mon.update`, the returned
    and the stored rate being the value of the model's symbolic rate -/
theorem update_bridge (m : Mon) (t : Int) :
    Src.C17.RateMonitoring.update t m.last m.sum m.q (rateVal m.W m.rate : α) (m.W : Int)
      = let m' := m.update t
        ((rateVal m'.W m'.rate : α), m'.last, t - m.last, m'.sum, m'.q, (rateVal m'.W m'.rate : α)) := by
  simp only [Src.C17.RateMonitoring.update, Src.C17.SharedVariable.load, Src.C17.SharedVariable.store,
    Src.C17.durationToNanoSecond, Mon.update]
  have key : ((((m.q ++ [t - m.last]).length : Nat) : Int) = (m.W : Int) + 1) ↔ (m.q ++ [t - m.last]).length = m.W + 1 := by omega
  simp only [key]
  by_cases h : (m.q ++ [t - m.last]).length = m.W + 1
  · simp only [if_pos h, rateVal, List.drop_one, List.headD_eq_head?_getD, List.getD_eq_getElem?_getD, List.head?_eq_getElem?]
  · simp only [if_neg h]

/-- the `double` comparison of `timeout` agrees with the model's comparison of nanoseconds -/
def TimeoutCmp (α : Type) [Div α] [LT α] [NatCast α] [IntCast α] [OfScientific α] : Prop :=
  ∀ c : Int, ((OfScientific.ofScientific 5 true 1 : α) < ((c : Int) : α) / ((1000000000 : Nat) : α)) ↔ Generated.C17.timeoutNs < c

/-- `timeout(stamp)`: (returned flag, rate_) = the model's `Mon.timeout` -/
theorem timeout_bridge (hcmp : TimeoutCmp α) (m : Mon) (t : Int) :
    Src.C17.RateMonitoring.timeout t m.last m.q (rateVal m.W m.rate : α)
      = ((m.timeout t).2, (rateVal (m.timeout t).1.W (m.timeout t).1.rate : α)) := by
  simp only [Src.C17.RateMonitoring.timeout, Src.C17.SharedVariable.load, Src.C17.durationToSecond, Mon.timeout, hcmp (t - m.last)]
  have hq : (¬ (m.q.length = 0)) ↔ m.q ≠ [] := by
    cases m.q <;> simp
  by_cases h : m.q ≠ [] ∧ t - m.last > Generated.C17.timeoutNs
  · have h' : (¬ (m.q.length = 0)) ∧ Generated.C17.timeoutNs < t - m.last := ⟨hq.mpr h.1, h.2⟩
    rw [if_pos h', if_pos h]
    rfl
  · have h' : ¬ ((¬ (m.q.length = 0)) ∧ Generated.C17.timeoutNs < t - m.last) := fun hh => h ⟨hq.mp hh.1, hh.2⟩
    rw [if_neg h', if_neg h]

/-- `getRate()` returns the stored member -/
theorem getRate_bridge (x : α) : Src.C17.RateMonitoring.getRate x = x := rfl

end

/-! ### `CheckupRate<CheckupEqualTo<double>>` / `CheckupRate<CheckupGreaterThan<double>>`

`evaluate(stamp)` = translated `RateMonitoring::update`, then the translated check-up `evaluate` on the returned rate (faithful down to
`setDiagnostic_` / `setValue_` / `getStatus_`, as in `Bridge/C18.lean`: the single diagnostic is `report_.diagnostics.front()`, the
single info entry `report_.info.begin()`, `toStringInfoValue` an uninterpreted parameter `tsi`); `heartBeatCallback(stamp)` =
translated `RateMonitoring::timeout`, then `Checkup::timeout()` when it fired. The model (`CR.stamp`, `CR.heartbeat`) abstracts
messages to classes; `ending` is the text each class appends to the check-up's name. -/

/-- the text appended to the check-up's name, per message class of the model (`initial`: the constructor's own text, never written
    by `evaluate` / `timeout`) -/
def ending : Checkup.Msg → String
  | .initial => ""
  | .tooLow => " is too low."
  | .tooHigh => " is too high."
  | .isOK => " is OK."
  | .uncertain => " is uncertain."
  | .high => " is high."
  | .timeout => " timeout."

/-- the underlying value of the enum `DiagnosticStatus` -/
def code (s : Checkup.Status) : Int := (s.toNat : Int)

/-- the info string the C++ stores for the model's `info` -/
def infoString {α : Type} (tsi : α → String) : Option α → String
  | none => ""
  | some v => tsi v

section
variable {α : Type} [Add α] [Sub α] [Div α] [LT α] [DecidableLT α] [NatCast α] [IntCast α] [OfScientific α]

/-- what the translated `CheckupRate::evaluate` returns according to the model's `CR.stamp`: (returned status, stored message, stored
    status, stored info, then the monitor's lastDuration_, lastPeriod_, periodsSum_, periods_, rate_) -/
def shownStamp (tsi : α → String) (name : String) (c : CR α) (t : Int) :
    Int × String × Int × String × Int × Int × Int × List Int × α :=
  let r := c.stamp rateVal t
  (code r.2, name ++ ending r.1.chk.msg, code r.1.chk.status, infoString tsi r.1.chk.info,
   r.1.mon.last, t - c.mon.last, r.1.mon.sum, r.1.mon.q, rateVal r.1.mon.W r.1.mon.rate)

/-- `CheckupRate<CheckupEqualTo<double>>::evaluate(stamp)` = the model's `CR.stamp` -/
theorem checkupRate_evaluate_eq_bridge (tsi : α → String) (name : String) (c : CR α) (hk : c.chk.kind = .equalTo) (t : Int) :
    Src.C17.CheckupRate.evaluate_eq c.chk.e name c.chk.t c.mon.last c.mon.sum c.mon.q (rateVal c.mon.W c.mon.rate : α) (c.mon.W : Int) t tsi
      = shownStamp tsi name c t := by
  unfold Src.C17.CheckupRate.evaluate_eq
  rw [update_bridge c.mon t]
  simp only [Src.C17.CheckupEqualTo.evaluate, Src.C17.Checkup.setDiagnostic_, Src.C17.Checkup.getStatus_, Src.C17.Checkup.setValue_,
    shownStamp, CR.stamp, Checkup.evaluate, Checkup.classify, hk]
  by_cases h1 : (rateVal (c.mon.update t).W (c.mon.update t).rate : α) < c.chk.t - c.chk.e
  · simp only [h1, if_true]; rfl
  · by_cases h2 : c.chk.t + c.chk.e < (rateVal (c.mon.update t).W (c.mon.update t).rate : α)
    · simp only [h1, h2, if_true, if_false, GT.gt]; rfl
    · simp only [h1, h2, if_false, GT.gt]; rfl

/-- `CheckupRate<CheckupGreaterThan<double>>::evaluate(stamp)` = the model's `CR.stamp` -/
theorem checkupRate_evaluate_gt_bridge (tsi : α → String) (name : String) (c : CR α) (hk : c.chk.kind = .greaterThan) (t : Int) :
    Src.C17.CheckupRate.evaluate_gt c.chk.e name c.chk.t c.mon.last c.mon.sum c.mon.q (rateVal c.mon.W c.mon.rate : α) (c.mon.W : Int) t tsi
      = shownStamp tsi name c t := by
  unfold Src.C17.CheckupRate.evaluate_gt
  rw [update_bridge c.mon t]
  simp only [Src.C17.CheckupGreaterThan.evaluate, Src.C17.Checkup.setDiagnostic_, Src.C17.Checkup.getStatus_, Src.C17.Checkup.setValue_,
    shownStamp, CR.stamp, Checkup.evaluate, Checkup.classify, hk]
  by_cases h1 : c.chk.t - c.chk.e < (rateVal (c.mon.update t).W (c.mon.update t).rate : α)
  · simp only [h1, if_true, GT.gt]; rfl
  · simp only [h1, if_false, GT.gt]; rfl

/-- what the translated `heartBeatCallback` returns according to the model's `CR.heartbeat`: (returned flag, stored message, stored
    status, stored info, rate_); `msg0`, `st0`, `info0` are the strings / status stored before the call (kept when no timeout fires) -/
def shownHeartbeat (msg0 : String) (st0 : Int) (name info0 : String) (c : CR α) (t : Int) : Bool × String × Int × String × α :=
  let r := c.heartbeat t
  (r.2, if r.2 = true then msg0 else name ++ ending r.1.chk.msg, if r.2 = true then st0 else code r.1.chk.status,
   if r.2 = true then info0 else "", rateVal r.1.mon.W r.1.mon.rate)

private theorem heartbeat_shown (msg0 : String) (st0 : Int) (name info0 : String) (c : CR α) (t : Int)
    (x : Bool × α) (hx : x = ((c.mon.timeout t).2, (rateVal (c.mon.timeout t).1.W (c.mon.timeout t).1.rate : α))) :
    (if x.1 = true then
        (false, (Src.C17.Checkup.timeout name).1, (Src.C17.Checkup.timeout name).2.1, (Src.C17.Checkup.timeout name).2.2, x.2)
      else (true, msg0, st0, info0, x.2)) = shownHeartbeat msg0 st0 name info0 c t := by
  subst hx
  unfold shownHeartbeat CR.heartbeat
  by_cases h : (c.mon.timeout t).2 = true
  · simp only [h, if_true]
    rfl
  · have h' : (c.mon.timeout t).2 = false := by simpa using h
    simp only [h', if_false, Bool.false_eq_true]
    rfl

/-- `CheckupRate<CheckupEqualTo<double>>::heartBeatCallback(stamp)` = the model's `CR.heartbeat` -/
theorem checkupRate_heartbeat_eq_bridge (hcmp : TimeoutCmp α) (msg0 : String) (st0 : Int) (name info0 : String) (c : CR α) (t : Int) :
    Src.C17.CheckupRate.heartBeatCallback_eq msg0 st0 name info0 c.mon.last c.mon.q (rateVal c.mon.W c.mon.rate : α) t
      = shownHeartbeat msg0 st0 name info0 c t := by
  unfold Src.C17.CheckupRate.heartBeatCallback_eq
  exact heartbeat_shown msg0 st0 name info0 c t _ (timeout_bridge hcmp c.mon t)

/-- `CheckupRate<CheckupGreaterThan<double>>::heartBeatCallback(stamp)` = the model's `CR.heartbeat` -/
theorem checkupRate_heartbeat_gt_bridge (hcmp : TimeoutCmp α) (msg0 : String) (st0 : Int) (name info0 : String) (c : CR α) (t : Int) :
    Src.C17.CheckupRate.heartBeatCallback_gt msg0 st0 name info0 c.mon.last c.mon.q (rateVal c.mon.W c.mon.rate : α) t
      = shownHeartbeat msg0 st0 name info0 c t := by
  unfold Src.C17.CheckupRate.heartBeatCallback_gt
  exact heartbeat_shown msg0 st0 name info0 c t _ (timeout_bridge hcmp c.mon t)

end

end Romea.Bridge.C17
