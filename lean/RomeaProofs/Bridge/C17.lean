import RomeaModel.Rate
import RomeaModel.Generated.SrcC17

/-!
# Bridge C17: the window clamp of `RateMonitoring::initialize` AS TRANSLATED FROM TODAY'S SOURCE = the model's `windowOf`

`RomeaModel/Generated/SrcC17.lean` is regenerated on every check run from `src/monitoring/RateMonitoring.cpp` (incl. the
anonymous-namespace constants `MINIMAL_WINDOW_SIZE`, `MAXIMAL_WINDOW_SIZE`). `size_t` is translated to `Int`; the model works over
`Nat` on the already truncated `2 * expectedRate`, hence the hypothesis that the truncation is non-negative (a negative value is
undefined behaviour of the C++ conversion). Only `initialize` is bridged: `update` / `timeout` use `std::queue`, `std::chrono` and
`std::atomic` and are not translated. Core Lean only.
-/
namespace Romea.Bridge.C17
open Romea Romea.Rate

/-- the constants as written in the source = the model's (regex-scraped) constants -/
theorem constants_bridge :
    Src.C17.MINIMAL_WINDOW_SIZE = (Generated.C17.minWindow : Int) ∧ Src.C17.MAXIMAL_WINDOW_SIZE = (Generated.C17.maxWindow : Int) := by
  constructor <;> rfl

/-- `initialize(expectedRate)`: `windowSize_ = min(max(size_t(2 * expectedRate), MINIMAL), MAXIMAL)` = `windowOf` -/
theorem initialize_bridge {α : Type} [Mul α] [NatCast α] [Trunc α] (expectedRate : α) (n : Nat)
    (h : Trunc.trunc (((2 : Nat) : α) * expectedRate) = (n : Int)) :
    Src.C17.RateMonitoring.initialize expectedRate = ((windowOf n : Nat) : Int) := by
  unfold Src.C17.RateMonitoring.initialize windowOf
  rw [h, constants_bridge.1, constants_bridge.2]
  simp only [Nat.min_def, Nat.max_def]
  split <;> split <;> split <;> split <;> omega

end Romea.Bridge.C17
