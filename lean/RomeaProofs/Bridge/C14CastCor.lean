import RomeaProofs.Bridge.C14Cast
import RomeaProofs.Properties.C14

/-!
# Bridge C14, part 3: the WHOLE-CHAIN theorems of `Properties/C14.lean` restated about `cast(origin, end)` as translated from today's source

`Src.C14.RayCasting.cast_oe_d2 / _d3` (regenerated from `/repo` on every run; `cast(o, e)` = `setOriginPoint(o); setEndPoint(e); cast()` with
the `while (++n != N)` loop on fuel) under the hypotheses `Counted` of the counting theorems (strict order on the scalars, crossing
parameters below the sentinel, indexes below 2^29 — they hold at `Float`, `Float32`, ℝ, `RN` alike) plus what ties the translated
functions to the model's integers and tables: `hWo`, `hWe` (the `size_t` conversions of the two points are in range), `hT*` (the centre
tables hold the tabulated centre of the origin cell: what the constructor stores, C13 bridge) and enough fuel.  Every no-wrap side
condition of `Bridge/C14Cast.lean` (`hI`, `hw`, `NoWrap`) is DERIVED here from `Counted` (every visited cell lies in the index box of
origin and end cell, `counted_in_index_box`).

* `src_cast_oe_d2_eq / _d3_eq`: the translated `cast(o, e)` returns (never `none`) the model's chain as tuples;
* `src_length_*`, `src_face_adjacent_*`, `src_in_bounds_*`, `src_ends_at_end_*`, `src_starts_at_origin_*`: the headline statements about
  the returned list of index tuples;
* `src_cast_history_independent_d2`: by its very signature the translated `cast(o, e)` reads no member of the caster except the grid; restated
  as: its result is the model chain of `castOE` started from ANY state.
-/
set_option linter.unusedSectionVars false
set_option linter.unusedVariables false

namespace Romea.Bridge.C14
open Romea Romea.RayCast Romea.C14

section
variable {d : Nat} {α : Type} [Add α] [Sub α] [Mul α] [Div α] [LT α] [DecidableLT α]
  [NatCast α] [IntCast α] [OfScientific α] [Trans α] [Trunc α] [Limits α]

theorem next_cell (sp : Spec d α) (s : State d α) (c : Vec d Int) :
    (next sp s c).2 = upd c (sp.pick s.tMax) (wrap64 (c.at (sp.pick s.tMax) + s.step.at (sp.pick s.tMax))) := by
  unfold next stepAxis
  simp only []
  split
  · split <;> rfl
  · rfl

/-- if every cell of the next `k` steps has its coordinates in `[0, 2^29)` and the steps are -1, 0, 1, no index arithmetic wraps -/
theorem noWrap_of_small (sp : Spec d α) (k : Nat) : ∀ (s : State d α) (c : Vec d Int),
    (∀ i, s.step.at i = 1 ∨ s.step.at i = -1 ∨ s.step.at i = 0) →
    (∀ c' ∈ c :: (steps sp k s c).2, ∀ i, 0 ≤ c'.at i ∧ c'.at i < 2 ^ 29) → NoWrap sp k s c := by
  induction k with
  | zero => intro s c _ _; trivial
  | succ k ih =>
    intro s c hs hall
    have hc := hall c (List.mem_cons_self ..)
    have hn : (next sp s c).2 ∈ c :: (steps sp (k + 1) s c).2 := by
      simp [steps]
    have hcn := hall _ hn (sp.pick s.tMax)
    rw [next_cell, RayCast.at_upd_self] at hcn
    refine ⟨?_, ih _ _ ?_ ?_⟩
    · have h1 := hc (sp.pick s.tMax)
      have h2 := hs (sp.pick s.tMax)
      unfold wrap64 two64 at hcn ⊢
      omega
    · rw [(next_step_tDelta sp s c).1]; exact hs
    · intro c' hc'
      apply hall
      simp only [steps, List.mem_cons] at hc' ⊢
      rcases hc' with h | h
      · exact Or.inr (Or.inl h)
      · exact Or.inr (Or.inr h)

/-- the steps written by `setEndPoint` are -1, 0, 1 -/
theorem setEnd_step (sp : Spec d α) (G : Grid d α) (s : State d α) (p : Vec d α) (i : Fin d) :
    (setEnd sp G s p).step.at i = 1 ∨ (setEnd sp G s p).step.at i = -1 ∨ (setEnd sp G s p).step.at i = 0 := by
  simp only [setEnd, RayCast.at_build]
  split
  · exact Or.inl rfl
  · split
    · exact Or.inr (Or.inl rfl)
    · exact Or.inr (Or.inr rfl)

/-- `Counted` gives the chain-wide no-wrap condition of `Bridge/C14Cast.lean` -/
theorem counted_noWrap {sp : Spec d α} {G : Grid d α} {o e : Vec d α} (C : Counted sp G o e) :
    NoWrap sp ((numCells (fresh sp G o e)).toNat - 1) (fresh sp G o e) (cellIndexes G o) := by
  apply noWrap_of_small
  · exact setEnd_step sp G _ e
  · intro c' hc' i
    have hmem : c' ∈ (castOE sp G init o e).2 := hc'
    have hb := counted_in_index_box C init c' hmem i
    obtain ⟨h1, h2, h3, h4⟩ := C.idx i
    omega

theorem counted_hI {sp : Spec d α} {G : Grid d α} {o e : Vec d α} (C : Counted sp G o e) (i : Fin d) :
    toInt32 ((cellIndexes G e).at i) = (cellIndexes G e).at i ∧ toInt32 ((cellIndexes G o).at i) = (cellIndexes G o).at i := by
  obtain ⟨h1, h2, h3, h4⟩ := C.idx i
  exact ⟨toInt32_id h3 (by omega), toInt32_id h1 (by omega)⟩

end

section
variable {α : Type} [Add α] [Sub α] [Mul α] [Div α] [LT α] [DecidableLT α]
  [NatCast α] [IntCast α] [OfScientific α] [Trans α] [Trunc α] [Limits α]

/-! ## `RayCasting<double, 2>::cast(origin, end)` -/

theorem counted_hw_d2 {G : Grid 2 α} {o e : Vec 2 α} (C : Counted spec2 G o e) :
    wrap64 (sumFrom (0 : Int) (fun i => iabs ((cellIndexes G e).at i - (cellIndexes G o).at i)) + 1)
      = sumFrom (0 : Int) (fun i => iabs ((cellIndexes G e).at i - (cellIndexes G o).at i)) + 1 := by
  obtain ⟨a1, a2, a3, a4⟩ := C.idx 0
  obtain ⟨b1, b2, b3, b4⟩ := C.idx 1
  simp only [sumFrom, List.finRange_succ, List.finRange_zero, List.map_nil, List.foldl_cons, List.foldl_nil, List.map_cons]
  unfold wrap64 two64 iabs
  simp only [Fin.isValue, Fin.succ_zero_eq_one]
  split <;> split <;> omega

/-- the translated `cast(o, e)` for `<double, 2>` returns the model's chain (as index tuples), for every scalar type, under `Counted` -/
theorem src_cast_oe_d2_eq {G : Grid 2 α} {o e : Vec 2 α} (C : Counted spec2 G o e) (s : State 2 α) (t0 t1 : List α) (fuel : Nat)
    (hT0 : Src.C14.vecGet? t0 ((cellIndexes G o).at 0) = some (centre1 G 0 ((cellIndexes G o).at 0)))
    (hT1 : Src.C14.vecGet? t1 ((cellIndexes G o).at 1) = some (centre1 G 1 ((cellIndexes G o).at 1)))
    (hWo : ∀ i, wrap64 (Trunc.trunc ((o.at i - G.fmin.at i) / G.r)) = Trunc.trunc ((o.at i - G.fmin.at i) / G.r))
    (hWe : ∀ i, wrap64 (Trunc.trunc ((e.at i - G.fmin.at i) / G.r)) = Trunc.trunc ((e.at i - G.fmin.at i) / G.r))
    (hf : (numCells (fresh spec2 G o e)).toNat ≤ fuel) :
    (Src.C14.RayCasting.cast_oe_d2 fuel (e.at 0) (e.at 1) t0 t1 G.r (G.fmin.at 0) (G.fmin.at 1) (o.at 0) (o.at 1)).map Prod.fst
      = some ((castOE spec2 G s o e).2.map tup2) := by
  rw [cast_oe_d2_bridge G s o e t0 t1 fuel hT0 hT1 hWo hWe (counted_hI C) (counted_hw_d2 C) hf (counted_noWrap C)]
  rfl

/-- **length** about the translated `cast(o, e)`: `L1 + 1` index tuples -/
theorem src_length_d2 {G : Grid 2 α} {o e : Vec 2 α} (C : Counted spec2 G o e) (t0 t1 : List α) (fuel : Nat)
    (hT0 : Src.C14.vecGet? t0 ((cellIndexes G o).at 0) = some (centre1 G 0 ((cellIndexes G o).at 0)))
    (hT1 : Src.C14.vecGet? t1 ((cellIndexes G o).at 1) = some (centre1 G 1 ((cellIndexes G o).at 1)))
    (hWo : ∀ i, wrap64 (Trunc.trunc ((o.at i - G.fmin.at i) / G.r)) = Trunc.trunc ((o.at i - G.fmin.at i) / G.r))
    (hWe : ∀ i, wrap64 (Trunc.trunc ((e.at i - G.fmin.at i) / G.r)) = Trunc.trunc ((e.at i - G.fmin.at i) / G.r))
    (hf : (numCells (fresh spec2 G o e)).toNat ≤ fuel) :
    ∃ ray, (Src.C14.RayCasting.cast_oe_d2 fuel (e.at 0) (e.at 1) t0 t1 G.r (G.fmin.at 0) (G.fmin.at 1) (o.at 0) (o.at 1)).map Prod.fst
        = some ray ∧ ray.length = l1 (cellIndexes G o) (cellIndexes G e) + 1 := by
  refine ⟨_, src_cast_oe_d2_eq C init t0 t1 fuel hT0 hT1 hWo hWe hf, ?_⟩
  rw [List.length_map, counted_length C init]

/-- **face_adjacent**, **in_bounds**, **starts at the origin cell**, **ends in the end cell** about the translated `cast(o, e)`: the returned
    list is the tuple image of a chain `cells` with all four properties -/
theorem src_chain_d2 {G : Grid 2 α} {o e : Vec 2 α} (C : Counted spec2 G o e) (t0 t1 : List α) (fuel : Nat)
    (hT0 : Src.C14.vecGet? t0 ((cellIndexes G o).at 0) = some (centre1 G 0 ((cellIndexes G o).at 0)))
    (hT1 : Src.C14.vecGet? t1 ((cellIndexes G o).at 1) = some (centre1 G 1 ((cellIndexes G o).at 1)))
    (hWo : ∀ i, wrap64 (Trunc.trunc ((o.at i - G.fmin.at i) / G.r)) = Trunc.trunc ((o.at i - G.fmin.at i) / G.r))
    (hWe : ∀ i, wrap64 (Trunc.trunc ((e.at i - G.fmin.at i) / G.r)) = Trunc.trunc ((e.at i - G.fmin.at i) / G.r))
    (hK : ∀ i, (cellIndexes G o).at i < G.n.at i) (hE : ∀ i, (cellIndexes G e).at i < G.n.at i)
    (hf : (numCells (fresh spec2 G o e)).toNat ≤ fuel) :
    ∃ cells : List (Vec 2 Int),
      (Src.C14.RayCasting.cast_oe_d2 fuel (e.at 0) (e.at 1) t0 t1 G.r (G.fmin.at 0) (G.fmin.at 1) (o.at 0) (o.at 1)).map Prod.fst
        = some (cells.map tup2) ∧
      (∀ k (hk : k + 1 < cells.length), Adjacent (cells[k]'(by omega)) (cells[k + 1]'hk)) ∧
      (∀ c ∈ cells, ∀ i, 0 ≤ c.at i ∧ c.at i < G.n.at i) ∧
      cells.head? = some (cellIndexes G o) ∧ cells.getLast? = some (cellIndexes G e) := by
  refine ⟨(castOE spec2 G init o e).2, src_cast_oe_d2_eq C init t0 t1 fuel hT0 hT1 hWo hWe hf, ?_, ?_, ?_, ?_⟩
  · intro k hk
    exact (counted_face_adjacent C init k hk).1
  · intro c hc i
    exact counted_in_bounds C hK hE init c hc i
  · exact starts_at_origin spec2 G init o e
  · exact counted_ends_in_end_cell C init

/-- **history_independent** about the translated `cast(o, e)`: whatever the caster did before (any state `s`, e.g. the state after any
    operation sequence), the translated function — which reads no member of the caster but the grid — returns the chain of
    `castOE` run from `s` -/
theorem src_cast_history_independent_d2 {G : Grid 2 α} {o e : Vec 2 α} (C : Counted spec2 G o e) (s₀ : State 2 α) (ops : List (Op 2 α))
    (t0 t1 : List α) (fuel : Nat)
    (hT0 : Src.C14.vecGet? t0 ((cellIndexes G o).at 0) = some (centre1 G 0 ((cellIndexes G o).at 0)))
    (hT1 : Src.C14.vecGet? t1 ((cellIndexes G o).at 1) = some (centre1 G 1 ((cellIndexes G o).at 1)))
    (hWo : ∀ i, wrap64 (Trunc.trunc ((o.at i - G.fmin.at i) / G.r)) = Trunc.trunc ((o.at i - G.fmin.at i) / G.r))
    (hWe : ∀ i, wrap64 (Trunc.trunc ((e.at i - G.fmin.at i) / G.r)) = Trunc.trunc ((e.at i - G.fmin.at i) / G.r))
    (hf : (numCells (fresh spec2 G o e)).toNat ≤ fuel) :
    (Src.C14.RayCasting.cast_oe_d2 fuel (e.at 0) (e.at 1) t0 t1 G.r (G.fmin.at 0) (G.fmin.at 1) (o.at 0) (o.at 1)).map Prod.fst
      = some ((castOE spec2 G (runOps spec2 G s₀ ops) o e).2.map tup2) :=
  src_cast_oe_d2_eq C _ t0 t1 fuel hT0 hT1 hWo hWe hf

/-! ## `RayCasting<double, 3>::cast(origin, end)` -/

theorem counted_hw_d3 {G : Grid 3 α} {o e : Vec 3 α} (C : Counted spec3d G o e) :
    wrap64 (sumFrom (0 : Int) (fun i => iabs ((cellIndexes G e).at i - (cellIndexes G o).at i)) + 1)
      = sumFrom (0 : Int) (fun i => iabs ((cellIndexes G e).at i - (cellIndexes G o).at i)) + 1 := by
  obtain ⟨a1, a2, a3, a4⟩ := C.idx 0
  obtain ⟨b1, b2, b3, b4⟩ := C.idx 1
  obtain ⟨c1, c2, c3, c4⟩ := C.idx 2
  simp only [sumFrom, List.finRange_succ, List.finRange_zero, List.map_nil, List.foldl_cons, List.foldl_nil, List.map_cons]
  unfold wrap64 two64 iabs
  simp only [Fin.isValue, Fin.succ_zero_eq_one, Fin.succ_one_eq_two]
  split <;> split <;> split <;> omega

theorem src_cast_oe_d3_eq {G : Grid 3 α} {o e : Vec 3 α} (C : Counted spec3d G o e) (s : State 3 α) (t0 t1 t2 : List α) (fuel : Nat)
    (hT0 : Src.C14.vecGet? t0 ((cellIndexes G o).at 0) = some (centre1 G 0 ((cellIndexes G o).at 0)))
    (hT1 : Src.C14.vecGet? t1 ((cellIndexes G o).at 1) = some (centre1 G 1 ((cellIndexes G o).at 1)))
    (hT2 : Src.C14.vecGet? t2 ((cellIndexes G o).at 2) = some (centre1 G 2 ((cellIndexes G o).at 2)))
    (hWo : ∀ i, wrap64 (Trunc.trunc ((o.at i - G.fmin.at i) / G.r)) = Trunc.trunc ((o.at i - G.fmin.at i) / G.r))
    (hWe : ∀ i, wrap64 (Trunc.trunc ((e.at i - G.fmin.at i) / G.r)) = Trunc.trunc ((e.at i - G.fmin.at i) / G.r))
    (hf : (numCells (fresh spec3d G o e)).toNat ≤ fuel) :
    (Src.C14.RayCasting.cast_oe_d3 fuel (e.at 0) (e.at 1) (e.at 2) t0 t1 t2 G.r (G.fmin.at 0) (G.fmin.at 1) (G.fmin.at 2)
        (o.at 0) (o.at 1) (o.at 2)).map Prod.fst
      = some ((castOE spec3d G s o e).2.map tup3) := by
  rw [cast_oe_d3_bridge G s o e t0 t1 t2 fuel hT0 hT1 hT2 hWo hWe (counted_hI C) (counted_hw_d3 C) hf (counted_noWrap C)]
  rfl

/-- the four chain properties about the translated `cast(o, e)`, `<double, 3>` -/
theorem src_chain_d3 {G : Grid 3 α} {o e : Vec 3 α} (C : Counted spec3d G o e) (t0 t1 t2 : List α) (fuel : Nat)
    (hT0 : Src.C14.vecGet? t0 ((cellIndexes G o).at 0) = some (centre1 G 0 ((cellIndexes G o).at 0)))
    (hT1 : Src.C14.vecGet? t1 ((cellIndexes G o).at 1) = some (centre1 G 1 ((cellIndexes G o).at 1)))
    (hT2 : Src.C14.vecGet? t2 ((cellIndexes G o).at 2) = some (centre1 G 2 ((cellIndexes G o).at 2)))
    (hWo : ∀ i, wrap64 (Trunc.trunc ((o.at i - G.fmin.at i) / G.r)) = Trunc.trunc ((o.at i - G.fmin.at i) / G.r))
    (hWe : ∀ i, wrap64 (Trunc.trunc ((e.at i - G.fmin.at i) / G.r)) = Trunc.trunc ((e.at i - G.fmin.at i) / G.r))
    (hK : ∀ i, (cellIndexes G o).at i < G.n.at i) (hE : ∀ i, (cellIndexes G e).at i < G.n.at i)
    (hf : (numCells (fresh spec3d G o e)).toNat ≤ fuel) :
    ∃ cells : List (Vec 3 Int),
      (Src.C14.RayCasting.cast_oe_d3 fuel (e.at 0) (e.at 1) (e.at 2) t0 t1 t2 G.r (G.fmin.at 0) (G.fmin.at 1) (G.fmin.at 2)
          (o.at 0) (o.at 1) (o.at 2)).map Prod.fst = some (cells.map tup3) ∧
      cells.length = l1 (cellIndexes G o) (cellIndexes G e) + 1 ∧
      (∀ k (hk : k + 1 < cells.length), Adjacent (cells[k]'(by omega)) (cells[k + 1]'hk)) ∧
      (∀ c ∈ cells, ∀ i, 0 ≤ c.at i ∧ c.at i < G.n.at i) ∧
      cells.head? = some (cellIndexes G o) ∧ cells.getLast? = some (cellIndexes G e) := by
  refine ⟨(castOE spec3d G init o e).2, src_cast_oe_d3_eq C init t0 t1 t2 fuel hT0 hT1 hT2 hWo hWe hf, counted_length C init, ?_, ?_, ?_, ?_⟩
  · intro k hk
    exact (counted_face_adjacent C init k hk).1
  · intro c hc i
    exact counted_in_bounds C hK hE init c hc i
  · exact starts_at_origin spec3d G init o e
  · exact counted_ends_in_end_cell C init

end
end Romea.Bridge.C14
