import RomeaProofs.Bridge.C15
import RomeaProofs.Lemmas.C15Odometer

/-!
# Bridge C15, part 3: the blanking loop nest of `WrappableGrid<int,2>::translate` AS TRANSLATED FROM TODAY'S SOURCE = the model's blanking

`Bridge/C15.lean` (`translate_2_quantities`) reduced the translated `translate_2` to: per axis, the translated blanking loop
(`translate_2.loop2` for axis 0, `translate_2.loop1/3` for axis 1) started at `firstSlab`, then the model's `newOffset`. This file proves
the loops themselves:

* `loop1_eq_odo`, `loop2_eq_odo`, `loop3_eq_odo` — each generated loop function IS the generic odometer `C15Odometer.odo` (by induction on
  the fuel, unfolding the generated definitions: any change of the loop's comparisons, resets, carried variables or of the written
  position breaks these);
* `blank_axis0_bridge`, `blank_axis1_bridge` — the odometer induction (`C15Odometer.odo_box`): for positive sizes below 2^63 with a
  product below 2^64, stored offsets below the sizes and a non-zero offset, with fuel ≥ (number of cells of the grid) + 1 the translated
  loop started at `firstSlab` returns `some` buffer = the model's fold of `set (linIdx c) e` over `box (slabRanges …)`;
* `translate_2_bridge` — the translated `translate_2 fuel …` = `some` (buffer and accumulated offsets of the model's
  `WGrid.translate`), for EVERY offset pair (any sign, any magnitude) and every empty value.

Fuel: `n0 * n1 + 1` (one iteration per blanked cell, at most all cells, plus the final test of `done`) is enough for both axes.
The hypothesis `buffer length = product` is not needed for these equalities (a write outside a Lean list is a no-op on both sides); it is
needed — and stated (`WF`) — in part 3 of `Bridge/C15Cor.lean` (`src_translate_refines_2`, `src_history_2`), where the buffer is read back.
Core Lean only.
-/
namespace Romea.Bridge.C15
open Romea Romea.WrapGrid Romea.C15Odometer

private theorem two64_eq'' : two64 = 18446744073709551616 := by decide

/-! ### the generated loop functions are the generic odometer -/

/-- the position the translated loop writes for the index pair `(x0, x1)` -/
def srcPos (c0 c1 o0 o1 n0 n1 : Int) (x0 x1 : Int) : Nat :=
  Int.toNat (Src.C15.WrappableGrid.computeCellLinearIndex__2 x0 x1 c0 c1 o0 o1 n0 n1)

/-- the blanking loop of axis 0 as generated: axis 0 runs over `[firstSlab, lastSlab)`, axis 1 over `[0, n1)` -/
theorem loop2_eq_odo (e f c0 c1 o0 o1 l n0 n1 : Int) (fuel : Nat) (buf : List Int) (x0 x1 : Int) (done : Bool) :
    Src.C15.WrappableGrid.translate_2.loop2 e f c0 c1 o0 o1 l n0 n1 fuel buf x0 x1 done
      = odo (srcPos c0 c1 o0 o1 n0 n1) e f l 0 n1 fuel buf x0 x1 done := by
  induction fuel generalizing buf x0 x1 done with
  | zero => rfl
  | succ k ih =>
    unfold Src.C15.WrappableGrid.translate_2.loop2 odo
    simp only [ih, srcPos]

/-- the blanking loop of axis 1 as generated (copy used when axis 0 was skipped): axis 0 over `[0, n0)`, axis 1 over the slab -/
theorem loop1_eq_odo (e f c0 c1 o0 o1 l n0 n1 : Int) (fuel : Nat) (buf : List Int) (x0 x1 : Int) (done : Bool) :
    Src.C15.WrappableGrid.translate_2.loop1 e f c0 c1 o0 o1 l n0 n1 fuel buf x0 x1 done
      = odo (srcPos c0 c1 o0 o1 n0 n1) e 0 n0 f l fuel buf x0 x1 done := by
  induction fuel generalizing buf x0 x1 done with
  | zero => rfl
  | succ k ih =>
    unfold Src.C15.WrappableGrid.translate_2.loop1 odo
    simp only [ih, srcPos]

/-- the blanking loop of axis 1 as generated (copy used after axis 0 was processed) -/
theorem loop3_eq_odo (e f c0 c1 o0 o1 l n0 n1 : Int) (fuel : Nat) (buf : List Int) (x0 x1 : Int) (done : Bool) :
    Src.C15.WrappableGrid.translate_2.loop3 e f c0 c1 o0 o1 l n0 n1 fuel buf x0 x1 done
      = odo (srcPos c0 c1 o0 o1 n0 n1) e 0 n0 f l fuel buf x0 x1 done := by
  induction fuel generalizing buf x0 x1 done with
  | zero => rfl
  | succ k ih =>
    unfold Src.C15.WrappableGrid.translate_2.loop3 odo
    simp only [ih, srcPos]

/-! ### the slab is a non-empty part of the axis (sizes below 2^63: no `SizeOK` needed here) -/

private theorem slab_bounds (n : Nat) (d : Int) (hn : 0 < n) (hn2 : n < 2 ^ 63) (hd : d ≠ 0) :
    firstSlab n d < lastSlab n d ∧ lastSlab n d ≤ n := by
  have h64 : (2 : Int) ^ 64 = 18446744073709551616 := by decide
  unfold lastSlab firstSlab numberOfSlabs toSizeT
  rw [two64_eq'', h64]
  simp only [GT.gt, Int.min_def]
  split <;> split <;> omega

private theorem srcPos_eq (buf : List Int) (n0 n1 o0 o1 : Nat) (hn0 : 0 < n0) (hn1 : 0 < n1) (h0 : n0 < 2 ^ 63) (h1 : n1 < 2 ^ 63)
    (hp : n0 * n1 < two64) (ho0 : o0 < n0) (ho1 : o1 < n1) (x y : Nat) (hx : x < n0) (hy : y < n1) :
    srcPos 1 n0 o0 o1 n0 n1 (x : Int) (y : Int) = (⟨[n0, n1], [o0, o1], buf⟩ : WGrid Int).linIdx [x, y] := by
  unfold srcPos
  rw [linIdx_2_bridge buf n0 n1 o0 o1 x y hn0 hn1 hp (by rw [two64_eq'']; omega) (by rw [two64_eq'']; omega), Int.toNat_natCast]

/-! ### the odometer induction, per axis -/

/-- **Axis 0: the translated blanking loop = the model's blanking.** With fuel ≥ number of cells + 1 the loop ends and its buffer is the
    model's fold over `box (slabRanges [n0, n1] 0 firstSlab lastSlab)`: the same cells set to `e`, all others unchanged -/
theorem blank_axis0_bridge (buf : List Int) (e : Int) (n0 n1 o0 o1 : Nat) (hn0 : 0 < n0) (hn1 : 0 < n1) (h0 : n0 < 2 ^ 63)
    (h1 : n1 < 2 ^ 63) (hp : n0 * n1 < two64) (ho0 : o0 < n0) (ho1 : o1 < n1) (d : Int) (hd : d ≠ 0) (fuel : Nat)
    (hfuel : n0 * n1 + 1 ≤ fuel) :
    Src.C15.WrappableGrid.translate_2.loop2 e (firstSlab n0 d : Nat) 1 n0 o0 o1 (lastSlab n0 d : Nat) n0 n1 fuel buf
        (firstSlab n0 d : Nat) 0 false
      = some ((box (slabRanges [n0, n1] 0 (firstSlab n0 d) (lastSlab n0 d))).foldl
          (fun b c => b.set ((⟨[n0, n1], [o0, o1], buf⟩ : WGrid Int).linIdx c) e) buf, ((firstSlab n0 d : Nat) : Int), 0, true) := by
  obtain ⟨hfl, hln⟩ := slab_bounds n0 d hn0 h0 hd
  have hcells : (n1 - 0) * (lastSlab n0 d - firstSlab n0 d) + 1 ≤ fuel := by
    have : (n1 - 0) * (lastSlab n0 d - firstSlab n0 d) ≤ n1 * n0 := Nat.mul_le_mul (by omega) (by omega)
    rw [Nat.mul_comm n1 n0] at this
    omega
  rw [loop2_eq_odo]
  have hb := odo_box (srcPos 1 n0 o0 o1 n0 n1) e (firstSlab n0 d) (lastSlab n0 d) 0 n1 (by omega) (by omega) hfl hn1 buf fuel hcells
  simp only [Int.natCast_zero] at hb
  rw [hb]
  have hs : slabRanges [n0, n1] 0 (firstSlab n0 d) (lastSlab n0 d) = [(firstSlab n0 d, lastSlab n0 d), (0, n1)] := rfl
  rw [hs, foldl_box_two (fun c => (⟨[n0, n1], [o0, o1], buf⟩ : WGrid Int).linIdx c) (srcPos 1 n0 o0 o1 n0 n1) e _ _ _ _
    (fun x y _ hx2 _ hy2 => srcPos_eq buf n0 n1 o0 o1 hn0 hn1 h0 h1 hp ho0 ho1 x y (by omega) hy2)]

/-- **Axis 1: the translated blanking loop = the model's blanking** (`loop3`; `loop1` is the same function, `loop1_eq_odo`) -/
theorem blank_axis1_bridge (buf : List Int) (e : Int) (n0 n1 o0 o1 : Nat) (hn0 : 0 < n0) (hn1 : 0 < n1) (h0 : n0 < 2 ^ 63)
    (h1 : n1 < 2 ^ 63) (hp : n0 * n1 < two64) (ho0 : o0 < n0) (ho1 : o1 < n1) (d : Int) (hd : d ≠ 0) (fuel : Nat)
    (hfuel : n0 * n1 + 1 ≤ fuel) :
    Src.C15.WrappableGrid.translate_2.loop3 e (firstSlab n1 d : Nat) 1 n0 o0 o1 (lastSlab n1 d : Nat) n0 n1 fuel buf
        0 (firstSlab n1 d : Nat) false
      = some ((box (slabRanges [n0, n1] 1 (firstSlab n1 d) (lastSlab n1 d))).foldl
          (fun b c => b.set ((⟨[n0, n1], [o0, o1], buf⟩ : WGrid Int).linIdx c) e) buf, 0, ((firstSlab n1 d : Nat) : Int), true) := by
  obtain ⟨hfl, hln⟩ := slab_bounds n1 d hn1 h1 hd
  have hcells : (lastSlab n1 d - firstSlab n1 d) * (n0 - 0) + 1 ≤ fuel := by
    have : (lastSlab n1 d - firstSlab n1 d) * (n0 - 0) ≤ n1 * n0 := Nat.mul_le_mul (by omega) (by omega)
    rw [Nat.mul_comm n1 n0] at this
    omega
  rw [loop3_eq_odo]
  have hb := odo_box (srcPos 1 n0 o0 o1 n0 n1) e 0 n0 (firstSlab n1 d) (lastSlab n1 d) (by omega) (by omega) hn0 hfl buf fuel hcells
  simp only [Int.natCast_zero] at hb
  rw [hb]
  have hs : slabRanges [n0, n1] 1 (firstSlab n1 d) (lastSlab n1 d) = [(0, n0), (firstSlab n1 d, lastSlab n1 d)] := rfl
  rw [hs, foldl_box_two (fun c => (⟨[n0, n1], [o0, o1], buf⟩ : WGrid Int).linIdx c) (srcPos 1 n0 o0 o1 n0 n1) e _ _ _ _
    (fun x y _ hx2 _ hy2 => srcPos_eq buf n0 n1 o0 o1 hn0 hn1 h0 h1 hp ho0 ho1 x y hx2 (by omega))]

/-! ### the whole of `translate` -/

/-- the model's axis iteration on a two-axis grid, written out (axis 0) -/
private theorem translateAxis0_eq (buf : List Int) (e : Int) (n0 n1 o0 o1 : Nat) (d : Int) :
    (⟨[n0, n1], [o0, o1], buf⟩ : WGrid Int).translateAxis 0 d e =
      if d = 0 then ⟨[n0, n1], [o0, o1], buf⟩
      else ⟨[n0, n1], [newOffset n0 o0 d, o1],
        (box (slabRanges [n0, n1] 0 (firstSlab n0 d) (lastSlab n0 d))).foldl
          (fun b c => b.set ((⟨[n0, n1], [o0, o1], buf⟩ : WGrid Int).linIdx c) e) buf⟩ := by
  unfold WGrid.translateAxis
  split <;> rfl

private theorem translateAxis1_eq (buf : List Int) (e : Int) (n0 n1 o0 o1 : Nat) (d : Int) :
    (⟨[n0, n1], [o0, o1], buf⟩ : WGrid Int).translateAxis 1 d e =
      if d = 0 then ⟨[n0, n1], [o0, o1], buf⟩
      else ⟨[n0, n1], [o0, newOffset n1 o1 d],
        (box (slabRanges [n0, n1] 1 (firstSlab n1 d) (lastSlab n1 d))).foldl
          (fun b c => b.set ((⟨[n0, n1], [o0, o1], buf⟩ : WGrid Int).linIdx c) e) buf⟩ := by
  unfold WGrid.translateAxis
  split <;> rfl

private theorem translate_two (g : WGrid Int) (hd : g.dims.length = 2) (d0 d1 e : Int) :
    g.translate [d0, d1] e = (g.translateAxis 0 d0 e).translateAxis 1 d1 e := by
  unfold WGrid.translate
  rw [hd]
  rfl

/-- the result triple of the translated `translate_2` that corresponds to a two-axis model grid -/
def enc2 (g : WGrid Int) : List Int × Int × Int := (g.buf, ((g.off.getD 0 0 : Nat) : Int), ((g.off.getD 1 0 : Nat) : Int))

private theorem axisPass0 (buf : List Int) (e : Int) (n0 n1 o0 o1 : Nat) (hn0 : 0 < n0) (hn1 : 0 < n1) (h0 : n0 < 2 ^ 63)
    (h1 : n1 < 2 ^ 63) (hp : n0 * n1 < two64) (ho0 : o0 < n0) (ho1 : o1 < n1) (d : Int) (fuel : Nat) (hfuel : n0 * n1 + 1 ≤ fuel) :
    axisPass (fun f l => Src.C15.WrappableGrid.translate_2.loop2 e f 1 n0 o0 o1 l n0 n1 fuel buf f 0 false) n0 o0 d buf
      = some (((⟨[n0, n1], [o0, o1], buf⟩ : WGrid Int).translateAxis 0 d e).buf,
          ((((⟨[n0, n1], [o0, o1], buf⟩ : WGrid Int).translateAxis 0 d e).off.getD 0 0 : Nat) : Int)) := by
  rw [translateAxis0_eq]
  unfold axisPass
  by_cases hd : d = 0
  · simp only [hd, if_true, List.getD_cons_zero]
  · simp only [hd, if_false, List.getD_cons_zero]
    rw [blank_axis0_bridge buf e n0 n1 o0 o1 hn0 hn1 h0 h1 hp ho0 ho1 d hd fuel hfuel]

private theorem axisPass1 (buf : List Int) (e : Int) (n0 n1 o0 o1 : Nat) (hn0 : 0 < n0) (hn1 : 0 < n1) (h0 : n0 < 2 ^ 63)
    (h1 : n1 < 2 ^ 63) (hp : n0 * n1 < two64) (ho0 : o0 < n0) (ho1 : o1 < n1) (d : Int) (fuel : Nat) (hfuel : n0 * n1 + 1 ≤ fuel) :
    axisPass (fun f l => Src.C15.WrappableGrid.translate_2.loop3 e f 1 n0 o0 o1 l n0 n1 fuel buf 0 f false) n1 o1 d buf
      = some (((⟨[n0, n1], [o0, o1], buf⟩ : WGrid Int).translateAxis 1 d e).buf,
          ((((⟨[n0, n1], [o0, o1], buf⟩ : WGrid Int).translateAxis 1 d e).off.getD 1 0 : Nat) : Int)) := by
  rw [translateAxis1_eq]
  unfold axisPass
  by_cases hd : d = 0
  · simp only [hd, if_true, List.getD_cons_succ, List.getD_cons_zero]
  · simp only [hd, if_false, List.getD_cons_succ, List.getD_cons_zero]
    rw [blank_axis1_bridge buf e n0 n1 o0 o1 hn0 hn1 h0 h1 hp ho0 ho1 d hd fuel hfuel]

/-- **`WrappableGrid<int,2>::translate` as translated from today's source = the model's `WGrid.translate`.** For a two-axis grid with
    positive sizes below 2^63 whose product is below 2^64 and stored offsets below the sizes, for EVERY offset pair `(d0, d1)` (positive,
    negative, zero, `|d| ≥ n` included) and every empty value `e`, with fuel ≥ `n0 * n1 + 1`: the translated function (with the index
    coefficients `(1, n0)` that `Grid::init` stores) terminates and returns the buffer and the two accumulated offsets of the model -/
theorem translate_2_bridge (buf : List Int) (e d0 d1 : Int) (n0 n1 o0 o1 : Nat) (hn0 : 0 < n0) (hn1 : 0 < n1) (h0 : n0 < 2 ^ 63)
    (h1 : n1 < 2 ^ 63) (hp : n0 * n1 < two64) (ho0 : o0 < n0) (ho1 : o1 < n1) (fuel : Nat) (hfuel : n0 * n1 + 1 ≤ fuel) :
    Src.C15.WrappableGrid.translate_2 fuel buf e 1 n0 d0 d1 o0 o1 n0 n1
      = some (enc2 ((⟨[n0, n1], [o0, o1], buf⟩ : WGrid Int).translate [d0, d1] e)) := by
  rw [translate_2_quantities fuel buf e 1 n0 d0 d1 o0 o1 n0 n1 h0 h1,
    axisPass0 buf e n0 n1 o0 o1 hn0 hn1 h0 h1 hp ho0 ho1 d0 fuel hfuel, translate_two _ rfl]
  -- the grid after axis 0, in components
  obtain ⟨o0', b1, hg1, ho0'⟩ : ∃ (o0' : Nat) (b1 : List Int),
      (⟨[n0, n1], [o0, o1], buf⟩ : WGrid Int).translateAxis 0 d0 e = ⟨[n0, n1], [o0', o1], b1⟩ ∧ o0' < n0 := by
    rw [translateAxis0_eq]
    by_cases hd : d0 = 0
    · exact ⟨o0, buf, by rw [if_pos hd], ho0⟩
    · exact ⟨newOffset n0 o0 d0, _, by rw [if_neg hd], Nat.mod_lt _ hn0⟩
  rw [hg1]
  simp only [List.getD_cons_zero]
  rw [axisPass1 b1 e n0 n1 o0' o1 hn0 hn1 h0 h1 hp ho0' ho1 d1 fuel hfuel]
  simp only [enc2]
  have hoff0 : ((⟨[n0, n1], [o0', o1], b1⟩ : WGrid Int).translateAxis 1 d1 e).off.getD 0 0 = o0' := by
    rw [translateAxis1_eq]
    split <;> rfl
  rw [hoff0]

/-- the same with the index coefficients taken from the translated `Grid::init` (what the object actually stores) -/
theorem translate_2_bridge_init (buf : List Int) (e d0 d1 : Int) (n0 n1 o0 o1 : Nat) (hn0 : 0 < n0) (hn1 : 0 < n1) (h0 : n0 < 2 ^ 63)
    (h1 : n1 < 2 ^ 63) (hp : n0 * n1 < two64) (ho0 : o0 < n0) (ho1 : o1 < n1) (fuel : Nat) (hfuel : n0 * n1 + 1 ≤ fuel) :
    let c := Src.C15.Grid.init_2 [] n0 n1
    Src.C15.WrappableGrid.translate_2 fuel buf e c.2.1 c.2.2.1 d0 d1 o0 o1 c.2.2.2.1 c.2.2.2.2
      = some (enc2 ((⟨[n0, n1], [o0, o1], buf⟩ : WGrid Int).translate [d0, d1] e)) := by
  simp only [Src.C15.Grid.init_2]
  exact translate_2_bridge buf e d0 d1 n0 n1 o0 o1 hn0 hn1 h0 h1 hp ho0 ho1 fuel hfuel

/-! ### Non-vacuity: a concrete 3 × 2 grid, evaluated through the GENERATED definitions -/

-- offsets (1, -1): the slab x = 0 is blanked on axis 0, then the slab y = 1 on axis 1 (stored offsets become (1, 1))
example : Src.C15.WrappableGrid.translate_2 7 [1, 2, 3, 4, 5, 6] 0 1 3 1 (-1) 0 0 3 2 = some ([0, 2, 3, 0, 0, 0], 1, 1) := by decide
example : enc2 ((⟨[3, 2], [0, 0], [1, 2, 3, 4, 5, 6]⟩ : WGrid Int).translate [1, -1] 0) = ([0, 2, 3, 0, 0, 0], 1, 1) := by decide
-- offsets (5, 0): |offset| ≥ size on axis 0 (every cell blanked, stored offset 5 mod 3 = 2), axis 1 skipped
example : Src.C15.WrappableGrid.translate_2 7 [1, 2, 3, 4, 5, 6] 9 1 3 5 0 0 0 3 2 = some ([9, 9, 9, 9, 9, 9], 2, 0) := by decide
example : enc2 ((⟨[3, 2], [0, 0], [1, 2, 3, 4, 5, 6]⟩ : WGrid Int).translate [5, 0] 9) = ([9, 9, 9, 9, 9, 9], 2, 0) := by decide
-- the fuel bound is sharp: with n0 * n1 = 6 units of fuel the loop of (5, 0) (6 cells + the final test) does not finish
example : Src.C15.WrappableGrid.translate_2 6 [1, 2, 3, 4, 5, 6] 9 1 3 5 0 0 0 3 2 = none := by decide
-- the hypotheses of `translate_2_bridge` on this instance
example : (0 < 3 ∧ 0 < 2 ∧ 3 < 2 ^ 63 ∧ 2 < 2 ^ 63 ∧ 3 * 2 < two64 ∧ 0 < 3 ∧ 0 < 2 ∧ 3 * 2 + 1 ≤ 7) := by decide
-- the blanking loop alone (axis 0, offset -2 on the 3 × 2 grid with stored offsets (1, 0)): slab [1, 3)
example : Src.C15.WrappableGrid.translate_2.loop2 0 (firstSlab 3 (-2) : Nat) 1 3 1 0 (lastSlab 3 (-2) : Nat) 3 2 7 [1, 2, 3, 4, 5, 6]
    (firstSlab 3 (-2) : Nat) 0 false = some ([0, 2, 0, 0, 5, 0], 1, 0, true) := by decide

end Romea.Bridge.C15
