import RomeaProofs.Bridge.C20
import RomeaProofs.Properties.C20

/-!
# Bridge C20, part 2: headline theorems of `Properties/C20.lean` restated about the functions translated from today's source
(`Romea.Src.C20.*`, regenerated from `/repo` on every run), at the scalar type ℝ.
-/
namespace Romea.Bridge.C20
open Romea Romea.BBox Romea.C20

theorem hc_real : ∀ k : Nat, ((k : Int) : ℝ) = (k : ℝ) := fun k => Int.cast_natCast k

theorem forall_fin2 (P : Fin 2 → Prop) : (∀ i, P i) ↔ P 0 ∧ P 1 :=
  ⟨fun h => ⟨h 0, h 1⟩, fun h i => by
    match i with
    | ⟨0, _⟩ => exact h.1
    | ⟨1, _⟩ => exact h.2⟩

theorem forall_fin3 (P : Fin 3 → Prop) : (∀ i, P i) ↔ P 0 ∧ P 1 ∧ P 2 :=
  ⟨fun h => ⟨h 0, h 1, h 2⟩, fun h i => by
    match i with
    | ⟨0, _⟩ => exact h.1
    | ⟨1, _⟩ => exact h.2.1
    | ⟨2, _⟩ => exact h.2.2⟩

/-- `C20.interval_inside` about the translated `Interval<double, 3>::inside`: true exactly on the closed box -/
theorem src_interval_inside_d3 (l0 l1 l2 u0 u1 u2 v0 v1 v2 : ℝ) :
    Src.C20.Interval.inside_d3 l0 l1 l2 u0 u1 u2 v0 v1 v2 = true ↔
      (l0 ≤ v0 ∧ v0 ≤ u0) ∧ (l1 ≤ v1 ∧ v1 ≤ u1) ∧ (l2 ≤ v2 ∧ v2 ≤ u2) := by
  have h := interval_inside_d3_bridge (⟨v3 l0 l1 l2, v3 u0 u1 u2⟩ : Interval 3 ℝ) (v3 v0 v1 v2)
  have e : Src.C20.Interval.inside_d3 l0 l1 l2 u0 u1 u2 v0 v1 v2
      = (⟨v3 l0 l1 l2, v3 u0 u1 u2⟩ : Interval 3 ℝ).inside (v3 v0 v1 v2) := h
  rw [e, interval_inside, forall_fin3]
  rfl

/-- `C20.interval_hull` (bounds) about the translated `Interval<double, 2>::include`: the written bounds are the componentwise
    min / max -/
theorem src_interval_include_d2 (jl0 jl1 ju0 ju1 il0 il1 iu0 iu1 : ℝ) :
    Src.C20.Interval.include_d2 jl0 jl1 ju0 ju1 il0 il1 iu0 iu1
      = (min il0 jl0, min il1 jl1, max iu0 ju0, max iu1 ju1) := by
  have h := interval_include_d2_bridge (⟨v2 il0 il1, v2 iu0 iu1⟩ : Interval 2 ℝ) (⟨v2 jl0 jl1, v2 ju0 ju1⟩ : Interval 2 ℝ)
  have hb := (interval_hull (⟨v2 il0 il1, v2 iu0 iu1⟩ : Interval 2 ℝ) (⟨v2 jl0 jl1, v2 ju0 ju1⟩ : Interval 2 ℝ)).1
  have e : Src.C20.Interval.include_d2 jl0 jl1 ju0 ju1 il0 il1 iu0 iu1 = _ := h
  rw [e, (hb 0).1, (hb 0).2, (hb 1).1, (hb 1).2]
  rfl

/-- `C20.aabb_inside` about the translated `AxisAlignedBoundingBox<double, 3>`: `isInside` ⇔ every coordinate within centre ± half
    extent ⇔ the translated `Interval::inside` of the bounds the translated `toInterval` returns -/
theorem src_aabb_inside_d3 (c0 c1 c2 h0 h1 h2 p0 p1 p2 : ℝ) :
    (Src.C20.AxisAlignedBoundingBox.isInside_d3 c0 c1 c2 h0 h1 h2 p0 p1 p2 = true ↔
      |p0 - c0| ≤ h0 ∧ |p1 - c1| ≤ h1 ∧ |p2 - c2| ≤ h2) ∧
    (Src.C20.AxisAlignedBoundingBox.isInside_d3 c0 c1 c2 h0 h1 h2 p0 p1 p2 = true ↔
      Src.C20.Interval.inside_d3
        (Src.C20.AxisAlignedBoundingBox.toInterval_d3 c0 c1 c2 h0 h1 h2).1
        (Src.C20.AxisAlignedBoundingBox.toInterval_d3 c0 c1 c2 h0 h1 h2).2.1
        (Src.C20.AxisAlignedBoundingBox.toInterval_d3 c0 c1 c2 h0 h1 h2).2.2.1
        (Src.C20.AxisAlignedBoundingBox.toInterval_d3 c0 c1 c2 h0 h1 h2).2.2.2.1
        (Src.C20.AxisAlignedBoundingBox.toInterval_d3 c0 c1 c2 h0 h1 h2).2.2.2.2.1
        (Src.C20.AxisAlignedBoundingBox.toInterval_d3 c0 c1 c2 h0 h1 h2).2.2.2.2.2 p0 p1 p2 = true) := by
  let b : AABB 3 ℝ := ⟨v3 c0 c1 c2, v3 h0 h1 h2⟩
  have e1 : Src.C20.AxisAlignedBoundingBox.isInside_d3 c0 c1 c2 h0 h1 h2 p0 p1 p2 = b.isInside (v3 p0 p1 p2) :=
    aabb_isInside_d3_bridge b (v3 p0 p1 p2)
  have e2 : Src.C20.AxisAlignedBoundingBox.toInterval_d3 c0 c1 c2 h0 h1 h2
      = (b.toInterval.lower 0, b.toInterval.lower 1, b.toInterval.lower 2, b.toInterval.upper 0, b.toInterval.upper 1,
         b.toInterval.upper 2) := aabb_toInterval_d3_bridge b
  have e3 := interval_inside_d3_bridge b.toInterval (v3 p0 p1 p2)
  constructor
  · rw [e1, (aabb_inside b _).1, forall_fin3]; rfl
  · rw [e2, e1, (aabb_inside b _).2]
    show _ ↔ Src.C20.Interval.inside_d3 (b.toInterval.lower 0) (b.toInterval.lower 1) (b.toInterval.lower 2)
      (b.toInterval.upper 0) (b.toInterval.upper 1) (b.toInterval.upper 2) (v3 p0 p1 p2 0) (v3 p0 p1 p2 1) (v3 p0 p1 p2 2) = true
    rw [e3]

/-- `C20.obb_enclosed` about the translated `OrientedBoundingBox<double, 3>`: for an orthogonal rotation member, every point the
    translated `isInside` accepts is accepted by the translated `AxisAlignedBoundingBox::isInside` of the box the translated
    `toAxisAlignedBoundingBox` returns -/
theorem src_obb_enclosed_d3 (b : OBB 3 ℝ) (hR : Matrix.transpose (Matrix.of b.rot) * Matrix.of b.rot = 1) (p0 p1 p2 : ℝ)
    (hp : Src.C20.OrientedBoundingBox.isInside_d3 (b.aabb.center 0) (b.aabb.center 1) (b.aabb.center 2)
        (b.aabb.half 0) (b.aabb.half 1) (b.aabb.half 2) p0 p1 p2
        (b.rot 0 0) (b.rot 0 1) (b.rot 0 2) (b.rot 1 0) (b.rot 1 1) (b.rot 1 2) (b.rot 2 0) (b.rot 2 1) (b.rot 2 2) = true) :
    let a := Src.C20.OrientedBoundingBox.toAxisAlignedBoundingBox_d3 (b.aabb.center 0) (b.aabb.center 1) (b.aabb.center 2)
        (b.aabb.half 0) (b.aabb.half 1) (b.aabb.half 2)
        (b.rot 0 0) (b.rot 0 1) (b.rot 0 2) (b.rot 1 0) (b.rot 1 1) (b.rot 1 2) (b.rot 2 0) (b.rot 2 1) (b.rot 2 2)
    Src.C20.AxisAlignedBoundingBox.isInside_d3 a.1 a.2.1 a.2.2.1 a.2.2.2.1 a.2.2.2.2.1 a.2.2.2.2.2 p0 p1 p2 = true := by
  intro a
  have hp' : b.isInside .left (v3 p0 p1 p2) = true := by
    rw [← obb_isInside_d3_bridge b (v3 p0 p1 p2)]; exact hp
  have ha : a = (b.toAABB.center 0, b.toAABB.center 1, b.toAABB.center 2, b.toAABB.half 0, b.toAABB.half 1, b.toAABB.half 2) :=
    obb_toAABB_d3_bridge b
  have h := obb_enclosed .left b hR (v3 p0 p1 p2) hp'
  rw [ha]
  exact (aabb_isInside_d3_bridge b.toAABB (v3 p0 p1 p2)).trans h

/-- `C20.pointset_extents_limits` about the translated `PointSetPreconditioner<Eigen::Vector2d>::compute`: for every non-empty point
    set with coordinates in `[-max(), max()]` (and `lowest() = -max()`), the translated code terminates normally (`some`) and the
    `pointSetMin_` / `pointSetMax_` it writes are the true componentwise extrema -/
theorem src_pointset_extents_2d (L : Limits ℝ) (hL : L.lowest = -L.maxVal) (pts : List (ℝ × ℝ)) (hne : pts ≠ [])
    (hM : ∀ p ∈ pts, (-L.maxVal ≤ p.1 ∧ p.1 ≤ L.maxVal) ∧ (-L.maxVal ≤ p.2 ∧ p.2 ≤ L.maxVal)) :
    ∃ mx0 mx1 me0 me1 mn0 mn1 sc t0 t1,
      (letI := L; Src.C20.PointSetPreconditioner.compute_2d pts) = some (mx0, mx1, me0, me1, mn0, mn1, sc, t0, t1) ∧
      (∀ p ∈ pts, mn0 ≤ p.1 ∧ p.1 ≤ mx0 ∧ mn1 ≤ p.2 ∧ p.2 ≤ mx1) ∧
      (∃ p ∈ pts, mn0 = p.1) ∧ (∃ p ∈ pts, mx0 = p.1) ∧ (∃ p ∈ pts, mn1 = p.2) ∧ (∃ p ∈ pts, mx1 = p.2) ∧
      t0 = -me0 * sc ∧ t1 = -me1 * sc := by
  let _ := L
  let q : List (Vec 2 ℝ) := pts.map (fun p => v2 p.1 p.2)
  have hq : q ≠ [] := by simpa [q] using hne
  have hMq : ∀ p ∈ q, ∀ i, -L.maxVal ≤ p i ∧ p i ≤ L.maxVal := by
    intro p hp i
    obtain ⟨p', hp', rfl⟩ := List.mem_map.mp hp
    match i with
    | ⟨0, _⟩ => exact (hM p' hp').1
    | ⟨1, _⟩ => exact (hM p' hp').2
  obtain ⟨hmin, hmax⟩ := pointset_extents_limits (cart := 2) (Nat.le_refl 2) L.maxVal q hq hMq
  have hcomp : Precond.compute (cart := 2) (Nat.le_refl 2) q = Precond.computeWith (Nat.le_refl 2) L.maxVal (-L.maxVal) q := by
    unfold Precond.compute; rw [← hL]
  refine ⟨_, _, _, _, _, _, _, _, _, precond_compute_2d_bridge hc_real pts, ?_⟩
  rw [show Precond.compute (sz := 2) (cart := 2) (Nat.le_refl 2) (pts.map (fun p => v2 p.1 p.2))
    = Precond.computeWith (Nat.le_refl 2) L.maxVal (-L.maxVal) q from hcomp]
  have lift : ∀ (i : Fin 2) (f : ℝ × ℝ → ℝ), (∀ p : ℝ × ℝ, (v2 p.1 p.2 : Vec 2 ℝ) i = f p) →
      ∀ m, (∃ p ∈ q, m = p i) → ∃ p ∈ pts, m = f p := by
    intro i f hf m ⟨p, hp, hm⟩
    obtain ⟨p', hp', rfl⟩ := List.mem_map.mp hp
    exact ⟨p', hp', by rw [hm, hf]⟩
  refine ⟨?_, lift 0 (fun p => p.1) (fun _ => rfl) _ (hmin 0).2, lift 0 (fun p => p.1) (fun _ => rfl) _ (hmax 0).2,
    lift 1 (fun p => p.2) (fun _ => rfl) _ (hmin 1).2, lift 1 (fun p => p.2) (fun _ => rfl) _ (hmax 1).2, rfl, rfl⟩
  intro p hp
  have hpq : v2 p.1 p.2 ∈ q := List.mem_map.mpr ⟨p, hp, rfl⟩
  exact ⟨(hmin 0).1 _ hpq, (hmax 0).1 _ hpq, (hmin 1).1 _ hpq, (hmax 1).1 _ hpq⟩

end Romea.Bridge.C20
