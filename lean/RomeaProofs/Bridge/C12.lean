import RomeaModel.Derivatives
import RomeaModel.Generated.SrcC12

/-!
# Bridge C12: the matrices `SmartRotation3D(ax, ay, az)` holds, AS TRANSLATED FROM TODAY'S SOURCE = the model's `smartInit`

`RomeaModel/Generated/SrcC12.lean` is regenerated on every check run from `src/transform/SmartRotation3D.cpp`: the default
constructor (ten `Identity()` / `Zero()` members), the delegating three-angle constructor and `init` (coefficient assignments and
the nine 3×3 products). Four views of the three-angle constructor are bridged: the entries of `R_`, `dRdAngleX_`, `dRdAngleY_`,
`dRdAngleZ_` — the latter three are the "derivative" matrices about which `Properties/C12.lean` proves the characterisation
`reported = true derivative + spurious term` (the open known finding). Eigen's fixed-size product is read as
`(a_i0*b_0j + a_i1*b_1j) + a_i2*b_2j` on both sides. Generic in the scalar type, `rfl`; core Lean only.
`Pose3D.cpp`'s `operator*(Affine3d, Pose3D)` (6×6 Jacobian, propagated covariance) is translated and bridged in `Bridge/C12Pose.lean`.
-/
set_option linter.unusedSectionVars false

namespace Romea.Bridge.C12
open Romea Romea.Pose Romea.Deriv

variable {α : Type} [Add α] [Sub α] [Mul α] [Div α] [Neg α] [LT α] [DecidableLT α] [NatCast α] [Trans α]

/-- the nine entries of a 3×3 matrix, row by row -/
def entries (m : Mat 3 3 α) : α × α × α × α × α × α × α × α × α :=
  (m 0 0, m 0 1, m 0 2, m 1 0, m 1 1, m 1 2, m 2 0, m 2 1, m 2 2)

/-- `R_` after `SmartRotation3D(ax, ay, az)` -/
theorem smart_R_bridge (o : Vec 3 α) :
    Src.C12.SmartRotation3D.SmartRotation3D_R (o 0) (o 1) (o 2) = entries (smartInit o).R.get := by
  simp only [smartInit, tab_get]
  rfl

/-- `dRdAngleX_` after `SmartRotation3D(ax, ay, az)` -/
theorem smart_dRdX_bridge (o : Vec 3 α) :
    Src.C12.SmartRotation3D.SmartRotation3D_dRdX (o 0) (o 1) (o 2) = entries (smartInit o).dRdX.get := by
  simp only [smartInit, tab_get]
  rfl

/-- `dRdAngleY_` after `SmartRotation3D(ax, ay, az)` -/
theorem smart_dRdY_bridge (o : Vec 3 α) :
    Src.C12.SmartRotation3D.SmartRotation3D_dRdY (o 0) (o 1) (o 2) = entries (smartInit o).dRdY.get := by
  simp only [smartInit, tab_get]
  rfl

/-- `dRdAngleZ_` after `SmartRotation3D(ax, ay, az)` -/
theorem smart_dRdZ_bridge (o : Vec 3 α) :
    Src.C12.SmartRotation3D.SmartRotation3D_dRdZ (o 0) (o 1) (o 2) = entries (smartInit o).dRdZ.get := by
  simp only [smartInit, tab_get]
  rfl

end Romea.Bridge.C12
