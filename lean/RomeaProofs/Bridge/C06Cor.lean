import RomeaProofs.Bridge.C06
import RomeaProofs.Properties.C06
import RomeaProofs.Lemmas.C10Angles

/-!
# Bridge C06, part 2: `C06.iteration_bound_update_le` / `iteration_bound_monotone` restated about the translated `RansacIterations`
(`Romea.Src.C06.*`, regenerated from `/repo` on every run), at `ℝ`, for ANY value of the machine epsilon (`[Limits ℝ]`): an `update`
as translated never increases the iteration bound, and a bound constructed by the translated constructor and updated any number of
times through the translated `update` never exceeds the cap it was constructed with.
-/
namespace Romea.Bridge.C06
open Romea Romea.Ransac Romea.C06

private theorem hcast_real : ∀ n : Nat, (((n : Nat) : Int) : ℝ) = ((n : Nat) : ℝ) := fun n => Int.cast_natCast n

/-- the translated `update` never increases the bound (whatever the inlier count; no hypothesis on the truncation: if the quotient
    were negative the C++ conversion would be undefined, the translated value is then the negative integer, still below) -/
theorem src_iteration_bound_update_le [Limits ℝ] (logOpp n oneOverN : ℝ) (nInl nDraw : Int) :
    Src.C06.RansacIterations.update logOpp nInl n nDraw oneOverN ≤ n := by
  unfold Src.C06.RansacIterations.update
  simp only
  split_ifs <;> first | exact le_refl _ | exact le_of_lt (by assumption)

/-- a bound built by the translated constructor and updated through the translated `update` any number of times stays at most the
    cap, and is non-increasing along the updates -/
theorem src_iteration_bound_monotone [Limits ℝ] (p : ℝ) (nPts cap : Nat) (ups more : List (Int × Int)) :
    let c := Src.C06.RansacIterations.RansacIterations (δ := ℝ) p (cap : Int) (nPts : Int)
    let run := fun (l : List (Int × Int)) => l.foldl (fun n u => Src.C06.RansacIterations.update c.1 u.1 n u.2 c.2.2) c.2.1
    run (ups ++ more) ≤ run ups ∧ run ups ≤ (cap : ℝ) := by
  intro c run
  have key : ∀ (l : List (Int × Int)) (n : ℝ), l.foldl (fun n u => Src.C06.RansacIterations.update c.1 u.1 n u.2 c.2.2) n ≤ n := by
    intro l
    induction l with
    | nil => intro n; exact le_refl _
    | cons u us ih =>
      intro n
      simp only [List.foldl_cons]
      exact le_trans (ih _) (src_iteration_bound_update_le _ _ _ _ _)
  have hc : c.2.1 = (cap : ℝ) := by
    show (Src.C06.RansacIterations.RansacIterations (δ := ℝ) p (cap : Int) (nPts : Int)).2.1 = _
    rw [ctor_bridge hcast_real]
    rfl
  constructor
  · simp only [run, List.foldl_append]; exact key more _
  · have := key ups c.2.1
    rw [hc] at this
    exact this

/-- on the model's domain (non-negative truncated quotient) the translated `update` IS `C06`'s `Iterations.update`, so every theorem of
    `Properties/C06.lean` about the bound (`loop_bound_le`, `estimateModel_terminates`, …) speaks about the translated function -/
theorem src_update_is_model [Limits ℝ] (it : Iterations ℝ) (nInl nDraw : Nat)
    (hnn : 0 ≤ Trunc.trunc (it.logOpp / Trans.log
      (stdMin (one - (Limits.eps : ℝ)) (stdMax (Limits.eps : ℝ) (one - Trans.pow ((nInl : ℝ) * it.oneOverN) (nDraw : ℝ)))))) :
    Src.C06.RansacIterations.update it.logOpp (nInl : Int) it.n (nDraw : Int) it.oneOverN = (it.update (Limits.eps : ℝ) nInl nDraw).n :=
  update_bridge hcast_real it nInl nDraw hnn

end Romea.Bridge.C06
