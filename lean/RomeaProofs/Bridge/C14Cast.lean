import RomeaProofs.Bridge.C14

/-!
# Bridge C14, the three `cast` overloads AS TRANSLATED FROM TODAY'S SOURCE = the model's `cast` / `castTo` / `castOE`

`cast()` (RayTracing.cpp:171-185) is translated with its `while (++n != rayNumberOfCells)` loop as a recursive function on fuel
(`Src.C14.RayCasting.cast_*.loop1`: the test `(n + 1) ≠ N`, the translated `next`, the checked write `vecSet? ray (n + 1) cell`), the
`std::vector` of index vectors being a `List` of coordinate tuples (created with `N` junk entries, every one of which is overwritten).
The model's `cast` recurses on the number of steps (`steps sp (N - 1)`).  They are related here by induction on the number of steps left:
with enough fuel (`N ≤ fuel`) the translated `cast` is `some` of the model's chain (as tuples) and of the model's final `rayRemainingSteps_`
/ `rayTMax_` — i.e. no index ever falls outside the vector and the loop exits.

As everywhere in the C14 bridge the translator's integers are unbounded while the model wraps `size_t`: `NoWrap sp k s c` says that
along the next `k` steps the index that MOVES (axis `sp.pick tMax`) stays in `[0, 2^64)`; `Bridge/C14CastCor.lean` derives it from the
hypotheses of the counting theorems (`Counted`: indexes below 2^29).  Core Lean only.
-/
set_option linter.unusedSectionVars false
set_option linter.unusedVariables false
set_option linter.unusedSimpArgs false

namespace Romea.Bridge.C14
open Romea Romea.RayCast

/-- an index vector as the coordinate tuple of the translated `std::vector` element -/
def tup2 (c : Vec 2 Int) : Int × Int := (c.at 0, c.at 1)
def tup3 (c : Vec 3 Int) : Int × Int × Int := (c.at 0, c.at 1, c.at 2)

theorem iabs_nonneg (x : Int) : 0 ≤ iabs x := by
  unfold iabs
  split <;> omega

/-- writing entry `m` of a vector whose first `m` entries are `done` -/
theorem vecSet_append {β : Type} (done : List β) (j : β) (junk : List β) (x : β) (m : Int) (hm : m = (done.length : Int)) :
    Src.C14.vecSet? (done ++ j :: junk) m x = some ((done ++ [x]) ++ junk) := by
  subst hm
  unfold Src.C14.vecSet?
  have h1 : ¬ ((done.length : Int) < 0) := by omega
  have h2 : ((done.length : Int)).toNat < (done ++ j :: junk).length := by
    simp
  rw [if_neg h1, if_pos h2]
  congr 1
  simp [List.set_append]

section
variable {d : Nat} {α : Type} [Add α] [Sub α] [Mul α] [Div α] [LT α] [DecidableLT α]
  [NatCast α] [IntCast α] [OfScientific α] [Trans α] [Trunc α] [Limits α]

/-- along the next `k` calls of `next` the index that moves does not leave `[0, 2^64)` -/
def NoWrap (sp : Spec d α) : Nat → State d α → Vec d Int → Prop
  | 0, _, _ => True
  | k + 1, s, c =>
    wrap64 (c.at (sp.pick s.tMax) + s.step.at (sp.pick s.tMax)) = c.at (sp.pick s.tMax) + s.step.at (sp.pick s.tMax) ∧
    NoWrap sp k (next sp s c).1 (next sp s c).2

/-- `next` leaves `rayStep_` and `rayTDelta_` alone -/
theorem next_step_tDelta (sp : Spec d α) (s : State d α) (c : Vec d Int) :
    (next sp s c).1.step = s.step ∧ (next sp s c).1.tDelta = s.tDelta := by
  unfold next stepAxis
  simp only []
  split
  · split <;> exact ⟨rfl, rfl⟩
  · exact ⟨rfl, rfl⟩

/-- the members `next` does not write -/
def SameRay (s s' : State d α) : Prop :=
  s'.o = s.o ∧ s'.e = s.e ∧ s'.oIdx = s.oIdx ∧ s'.eIdx = s.eIdx ∧ s'.dir = s.dir ∧ s'.step = s.step ∧ s'.tDelta = s.tDelta

theorem next_sameRay (sp : Spec d α) (s : State d α) (c : Vec d Int) : SameRay s (next sp s c).1 := by
  unfold next stepAxis SameRay
  simp only []
  split
  · split <;> exact ⟨rfl, rfl, rfl, rfl, rfl, rfl, rfl⟩
  · exact ⟨rfl, rfl, rfl, rfl, rfl, rfl, rfl⟩

theorem steps_sameRay (sp : Spec d α) (k : Nat) : ∀ (s : State d α) (c : Vec d Int), SameRay s (steps sp k s c).1 := by
  induction k with
  | zero => intro s c; exact ⟨rfl, rfl, rfl, rfl, rfl, rfl, rfl⟩
  | succ k ih =>
    intro s c
    obtain ⟨a1, a2, a3, a4, a5, a6, a7⟩ := next_sameRay sp s c
    obtain ⟨b1, b2, b3, b4, b5, b6, b7⟩ := ih (next sp s c).1 (next sp s c).2
    exact ⟨b1.trans a1, b2.trans a2, b3.trans a3, b4.trans a4, b5.trans a5, b6.trans a6, b7.trans a7⟩

theorem cast_sameRay (sp : Spec d α) (s : State d α) : SameRay s (RayCast.cast sp s).1 :=
  steps_sameRay sp _ s s.oIdx

end

section
variable {α : Type} [Add α] [Sub α] [Mul α] [Div α] [LT α] [DecidableLT α]
  [NatCast α] [IntCast α] [OfScientific α] [Trans α] [Trunc α] [Limits α]

/-! ## `RayCasting<double, 2>` -/

/-- `next_d2_bridge` with the no-wrap hypothesis on the moving axis only -/
theorem next_d2_bridge' (s : State 2 α) (c : Vec 2 Int)
    (hw : wrap64 (c.at (pick2 s.tMax) + s.step.at (pick2 s.tMax)) = c.at (pick2 s.tMax) + s.step.at (pick2 s.tMax)) :
    Src.C14.RayCasting.next_d2 (c.at 0) (c.at 1) (s.rem.at 0) (s.rem.at 1) (s.step.at 0) (s.step.at 1)
        (s.tDelta.at 0) (s.tDelta.at 1) (s.tMax.at 0) (s.tMax.at 1)
      = ((next spec2 s c).2.at 0, (next spec2 s c).2.at 1, (next spec2 s c).1.rem.at 0, (next spec2 s c).1.rem.at 1, (next spec2 s c).1.tMax.at 0, (next spec2 s c).1.tMax.at 1) := by
  unfold Src.C14.RayCasting.next_d2 Src.C14.RayCasting.step__double_2_c0 Src.C14.RayCasting.step__double_2_c1 next spec2 stepAxis
  unfold pick2 at hw ⊢
  simp only []
  by_cases h : s.tMax.at 0 < s.tMax.at 1
  · simp only [h, if_true] at hw ⊢
    simp only [hw]
    by_cases h1 : 0 < s.rem.at 0
    · by_cases h2 : s.rem.at 0 - 1 = 0 <;> simp [h1, h2, at_upd]
    · simp [h1, at_upd]
  · simp only [h, if_false] at hw ⊢
    simp only [hw]
    by_cases h1 : 0 < s.rem.at 1
    · by_cases h2 : s.rem.at 1 - 1 = 0 <;> simp [h1, h2, at_upd]
    · simp [h1, at_upd]

/-- the translated `while (++n != N)` loop with `k` steps left: `done` = the `n + 1` entries written so far, `junk` the `k` entries still
    to be overwritten; enough fuel (`k < fuel`) -/
theorem cast_d2_loop (N : Int) (k : Nat) : ∀ (fuel : Nat) (n : Int) (done junk : List (Int × Int)) (s : State 2 α) (c : Vec 2 Int),
    k < fuel → n + 1 = (done.length : Int) → junk.length = k → n + 1 + (k : Int) = N → NoWrap spec2 k s c →
    Src.C14.RayCasting.cast_d2.loop1 N (s.step.at 0) (s.step.at 1) (s.tDelta.at 0) (s.tDelta.at 1) fuel n (done ++ junk)
        (c.at 0) (c.at 1) (s.rem.at 0) (s.rem.at 1) (s.tMax.at 0) (s.tMax.at 1)
      = some (N, done ++ (steps spec2 k s c).2.map tup2,
          ((c :: (steps spec2 k s c).2).getLast (List.cons_ne_nil _ _)).at 0,
          ((c :: (steps spec2 k s c).2).getLast (List.cons_ne_nil _ _)).at 1,
          (steps spec2 k s c).1.rem.at 0, (steps spec2 k s c).1.rem.at 1,
          (steps spec2 k s c).1.tMax.at 0, (steps spec2 k s c).1.tMax.at 1) := by
  induction k with
  | zero =>
    intro fuel n done junk s c hf hn hj hN _
    obtain ⟨f, rfl⟩ : ∃ f, fuel = f + 1 := ⟨fuel - 1, by omega⟩
    have hj' : junk = [] := List.eq_nil_of_length_eq_zero hj
    subst hj'
    have hN' : n + 1 = N := by omega
    unfold Src.C14.RayCasting.cast_d2.loop1
    simp [hN', steps]
  | succ k ih =>
    intro fuel n done junk s c hf hn hj hN hnw
    obtain ⟨f, rfl⟩ : ∃ f, fuel = f + 1 := ⟨fuel - 1, by omega⟩
    obtain ⟨j, junk', rfl⟩ : ∃ j junk', junk = j :: junk' := by
      cases junk with
      | nil => simp at hj
      | cons j junk' => exact ⟨j, junk', rfl⟩
    obtain ⟨hw, hrest⟩ := hnw
    have hne : n + 1 ≠ N := by omega
    have hst := next_step_tDelta spec2 s c
    unfold Src.C14.RayCasting.cast_d2.loop1
    simp only [ne_eq, hne, not_false_eq_true, if_true]
    rw [next_d2_bridge' s c hw]
    simp only []
    rw [vecSet_append done j junk' _ (n + 1) hn]
    simp only []
    have hih := ih f (n + 1) (done ++ [tup2 (next spec2 s c).2]) junk' (next spec2 s c).1 (next spec2 s c).2
      (by omega) (by simp; omega) (by simpa using hj) (by omega) hrest
    rw [hst.1, hst.2] at hih
    have htup : ((next spec2 s c).2.at 0, (next spec2 s c).2.at 1) = tup2 (next spec2 s c).2 := rfl
    rw [htup, hih]
    simp [steps, List.getLast_cons]

/-- `cast()` as translated = the model's `cast spec2`: the chain (as tuples), and the members `rayRemainingSteps_`, `rayTMax_` after it.
    `hI`, `hw`: `computeRayNumberOfCells` does not overflow (as in `numCells_d2_bridge`); `hf`: enough fuel; `hc`: see `NoWrap` -/
theorem cast_d2_bridge (s : State 2 α) (fuel : Nat)
    (hI : ∀ i, toInt32 (s.eIdx.at i) = s.eIdx.at i ∧ toInt32 (s.oIdx.at i) = s.oIdx.at i)
    (hw : wrap64 (sumFrom (0 : Int) (fun i => iabs (s.eIdx.at i - s.oIdx.at i)) + 1)
      = sumFrom (0 : Int) (fun i => iabs (s.eIdx.at i - s.oIdx.at i)) + 1)
    (hf : (numCells s).toNat ≤ fuel)
    (hc : NoWrap spec2 ((numCells s).toNat - 1) s s.oIdx) :
    Src.C14.RayCasting.cast_d2 fuel (s.eIdx.at 0) (s.eIdx.at 1) (s.oIdx.at 0) (s.oIdx.at 1) (s.rem.at 0) (s.rem.at 1)
        (s.step.at 0) (s.step.at 1) (s.tDelta.at 0) (s.tDelta.at 1) (s.tMax.at 0) (s.tMax.at 1)
      = some ((RayCast.cast spec2 s).2.map tup2, (RayCast.cast spec2 s).1.rem.at 0, (RayCast.cast spec2 s).1.rem.at 1,
          (RayCast.cast spec2 s).1.tMax.at 0, (RayCast.cast spec2 s).1.tMax.at 1) := by
  have hN := numCells_d2_bridge s hI hw
  have hpos : 1 ≤ numCells s := by
    unfold numCells
    simp only [hI, hw]
    have h0 := iabs_nonneg (s.eIdx.at 0 - s.oIdx.at 0)
    have h1 := iabs_nonneg (s.eIdx.at 1 - s.oIdx.at 1)
    simp [sumFrom, List.finRange_succ]
    omega
  obtain ⟨m, hm⟩ : ∃ m : Nat, (numCells s).toNat = m + 1 := ⟨(numCells s).toNat - 1, by omega⟩
  have hmN : ((m : Int) + 1) = numCells s := by omega
  unfold Src.C14.RayCasting.cast_d2
  simp only [hN, hm, List.replicate_succ]
  have h0 := vecSet_append ([] : List (Int × Int)) (0, 0) (List.replicate m (0, 0)) (s.oIdx.at 0, s.oIdx.at 1) 0 (by simp)
  simp only [List.nil_append] at h0
  rw [h0]
  simp only []
  have hk : (numCells s).toNat - 1 = m := by omega
  rw [hk] at hc
  have hl := cast_d2_loop (numCells s) m fuel 0 [(s.oIdx.at 0, s.oIdx.at 1)] (List.replicate m (0, 0)) s s.oIdx
    (by omega) (by simp) (by simp) (by omega) hc
  simp only [List.singleton_append] at hl
  simp only [List.cons_append, List.nil_append]
  rw [hl]
  unfold RayCast.cast
  rw [hk]
  rfl

/-- `cast(endPoint)` as translated = the model's `castTo spec2`: the chain, then every member written by `setEndPoint` / `cast()` as
    it is after the call. Hypotheses: those of `setEndPoint_d2_bridge` (`hT*`, `hW`, `hI`) and of `cast_d2_bridge` on the state after
    `setEndPoint` (`hw`, `hf`, `hc`) -/
theorem cast_to_d2_bridge (G : Grid 2 α) (s : State 2 α) (p : Vec 2 α) (t0 t1 : List α) (fuel : Nat)
    (hT0 : Src.C14.vecGet? t0 (s.oIdx.at 0) = some (centre1 G 0 (s.oIdx.at 0)))
    (hT1 : Src.C14.vecGet? t1 (s.oIdx.at 1) = some (centre1 G 1 (s.oIdx.at 1)))
    (hW : ∀ i, wrap64 (Trunc.trunc ((p.at i - G.fmin.at i) / G.r)) = Trunc.trunc ((p.at i - G.fmin.at i) / G.r))
    (hI : ∀ i, toInt32 ((cellIndexes G p).at i) = (cellIndexes G p).at i ∧ toInt32 (s.oIdx.at i) = s.oIdx.at i)
    (hw : wrap64 (sumFrom (0 : Int) (fun i => iabs ((cellIndexes G p).at i - s.oIdx.at i)) + 1)
      = sumFrom (0 : Int) (fun i => iabs ((cellIndexes G p).at i - s.oIdx.at i)) + 1)
    (hf : (numCells (setEnd spec2 G s p)).toNat ≤ fuel)
    (hc : NoWrap spec2 ((numCells (setEnd spec2 G s p)).toNat - 1) (setEnd spec2 G s p) s.oIdx) :
    Src.C14.RayCasting.cast_to_d2 fuel (p.at 0) (p.at 1) t0 t1 G.r (G.fmin.at 0) (G.fmin.at 1) (s.oIdx.at 0) (s.oIdx.at 1)
        (s.o.at 0) (s.o.at 1)
      = some ((castTo spec2 G s p).2.map tup2,
          (castTo spec2 G s p).1.dir.at 0, (castTo spec2 G s p).1.dir.at 1,
          (castTo spec2 G s p).1.eIdx.at 0, (castTo spec2 G s p).1.eIdx.at 1,
          (castTo spec2 G s p).1.e.at 0, (castTo spec2 G s p).1.e.at 1,
          (castTo spec2 G s p).1.rem.at 0, (castTo spec2 G s p).1.rem.at 1,
          (castTo spec2 G s p).1.step.at 0, (castTo spec2 G s p).1.step.at 1,
          (castTo spec2 G s p).1.tDelta.at 0, (castTo spec2 G s p).1.tDelta.at 1,
          (castTo spec2 G s p).1.tMax.at 0, (castTo spec2 G s p).1.tMax.at 1) := by
  have hse := setEndPoint_d2_bridge G s p t0 t1 hT0 hT1 hW hI
  have hso : (setEnd spec2 G s p).oIdx = s.oIdx := rfl
  have hsE : (setEnd spec2 G s p).eIdx = cellIndexes G p := rfl
  have hcb := cast_d2_bridge (setEnd spec2 G s p) fuel (by rw [hso, hsE]; exact hI) (by rw [hso, hsE]; exact hw) hf
    (by rw [hso]; exact hc)
  rw [hso] at hcb
  obtain ⟨_, h2, _, h4, h5, h6, h7⟩ := cast_sameRay spec2 (setEnd spec2 G s p)
  unfold Src.C14.RayCasting.cast_to_d2
  rw [hse]
  simp only []
  rw [hcb]
  simp only [castTo, h2, h4, h5, h6, h7]

/-- `cast(originPoint, endPoint)` as translated = the model's `castOE spec2` -/
theorem cast_oe_d2_bridge (G : Grid 2 α) (s : State 2 α) (o p : Vec 2 α) (t0 t1 : List α) (fuel : Nat)
    (hT0 : Src.C14.vecGet? t0 ((cellIndexes G o).at 0) = some (centre1 G 0 ((cellIndexes G o).at 0)))
    (hT1 : Src.C14.vecGet? t1 ((cellIndexes G o).at 1) = some (centre1 G 1 ((cellIndexes G o).at 1)))
    (hWo : ∀ i, wrap64 (Trunc.trunc ((o.at i - G.fmin.at i) / G.r)) = Trunc.trunc ((o.at i - G.fmin.at i) / G.r))
    (hW : ∀ i, wrap64 (Trunc.trunc ((p.at i - G.fmin.at i) / G.r)) = Trunc.trunc ((p.at i - G.fmin.at i) / G.r))
    (hI : ∀ i, toInt32 ((cellIndexes G p).at i) = (cellIndexes G p).at i ∧
      toInt32 ((cellIndexes G o).at i) = (cellIndexes G o).at i)
    (hw : wrap64 (sumFrom (0 : Int) (fun i => iabs ((cellIndexes G p).at i - (cellIndexes G o).at i)) + 1)
      = sumFrom (0 : Int) (fun i => iabs ((cellIndexes G p).at i - (cellIndexes G o).at i)) + 1)
    (hf : (numCells (setEnd spec2 G (setOrigin G s o) p)).toNat ≤ fuel)
    (hc : NoWrap spec2 ((numCells (setEnd spec2 G (setOrigin G s o) p)).toNat - 1) (setEnd spec2 G (setOrigin G s o) p)
      (cellIndexes G o)) :
    Src.C14.RayCasting.cast_oe_d2 fuel (p.at 0) (p.at 1) t0 t1 G.r (G.fmin.at 0) (G.fmin.at 1) (o.at 0) (o.at 1)
      = some ((castOE spec2 G s o p).2.map tup2,
          (castOE spec2 G s o p).1.dir.at 0, (castOE spec2 G s o p).1.dir.at 1,
          (castOE spec2 G s o p).1.eIdx.at 0, (castOE spec2 G s o p).1.eIdx.at 1,
          (castOE spec2 G s o p).1.e.at 0, (castOE spec2 G s o p).1.e.at 1,
          (castOE spec2 G s o p).1.oIdx.at 0, (castOE spec2 G s o p).1.oIdx.at 1,
          (castOE spec2 G s o p).1.o.at 0, (castOE spec2 G s o p).1.o.at 1,
          (castOE spec2 G s o p).1.rem.at 0, (castOE spec2 G s o p).1.rem.at 1,
          (castOE spec2 G s o p).1.step.at 0, (castOE spec2 G s o p).1.step.at 1,
          (castOE spec2 G s o p).1.tDelta.at 0, (castOE spec2 G s o p).1.tDelta.at 1,
          (castOE spec2 G s o p).1.tMax.at 0, (castOE spec2 G s o p).1.tMax.at 1) := by
  have hso := setOriginPoint_d2_bridge G s o hWo
  have ht := cast_to_d2_bridge G (setOrigin G s o) p t0 t1 fuel hT0 hT1 hW hI hw hf hc
  obtain ⟨h1, _, h3, _⟩ := cast_sameRay spec2 (setEnd spec2 G (setOrigin G s o) p)
  unfold Src.C14.RayCasting.cast_oe_d2
  rw [hso]
  simp only []
  have ht' : Src.C14.RayCasting.cast_to_d2 fuel (p.at 0) (p.at 1) t0 t1 G.r (G.fmin.at 0) (G.fmin.at 1)
      ((setOrigin G s o).oIdx.at 0) ((setOrigin G s o).oIdx.at 1) ((setOrigin G s o).o.at 0) ((setOrigin G s o).o.at 1) = _ := ht
  rw [ht']
  have ho1' : (castTo spec2 G (setOrigin G s o) p).1.oIdx = (setOrigin G s o).oIdx := h3
  have ho2' : (castTo spec2 G (setOrigin G s o) p).1.o = (setOrigin G s o).o := h1
  simp only [castOE, ho1', ho2']

/-! ## `RayCasting<double, 3>` -/

/-- `next_d3_bridge` with the no-wrap hypothesis on the moving axis only -/
theorem next_d3_bridge' (s : State 3 α) (c : Vec 3 Int)
    (hw : wrap64 (c.at (pick3 s.tMax) + s.step.at (pick3 s.tMax)) = c.at (pick3 s.tMax) + s.step.at (pick3 s.tMax)) :
    Src.C14.RayCasting.next_d3 (c.at 0) (c.at 1) (c.at 2) (s.rem.at 0) (s.rem.at 1) (s.rem.at 2) (s.step.at 0) (s.step.at 1) (s.step.at 2)
        (s.tDelta.at 0) (s.tDelta.at 1) (s.tDelta.at 2) (s.tMax.at 0) (s.tMax.at 1) (s.tMax.at 2)
      = ((next spec3d s c).2.at 0, (next spec3d s c).2.at 1, (next spec3d s c).2.at 2, (next spec3d s c).1.rem.at 0, (next spec3d s c).1.rem.at 1, (next spec3d s c).1.rem.at 2, (next spec3d s c).1.tMax.at 0, (next spec3d s c).1.tMax.at 1, (next spec3d s c).1.tMax.at 2) := by
  unfold Src.C14.RayCasting.next_d3 Src.C14.RayCasting.step__double_3_c0 Src.C14.RayCasting.step__double_3_c1 Src.C14.RayCasting.step__double_3_c2 next spec3d stepAxis
  unfold pick3 at hw ⊢
  simp only []
  by_cases h : s.tMax.at 0 < s.tMax.at 1
  · by_cases g : s.tMax.at 0 < s.tMax.at 2
    · simp only [h, g, if_true] at hw ⊢
      simp only [hw]
      by_cases h1 : 0 < s.rem.at 0
      · by_cases h2 : s.rem.at 0 - 1 = 0 <;> simp [h1, h2, at_upd]
      · simp [h1, at_upd]
    · simp only [h, g, if_true, if_false] at hw ⊢
      simp only [hw]
      by_cases h1 : 0 < s.rem.at 2
      · by_cases h2 : s.rem.at 2 - 1 = 0 <;> simp [h1, h2, at_upd]
      · simp [h1, at_upd]
  · by_cases g : s.tMax.at 1 < s.tMax.at 2
    · simp only [h, g, if_true, if_false] at hw ⊢
      simp only [hw]
      by_cases h1 : 0 < s.rem.at 1
      · by_cases h2 : s.rem.at 1 - 1 = 0 <;> simp [h1, h2, at_upd]
      · simp [h1, at_upd]
    · simp only [h, g, if_false] at hw ⊢
      simp only [hw]
      by_cases h1 : 0 < s.rem.at 2
      · by_cases h2 : s.rem.at 2 - 1 = 0 <;> simp [h1, h2, at_upd]
      · simp [h1, at_upd]

/-- the translated `while (++n != N)` loop with `k` steps left (see `cast_d2_loop`) -/
theorem cast_d3_loop (N : Int) (k : Nat) : ∀ (fuel : Nat) (n : Int) (done junk : List (Int × Int × Int)) (s : State 3 α) (c : Vec 3 Int),
    k < fuel → n + 1 = (done.length : Int) → junk.length = k → n + 1 + (k : Int) = N → NoWrap spec3d k s c →
    Src.C14.RayCasting.cast_d3.loop1 N (s.step.at 0) (s.step.at 1) (s.step.at 2) (s.tDelta.at 0) (s.tDelta.at 1) (s.tDelta.at 2) fuel n (done ++ junk)
        (c.at 0) (c.at 1) (c.at 2) (s.rem.at 0) (s.rem.at 1) (s.rem.at 2) (s.tMax.at 0) (s.tMax.at 1) (s.tMax.at 2)
      = some (N, done ++ (steps spec3d k s c).2.map tup3,
          ((c :: (steps spec3d k s c).2).getLast (List.cons_ne_nil _ _)).at 0,
          ((c :: (steps spec3d k s c).2).getLast (List.cons_ne_nil _ _)).at 1,
          ((c :: (steps spec3d k s c).2).getLast (List.cons_ne_nil _ _)).at 2,
          (steps spec3d k s c).1.rem.at 0, (steps spec3d k s c).1.rem.at 1, (steps spec3d k s c).1.rem.at 2,
          (steps spec3d k s c).1.tMax.at 0, (steps spec3d k s c).1.tMax.at 1, (steps spec3d k s c).1.tMax.at 2) := by
  induction k with
  | zero =>
    intro fuel n done junk s c hf hn hj hN _
    obtain ⟨f, rfl⟩ : ∃ f, fuel = f + 1 := ⟨fuel - 1, by omega⟩
    have hj' : junk = [] := List.eq_nil_of_length_eq_zero hj
    subst hj'
    have hN' : n + 1 = N := by omega
    unfold Src.C14.RayCasting.cast_d3.loop1
    simp [hN', steps]
  | succ k ih =>
    intro fuel n done junk s c hf hn hj hN hnw
    obtain ⟨f, rfl⟩ : ∃ f, fuel = f + 1 := ⟨fuel - 1, by omega⟩
    obtain ⟨j, junk', rfl⟩ : ∃ j junk', junk = j :: junk' := by
      cases junk with
      | nil => simp at hj
      | cons j junk' => exact ⟨j, junk', rfl⟩
    obtain ⟨hw, hrest⟩ := hnw
    have hne : n + 1 ≠ N := by omega
    have hst := next_step_tDelta spec3d s c
    unfold Src.C14.RayCasting.cast_d3.loop1
    simp only [ne_eq, hne, not_false_eq_true, if_true]
    rw [next_d3_bridge' s c hw]
    simp only []
    rw [vecSet_append done j junk' _ (n + 1) hn]
    simp only []
    have hih := ih f (n + 1) (done ++ [tup3 (next spec3d s c).2]) junk' (next spec3d s c).1 (next spec3d s c).2
      (by omega) (by simp; omega) (by simpa using hj) (by omega) hrest
    rw [hst.1, hst.2] at hih
    have htup : ((next spec3d s c).2.at 0, (next spec3d s c).2.at 1, (next spec3d s c).2.at 2) = tup3 (next spec3d s c).2 := rfl
    rw [htup, hih]
    simp [steps, List.getLast_cons]

/-- `cast()` as translated = the model's `cast spec3d` (see `cast_d2_bridge`) -/
theorem cast_d3_bridge (s : State 3 α) (fuel : Nat)
    (hI : ∀ i, toInt32 (s.eIdx.at i) = s.eIdx.at i ∧ toInt32 (s.oIdx.at i) = s.oIdx.at i)
    (hw : wrap64 (sumFrom (0 : Int) (fun i => iabs (s.eIdx.at i - s.oIdx.at i)) + 1)
      = sumFrom (0 : Int) (fun i => iabs (s.eIdx.at i - s.oIdx.at i)) + 1)
    (hf : (numCells s).toNat ≤ fuel)
    (hc : NoWrap spec3d ((numCells s).toNat - 1) s s.oIdx) :
    Src.C14.RayCasting.cast_d3 fuel (s.eIdx.at 0) (s.eIdx.at 1) (s.eIdx.at 2) (s.oIdx.at 0) (s.oIdx.at 1) (s.oIdx.at 2)
        (s.rem.at 0) (s.rem.at 1) (s.rem.at 2) (s.step.at 0) (s.step.at 1) (s.step.at 2)
        (s.tDelta.at 0) (s.tDelta.at 1) (s.tDelta.at 2) (s.tMax.at 0) (s.tMax.at 1) (s.tMax.at 2)
      = some ((RayCast.cast spec3d s).2.map tup3,
          (RayCast.cast spec3d s).1.rem.at 0, (RayCast.cast spec3d s).1.rem.at 1, (RayCast.cast spec3d s).1.rem.at 2,
          (RayCast.cast spec3d s).1.tMax.at 0, (RayCast.cast spec3d s).1.tMax.at 1, (RayCast.cast spec3d s).1.tMax.at 2) := by
  have hN := numCells_d3_bridge s hI hw
  have hpos : 1 ≤ numCells s := by
    unfold numCells
    simp only [hI, hw]
    have h0 := iabs_nonneg (s.eIdx.at 0 - s.oIdx.at 0)
    have h1 := iabs_nonneg (s.eIdx.at 1 - s.oIdx.at 1)
    have h2 := iabs_nonneg (s.eIdx.at 2 - s.oIdx.at 2)
    simp [sumFrom, List.finRange_succ]
    omega
  obtain ⟨m, hm⟩ : ∃ m : Nat, (numCells s).toNat = m + 1 := ⟨(numCells s).toNat - 1, by omega⟩
  have hmN : ((m : Int) + 1) = numCells s := by omega
  unfold Src.C14.RayCasting.cast_d3
  simp only [hN, hm, List.replicate_succ]
  have h0 := vecSet_append ([] : List (Int × Int × Int)) (0, 0, 0) (List.replicate m (0, 0, 0)) (s.oIdx.at 0, s.oIdx.at 1, s.oIdx.at 2) 0 (by simp)
  simp only [List.nil_append] at h0
  rw [h0]
  simp only []
  have hk : (numCells s).toNat - 1 = m := by omega
  rw [hk] at hc
  have hl := cast_d3_loop (numCells s) m fuel 0 [(s.oIdx.at 0, s.oIdx.at 1, s.oIdx.at 2)] (List.replicate m (0, 0, 0)) s s.oIdx
    (by omega) (by simp) (by simp) (by omega) hc
  simp only [List.singleton_append] at hl
  simp only [List.cons_append, List.nil_append]
  rw [hl]
  unfold RayCast.cast
  rw [hk]
  rfl

/-- `cast(endPoint)` as translated = the model's `castTo spec3d` (see `cast_to_d2_bridge`) -/
theorem cast_to_d3_bridge (G : Grid 3 α) (s : State 3 α) (p : Vec 3 α) (t0 t1 t2 : List α) (fuel : Nat)
    (hT0 : Src.C14.vecGet? t0 (s.oIdx.at 0) = some (centre1 G 0 (s.oIdx.at 0)))
    (hT1 : Src.C14.vecGet? t1 (s.oIdx.at 1) = some (centre1 G 1 (s.oIdx.at 1)))
    (hT2 : Src.C14.vecGet? t2 (s.oIdx.at 2) = some (centre1 G 2 (s.oIdx.at 2)))
    (hW : ∀ i, wrap64 (Trunc.trunc ((p.at i - G.fmin.at i) / G.r)) = Trunc.trunc ((p.at i - G.fmin.at i) / G.r))
    (hI : ∀ i, toInt32 ((cellIndexes G p).at i) = (cellIndexes G p).at i ∧ toInt32 (s.oIdx.at i) = s.oIdx.at i)
    (hw : wrap64 (sumFrom (0 : Int) (fun i => iabs ((cellIndexes G p).at i - s.oIdx.at i)) + 1)
      = sumFrom (0 : Int) (fun i => iabs ((cellIndexes G p).at i - s.oIdx.at i)) + 1)
    (hf : (numCells (setEnd spec3d G s p)).toNat ≤ fuel)
    (hc : NoWrap spec3d ((numCells (setEnd spec3d G s p)).toNat - 1) (setEnd spec3d G s p) s.oIdx) :
    Src.C14.RayCasting.cast_to_d3 fuel (p.at 0) (p.at 1) (p.at 2) t0 t1 t2 G.r (G.fmin.at 0) (G.fmin.at 1) (G.fmin.at 2)
        (s.oIdx.at 0) (s.oIdx.at 1) (s.oIdx.at 2) (s.o.at 0) (s.o.at 1) (s.o.at 2)
      = some ((castTo spec3d G s p).2.map tup3,
          (castTo spec3d G s p).1.dir.at 0, (castTo spec3d G s p).1.dir.at 1, (castTo spec3d G s p).1.dir.at 2,
          (castTo spec3d G s p).1.eIdx.at 0, (castTo spec3d G s p).1.eIdx.at 1, (castTo spec3d G s p).1.eIdx.at 2,
          (castTo spec3d G s p).1.e.at 0, (castTo spec3d G s p).1.e.at 1, (castTo spec3d G s p).1.e.at 2,
          (castTo spec3d G s p).1.rem.at 0, (castTo spec3d G s p).1.rem.at 1, (castTo spec3d G s p).1.rem.at 2,
          (castTo spec3d G s p).1.step.at 0, (castTo spec3d G s p).1.step.at 1, (castTo spec3d G s p).1.step.at 2,
          (castTo spec3d G s p).1.tDelta.at 0, (castTo spec3d G s p).1.tDelta.at 1, (castTo spec3d G s p).1.tDelta.at 2,
          (castTo spec3d G s p).1.tMax.at 0, (castTo spec3d G s p).1.tMax.at 1, (castTo spec3d G s p).1.tMax.at 2) := by
  have hse := setEndPoint_d3_bridge G s p t0 t1 t2 hT0 hT1 hT2 hW hI
  have hso : (setEnd spec3d G s p).oIdx = s.oIdx := rfl
  have hsE : (setEnd spec3d G s p).eIdx = cellIndexes G p := rfl
  have hcb := cast_d3_bridge (setEnd spec3d G s p) fuel (by rw [hso, hsE]; exact hI) (by rw [hso, hsE]; exact hw) hf
    (by rw [hso]; exact hc)
  rw [hso] at hcb
  obtain ⟨_, h2, _, h4, h5, h6, h7⟩ := cast_sameRay spec3d (setEnd spec3d G s p)
  unfold Src.C14.RayCasting.cast_to_d3
  rw [hse]
  simp only []
  rw [hcb]
  simp only [castTo, h2, h4, h5, h6, h7]

/-- `cast(originPoint, endPoint)` as translated = the model's `castOE spec3d` -/
theorem cast_oe_d3_bridge (G : Grid 3 α) (s : State 3 α) (o p : Vec 3 α) (t0 t1 t2 : List α) (fuel : Nat)
    (hT0 : Src.C14.vecGet? t0 ((cellIndexes G o).at 0) = some (centre1 G 0 ((cellIndexes G o).at 0)))
    (hT1 : Src.C14.vecGet? t1 ((cellIndexes G o).at 1) = some (centre1 G 1 ((cellIndexes G o).at 1)))
    (hT2 : Src.C14.vecGet? t2 ((cellIndexes G o).at 2) = some (centre1 G 2 ((cellIndexes G o).at 2)))
    (hWo : ∀ i, wrap64 (Trunc.trunc ((o.at i - G.fmin.at i) / G.r)) = Trunc.trunc ((o.at i - G.fmin.at i) / G.r))
    (hW : ∀ i, wrap64 (Trunc.trunc ((p.at i - G.fmin.at i) / G.r)) = Trunc.trunc ((p.at i - G.fmin.at i) / G.r))
    (hI : ∀ i, toInt32 ((cellIndexes G p).at i) = (cellIndexes G p).at i ∧
      toInt32 ((cellIndexes G o).at i) = (cellIndexes G o).at i)
    (hw : wrap64 (sumFrom (0 : Int) (fun i => iabs ((cellIndexes G p).at i - (cellIndexes G o).at i)) + 1)
      = sumFrom (0 : Int) (fun i => iabs ((cellIndexes G p).at i - (cellIndexes G o).at i)) + 1)
    (hf : (numCells (setEnd spec3d G (setOrigin G s o) p)).toNat ≤ fuel)
    (hc : NoWrap spec3d ((numCells (setEnd spec3d G (setOrigin G s o) p)).toNat - 1) (setEnd spec3d G (setOrigin G s o) p)
      (cellIndexes G o)) :
    Src.C14.RayCasting.cast_oe_d3 fuel (p.at 0) (p.at 1) (p.at 2) t0 t1 t2 G.r (G.fmin.at 0) (G.fmin.at 1) (G.fmin.at 2)
        (o.at 0) (o.at 1) (o.at 2)
      = some ((castOE spec3d G s o p).2.map tup3,
          (castOE spec3d G s o p).1.dir.at 0, (castOE spec3d G s o p).1.dir.at 1, (castOE spec3d G s o p).1.dir.at 2,
          (castOE spec3d G s o p).1.eIdx.at 0, (castOE spec3d G s o p).1.eIdx.at 1, (castOE spec3d G s o p).1.eIdx.at 2,
          (castOE spec3d G s o p).1.e.at 0, (castOE spec3d G s o p).1.e.at 1, (castOE spec3d G s o p).1.e.at 2,
          (castOE spec3d G s o p).1.oIdx.at 0, (castOE spec3d G s o p).1.oIdx.at 1, (castOE spec3d G s o p).1.oIdx.at 2,
          (castOE spec3d G s o p).1.o.at 0, (castOE spec3d G s o p).1.o.at 1, (castOE spec3d G s o p).1.o.at 2,
          (castOE spec3d G s o p).1.rem.at 0, (castOE spec3d G s o p).1.rem.at 1, (castOE spec3d G s o p).1.rem.at 2,
          (castOE spec3d G s o p).1.step.at 0, (castOE spec3d G s o p).1.step.at 1, (castOE spec3d G s o p).1.step.at 2,
          (castOE spec3d G s o p).1.tDelta.at 0, (castOE spec3d G s o p).1.tDelta.at 1, (castOE spec3d G s o p).1.tDelta.at 2,
          (castOE spec3d G s o p).1.tMax.at 0, (castOE spec3d G s o p).1.tMax.at 1, (castOE spec3d G s o p).1.tMax.at 2) := by
  have hso := setOriginPoint_d3_bridge G s o hWo
  have ht := cast_to_d3_bridge G (setOrigin G s o) p t0 t1 t2 fuel hT0 hT1 hT2 hW hI hw hf hc
  obtain ⟨h1, _, h3, _⟩ := cast_sameRay spec3d (setEnd spec3d G (setOrigin G s o) p)
  unfold Src.C14.RayCasting.cast_oe_d3
  rw [hso]
  simp only []
  have ht' : Src.C14.RayCasting.cast_to_d3 fuel (p.at 0) (p.at 1) (p.at 2) t0 t1 t2 G.r (G.fmin.at 0) (G.fmin.at 1) (G.fmin.at 2)
      ((setOrigin G s o).oIdx.at 0) ((setOrigin G s o).oIdx.at 1) ((setOrigin G s o).oIdx.at 2)
      ((setOrigin G s o).o.at 0) ((setOrigin G s o).o.at 1) ((setOrigin G s o).o.at 2) = _ := ht
  rw [ht']
  have ho1' : (castTo spec3d G (setOrigin G s o) p).1.oIdx = (setOrigin G s o).oIdx := h3
  have ho2' : (castTo spec3d G (setOrigin G s o) p).1.o = (setOrigin G s o).o := h1
  simp only [castOE, ho1', ho2']

/-! ## `RayCasting<float, 2>` -/

/-- `next_f2_bridge` with the no-wrap hypothesis on the moving axis only -/
theorem next_f2_bridge' (s : State 2 α) (c : Vec 2 Int)
    (hw : wrap64 (c.at (pick2 s.tMax) + s.step.at (pick2 s.tMax)) = c.at (pick2 s.tMax) + s.step.at (pick2 s.tMax)) :
    Src.C14.RayCasting.next_f2 (c.at 0) (c.at 1) (s.rem.at 0) (s.rem.at 1) (s.step.at 0) (s.step.at 1)
        (s.tDelta.at 0) (s.tDelta.at 1) (s.tMax.at 0) (s.tMax.at 1)
      = ((next spec2 s c).2.at 0, (next spec2 s c).2.at 1, (next spec2 s c).1.rem.at 0, (next spec2 s c).1.rem.at 1, (next spec2 s c).1.tMax.at 0, (next spec2 s c).1.tMax.at 1) := by
  unfold Src.C14.RayCasting.next_f2 Src.C14.RayCasting.step__float_2_c0 Src.C14.RayCasting.step__float_2_c1 next spec2 stepAxis
  unfold pick2 at hw ⊢
  simp only []
  by_cases h : s.tMax.at 0 < s.tMax.at 1
  · simp only [h, if_true] at hw ⊢
    simp only [hw]
    by_cases h1 : 0 < s.rem.at 0
    · by_cases h2 : s.rem.at 0 - 1 = 0 <;> simp [h1, h2, at_upd]
    · simp [h1, at_upd]
  · simp only [h, if_false] at hw ⊢
    simp only [hw]
    by_cases h1 : 0 < s.rem.at 1
    · by_cases h2 : s.rem.at 1 - 1 = 0 <;> simp [h1, h2, at_upd]
    · simp [h1, at_upd]

/-- the translated `while (++n != N)` loop with `k` steps left: `done` = the `n + 1` entries written so far, `junk` the `k` entries still
    to be overwritten; enough fuel (`k < fuel`) -/
theorem cast_f2_loop (N : Int) (k : Nat) : ∀ (fuel : Nat) (n : Int) (done junk : List (Int × Int)) (s : State 2 α) (c : Vec 2 Int),
    k < fuel → n + 1 = (done.length : Int) → junk.length = k → n + 1 + (k : Int) = N → NoWrap spec2 k s c →
    Src.C14.RayCasting.cast_f2.loop1 N (s.step.at 0) (s.step.at 1) (s.tDelta.at 0) (s.tDelta.at 1) fuel n (done ++ junk)
        (c.at 0) (c.at 1) (s.rem.at 0) (s.rem.at 1) (s.tMax.at 0) (s.tMax.at 1)
      = some (N, done ++ (steps spec2 k s c).2.map tup2,
          ((c :: (steps spec2 k s c).2).getLast (List.cons_ne_nil _ _)).at 0,
          ((c :: (steps spec2 k s c).2).getLast (List.cons_ne_nil _ _)).at 1,
          (steps spec2 k s c).1.rem.at 0, (steps spec2 k s c).1.rem.at 1,
          (steps spec2 k s c).1.tMax.at 0, (steps spec2 k s c).1.tMax.at 1) := by
  induction k with
  | zero =>
    intro fuel n done junk s c hf hn hj hN _
    obtain ⟨f, rfl⟩ : ∃ f, fuel = f + 1 := ⟨fuel - 1, by omega⟩
    have hj' : junk = [] := List.eq_nil_of_length_eq_zero hj
    subst hj'
    have hN' : n + 1 = N := by omega
    unfold Src.C14.RayCasting.cast_f2.loop1
    simp [hN', steps]
  | succ k ih =>
    intro fuel n done junk s c hf hn hj hN hnw
    obtain ⟨f, rfl⟩ : ∃ f, fuel = f + 1 := ⟨fuel - 1, by omega⟩
    obtain ⟨j, junk', rfl⟩ : ∃ j junk', junk = j :: junk' := by
      cases junk with
      | nil => simp at hj
      | cons j junk' => exact ⟨j, junk', rfl⟩
    obtain ⟨hw, hrest⟩ := hnw
    have hne : n + 1 ≠ N := by omega
    have hst := next_step_tDelta spec2 s c
    unfold Src.C14.RayCasting.cast_f2.loop1
    simp only [ne_eq, hne, not_false_eq_true, if_true]
    rw [next_f2_bridge' s c hw]
    simp only []
    rw [vecSet_append done j junk' _ (n + 1) hn]
    simp only []
    have hih := ih f (n + 1) (done ++ [tup2 (next spec2 s c).2]) junk' (next spec2 s c).1 (next spec2 s c).2
      (by omega) (by simp; omega) (by simpa using hj) (by omega) hrest
    rw [hst.1, hst.2] at hih
    have htup : ((next spec2 s c).2.at 0, (next spec2 s c).2.at 1) = tup2 (next spec2 s c).2 := rfl
    rw [htup, hih]
    simp [steps, List.getLast_cons]

/-- `cast()` as translated = the model's `cast spec2`: the chain (as tuples), and the members `rayRemainingSteps_`, `rayTMax_` after it.
    `hI`, `hw`: `computeRayNumberOfCells` does not overflow (as in `numCells_f2_bridge`); `hf`: enough fuel; `hc`: see `NoWrap` -/
theorem cast_f2_bridge (s : State 2 α) (fuel : Nat)
    (hI : ∀ i, toInt32 (s.eIdx.at i) = s.eIdx.at i ∧ toInt32 (s.oIdx.at i) = s.oIdx.at i)
    (hw : wrap64 (sumFrom (0 : Int) (fun i => iabs (s.eIdx.at i - s.oIdx.at i)) + 1)
      = sumFrom (0 : Int) (fun i => iabs (s.eIdx.at i - s.oIdx.at i)) + 1)
    (hf : (numCells s).toNat ≤ fuel)
    (hc : NoWrap spec2 ((numCells s).toNat - 1) s s.oIdx) :
    Src.C14.RayCasting.cast_f2 fuel (s.eIdx.at 0) (s.eIdx.at 1) (s.oIdx.at 0) (s.oIdx.at 1) (s.rem.at 0) (s.rem.at 1)
        (s.step.at 0) (s.step.at 1) (s.tDelta.at 0) (s.tDelta.at 1) (s.tMax.at 0) (s.tMax.at 1)
      = some ((RayCast.cast spec2 s).2.map tup2, (RayCast.cast spec2 s).1.rem.at 0, (RayCast.cast spec2 s).1.rem.at 1,
          (RayCast.cast spec2 s).1.tMax.at 0, (RayCast.cast spec2 s).1.tMax.at 1) := by
  have hN := numCells_f2_bridge s hI hw
  have hpos : 1 ≤ numCells s := by
    unfold numCells
    simp only [hI, hw]
    have h0 := iabs_nonneg (s.eIdx.at 0 - s.oIdx.at 0)
    have h1 := iabs_nonneg (s.eIdx.at 1 - s.oIdx.at 1)
    simp [sumFrom, List.finRange_succ]
    omega
  obtain ⟨m, hm⟩ : ∃ m : Nat, (numCells s).toNat = m + 1 := ⟨(numCells s).toNat - 1, by omega⟩
  have hmN : ((m : Int) + 1) = numCells s := by omega
  unfold Src.C14.RayCasting.cast_f2
  simp only [hN, hm, List.replicate_succ]
  have h0 := vecSet_append ([] : List (Int × Int)) (0, 0) (List.replicate m (0, 0)) (s.oIdx.at 0, s.oIdx.at 1) 0 (by simp)
  simp only [List.nil_append] at h0
  rw [h0]
  simp only []
  have hk : (numCells s).toNat - 1 = m := by omega
  rw [hk] at hc
  have hl := cast_f2_loop (numCells s) m fuel 0 [(s.oIdx.at 0, s.oIdx.at 1)] (List.replicate m (0, 0)) s s.oIdx
    (by omega) (by simp) (by simp) (by omega) hc
  simp only [List.singleton_append] at hl
  simp only [List.cons_append, List.nil_append]
  rw [hl]
  unfold RayCast.cast
  rw [hk]
  rfl

/-- `cast(endPoint)` as translated = the model's `castTo spec2`: the chain, then every member written by `setEndPoint` / `cast()` as
    it is after the call. Hypotheses: those of `setEndPoint_f2_bridge` (`hT*`, `hW`, `hI`) and of `cast_f2_bridge` on the state after
    `setEndPoint` (`hw`, `hf`, `hc`) -/
theorem cast_to_f2_bridge (G : Grid 2 α) (s : State 2 α) (p : Vec 2 α) (t0 t1 : List α) (fuel : Nat)
    (hT0 : Src.C14.vecGet? t0 (s.oIdx.at 0) = some (centre1 G 0 (s.oIdx.at 0)))
    (hT1 : Src.C14.vecGet? t1 (s.oIdx.at 1) = some (centre1 G 1 (s.oIdx.at 1)))
    (hW : ∀ i, wrap64 (Trunc.trunc ((p.at i - G.fmin.at i) / G.r)) = Trunc.trunc ((p.at i - G.fmin.at i) / G.r))
    (hI : ∀ i, toInt32 ((cellIndexes G p).at i) = (cellIndexes G p).at i ∧ toInt32 (s.oIdx.at i) = s.oIdx.at i)
    (hw : wrap64 (sumFrom (0 : Int) (fun i => iabs ((cellIndexes G p).at i - s.oIdx.at i)) + 1)
      = sumFrom (0 : Int) (fun i => iabs ((cellIndexes G p).at i - s.oIdx.at i)) + 1)
    (hf : (numCells (setEnd spec2 G s p)).toNat ≤ fuel)
    (hc : NoWrap spec2 ((numCells (setEnd spec2 G s p)).toNat - 1) (setEnd spec2 G s p) s.oIdx) :
    Src.C14.RayCasting.cast_to_f2 fuel (p.at 0) (p.at 1) t0 t1 G.r (G.fmin.at 0) (G.fmin.at 1) (s.oIdx.at 0) (s.oIdx.at 1)
        (s.o.at 0) (s.o.at 1)
      = some ((castTo spec2 G s p).2.map tup2,
          (castTo spec2 G s p).1.dir.at 0, (castTo spec2 G s p).1.dir.at 1,
          (castTo spec2 G s p).1.eIdx.at 0, (castTo spec2 G s p).1.eIdx.at 1,
          (castTo spec2 G s p).1.e.at 0, (castTo spec2 G s p).1.e.at 1,
          (castTo spec2 G s p).1.rem.at 0, (castTo spec2 G s p).1.rem.at 1,
          (castTo spec2 G s p).1.step.at 0, (castTo spec2 G s p).1.step.at 1,
          (castTo spec2 G s p).1.tDelta.at 0, (castTo spec2 G s p).1.tDelta.at 1,
          (castTo spec2 G s p).1.tMax.at 0, (castTo spec2 G s p).1.tMax.at 1) := by
  have hse := setEndPoint_f2_bridge G s p t0 t1 hT0 hT1 hW hI
  have hso : (setEnd spec2 G s p).oIdx = s.oIdx := rfl
  have hsE : (setEnd spec2 G s p).eIdx = cellIndexes G p := rfl
  have hcb := cast_f2_bridge (setEnd spec2 G s p) fuel (by rw [hso, hsE]; exact hI) (by rw [hso, hsE]; exact hw) hf
    (by rw [hso]; exact hc)
  rw [hso] at hcb
  obtain ⟨_, h2, _, h4, h5, h6, h7⟩ := cast_sameRay spec2 (setEnd spec2 G s p)
  unfold Src.C14.RayCasting.cast_to_f2
  rw [hse]
  simp only []
  rw [hcb]
  simp only [castTo, h2, h4, h5, h6, h7]

/-- `cast(originPoint, endPoint)` as translated = the model's `castOE spec2` -/
theorem cast_oe_f2_bridge (G : Grid 2 α) (s : State 2 α) (o p : Vec 2 α) (t0 t1 : List α) (fuel : Nat)
    (hT0 : Src.C14.vecGet? t0 ((cellIndexes G o).at 0) = some (centre1 G 0 ((cellIndexes G o).at 0)))
    (hT1 : Src.C14.vecGet? t1 ((cellIndexes G o).at 1) = some (centre1 G 1 ((cellIndexes G o).at 1)))
    (hWo : ∀ i, wrap64 (Trunc.trunc ((o.at i - G.fmin.at i) / G.r)) = Trunc.trunc ((o.at i - G.fmin.at i) / G.r))
    (hW : ∀ i, wrap64 (Trunc.trunc ((p.at i - G.fmin.at i) / G.r)) = Trunc.trunc ((p.at i - G.fmin.at i) / G.r))
    (hI : ∀ i, toInt32 ((cellIndexes G p).at i) = (cellIndexes G p).at i ∧
      toInt32 ((cellIndexes G o).at i) = (cellIndexes G o).at i)
    (hw : wrap64 (sumFrom (0 : Int) (fun i => iabs ((cellIndexes G p).at i - (cellIndexes G o).at i)) + 1)
      = sumFrom (0 : Int) (fun i => iabs ((cellIndexes G p).at i - (cellIndexes G o).at i)) + 1)
    (hf : (numCells (setEnd spec2 G (setOrigin G s o) p)).toNat ≤ fuel)
    (hc : NoWrap spec2 ((numCells (setEnd spec2 G (setOrigin G s o) p)).toNat - 1) (setEnd spec2 G (setOrigin G s o) p)
      (cellIndexes G o)) :
    Src.C14.RayCasting.cast_oe_f2 fuel (p.at 0) (p.at 1) t0 t1 G.r (G.fmin.at 0) (G.fmin.at 1) (o.at 0) (o.at 1)
      = some ((castOE spec2 G s o p).2.map tup2,
          (castOE spec2 G s o p).1.dir.at 0, (castOE spec2 G s o p).1.dir.at 1,
          (castOE spec2 G s o p).1.eIdx.at 0, (castOE spec2 G s o p).1.eIdx.at 1,
          (castOE spec2 G s o p).1.e.at 0, (castOE spec2 G s o p).1.e.at 1,
          (castOE spec2 G s o p).1.oIdx.at 0, (castOE spec2 G s o p).1.oIdx.at 1,
          (castOE spec2 G s o p).1.o.at 0, (castOE spec2 G s o p).1.o.at 1,
          (castOE spec2 G s o p).1.rem.at 0, (castOE spec2 G s o p).1.rem.at 1,
          (castOE spec2 G s o p).1.step.at 0, (castOE spec2 G s o p).1.step.at 1,
          (castOE spec2 G s o p).1.tDelta.at 0, (castOE spec2 G s o p).1.tDelta.at 1,
          (castOE spec2 G s o p).1.tMax.at 0, (castOE spec2 G s o p).1.tMax.at 1) := by
  have hso := setOriginPoint_f2_bridge G s o hWo
  have ht := cast_to_f2_bridge G (setOrigin G s o) p t0 t1 fuel hT0 hT1 hW hI hw hf hc
  obtain ⟨h1, _, h3, _⟩ := cast_sameRay spec2 (setEnd spec2 G (setOrigin G s o) p)
  unfold Src.C14.RayCasting.cast_oe_f2
  rw [hso]
  simp only []
  have ht' : Src.C14.RayCasting.cast_to_f2 fuel (p.at 0) (p.at 1) t0 t1 G.r (G.fmin.at 0) (G.fmin.at 1)
      ((setOrigin G s o).oIdx.at 0) ((setOrigin G s o).oIdx.at 1) ((setOrigin G s o).o.at 0) ((setOrigin G s o).o.at 1) = _ := ht
  rw [ht']
  have ho1' : (castTo spec2 G (setOrigin G s o) p).1.oIdx = (setOrigin G s o).oIdx := h3
  have ho2' : (castTo spec2 G (setOrigin G s o) p).1.o = (setOrigin G s o).o := h1
  simp only [castOE, ho1', ho2']

/-! ## `RayCasting<float, 3>` (source-level reading of `norm()`: `spec3d`, as in `Bridge/C14.lean`) -/

/-- `next_f3_bridge` with the no-wrap hypothesis on the moving axis only -/
theorem next_f3_bridge' (s : State 3 α) (c : Vec 3 Int)
    (hw : wrap64 (c.at (pick3 s.tMax) + s.step.at (pick3 s.tMax)) = c.at (pick3 s.tMax) + s.step.at (pick3 s.tMax)) :
    Src.C14.RayCasting.next_f3 (c.at 0) (c.at 1) (c.at 2) (s.rem.at 0) (s.rem.at 1) (s.rem.at 2) (s.step.at 0) (s.step.at 1) (s.step.at 2)
        (s.tDelta.at 0) (s.tDelta.at 1) (s.tDelta.at 2) (s.tMax.at 0) (s.tMax.at 1) (s.tMax.at 2)
      = ((next spec3d s c).2.at 0, (next spec3d s c).2.at 1, (next spec3d s c).2.at 2, (next spec3d s c).1.rem.at 0, (next spec3d s c).1.rem.at 1, (next spec3d s c).1.rem.at 2, (next spec3d s c).1.tMax.at 0, (next spec3d s c).1.tMax.at 1, (next spec3d s c).1.tMax.at 2) := by
  unfold Src.C14.RayCasting.next_f3 Src.C14.RayCasting.step__float_3_c0 Src.C14.RayCasting.step__float_3_c1 Src.C14.RayCasting.step__float_3_c2 next spec3d stepAxis
  unfold pick3 at hw ⊢
  simp only []
  by_cases h : s.tMax.at 0 < s.tMax.at 1
  · by_cases g : s.tMax.at 0 < s.tMax.at 2
    · simp only [h, g, if_true] at hw ⊢
      simp only [hw]
      by_cases h1 : 0 < s.rem.at 0
      · by_cases h2 : s.rem.at 0 - 1 = 0 <;> simp [h1, h2, at_upd]
      · simp [h1, at_upd]
    · simp only [h, g, if_true, if_false] at hw ⊢
      simp only [hw]
      by_cases h1 : 0 < s.rem.at 2
      · by_cases h2 : s.rem.at 2 - 1 = 0 <;> simp [h1, h2, at_upd]
      · simp [h1, at_upd]
  · by_cases g : s.tMax.at 1 < s.tMax.at 2
    · simp only [h, g, if_true, if_false] at hw ⊢
      simp only [hw]
      by_cases h1 : 0 < s.rem.at 1
      · by_cases h2 : s.rem.at 1 - 1 = 0 <;> simp [h1, h2, at_upd]
      · simp [h1, at_upd]
    · simp only [h, g, if_false] at hw ⊢
      simp only [hw]
      by_cases h1 : 0 < s.rem.at 2
      · by_cases h2 : s.rem.at 2 - 1 = 0 <;> simp [h1, h2, at_upd]
      · simp [h1, at_upd]

/-- the translated `while (++n != N)` loop with `k` steps left (see `cast_d2_loop`) -/
theorem cast_f3_loop (N : Int) (k : Nat) : ∀ (fuel : Nat) (n : Int) (done junk : List (Int × Int × Int)) (s : State 3 α) (c : Vec 3 Int),
    k < fuel → n + 1 = (done.length : Int) → junk.length = k → n + 1 + (k : Int) = N → NoWrap spec3d k s c →
    Src.C14.RayCasting.cast_f3.loop1 N (s.step.at 0) (s.step.at 1) (s.step.at 2) (s.tDelta.at 0) (s.tDelta.at 1) (s.tDelta.at 2) fuel n (done ++ junk)
        (c.at 0) (c.at 1) (c.at 2) (s.rem.at 0) (s.rem.at 1) (s.rem.at 2) (s.tMax.at 0) (s.tMax.at 1) (s.tMax.at 2)
      = some (N, done ++ (steps spec3d k s c).2.map tup3,
          ((c :: (steps spec3d k s c).2).getLast (List.cons_ne_nil _ _)).at 0,
          ((c :: (steps spec3d k s c).2).getLast (List.cons_ne_nil _ _)).at 1,
          ((c :: (steps spec3d k s c).2).getLast (List.cons_ne_nil _ _)).at 2,
          (steps spec3d k s c).1.rem.at 0, (steps spec3d k s c).1.rem.at 1, (steps spec3d k s c).1.rem.at 2,
          (steps spec3d k s c).1.tMax.at 0, (steps spec3d k s c).1.tMax.at 1, (steps spec3d k s c).1.tMax.at 2) := by
  induction k with
  | zero =>
    intro fuel n done junk s c hf hn hj hN _
    obtain ⟨f, rfl⟩ : ∃ f, fuel = f + 1 := ⟨fuel - 1, by omega⟩
    have hj' : junk = [] := List.eq_nil_of_length_eq_zero hj
    subst hj'
    have hN' : n + 1 = N := by omega
    unfold Src.C14.RayCasting.cast_f3.loop1
    simp [hN', steps]
  | succ k ih =>
    intro fuel n done junk s c hf hn hj hN hnw
    obtain ⟨f, rfl⟩ : ∃ f, fuel = f + 1 := ⟨fuel - 1, by omega⟩
    obtain ⟨j, junk', rfl⟩ : ∃ j junk', junk = j :: junk' := by
      cases junk with
      | nil => simp at hj
      | cons j junk' => exact ⟨j, junk', rfl⟩
    obtain ⟨hw, hrest⟩ := hnw
    have hne : n + 1 ≠ N := by omega
    have hst := next_step_tDelta spec3d s c
    unfold Src.C14.RayCasting.cast_f3.loop1
    simp only [ne_eq, hne, not_false_eq_true, if_true]
    rw [next_f3_bridge' s c hw]
    simp only []
    rw [vecSet_append done j junk' _ (n + 1) hn]
    simp only []
    have hih := ih f (n + 1) (done ++ [tup3 (next spec3d s c).2]) junk' (next spec3d s c).1 (next spec3d s c).2
      (by omega) (by simp; omega) (by simpa using hj) (by omega) hrest
    rw [hst.1, hst.2] at hih
    have htup : ((next spec3d s c).2.at 0, (next spec3d s c).2.at 1, (next spec3d s c).2.at 2) = tup3 (next spec3d s c).2 := rfl
    rw [htup, hih]
    simp [steps, List.getLast_cons]

/-- `cast()` as translated = the model's `cast spec3d` (see `cast_d2_bridge`) -/
theorem cast_f3_bridge (s : State 3 α) (fuel : Nat)
    (hI : ∀ i, toInt32 (s.eIdx.at i) = s.eIdx.at i ∧ toInt32 (s.oIdx.at i) = s.oIdx.at i)
    (hw : wrap64 (sumFrom (0 : Int) (fun i => iabs (s.eIdx.at i - s.oIdx.at i)) + 1)
      = sumFrom (0 : Int) (fun i => iabs (s.eIdx.at i - s.oIdx.at i)) + 1)
    (hf : (numCells s).toNat ≤ fuel)
    (hc : NoWrap spec3d ((numCells s).toNat - 1) s s.oIdx) :
    Src.C14.RayCasting.cast_f3 fuel (s.eIdx.at 0) (s.eIdx.at 1) (s.eIdx.at 2) (s.oIdx.at 0) (s.oIdx.at 1) (s.oIdx.at 2)
        (s.rem.at 0) (s.rem.at 1) (s.rem.at 2) (s.step.at 0) (s.step.at 1) (s.step.at 2)
        (s.tDelta.at 0) (s.tDelta.at 1) (s.tDelta.at 2) (s.tMax.at 0) (s.tMax.at 1) (s.tMax.at 2)
      = some ((RayCast.cast spec3d s).2.map tup3,
          (RayCast.cast spec3d s).1.rem.at 0, (RayCast.cast spec3d s).1.rem.at 1, (RayCast.cast spec3d s).1.rem.at 2,
          (RayCast.cast spec3d s).1.tMax.at 0, (RayCast.cast spec3d s).1.tMax.at 1, (RayCast.cast spec3d s).1.tMax.at 2) := by
  have hN := numCells_f3_bridge s hI hw
  have hpos : 1 ≤ numCells s := by
    unfold numCells
    simp only [hI, hw]
    have h0 := iabs_nonneg (s.eIdx.at 0 - s.oIdx.at 0)
    have h1 := iabs_nonneg (s.eIdx.at 1 - s.oIdx.at 1)
    have h2 := iabs_nonneg (s.eIdx.at 2 - s.oIdx.at 2)
    simp [sumFrom, List.finRange_succ]
    omega
  obtain ⟨m, hm⟩ : ∃ m : Nat, (numCells s).toNat = m + 1 := ⟨(numCells s).toNat - 1, by omega⟩
  have hmN : ((m : Int) + 1) = numCells s := by omega
  unfold Src.C14.RayCasting.cast_f3
  simp only [hN, hm, List.replicate_succ]
  have h0 := vecSet_append ([] : List (Int × Int × Int)) (0, 0, 0) (List.replicate m (0, 0, 0)) (s.oIdx.at 0, s.oIdx.at 1, s.oIdx.at 2) 0 (by simp)
  simp only [List.nil_append] at h0
  rw [h0]
  simp only []
  have hk : (numCells s).toNat - 1 = m := by omega
  rw [hk] at hc
  have hl := cast_f3_loop (numCells s) m fuel 0 [(s.oIdx.at 0, s.oIdx.at 1, s.oIdx.at 2)] (List.replicate m (0, 0, 0)) s s.oIdx
    (by omega) (by simp) (by simp) (by omega) hc
  simp only [List.singleton_append] at hl
  simp only [List.cons_append, List.nil_append]
  rw [hl]
  unfold RayCast.cast
  rw [hk]
  rfl

/-- `cast(endPoint)` as translated = the model's `castTo spec3d` (see `cast_to_d2_bridge`) -/
theorem cast_to_f3_bridge (G : Grid 3 α) (s : State 3 α) (p : Vec 3 α) (t0 t1 t2 : List α) (fuel : Nat)
    (hT0 : Src.C14.vecGet? t0 (s.oIdx.at 0) = some (centre1 G 0 (s.oIdx.at 0)))
    (hT1 : Src.C14.vecGet? t1 (s.oIdx.at 1) = some (centre1 G 1 (s.oIdx.at 1)))
    (hT2 : Src.C14.vecGet? t2 (s.oIdx.at 2) = some (centre1 G 2 (s.oIdx.at 2)))
    (hW : ∀ i, wrap64 (Trunc.trunc ((p.at i - G.fmin.at i) / G.r)) = Trunc.trunc ((p.at i - G.fmin.at i) / G.r))
    (hI : ∀ i, toInt32 ((cellIndexes G p).at i) = (cellIndexes G p).at i ∧ toInt32 (s.oIdx.at i) = s.oIdx.at i)
    (hw : wrap64 (sumFrom (0 : Int) (fun i => iabs ((cellIndexes G p).at i - s.oIdx.at i)) + 1)
      = sumFrom (0 : Int) (fun i => iabs ((cellIndexes G p).at i - s.oIdx.at i)) + 1)
    (hf : (numCells (setEnd spec3d G s p)).toNat ≤ fuel)
    (hc : NoWrap spec3d ((numCells (setEnd spec3d G s p)).toNat - 1) (setEnd spec3d G s p) s.oIdx) :
    Src.C14.RayCasting.cast_to_f3 fuel (p.at 0) (p.at 1) (p.at 2) t0 t1 t2 G.r (G.fmin.at 0) (G.fmin.at 1) (G.fmin.at 2)
        (s.oIdx.at 0) (s.oIdx.at 1) (s.oIdx.at 2) (s.o.at 0) (s.o.at 1) (s.o.at 2)
      = some ((castTo spec3d G s p).2.map tup3,
          (castTo spec3d G s p).1.dir.at 0, (castTo spec3d G s p).1.dir.at 1, (castTo spec3d G s p).1.dir.at 2,
          (castTo spec3d G s p).1.eIdx.at 0, (castTo spec3d G s p).1.eIdx.at 1, (castTo spec3d G s p).1.eIdx.at 2,
          (castTo spec3d G s p).1.e.at 0, (castTo spec3d G s p).1.e.at 1, (castTo spec3d G s p).1.e.at 2,
          (castTo spec3d G s p).1.rem.at 0, (castTo spec3d G s p).1.rem.at 1, (castTo spec3d G s p).1.rem.at 2,
          (castTo spec3d G s p).1.step.at 0, (castTo spec3d G s p).1.step.at 1, (castTo spec3d G s p).1.step.at 2,
          (castTo spec3d G s p).1.tDelta.at 0, (castTo spec3d G s p).1.tDelta.at 1, (castTo spec3d G s p).1.tDelta.at 2,
          (castTo spec3d G s p).1.tMax.at 0, (castTo spec3d G s p).1.tMax.at 1, (castTo spec3d G s p).1.tMax.at 2) := by
  have hse := setEndPoint_f3_bridge G s p t0 t1 t2 hT0 hT1 hT2 hW hI
  have hso : (setEnd spec3d G s p).oIdx = s.oIdx := rfl
  have hsE : (setEnd spec3d G s p).eIdx = cellIndexes G p := rfl
  have hcb := cast_f3_bridge (setEnd spec3d G s p) fuel (by rw [hso, hsE]; exact hI) (by rw [hso, hsE]; exact hw) hf
    (by rw [hso]; exact hc)
  rw [hso] at hcb
  obtain ⟨_, h2, _, h4, h5, h6, h7⟩ := cast_sameRay spec3d (setEnd spec3d G s p)
  unfold Src.C14.RayCasting.cast_to_f3
  rw [hse]
  simp only []
  rw [hcb]
  simp only [castTo, h2, h4, h5, h6, h7]

/-- `cast(originPoint, endPoint)` as translated = the model's `castOE spec3d` -/
theorem cast_oe_f3_bridge (G : Grid 3 α) (s : State 3 α) (o p : Vec 3 α) (t0 t1 t2 : List α) (fuel : Nat)
    (hT0 : Src.C14.vecGet? t0 ((cellIndexes G o).at 0) = some (centre1 G 0 ((cellIndexes G o).at 0)))
    (hT1 : Src.C14.vecGet? t1 ((cellIndexes G o).at 1) = some (centre1 G 1 ((cellIndexes G o).at 1)))
    (hT2 : Src.C14.vecGet? t2 ((cellIndexes G o).at 2) = some (centre1 G 2 ((cellIndexes G o).at 2)))
    (hWo : ∀ i, wrap64 (Trunc.trunc ((o.at i - G.fmin.at i) / G.r)) = Trunc.trunc ((o.at i - G.fmin.at i) / G.r))
    (hW : ∀ i, wrap64 (Trunc.trunc ((p.at i - G.fmin.at i) / G.r)) = Trunc.trunc ((p.at i - G.fmin.at i) / G.r))
    (hI : ∀ i, toInt32 ((cellIndexes G p).at i) = (cellIndexes G p).at i ∧
      toInt32 ((cellIndexes G o).at i) = (cellIndexes G o).at i)
    (hw : wrap64 (sumFrom (0 : Int) (fun i => iabs ((cellIndexes G p).at i - (cellIndexes G o).at i)) + 1)
      = sumFrom (0 : Int) (fun i => iabs ((cellIndexes G p).at i - (cellIndexes G o).at i)) + 1)
    (hf : (numCells (setEnd spec3d G (setOrigin G s o) p)).toNat ≤ fuel)
    (hc : NoWrap spec3d ((numCells (setEnd spec3d G (setOrigin G s o) p)).toNat - 1) (setEnd spec3d G (setOrigin G s o) p)
      (cellIndexes G o)) :
    Src.C14.RayCasting.cast_oe_f3 fuel (p.at 0) (p.at 1) (p.at 2) t0 t1 t2 G.r (G.fmin.at 0) (G.fmin.at 1) (G.fmin.at 2)
        (o.at 0) (o.at 1) (o.at 2)
      = some ((castOE spec3d G s o p).2.map tup3,
          (castOE spec3d G s o p).1.dir.at 0, (castOE spec3d G s o p).1.dir.at 1, (castOE spec3d G s o p).1.dir.at 2,
          (castOE spec3d G s o p).1.eIdx.at 0, (castOE spec3d G s o p).1.eIdx.at 1, (castOE spec3d G s o p).1.eIdx.at 2,
          (castOE spec3d G s o p).1.e.at 0, (castOE spec3d G s o p).1.e.at 1, (castOE spec3d G s o p).1.e.at 2,
          (castOE spec3d G s o p).1.oIdx.at 0, (castOE spec3d G s o p).1.oIdx.at 1, (castOE spec3d G s o p).1.oIdx.at 2,
          (castOE spec3d G s o p).1.o.at 0, (castOE spec3d G s o p).1.o.at 1, (castOE spec3d G s o p).1.o.at 2,
          (castOE spec3d G s o p).1.rem.at 0, (castOE spec3d G s o p).1.rem.at 1, (castOE spec3d G s o p).1.rem.at 2,
          (castOE spec3d G s o p).1.step.at 0, (castOE spec3d G s o p).1.step.at 1, (castOE spec3d G s o p).1.step.at 2,
          (castOE spec3d G s o p).1.tDelta.at 0, (castOE spec3d G s o p).1.tDelta.at 1, (castOE spec3d G s o p).1.tDelta.at 2,
          (castOE spec3d G s o p).1.tMax.at 0, (castOE spec3d G s o p).1.tMax.at 1, (castOE spec3d G s o p).1.tMax.at 2) := by
  have hso := setOriginPoint_f3_bridge G s o hWo
  have ht := cast_to_f3_bridge G (setOrigin G s o) p t0 t1 t2 fuel hT0 hT1 hT2 hW hI hw hf hc
  obtain ⟨h1, _, h3, _⟩ := cast_sameRay spec3d (setEnd spec3d G (setOrigin G s o) p)
  unfold Src.C14.RayCasting.cast_oe_f3
  rw [hso]
  simp only []
  have ht' : Src.C14.RayCasting.cast_to_f3 fuel (p.at 0) (p.at 1) (p.at 2) t0 t1 t2 G.r (G.fmin.at 0) (G.fmin.at 1) (G.fmin.at 2)
      ((setOrigin G s o).oIdx.at 0) ((setOrigin G s o).oIdx.at 1) ((setOrigin G s o).oIdx.at 2)
      ((setOrigin G s o).o.at 0) ((setOrigin G s o).o.at 1) ((setOrigin G s o).o.at 2) = _ := ht
  rw [ht']
  have ho1' : (castTo spec3d G (setOrigin G s o) p).1.oIdx = (setOrigin G s o).oIdx := h3
  have ho2' : (castTo spec3d G (setOrigin G s o) p).1.o = (setOrigin G s o).o := h1
  simp only [castOE, ho1', ho2']

end
end Romea.Bridge.C14
