import RomeaProofs.Bridge.C06Ransac
import RomeaProofs.Bridge.C06Cor
import RomeaProofs.Properties.C06
import RomeaProofs.Lemmas.C10Angles

/-!
# Bridge C06, part 4: `C06.estimateModel_terminates` / `estimateModel_ret_iff` restated about the translated `Ransac::estimateModel`
(`Romea.Src.C06.Ransac.estimateModel`, regenerated from `/repo` on every run), at `ℝ` for BOTH scalar types (`float` and `double` read as
exact reals, `DoubleConv ℝ ℝ = id`), for ANY `RansacModel` (any state type, any six virtual methods) whose inlier counts stay below 2^24
(`float` then holds every count exactly: no `f32round` effect), any machine epsilon in (0, 1) and any stored fitting probability in (0, 1).

The hypotheses of `estimateModel_bridge` are THEOREMS here: `hcast_real'`, `f32conv_real` (`F32Conv ℝ (2^24)`), `updOK_real` (the truncated
quotient of `RansacIterations::update` is non-negative: both logarithms are negative).
`src_estimateModel_terminates`: the translated function, run with fuel 1001 = its own cap + 1, returns `some` (the `while` loop exits by its
own test). `src_estimateModel_ret_iff`: it returns `true` exactly when there were enough points and the best counted consensus exceeded the
draw size. `src_estimateModel_is_model`: its result IS the model's (flag and final model state).
What this is worth at `Float`: the control flow and the order of the virtual calls are tied exactly as the source has them; the three
conversion hypotheses are true of IEEE binary32 / binary64 for counts below 2^24 but not provable about Lean's opaque `Float32`.
-/
namespace Romea.Bridge.C06
open Romea Romea.Ransac Romea.C06

private theorem hcast_real' : ∀ n : Nat, (((n : Nat) : Int) : ℝ) = ((n : Nat) : ℝ) := fun n => Int.cast_natCast n

private theorem f32round_small (n : Nat) (h : n < 2 ^ 24) : f32round n = n := by
  unfold f32round
  rw [if_pos h]

/-- at `ℝ` every natural number below 2^24 survives `size_t → float → size_t` unchanged, and the order is kept -/
theorem f32conv_real : F32Conv ℝ (2 ^ 24) where
  trunc_cast := by
    intro n hn
    rw [f32round_small n hn, trunc_real, if_pos (by positivity)]
    exact Int.floor_intCast _
  lt_cast := by
    intro a b ha hb
    rw [f32round_small a ha, f32round_small b hb, Int.cast_lt, Int.ofNat_lt]

theorem f32_closed : ∀ n : Nat, n < 2 ^ 24 → f32round n < 2 ^ 24 := fun n h => by rw [f32round_small n h]; exact h

/-- the truncated quotient in `RansacIterations::update` is non-negative: `log (1 - p) < 0` for `0 < p < 1` and the clamped probability
    lies in `(0, 1)` for a machine epsilon in `(0, 1)` -/
theorem updOK_real [Limits ℝ] (heps0 : 0 < (Limits.eps : ℝ)) (heps1 : (Limits.eps : ℝ) < 1) (p : ℝ) (hp0 : 0 < p) (hp1 : p < 1)
    (O : ℝ) (nDraw : Nat) : UpdOK (Trans.log (one - p)) O nDraw := by
  intro nInl
  have hL : Real.log (1 - p) < 0 := Real.log_neg (by linarith) (by linarith)
  generalize hq : (one - Trans.pow ((nInl : ℝ) * O) (nDraw : ℝ)) = q
  have hv : 0 < stdMin (one - (Limits.eps : ℝ)) (stdMax (Limits.eps : ℝ) q) ∧
      stdMin (one - (Limits.eps : ℝ)) (stdMax (Limits.eps : ℝ) q) < 1 := by
    unfold stdMin stdMax one
    simp only [Nat.cast_one]
    split_ifs <;> constructor <;> linarith
  have hlv : Real.log (stdMin (one - (Limits.eps : ℝ)) (stdMax (Limits.eps : ℝ) q)) < 0 := Real.log_neg hv.1 hv.2
  have hquot : 0 ≤ Trans.log (one - p) / Trans.log (stdMin (one - (Limits.eps : ℝ)) (stdMax (Limits.eps : ℝ) q)) := by
    simp only [trans_log, one, Nat.cast_one] at *
    exact le_of_lt (div_pos_of_neg_of_neg hL hlv)
  rw [trunc_real, if_pos hquot]
  exact Int.floor_nonneg.mpr hquot

section
variable {σ : Type} [Limits ℝ]

/-- **The translated `estimateModel` IS the model's** (at `ℝ`, counts below 2^24): same return flag, same final model state, and it does
    not run out of its fuel -/
theorem src_estimateModel_is_model (heps0 : 0 < (Limits.eps : ℝ)) (heps1 : (Limits.eps : ℝ) < 1)
    (count : σ → ℝ → σ × Nat) (draw : σ → ℝ → σ × Bool) (minInl nPts nDraw : σ → Nat) (refine : σ → σ) (dev fp : ℝ)
    (hp0 : 0 < fp) (hp1 : fp < 1) (hcnt : ∀ s d, (count s d).2 < 2 ^ 24) (s : σ) :
    Src.C06.Ransac.estimateModel (α := ℝ) 1001 (intCount count) draw fp (intGet minInl) (intGet nPts) (intGet nDraw) dev s refine
      = some ((Ransac.estimateModel (mkOps count draw minInl nPts nDraw refine dev) fp (Limits.eps : ℝ) 1000 s).ret,
          (Ransac.estimateModel (mkOps count draw minInl nPts nDraw refine dev) fp (Limits.eps : ℝ) 1000 s).s) := by
  have hb := estimateModel_bridge (φ := ℝ) (δ := ℝ) hcast_real' (2 ^ 24) f32conv_real f32_closed (by norm_num) count draw minInl nPts
    nDraw refine dev fp hcnt s (updOK_real heps0 heps1 _ hp0 hp1 _ _)
  have hd := (estimateModel_terminates (mkOps count draw minInl nPts nDraw refine dev) fp (Limits.eps : ℝ) 1000 s).1
  rw [show (Rotation.DoubleConv.up (Rotation.DoubleConv.down fp : ℝ) : ℝ) = fp from rfl] at hb
  rw [hb, hd]
  simp

/-- **`C06.estimateModel_terminates` about the translated function**: with fuel 1001 (its own iteration cap + 1) the translated
    `Ransac::estimateModel` returns `some`: the `while (iteration < ransacIterations.get())` loop exits by its own test, for every model -/
theorem src_estimateModel_terminates (heps0 : 0 < (Limits.eps : ℝ)) (heps1 : (Limits.eps : ℝ) < 1)
    (count : σ → ℝ → σ × Nat) (draw : σ → ℝ → σ × Bool) (minInl nPts nDraw : σ → Nat) (refine : σ → σ) (dev fp : ℝ)
    (hp0 : 0 < fp) (hp1 : fp < 1) (hcnt : ∀ s d, (count s d).2 < 2 ^ 24) (s : σ) :
    ∃ ret s', Src.C06.Ransac.estimateModel (α := ℝ) 1001 (intCount count) draw fp (intGet minInl) (intGet nPts) (intGet nDraw) dev s
      refine = some (ret, s') :=
  ⟨_, _, src_estimateModel_is_model heps0 heps1 count draw minInl nPts nDraw refine dev fp hp0 hp1 hcnt s⟩

/-- **`C06.estimateModel_ret_iff` about the translated function**: it returns `true` exactly when there were enough points and the best
    counted consensus (the model's `best`) exceeded the draw size -/
theorem src_estimateModel_ret_iff (heps0 : 0 < (Limits.eps : ℝ)) (heps1 : (Limits.eps : ℝ) < 1)
    (count : σ → ℝ → σ × Nat) (draw : σ → ℝ → σ × Bool) (minInl nPts nDraw : σ → Nat) (refine : σ → σ) (dev fp : ℝ)
    (hp0 : 0 < fp) (hp1 : fp < 1) (hcnt : ∀ s d, (count s d).2 < 2 ^ 24) (s : σ) :
    (∃ s', Src.C06.Ransac.estimateModel (α := ℝ) 1001 (intCount count) draw fp (intGet minInl) (intGet nPts) (intGet nDraw) dev s
      refine = some (true, s')) ↔
      minInl s ≤ nPts s ∧
        nDraw s < (Ransac.estimateModel (mkOps count draw minInl nPts nDraw refine dev) fp (Limits.eps : ℝ) 1000 s).best := by
  rw [src_estimateModel_is_model heps0 heps1 count draw minInl nPts nDraw refine dev fp hp0 hp1 hcnt s]
  have h := estimateModel_ret_iff (mkOps count draw minInl nPts nDraw refine dev) fp (Limits.eps : ℝ) 1000 s
  constructor
  · rintro ⟨s', hs⟩
    have : (Ransac.estimateModel (mkOps count draw minInl nPts nDraw refine dev) fp (Limits.eps : ℝ) 1000 s).ret = true := by
      injection hs with hs; exact (Prod.ext_iff.mp hs).1
    exact h.mp this
  · intro hh
    exact ⟨_, by rw [h.mpr hh]⟩

end

/-! ### Non-vacuity: a three-state scripted model run through the GENERATED definition (`Float`-free: the functions below are total on `ℝ`) -/

/-- the hypotheses can be met: machine epsilon 2^-52, fitting probability 0.99 -/
example : (0 : ℝ) < 2⁻¹ ^ 52 ∧ (2⁻¹ : ℝ) ^ 52 < 1 ∧ (0 : ℝ) < 0.99 ∧ (0.99 : ℝ) < 1 := by norm_num
example : f32round 1000 = 1000 ∧ f32round 16777217 = 16777216 := by decide

/-- a concrete model (state = number of virtual calls so far; 10 points, draws of 3, every draw succeeds with 7 inliers) meets every
    hypothesis: the translated function terminates within its fuel -/
example : letI : Limits ℝ := ⟨1, -1, 1, (2⁻¹ : ℝ) ^ 52⟩
    ∃ ret s', Src.C06.Ransac.estimateModel (α := ℝ) (σ := Nat) 1001 (intCount (fun s _ => (s + 1, 7))) (fun s _ => (s + 1, true)) 0.99
      (intGet (fun _ => 4)) (intGet (fun _ => 10)) (intGet (fun _ => 3)) 0.2 0 id = some (ret, s') := by
  letI : Limits ℝ := ⟨1, -1, 1, (2⁻¹ : ℝ) ^ 52⟩
  have heps0 : (0 : ℝ) < (Limits.eps : ℝ) := by show (0 : ℝ) < 2⁻¹ ^ 52; positivity
  have heps1 : (Limits.eps : ℝ) < 1 := by show (2⁻¹ : ℝ) ^ 52 < 1; norm_num
  exact src_estimateModel_terminates (σ := Nat) heps0 heps1 (fun s _ => (s + 1, 7)) (fun s _ => (s + 1, true)) (fun _ => 4) (fun _ => 10)
    (fun _ => 3) id 0.2 0.99 (by norm_num) (by norm_num) (fun _ _ => by norm_num) 0

end Romea.Bridge.C06
