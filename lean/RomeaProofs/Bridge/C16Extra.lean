import RomeaModel.Window
import RomeaModel.Generated.SrcC16
import RomeaProofs.Bridge.C16

/-!
# Bridge C16, part 3: the remaining constructors and `setWindowSize` of `OnlineAverage` / `OnlineVariance` AS TRANSLATED FROM TODAY'S SOURCE

`OnlineAverage(precision)` / `OnlineVariance(precision)` (delegating to the two-argument constructors with window size 0), the copy
constructors (member by member; the `mutable std::mutex` member holds no data of the sequential meaning and is skipped by the translator —
for `OnlineVariance` the base-class copy goes through the translated `OnlineAverage` copy constructor), `setWindowSize`, `getWindowSize`.
The model (`RomeaModel/Window.lean`) has no separate functions for these: the statements are in terms of `Stat.init` / the state's fields.
`ctor1_then_setWindowSize_*`: constructing with one argument and then calling `setWindowSize(W)` gives member for member the object the
two-argument constructor builds — so the history theorems of `Bridge/C16Cor.lean` (`src_run_eq` …) cover objects built either way.
Every statement holds for every scalar type. Core Lean only.
-/
set_option linter.unusedSectionVars false

namespace Romea.Bridge.C16
open Romea Romea.Window

section
variable {α : Type} [Sub α] [Mul α] [Div α] [NatCast α] [IntCast α] [Trunc α]

/-- `OnlineAverage(precision)` = `OnlineAverage(precision, 0)`: the model's `Stat.init 0` -/
theorem average_ctor1_bridge (p : α) :
    Src.C16.OnlineAverage.OnlineAverage_1 p
      = let s := Stat.init 0 (multiplierOf p)
        ((nan : α), s.data, (s.idx : Int), s.m, s.sum, (s.W : Int)) := rfl

/-- the copy constructor of `OnlineAverage` copies the six data members (average_, data_, index_, multiplier_, sumOfData_, windowSize_) -/
theorem average_copy_bridge (avg : α) (data : List Int) (idx m sum W : Int) :
    Src.C16.OnlineAverage.OnlineAverage_copy avg data idx m sum W = (avg, data, idx, m, sum, W) := rfl

/-- `setWindowSize(W)` stores `W` (the `reserve` has no effect on the contents); `getWindowSize()` returns the stored member -/
theorem average_setWindowSize_bridge (data : List Int) (W : Int) :
    Src.C16.OnlineAverage.setWindowSize data W = W ∧ Src.C16.OnlineAverage.getWindowSize W = W := ⟨rfl, rfl⟩

/-- `OnlineVariance(precision)` = `OnlineVariance(precision, 0)`: `windowSizeMinusOne_ = size_t(0) - 1 = 2^64 - 1` -/
theorem variance_ctor1_bridge (p : α) :
    Src.C16.OnlineVariance.OnlineVariance_1 p
      = let s := Stat.init 0 (multiplierOf p)
        ((nan : α), s.data, (s.idx : Int), s.m, s.sq, s.m2, s.sum, s.sumsq, (nan : α), (18446744073709551615 : Int), (s.W : Int)) := rfl

/-- the copy constructor of `OnlineVariance` copies the eleven data members (the `OnlineAverage` part through the translated base-class
    copy constructor) -/
theorem variance_copy_bridge (avg var : α) (data sq : List Int) (idx m m2 sum sumsq wm1 W : Int) :
    Src.C16.OnlineVariance.OnlineVariance_copy avg data idx m sq m2 sum sumsq var wm1 W
      = (avg, data, idx, m, sq, m2, sum, sumsq, var, wm1, W) := rfl

/-- `OnlineVariance::setWindowSize(W)`: (windowSizeMinusOne_, windowSize_) = (`W - 1` in `size_t`, `W`) -/
theorem variance_setWindowSize_bridge (data sq : List Int) (W : Nat) (h0 : 0 < W) (h64 : W < two64) :
    Src.C16.OnlineVariance.setWindowSize data sq (W : Int) = (((W - 1 : Nat) : Int), (W : Int)) := by
  have h : ((W : Int) - 1) % 18446744073709551616 = ((W - 1 : Nat) : Int) := by
    simp only [two64] at h64; omega
  simp only [Src.C16.OnlineVariance.setWindowSize, h]

/-- **one-argument constructor + `setWindowSize(W)` = two-argument constructor** (`OnlineAverage`), member for member -/
theorem ctor1_then_setWindowSize_average (p : α) (W : Nat) :
    let c := Src.C16.OnlineAverage.OnlineAverage_1 p
    (c.1, c.2.1, c.2.2.1, c.2.2.2.1, c.2.2.2.2.1, Src.C16.OnlineAverage.setWindowSize c.2.1 (W : Int))
      = Src.C16.OnlineAverage.OnlineAverage p (W : Int) := rfl

/-- **one-argument constructor + `setWindowSize(W)` = two-argument constructor** (`OnlineVariance`), member for member -/
theorem ctor1_then_setWindowSize_variance (p : α) (W : Nat) :
    let c := Src.C16.OnlineVariance.OnlineVariance_1 p
    let w := Src.C16.OnlineVariance.setWindowSize c.2.1 c.2.2.2.2.1 (W : Int)
    (c.1, c.2.1, c.2.2.1, c.2.2.2.1, c.2.2.2.2.1, c.2.2.2.2.2.1, c.2.2.2.2.2.2.1, c.2.2.2.2.2.2.2.1, c.2.2.2.2.2.2.2.2.1, w.1, w.2)
      = Src.C16.OnlineVariance.OnlineVariance p (W : Int) := rfl

end

/-! ### Non-vacuity -/
example : Src.C16.OnlineVariance.setWindowSize [] [] 4 = (3, 4) := by decide
example : Src.C16.OnlineVariance.setWindowSize [] [] 0 = (18446744073709551615, 0) := by decide

end Romea.Bridge.C16
