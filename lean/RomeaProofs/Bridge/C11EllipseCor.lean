import RomeaProofs.Bridge.C11Ellipse
import RomeaProofs.Properties.C11

/-!
# Bridge C11, part 4: the headline ellipse theorem of `Properties/C11.lean` restated about the functions translated from today's source

At the scalar type ℝ, for EVERY pair of functions standing for `JacobiSVD::matrixU()` / `JacobiSVD::singularValues()` whose values on the
decomposed matrix meet the contract `IsEig2` (descending non-negative values, orthonormal `U`, `C = U diag(s) Uᵀ`): the five numbers the
translated constructor / the translated `uncertaintyEllipse` overloads return (`centre x, centre y, major, minor, orientation`) satisfy
`centre = position`, `major ≥ minor ≥ 0` and `R(θ) diag(major², minor²) R(θ)ᵀ / σ² = C`.
-/
set_option maxRecDepth 4000

namespace Romea.Bridge.C11
open Romea Romea.Pose Romea.C11 Matrix

variable (mU : Int → (Int → Int → ℝ) → Int → String → (Int → Int → ℝ)) (sV : Int → (Int → Int → ℝ) → Int → String → (Int → ℝ))

/-- the conclusion of `C11.ellipse` about a tuple of translated leaves `(cx, cy, major, minor, θ)` -/
def IsSigmaEllipse (r : ℝ × ℝ × ℝ × ℝ × ℝ) (c : Vec 2 ℝ) (C : Mat 2 2 ℝ) (σ : ℝ) : Prop :=
  r.1 = c 0 ∧ r.2.1 = c 1 ∧ r.2.2.2.1 ≤ r.2.2.1 ∧ 0 ≤ r.2.2.2.1 ∧
  ∀ i j, (rot2 r.2.2.2.2 * !![r.2.2.1 ^ 2, 0; 0, r.2.2.2.1 ^ 2] * (rot2 r.2.2.2.2)ᵀ) i j / σ ^ 2 = C i j

private theorem of_model (svd : Mat 2 2 ℝ → Eig2 ℝ) (c : Vec 2 ℝ) (C : Mat 2 2 ℝ) (σ : ℝ) (hσ : 0 < σ) (hsvd : IsEig2 C (svd C)) :
    IsSigmaEllipse (leavesOf (ellipseOfCov svd c C σ)) c C σ := by
  obtain ⟨hc, h1, h2, h3⟩ := ellipse svd c C σ hσ hsvd
  exact ⟨congrFun hc 0, congrFun hc 1, h1, h2, h3⟩

/-- `C11.ellipse` about the translated `Ellipse(centerPosition, covarianceMatrix, sigmaScale)` -/
theorem src_ellipse (c : Vec 2 ℝ) (C : Mat 2 2 ℝ) (σ : ℝ) (hσ : 0 < σ) (hsvd : IsEig2 C (svdOf mU sV C)) :
    IsSigmaEllipse
      (Src.C11.Ellipse.Ellipse (JacobiSVD_matrixU := mU) (JacobiSVD_singularValues := sV)
        (centerPosition_0 := c 0) (centerPosition_1 := c 1)
        (covarianceMatrix_0_0 := C 0 0) (covarianceMatrix_0_1 := C 0 1) (covarianceMatrix_1_0 := C 1 0) (covarianceMatrix_1_1 := C 1 1)
        (sigmaScale := σ)) c C σ := by
  rw [Ellipse_cov_bridge mU sV c C σ]
  exact of_model _ c C σ hσ hsvd

/-- `C11.ellipse` about the translated `uncertaintyEllipse(const Position2D &, const double &)`: the sigma-scaled principal-axis
    ellipse of the position's covariance, centred at the position -/
theorem src_uncertaintyEllipse_position (p : Position2D ℝ) (σ : ℝ) (hσ : 0 < σ) (hsvd : IsEig2 p.covariance (svdOf mU sV p.covariance)) :
    IsSigmaEllipse
      (Src.C11.uncertaintyEllipse_position (JacobiSVD_matrixU := mU) (JacobiSVD_singularValues := sV)
        (position2d_covariance_0_0 := p.covariance 0 0) (position2d_covariance_0_1 := p.covariance 0 1)
        (position2d_covariance_1_0 := p.covariance 1 0) (position2d_covariance_1_1 := p.covariance 1 1)
        (position2d_position_0 := p.position 0) (position2d_position_1 := p.position 1) (sigmaScale := σ))
      p.position p.covariance σ := by
  rw [uncertaintyEllipse_position_bridge mU sV p σ]
  exact of_model _ p.position p.covariance σ hσ hsvd

/-- the xy block of a planar pose covariance -/
def xyBlock (C : Mat 3 3 ℝ) : Mat 2 2 ℝ := fun i j => C ⟨i.1, by omega⟩ ⟨j.1, by omega⟩

/-- `C11.ellipse` about the translated `uncertaintyEllipse(const Pose2D &, const double &)`: the sigma-scaled principal-axis ellipse of
    the xy block of the pose covariance, centred at the pose's position -/
theorem src_uncertaintyEllipse_pose (p : Pose2D ℝ) (σ : ℝ) (hσ : 0 < σ)
    (hsvd : IsEig2 (xyBlock p.covariance) (svdOf mU sV (xyBlock p.covariance))) :
    IsSigmaEllipse
      (Src.C11.uncertaintyEllipse_pose (JacobiSVD_matrixU := mU) (JacobiSVD_singularValues := sV)
        (pose2d_covariance_0_0 := p.covariance 0 0) (pose2d_covariance_0_1 := p.covariance 0 1)
        (pose2d_covariance_1_0 := p.covariance 1 0) (pose2d_covariance_1_1 := p.covariance 1 1)
        (pose2d_position_0 := p.position 0) (pose2d_position_1 := p.position 1) (sigmaScale := σ))
      p.position (xyBlock p.covariance) σ := by
  rw [uncertaintyEllipse_pose_bridge mU sV p σ]
  exact of_model _ p.position (xyBlock p.covariance) σ hσ hsvd

/-- non-vacuity of the oracle hypothesis: every decomposition record `d` (in particular one meeting `IsEig2 C`, which exists for every
    symmetric positive semi-definite `C`: `C11.isEig2_exists`) is what `svdOf` reads from some pair of oracle functions -/
theorem svdOf_surjective (d : Eig2 ℝ) : ∃ mU sV, ∀ C : Mat 2 2 ℝ, svdOf mU sV C = d := by
  refine ⟨fun _ _ _ _ a b => d.U (if a = 0 then 0 else 1) (if b = 0 then 0 else 1), fun _ _ _ _ k => if k = 0 then d.s0 else d.s1,
    fun C => ?_⟩
  obtain ⟨s0, s1, U⟩ := d
  simp only [svdOf, Eig2.mk.injEq]
  refine ⟨by simp, by simp, ?_⟩
  funext i j
  fin_cases i <;> fin_cases j <;> simp

/-- for every symmetric positive semi-definite covariance there are oracle functions meeting the hypothesis of `src_ellipse` /
    `src_uncertaintyEllipse_position` / `src_uncertaintyEllipse_pose` (rank-deficient covariances included) -/
theorem src_ellipse_hypothesis_satisfiable (C : Mat 2 2 ℝ) (hC : IsPSD C) : ∃ mU sV, IsEig2 C (svdOf mU sV C) := by
  obtain ⟨d, hd⟩ := isEig2_exists C hC
  obtain ⟨mU, sV, h⟩ := svdOf_surjective d
  exact ⟨mU, sV, by rw [h C]; exact hd⟩

end Romea.Bridge.C11
