import RomeaModel.Rate
import RomeaModel.Generated.SrcC17
import RomeaProofs.Bridge.C17

/-!
# Bridge C17, part 3: `RateMonitoring(const double & expectedRate)` AS TRANSLATED FROM TODAY'S SOURCE

The constructor that `CheckupRate`'s member initialiser `rateMonitoring_(rate)` runs: it delegates to the default constructor and then calls
`initialize(expectedRate)`. Statement: the six data members are those of the model's `Mon.init (windowOf n)`, `n` the truncated
`2 * expectedRate` — so the history theorems of `Bridge/C17Cor.lean` start from the object this constructor builds.
NOT translated: the rest of the `CheckupRate` constructor (`Checkup<T>`'s constructor does `report_.diagnostics.push_back(diagnostic)` and
`report_.info[name] = ""` on freshly constructed containers — outside the translator's fixed-location reading of `front()` / `begin()`)
and `getReport()` (returns the whole `DiagnosticReport` by value). Every scalar type. Core Lean only.
-/
namespace Romea.Bridge.C17
open Romea Romea.Rate

section
variable {α : Type} [Mul α] [Div α] [LT α] [DecidableLT α] [NatCast α] [IntCast α] [OfScientific α] [Trunc α]

/-- `RateMonitoring(expectedRate)`: (lastDuration_, lastPeriod_, periodsSum_, periods_, rate_, windowSize_) = the model's
    `Mon.init (windowOf n)` for `n = size_t(2 * expectedRate)` -/
theorem ctor_rate_bridge (expectedRate : α) (n : Nat) (h : Trunc.trunc (((2 : Nat) : α) * expectedRate) = (n : Int)) :
    (Src.C17.RateMonitoring.RateMonitoring_rate expectedRate : Int × Int × Int × List Int × α × Int)
      = ((Mon.init (windowOf n)).last, 0, (Mon.init (windowOf n)).sum, (Mon.init (windowOf n)).q,
          rateVal (Mon.init (windowOf n)).W (Mon.init (windowOf n)).rate, (((Mon.init (windowOf n)).W : Nat) : Int)) := by
  unfold Src.C17.RateMonitoring.RateMonitoring_rate
  simp only [initialize_bridge expectedRate n h]
  rfl

end

/-! ### Non-vacuity -/
-- expected rate 10 Hz: window clamp(20, 4, 64) = 20
example : windowOf 20 = 20 ∧ windowOf 1 = 4 ∧ windowOf 1000 = 64 := by decide

end Romea.Bridge.C17
