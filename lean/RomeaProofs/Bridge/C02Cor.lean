import RomeaProofs.Bridge.C02
import RomeaProofs.Properties.C02

/-!
# Bridge C02, part 2: headline theorems of `Properties/C02.lean` restated about the functions translated from today's source

`Romea.Src.C02.*` is regenerated from `/repo/src/geodesy/ENUConverter.cpp` on every run.  An `ENUConverter` object is the record `Obj`
of the members the translated functions read and write (`enu2ecef_` = the 16 coefficients of its 4×4 matrix, `isAnchored_`,
`wgs84Anchor_`; `ecefConverter_.ellipsoid_` is written by no translated member function: its fields `a`, `e2` are parameters);
a member-function call replaces exactly the members listed in the translated function's result (`…'` in its doc comment), a `const`
member function (`toENU(Vector3d)`, `toECEF`, `toWGS84`: results `ret_*` only) leaves the object alone.

* `src_frame_is_rotation`, `src_anchor_to_origin`, `src_above_anchor`, `src_toENU_toECEF`, `src_toECEF_toENU` (ℝ): the frame written by
  the translated `setAnchor` is a proper rotation; the translated `toENU` maps the translated `toECEF` image of the anchor to the
  origin; the translated `toENU(Vector3d)` / `toECEF(Vector3d)` are mutually inverse on an object anchored by the translated `setAnchor`;
* `src_run_eq`, `src_history`, `src_anchored_iff`, `src_last_row` (EVERY scalar type, `Float` included): folding the translated member
  functions over any call history, starting from the translated default constructor, gives the object of the model state
  `stateOf (book ops)` — nothing of an earlier anchor survives in `enu2ecef_`, the flag is up iff an anchor is in force, the last
  row of the matrix is `0 0 0 1` for ever.
-/
set_option linter.unusedSectionVars false

namespace Romea.Bridge.C02
open Romea Romea.Geodesy Romea.ENU Romea.C02

/-- the data members of an `ENUConverter` as the translated functions see them -/
structure Obj (α : Type) where
  m00 : α
  m01 : α
  m02 : α
  m03 : α
  m10 : α
  m11 : α
  m12 : α
  m13 : α
  m20 : α
  m21 : α
  m22 : α
  m23 : α
  m30 : α
  m31 : α
  m32 : α
  m33 : α
  anchored : Bool
  alt : α
  lat : α
  lon : α

section
variable {α : Type} [Add α] [Sub α] [Mul α] [Div α] [Neg α] [LT α] [DecidableLT α] [NatCast α] [OfScientific α] [Trans α]

/-- `enu2ecef_.linear()` / `.translation()` of an object -/
def Obj.R (o : Obj α) : Mat3 α := ⟨o.m00, o.m01, o.m02, o.m10, o.m11, o.m12, o.m20, o.m21, o.m22⟩
def Obj.T (o : Obj α) : Vec3 α := ⟨o.m03, o.m13, o.m23⟩

/-- the object of a model state (last row of the matrix: `0 0 0 1`) -/
def objOf (s : State α) : Obj α :=
  { m00 := s.R.m00, m01 := s.R.m01, m02 := s.R.m02, m03 := s.T.x, m10 := s.R.m10, m11 := s.R.m11, m12 := s.R.m12, m13 := s.T.y,
    m20 := s.R.m20, m21 := s.R.m21, m22 := s.R.m22, m23 := s.T.z,
    m30 := ((0 : Nat) : α), m31 := ((0 : Nat) : α), m32 := ((0 : Nat) : α), m33 := ((1 : Nat) : α),
    anchored := s.anchored, alt := s.anchor.alt, lat := s.anchor.lat, lon := s.anchor.lon }

/-- the object built by the translated default constructor -/
def Obj.ctor : Obj α :=
  let r := (Src.C02.ENUConverter.ENUConverter : α × α × α × α × α × α × α × α × α × α × α × α × α × α × α × α × Bool × α × α × α)
  { m00 := r.1, m01 := r.2.1, m02 := r.2.2.1, m03 := r.2.2.2.1, m10 := r.2.2.2.2.1, m11 := r.2.2.2.2.2.1, m12 := r.2.2.2.2.2.2.1, m13 := r.2.2.2.2.2.2.2.1, m20 := r.2.2.2.2.2.2.2.2.1, m21 := r.2.2.2.2.2.2.2.2.2.1, m22 := r.2.2.2.2.2.2.2.2.2.2.1, m23 := r.2.2.2.2.2.2.2.2.2.2.2.1,
    m30 := r.2.2.2.2.2.2.2.2.2.2.2.2.1, m31 := r.2.2.2.2.2.2.2.2.2.2.2.2.2.1, m32 := r.2.2.2.2.2.2.2.2.2.2.2.2.2.2.1, m33 := r.2.2.2.2.2.2.2.2.2.2.2.2.2.2.2.1,
    anchored := r.2.2.2.2.2.2.2.2.2.2.2.2.2.2.2.2.1, alt := r.2.2.2.2.2.2.2.2.2.2.2.2.2.2.2.2.2.1, lat := r.2.2.2.2.2.2.2.2.2.2.2.2.2.2.2.2.2.2.1, lon := r.2.2.2.2.2.2.2.2.2.2.2.2.2.2.2.2.2.2.2 }

/-- a call of the translated `setAnchor(g)` on an object -/
def Obj.setAnchor (a e2 : α) (o : Obj α) (g : Geo α) : Obj α :=
  let r := Src.C02.ENUConverter.setAnchor g.alt g.lat g.lon a e2
  { o with m00 := r.1, m01 := r.2.1, m02 := r.2.2.1, m03 := r.2.2.2.1, m10 := r.2.2.2.2.1, m11 := r.2.2.2.2.2.1, m12 := r.2.2.2.2.2.2.1, m13 := r.2.2.2.2.2.2.2.1, m20 := r.2.2.2.2.2.2.2.2.1, m21 := r.2.2.2.2.2.2.2.2.2.1, m22 := r.2.2.2.2.2.2.2.2.2.2.1, m23 := r.2.2.2.2.2.2.2.2.2.2.2.1,
           anchored := r.2.2.2.2.2.2.2.2.2.2.2.2.1, alt := r.2.2.2.2.2.2.2.2.2.2.2.2.2.1, lat := r.2.2.2.2.2.2.2.2.2.2.2.2.2.2.1, lon := r.2.2.2.2.2.2.2.2.2.2.2.2.2.2.2 }

/-- a call of the translated `reset()` on an object -/
def Obj.reset (o : Obj α) : Obj α :=
  let r := (Src.C02.ENUConverter.reset : α × α × α × α × α × α × α × α × α × α × α × α × α × α × α × α × Bool)
  { o with m00 := r.1, m01 := r.2.1, m02 := r.2.2.1, m03 := r.2.2.2.1, m10 := r.2.2.2.2.1, m11 := r.2.2.2.2.2.1, m12 := r.2.2.2.2.2.2.1, m13 := r.2.2.2.2.2.2.2.1, m20 := r.2.2.2.2.2.2.2.2.1, m21 := r.2.2.2.2.2.2.2.2.2.1, m22 := r.2.2.2.2.2.2.2.2.2.2.1, m23 := r.2.2.2.2.2.2.2.2.2.2.2.1,
           m30 := r.2.2.2.2.2.2.2.2.2.2.2.2.1, m31 := r.2.2.2.2.2.2.2.2.2.2.2.2.2.1, m32 := r.2.2.2.2.2.2.2.2.2.2.2.2.2.2.1, m33 := r.2.2.2.2.2.2.2.2.2.2.2.2.2.2.2.1, anchored := r.2.2.2.2.2.2.2.2.2.2.2.2.2.2.2.2 }

/-- a call of the translated `toENU(GeodeticCoordinates)` on an object: the object afterwards, and the returned vector -/
def Obj.toENUgeo (a e2 : α) (o : Obj α) (g : Geo α) : Obj α × Vec3 α :=
  let r := Src.C02.ENUConverter.toENU_geo a e2 o.m00 o.m01 o.m02 o.m03 o.m10 o.m11 o.m12 o.m13 o.m20 o.m21 o.m22 o.m23 g.alt g.lat g.lon o.anchored o.alt o.lat o.lon
  ({ o with m00 := r.2.2.2.1, m01 := r.2.2.2.2.1, m02 := r.2.2.2.2.2.1, m03 := r.2.2.2.2.2.2.1, m10 := r.2.2.2.2.2.2.2.1, m11 := r.2.2.2.2.2.2.2.2.1, m12 := r.2.2.2.2.2.2.2.2.2.1, m13 := r.2.2.2.2.2.2.2.2.2.2.1, m20 := r.2.2.2.2.2.2.2.2.2.2.2.1, m21 := r.2.2.2.2.2.2.2.2.2.2.2.2.1, m22 := r.2.2.2.2.2.2.2.2.2.2.2.2.2.1, m23 := r.2.2.2.2.2.2.2.2.2.2.2.2.2.2.1,
            anchored := r.2.2.2.2.2.2.2.2.2.2.2.2.2.2.2.1, alt := r.2.2.2.2.2.2.2.2.2.2.2.2.2.2.2.2.1, lat := r.2.2.2.2.2.2.2.2.2.2.2.2.2.2.2.2.2.1, lon := r.2.2.2.2.2.2.2.2.2.2.2.2.2.2.2.2.2.2 },
   ⟨r.1, r.2.1, r.2.2.1⟩)

/-- a call of the translated `toENU(WGS84Coordinates)` on an object -/
def Obj.toENUwgs (a e2 : α) (o : Obj α) (lat lon : α) : Obj α × Vec3 α :=
  let r := Src.C02.ENUConverter.toENU_wgs a e2 o.m00 o.m01 o.m02 o.m03 o.m10 o.m11 o.m12 o.m13 o.m20 o.m21 o.m22 o.m23 o.anchored o.alt o.lat o.lon lat lon
  ({ o with m00 := r.2.2.2.1, m01 := r.2.2.2.2.1, m02 := r.2.2.2.2.2.1, m03 := r.2.2.2.2.2.2.1, m10 := r.2.2.2.2.2.2.2.1, m11 := r.2.2.2.2.2.2.2.2.1, m12 := r.2.2.2.2.2.2.2.2.2.1, m13 := r.2.2.2.2.2.2.2.2.2.2.1, m20 := r.2.2.2.2.2.2.2.2.2.2.2.1, m21 := r.2.2.2.2.2.2.2.2.2.2.2.2.1, m22 := r.2.2.2.2.2.2.2.2.2.2.2.2.2.1, m23 := r.2.2.2.2.2.2.2.2.2.2.2.2.2.2.1,
            anchored := r.2.2.2.2.2.2.2.2.2.2.2.2.2.2.2.1, alt := r.2.2.2.2.2.2.2.2.2.2.2.2.2.2.2.2.1, lat := r.2.2.2.2.2.2.2.2.2.2.2.2.2.2.2.2.2.1, lon := r.2.2.2.2.2.2.2.2.2.2.2.2.2.2.2.2.2.2 },
   ⟨r.1, r.2.1, r.2.2.1⟩)

/-- the translated `toENU(Vector3d)` / `toECEF(Vector3d)` on an object (`const`: the object is not written) -/
def Obj.toENUv (o : Obj α) (p : Vec3 α) : Vec3 α :=
  let r := Src.C02.ENUConverter.toENU_v p.x p.y p.z o.m00 o.m01 o.m02 o.m03 o.m10 o.m11 o.m12 o.m13 o.m20 o.m21 o.m22 o.m23
  ⟨r.1, r.2.1, r.2.2⟩
def Obj.toECEFv (o : Obj α) (v : Vec3 α) : Vec3 α :=
  let r := Src.C02.ENUConverter.toECEF_v o.m00 o.m01 o.m02 o.m03 o.m10 o.m11 o.m12 o.m13 o.m20 o.m21 o.m22 o.m23 v.x v.y v.z
  ⟨r.1, r.2.1, r.2.2⟩

/-- one call of a member function, as translated, on an object (the `const` overloads write nothing) -/
def srcStep (a e2 : α) (o : Obj α) : Op α → Obj α
  | .setAnchor g => o.setAnchor a e2 g
  | .reset => o.reset
  | .toENUecef _ => o
  | .toENUgeo g => (o.toENUgeo a e2 g).1
  | .toENUwgs lat lon => (o.toENUwgs a e2 lat lon).1
  | .toECEF _ => o
  | .toWGS84 _ => o

/-- a call history on one object, every call being the translated function -/
def srcRun (a e2 : α) (o : Obj α) (ops : List (Op α)) : Obj α := ops.foldl (srcStep a e2) o

theorem ctor_obj : (Obj.ctor : Obj α) = objOf init := by rfl

theorem setAnchor_obj (E : Ellipsoid α) (s : State α) (g : Geo α) :
    (objOf s).setAnchor E.a E.e2 g = objOf (setAnchor E s g) := by rfl

theorem reset_obj (s : State α) : (objOf s).reset = objOf (reset s) := by rfl

theorem toENUgeo_obj (E : Ellipsoid α) (s : State α) (g : Geo α) :
    (objOf s).toENUgeo E.a E.e2 g = (objOf (toENUgeo E s g).1, (toENUgeo E s g).2) := by
  obtain ⟨anchored, anchor, R, T⟩ := s
  cases anchored <;> rfl

theorem toENUwgs_obj (E : Ellipsoid α) (s : State α) (lat lon : α) :
    (objOf s).toENUwgs E.a E.e2 lat lon = (objOf (toENUwgs E s lat lon).1, (toENUwgs E s lat lon).2) := by
  obtain ⟨anchored, anchor, R, T⟩ := s
  cases anchored <;> rfl

theorem toENUv_obj (s : State α) (p : Vec3 α) : (objOf s).toENUv p = toENUv s p := by rfl
theorem toECEFv_obj (s : State α) (v : Vec3 α) : (objOf s).toECEFv v = toECEFv s v := by rfl

/-- one translated call on the object of a model state = the object of the model's `step` -/
theorem srcStep_eq (fuel : Nat) (E : Ellipsoid α) (s : State α) (o : Op α) :
    srcStep E.a E.e2 (objOf s) o = objOf (step fuel E s o).1 := by
  cases o with
  | setAnchor g => exact setAnchor_obj E s g
  | reset => exact reset_obj s
  | toENUecef v => rfl
  | toENUgeo g => exact congrArg Prod.fst (toENUgeo_obj E s g)
  | toENUwgs lat lon => exact congrArg Prod.fst (toENUwgs_obj E s lat lon)
  | toECEF v => rfl
  | toWGS84 v => rfl

/-- `src_run_eq`: ANY call history folded through the TRANSLATED member functions, from the translated default constructor, is the
    object of the model's run — by induction on the history, for every scalar type -/
theorem src_run_eq (fuel : Nat) (E : Ellipsoid α) (ops : List (Op α)) :
    srcRun E.a E.e2 Obj.ctor ops = objOf (run fuel E init ops) := by
  rw [ctor_obj]
  suffices h : ∀ s : State α, srcRun E.a E.e2 (objOf s) ops = objOf (run fuel E s ops) from h init
  induction ops with
  | nil => intro s; rfl
  | cons o os ih =>
    intro s
    simp only [srcRun, run, List.foldl_cons] at ih ⊢
    rw [srcStep_eq fuel E s o]
    exact ih _

/-- `C02.history` about the translated code: after ANY sequence of calls on a default-constructed converter, every member the
    translated functions write is determined by the anchor bookkeeping alone: `enu2ecef_` is the frame of the LAST anchoring event
    after the last `reset` (identity when there is none) — nothing of an earlier anchor survives — and `wgs84Anchor_` the last anchor
    ever set.  Every scalar type (`Float` included). -/
theorem src_history (E : Ellipsoid α) (ops : List (Op α)) :
    srcRun E.a E.e2 Obj.ctor ops = objOf (stateOf E (book ops)) := by
  rw [src_run_eq 0 E ops, (history 0 E ops).1]

/-- `C02.anchored_iff` about the translated code: the flag read by the translated `isAnchored()` after a history ⇔ an anchor is in force -/
theorem src_anchored_iff (E : Ellipsoid α) (ops : List (Op α)) :
    Src.C02.ENUConverter.isAnchored (srcRun E.a E.e2 Obj.ctor ops).anchored = (book ops).cur.isSome := by
  rw [src_history]
  unfold stateOf
  cases (book ops).cur <;> rfl

/-- the last row of `enu2ecef_` (written by `Identity()` only) is `0 0 0 1` after every history -/
theorem src_last_row (E : Ellipsoid α) (ops : List (Op α)) :
    (srcRun E.a E.e2 Obj.ctor ops).m30 = ((0 : Nat) : α) ∧ (srcRun E.a E.e2 Obj.ctor ops).m31 = ((0 : Nat) : α) ∧
    (srcRun E.a E.e2 Obj.ctor ops).m32 = ((0 : Nat) : α) ∧ (srcRun E.a E.e2 Obj.ctor ops).m33 = ((1 : Nat) : α) := by
  rw [src_history]
  exact ⟨rfl, rfl, rfl, rfl⟩

/-- `C02.last_anchor_wins` about the translated code: right after a translated `setAnchor(g)` the frame is that of `g`, whatever happened before -/
theorem src_last_anchor_wins (E : Ellipsoid α) (ops : List (Op α)) (g : Geo α) :
    (srcRun E.a E.e2 Obj.ctor (ops ++ [.setAnchor g])).R = frameR g.lat g.lon ∧
    (srcRun E.a E.e2 Obj.ctor (ops ++ [.setAnchor g])).T = toECEF E g := by
  rw [src_run_eq 0 E]
  obtain ⟨_, hR, hT, _⟩ := last_anchor_wins 0 E ops g
  exact ⟨hR, hT⟩

end

/-! ### statements over ℝ -/

/-- `C02.frame_is_rotation` about the translated code: the linear part written by the translated `setAnchor` into ANY object is a
    proper rotation (`RᵀR = RRᵀ = 1`, `det R = 1`) -/
theorem src_frame_is_rotation (a e2 : ℝ) (o : Obj ℝ) (g : Geo ℝ) :
    (toMatrix (o.setAnchor a e2 g).R).transpose * toMatrix (o.setAnchor a e2 g).R = 1 ∧
    toMatrix (o.setAnchor a e2 g).R * (toMatrix (o.setAnchor a e2 g).R).transpose = 1 ∧
    (toMatrix (o.setAnchor a e2 g).R).det = 1 := by
  have h : (o.setAnchor a e2 g).R = frameR g.lat g.lon := rfl
  rw [h]
  exact frame_is_rotation g.lat g.lon

/-- `C02.anchor_to_origin` about the translated code: anchor any object with the translated `setAnchor(g)`; the translated
    `toENU(Vector3d)` then maps the translated `ECEFConverter::toECEF(g)` to the origin -/
theorem src_anchor_to_origin (E : Ellipsoid ℝ) (s₀ : State ℝ) (g : Geo ℝ) :
    let P := Src.C02.ECEFConverter.toECEF E.a E.e2 g.alt g.lat g.lon
    ((objOf s₀).setAnchor E.a E.e2 g).toENUv ⟨P.1, P.2.1, P.2.2⟩ = ⟨0, 0, 0⟩ := by
  intro P
  have hP : (⟨P.1, P.2.1, P.2.2⟩ : Vec3 ℝ) = toECEF E g := rfl
  rw [hP, setAnchor_obj, toENUv_obj]
  exact anchor_to_origin E s₀ g

/-- … and the translated `toENU(GeodeticCoordinates)` called on an UN-anchored object anchors it there and returns the origin
    (`C02.auto_anchor_maps_to_origin`, one call) -/
theorem src_auto_anchor_to_origin (E : Ellipsoid ℝ) (s : State ℝ) (g : Geo ℝ) (h : s.anchored = false) :
    ((objOf s).toENUgeo E.a E.e2 g).2 = ⟨0, 0, 0⟩ ∧ ((objOf s).toENUgeo E.a E.e2 g).1.anchored = true := by
  rw [toENUgeo_obj]
  have h' : toENUgeo E s g = (setAnchor E s g, toENUv (setAnchor E s g) (toECEF E g)) := by
    simp [toENUgeo, h]
  rw [h']
  exact ⟨anchor_to_origin E s g, rfl⟩

/-- `C02.above_anchor` about the translated code: the point `d` metres above the anchor maps to `(0, 0, d)` -/
theorem src_above_anchor (E : Ellipsoid ℝ) (s₀ : State ℝ) (lat lon h d : ℝ) :
    let P := Src.C02.ECEFConverter.toECEF E.a E.e2 (h + d) lat lon
    ((objOf s₀).setAnchor E.a E.e2 ⟨lat, lon, h⟩).toENUv ⟨P.1, P.2.1, P.2.2⟩ = ⟨0, 0, d⟩ := by
  intro P
  have hP : (⟨P.1, P.2.1, P.2.2⟩ : Vec3 ℝ) = toECEF E ⟨lat, lon, h + d⟩ := rfl
  rw [hP, setAnchor_obj, toENUv_obj]
  exact above_anchor E s₀ lat lon h d

/-- `C02.toENU_toECEF` about the translated code: on an object anchored by the translated `setAnchor`, the translated
    `toENU(Vector3d)` undoes the translated `toECEF(Vector3d)` exactly -/
theorem src_toENU_toECEF (E : Ellipsoid ℝ) (s₀ : State ℝ) (g : Geo ℝ) (v : Vec3 ℝ) :
    ((objOf s₀).setAnchor E.a E.e2 g).toENUv (((objOf s₀).setAnchor E.a E.e2 g).toECEFv v) = v := by
  rw [setAnchor_obj, toENUv_obj, toECEFv_obj]
  exact toENU_toECEF (setAnchor E s₀ g) g.lat g.lon rfl v

/-- `C02.toECEF_toENU` about the translated code -/
theorem src_toECEF_toENU (E : Ellipsoid ℝ) (s₀ : State ℝ) (g : Geo ℝ) (p : Vec3 ℝ) :
    ((objOf s₀).setAnchor E.a E.e2 g).toECEFv (((objOf s₀).setAnchor E.a E.e2 g).toENUv p) = p := by
  rw [setAnchor_obj, toENUv_obj, toECEFv_obj]
  exact toECEF_toENU (setAnchor E s₀ g) g.lat g.lon rfl p

/-- `C02.isometry` about the translated code: the translated `toENU(Vector3d)` of an anchored object preserves every distance -/
theorem src_isometry (E : Ellipsoid ℝ) (s₀ : State ℝ) (g : Geo ℝ) (p q : Vec3 ℝ) :
    dist3 (((objOf s₀).setAnchor E.a E.e2 g).toENUv p) (((objOf s₀).setAnchor E.a E.e2 g).toENUv q) = dist3 p q := by
  rw [setAnchor_obj, toENUv_obj, toENUv_obj]
  exact isometry (setAnchor E s₀ g) g.lat g.lon rfl p q

end Romea.Bridge.C02
